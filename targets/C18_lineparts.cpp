// C18 — Visible line parts partition the data exactly            vp-link: core plot cxx
//
// G: (range | no range) x real value sequence (run-length structured: below / at-min / inside / at-max /
//    above realised as doubles next to, on and far from the bounds, equal neighbours, runs around the
//    65535 per-part limit) x length passed per call (whole remainder | limited chunk);
//    repeated mpt_linepart_linear advancing by `raw`; mpt_linepart_join over the adjacent parts;
//    mpt_linepart_join on arbitrary records; mpt_linepart_code / mpt_linepart_real.
//    C++ consumer: linepart::array::set/apply for one or two coordinates, drawn points taken from polyline::part::points()
//    (check_drawn()). Object histories on polylines and part arrays with kept copies (run_history()).
// O: see check_parts(): progress, sum raw == N, every in-range index in exactly one drawn window
//    [o, o+usr), out-of-range points only at the first/last window position and then with the cut/trim
//    fraction of the boundary crossing (1/65536), no fraction without a crossing; join keeps sum raw and
//    sum usr (or refuses and leaves the part alone) and the joined list still satisfies all of the above.
#include "vp.hpp"
#include "mpt_plot_c.hpp"
#define protected public
#define private public
#include "layout.h"
#undef protected
#undef private
#include <cmath>

#include <cfloat>
#include <memory>

using namespace vp;
using namespace mpt;

static const double kBig = DBL_MAX / 2;  // |x| <= kBig: differences of two values stay finite (report: not covered beyond)
static const double kInf = std::numeric_limits<double>::infinity();

typedef struct mpt::range Range;

struct Part {
  size_t off, len;
  linepart lp;
};

static bool in_range(double x, const Range *r) { return !r || (x >= r->min && x <= r->max); }

// exact-size heap copy so that a read behind the passed length is seen by ASan
struct Slice {
  double *p;
  explicit Slice(const double *src, size_t n) {
    p = (double *)malloc(n ? n * sizeof(double) : 1);
    if (n) memcpy(p, src, n * sizeof(double));
  }
  ~Slice() { free(p); }
  Slice(const Slice &) = delete;
};

static const char *cls(double x, const Range *r) {
  if (!r) return "in";
  if (x < r->min) return "below";
  if (x > r->max) return "above";
  if (x == r->min) return "at-min";
  if (x == r->max) return "at-max";
  return "in";
}

// decoded fraction against the exact position of the boundary crossing between the drawn
// out-of-range end point `out` and its neighbour `nb` inside the window
static void check_fraction(Ctx &c, const char *stage, const char *what, size_t k, double out, double nb, unsigned code, const Range *r) {
  long double f;
  if (out < r->min) {
    VP_CHECK(c, nb >= r->min, "fraction-no-crossing", "%s part %zu: %s end point %.17g is below min %.17g and its neighbour %.17g too", stage, k, what, out, r->min, nb);
    f = ((long double)r->min - out) / ((long double)nb - out);
  } else {
    VP_CHECK(c, nb <= r->max, "fraction-no-crossing", "%s part %zu: %s end point %.17g is above max %.17g and its neighbour %.17g too", stage, k, what, out, r->max, nb);
    f = ((long double)out - r->max) / ((long double)out - nb);
  }
  double dec = mpt_linepart_real((int)code);
  long double err = dec > f ? dec - f : f - dec;
  VP_CHECK(c, err <= 1.0L / 65536 + 1e-9L, what[0] == 'c' ? "cut-fraction" : "trim-fraction",
           "%s part %zu: %s code %u decodes to %.9g, the line from %.17g to %.17g crosses the boundary at fraction %.9Lg (error %.3Lg > 1/65536)", stage, k,
           what, code, dec, out, nb, f, err);
}

// the partition oracle over a list of records that is walked by advancing `raw`
static void check_parts(Ctx &c, const char *stage, const std::vector<double> &d, const Range *r, const std::vector<linepart> &parts) {
  size_t N = d.size(), off = 0;
  std::vector<uint8_t> cover(N, 0);
  for (size_t k = 0; k < parts.size(); k++) {
    const linepart &lp = parts[k];
    VP_CHECK(c, off + lp.raw <= N, "raw-sum", "%s part %zu at %zu: raw %u runs past the %zu input points", stage, k, off, lp.raw, N);
    VP_CHECK(c, off + lp.usr <= N, "window-beyond-data", "%s part %zu at %zu: usr %u runs past the %zu input points", stage, k, off, lp.usr, N);
    for (size_t j = 0; j < lp.usr; j++) {
      if (in_range(d[off + j], r)) {
        if (cover[off + j] < 2) ++cover[off + j];
      } else {
        VP_CHECK(c, j == 0 || j + 1 == lp.usr, "drawn-outside-interior", "%s part %zu at %zu (raw %u usr %u): point %zu = %.17g (%s) is out of range inside the drawn window", stage, k,
                 off, lp.raw, lp.usr, off + j, d[off + j], cls(d[off + j], r));
      }
    }
    if (!lp.usr) {
      VP_CHECK(c, !lp._cut && !lp._trim, "fraction-on-empty-part", "%s part %zu at %zu draws nothing but has cut %u trim %u", stage, k, off, lp._cut, lp._trim);
    } else {
      double first = d[off], last = d[off + lp.usr - 1];
      if (!in_range(first, r)) {
        VP_CHECK(c, lp.usr >= 2, "drawn-outside-single", "%s part %zu at %zu draws only the out-of-range point %.17g", stage, k, off, first);
        check_fraction(c, stage, "cut", k, first, d[off + 1], lp._cut, r);
      } else {
        VP_CHECK(c, !lp._cut, "cut-without-crossing", "%s part %zu at %zu: first drawn point %.17g is in range but cut is %u", stage, k, off, first, lp._cut);
      }
      if (!in_range(last, r)) {
        VP_CHECK(c, lp.usr >= 2, "drawn-outside-single", "%s part %zu at %zu draws only the out-of-range point %.17g", stage, k, off, last);
        check_fraction(c, stage, "trim", k, last, d[off + lp.usr - 2], lp._trim, r);
      } else {
        VP_CHECK(c, !lp._trim, "trim-without-crossing", "%s part %zu at %zu: last drawn point %.17g is in range but trim is %u", stage, k, off, last, lp._trim);
      }
    }
    off += lp.raw;
  }
  VP_CHECK(c, off == N, "raw-sum", "%s: the parts cover %zu of %zu input points", stage, off, N);
  for (size_t i = 0; i < N; i++) {
    if (!in_range(d[i], r)) continue;
    VP_CHECK(c, cover[i] != 0, "in-range-not-drawn", "%s: in-range point %zu = %.17g lies in no drawn window", stage, i, d[i]);
    VP_CHECK(c, cover[i] == 1, "in-range-drawn-twice", "%s: in-range point %zu = %.17g lies in more than one drawn window", stage, i, d[i]);
  }
}

// lenmode 0: every call sees the whole remainder; > 0: at most `lenmode` points; < 0: drawn per call
static std::vector<linepart> split(Ctx &c, const std::vector<double> &d, const Range *r, long lenmode) {
  size_t N = d.size(), pos = 0;
  Slice whole(d.data(), N);
  std::vector<linepart> parts;
  while (pos < N) {
    size_t rem = N - pos, len = rem;
    if (lenmode > 0) len = std::min<size_t>(rem, (size_t)lenmode);
    else if (lenmode < 0) len = c.near({1, 2, 3}, std::min<size_t>(rem, 40));
    if (!len) len = 1;
    if (len > rem) len = rem;
    linepart lp;
    memset((void *)&lp, 0xA5, sizeof lp);
    if (len == rem || len > 4096) {
      mpt_linepart_linear(&lp, whole.p + pos, len, r);
    } else {
      Slice s(d.data() + pos, len);
      mpt_linepart_linear(&lp, s.p, len, r);
    }
    size_t lim = std::min<size_t>(len, 65535);
    c.logf("  linepart_linear(from=%zu, len=%zu) -> raw %u usr %u cut %u trim %u", pos, len, lp.raw, lp.usr, lp._cut, lp._trim);
    VP_CHECK(c, lp.raw >= 1, "no-progress", "call at %zu with %zu points left returned raw 0 (usr %u)", pos, len, lp.usr);
    VP_CHECK(c, lp.raw <= lim, "raw-exceeds-input", "call at %zu with len %zu returned raw %u", pos, len, lp.raw);
    VP_CHECK(c, lp.usr <= lim, "usr-exceeds-input", "call at %zu with len %zu returned usr %u", pos, len, lp.usr);
    if (len > 65535) c.label("call:len>65535");
    if (lp._cut) c.label("part:cut");
    if (lp._trim) c.label("part:trim");
    if (lp.usr > lp.raw) c.label("part:shared-endpoint");
    if (lp.usr && lp.usr < lp.raw) c.label("part:trailing-invisible");
    if (!lp.usr) c.label("part:invisible-only");
    if (lp.raw == 65535) c.label("part:raw=65535");
    if (lp.usr == 65535) c.label("part:usr=65535");
    parts.push_back(lp);
    pos += lp.raw;
    VP_CHECK(c, parts.size() <= N, "no-progress", "more parts than points");
  }
  return parts;
}

static std::vector<linepart> join_all(Ctx &c, const std::vector<linepart> &parts, bool all, bool &joined_any) {
  std::vector<linepart> out;
  if (parts.empty()) return out;
  linepart cur = parts[0];
  for (size_t k = 1; k < parts.size(); k++) {
    if (!all && !c.flip()) { out.push_back(cur); cur = parts[k]; continue; }
    linepart before = cur, post = parts[k];
    linepart *res = mpt_linepart_join(&cur, post);
    if (res) {
      VP_CHECK(c, res == &cur, "join-result", "join returned a foreign pointer");
      VP_CHECK(c, (unsigned)cur.raw == (unsigned)before.raw + post.raw && (unsigned)cur.usr == (unsigned)before.usr + post.usr, "join-sum",
               "join {raw %u usr %u} + {raw %u usr %u} gives {raw %u usr %u}", before.raw, before.usr, post.raw, post.usr, cur.raw, cur.usr);
      c.logf("  join %zu: {%u %u cut %u trim %u} + {%u %u cut %u trim %u} -> {%u %u cut %u trim %u}", k, before.raw, before.usr, before._cut, before._trim, post.raw, post.usr, post._cut,
             post._trim, cur.raw, cur.usr, cur._cut, cur._trim);
      c.label("join:accepted");
      if (post._trim) c.label("join:accepted-with-trim");
      joined_any = true;
    } else {
      VP_CHECK(c, !memcmp(&cur, &before, sizeof cur), "join-refused-modified", "refused join changed the part: {%u %u %u %u} -> {%u %u %u %u}", before.raw, before.usr, before._cut,
               before._trim, cur.raw, cur.usr, cur._cut, cur._trim);
      c.label("join:refused");
      out.push_back(cur);
      cur = post;
    }
  }
  out.push_back(cur);
  return out;
}

static void run_sequence(Ctx &c, const std::vector<double> &d, const Range *r, long lenmode, bool join_every) {
  if (c.verbose()) {
    if (r) c.logf("range [%.17g, %.17g]  N=%zu lenmode=%ld", r->min, r->max, d.size(), lenmode);
    else c.logf("no range  N=%zu lenmode=%ld", d.size(), lenmode);
    size_t shown = 0;
    for (size_t i = 0; i < d.size(); i++) {
      bool edge = i < 12 || i + 12 >= d.size() || (i > 0 && d[i] != d[i - 1]) || (i + 1 < d.size() && d[i] != d[i + 1]);
      if (edge && shown < 200) { c.logf("  [%zu] %.17g %s", i, d[i], cls(d[i], r)); ++shown; }
    }
  }
  std::vector<linepart> parts = split(c, d, r, lenmode);
  check_parts(c, "split", d, r, parts);
  bool crossing = false, joined = false;
  for (const linepart &lp : parts) if (lp._cut || lp._trim) crossing = true;
  for (size_t i = 1; i < d.size(); i++) if (d[i] == d[i - 1]) { c.label("data:equal-neighbours"); break; }
  std::vector<linepart> merged = join_all(c, parts, join_every, joined);
  unsigned long sr = 0, su = 0, jr = 0, ju = 0;
  for (const linepart &lp : parts) { sr += lp.raw; su += lp.usr; }
  for (const linepart &lp : merged) { jr += lp.raw; ju += lp.usr; }
  VP_CHECK(c, sr == jr && su == ju, "join-sum", "joining changed the totals: raw %lu -> %lu, usr %lu -> %lu", sr, jr, su, ju);
  if (joined) check_parts(c, "joined", d, r, merged);
  if (crossing) c.label("case:crossing");
  if (crossing || joined || d.size() > 65535) c.nontrivial();
  c.count("parts", parts.size());
}

// ---- value generation
static double pick_bound(Ctx &c) {
  static const double T[] = {0, 1, -1, 0.1, -0.3, 2.5, 100, -1e3, 1e-300, -1e-300, 5e-324, 1e300, -1e300, kBig, -kBig, 65536, 1.0 / 3, 1e-5, 7};
  static const double S[] = {1e-4, 1e-3, 1e-2, 1e-1, 1, 10, 100, 1e3, 1e4};
  if (c.chance(96)) return T[c.pick(sizeof T / sizeof *T)];
  double m = (double)c.range(0, 2000) - 1000;
  return m * S[c.pick(sizeof S / sizeof *S)];
}
static double clampd(double x) { return x > kBig ? kBig : x < -kBig ? -kBig : x; }

static double draw_value(Ctx &c, double mn, double mx) {
  bool fmn = std::isfinite(mn), fmx = std::isfinite(mx);
  double w = (fmn && fmx && mx > mn) ? mx - mn : std::max(1.0, std::max(fmn ? std::fabs(mn) : 0.0, fmx ? std::fabs(mx) : 0.0));
  if (!std::isfinite(w)) w = kBig;
  static const double K[] = {1.0 / 1048576, 1.0 / 65536, 1.0 / 65537, 0.25, 0.5, 1, 3, 1000, 1e9};
  double x;
  switch (c.weighted({5, 2, 6, 2, 5, 1})) {
    case 0:  // below
      if (!fmn) { x = fmx ? mx - w * K[c.pick(9)] : pick_bound(c); break; }
      switch (c.pick(4)) {
        case 0: x = std::nextafter(mn, -kInf); break;
        case 1: x = -kBig; break;
        default: x = mn - w * K[c.pick(9)]; break;
      }
      break;
    case 1: x = fmn ? mn : (fmx ? mx : 0); break;  // at-min
    case 2:  // inside
      if (fmn && fmx) {
        switch (c.pick(4)) {
          case 0: x = std::nextafter(mn, kInf); break;
          case 1: x = std::nextafter(mx, -kInf); break;
          default: x = mn + (mx - mn) * ((double)c.range(0, 16) / 16); break;
        }
      } else if (fmn) x = mn + w * K[c.pick(9)];
      else if (fmx) x = mx - w * K[c.pick(9)];
      else x = pick_bound(c);
      break;
    case 3: x = fmx ? mx : (fmn ? mn : 0); break;  // at-max
    case 4:  // above
      if (!fmx) { x = fmn ? mn + w * K[c.pick(9)] : pick_bound(c); break; }
      switch (c.pick(4)) {
        case 0: x = std::nextafter(mx, kInf); break;
        case 1: x = kBig; break;
        default: x = mx + w * K[c.pick(9)]; break;
      }
      break;
    default: x = pick_bound(c); break;
  }
  if (x != x) x = 0;
  return clampd(x);
}

// range (or none); returns the pointer to pass
static const Range *draw_range(Ctx &c, Range &rr) {
  switch (c.weighted({12, 2, 1, 1, 1, 1, 2})) {
    case 0: {
      double a = pick_bound(c), b = pick_bound(c);
      rr.min = std::min(a, b); rr.max = std::max(a, b);
      c.label(a == b ? "range:degenerate" : "range:normal");
      return &rr;
    }
    case 1: rr.min = rr.max = pick_bound(c); c.label("range:degenerate"); return &rr;
    case 2: {
      double a = pick_bound(c), b = pick_bound(c);
      rr.min = std::max(a, b); rr.max = std::min(a, b);
      c.label(a == b ? "range:degenerate" : "range:empty");
      return &rr;
    }
    case 3: rr.min = -kInf; rr.max = pick_bound(c); c.label("range:open-below"); return &rr;
    case 4: rr.min = pick_bound(c); rr.max = kInf; c.label("range:open-above"); return &rr;
    case 5: rr.min = -kInf; rr.max = kInf; c.label("range:unbounded"); return &rr;
    default: c.label("range:none"); return 0;
  }
}
// run-length structured data; `want` > 0 asks for exactly that many points
static std::vector<double> draw_data(Ctx &c, const Range *r, bool longrun, size_t want = 0) {
  std::vector<double> d;
  double mn = r ? r->min : 0, mx = r ? r->max : 1;
  auto segment = [&](size_t count) {
    double x = (!d.empty() && c.chance(40)) ? d.back() : draw_value(c, mn, mx);
    d.insert(d.end(), count, x);
  };
  if (want) {
    while (d.size() < want) {
      size_t left = want - d.size();
      size_t n = left > 64 && c.chance(200) ? c.range(left > 70000 ? left - 70000 : 1, left) : c.weighted({12, 3, 1}) + 1;
      segment(std::min(n, left));
    }
  } else if (longrun) {
    c.label("data:long-run");
    for (size_t n = c.pick(4); n; --n) segment(c.range(1, 3));
    size_t pre = d.size();
    size_t big = (size_t)((long)(c.chance(80) ? 65533 : 65535) - (long)pre + (long)c.range(0, 8) - 4);  // 65533: chunk size of linepart::array::set
    segment(big);
    for (size_t n = c.pick(5); n; --n) segment(c.range(1, 3));
    if (c.chance(64)) segment(65535 + c.range(0, 4) - 2);
  } else {
    size_t segs = 0;
    while (c.more() && segs++ < 40) segment(c.weighted({12, 3, 1}) + 1);
  }
  return d;
}

static void run_random(Ctx &c) {
  Range rr(0, 1);
  const Range *r = draw_range(c, rr);
  bool longrun = c.chance(6);
  long lenmode = 0;
  switch (c.weighted({8, 3, 3})) {
    case 0: lenmode = 0; break;
    case 1: lenmode = longrun ? (long)c.near({65534, 65535, 65536}, 70000) : (long)c.range(1, 8); if (lenmode < 1) lenmode = 1; c.label("len:chunked"); break;
    default: lenmode = longrun ? 0 : -1; if (lenmode) c.label("len:drawn"); break;
  }
  bool join_every = c.flip();
  std::vector<double> d = draw_data(c, r, longrun);
  run_sequence(c, d, r, lenmode, join_every);
}

// ---- C++ consumer: linepart::array::set(N) + apply(transform, dim, data) as polyline::set does it
struct RangeTransform : public transform {
  std::vector<const Range *> r;
  int dimensions() const override { return (int)r.size(); }
  linepart part(unsigned dim, const double *from, int len) const override {
    linepart lp;
    mpt_linepart_linear(&lp, from, (size_t)len, r[dim]);
    return lp;
  }
};
// The library's own graph transformation (layout::graph::transform3, what layout::graph::transform() hands to polyline::set):
// per dimension no limit, a linear limit or a logarithmic one. Visibility rule taken from transform3::part(): no
// TransformLimit flag -> everything visible; linear -> limit.min <= v <= limit.max; TransformLg -> the limit counts decades,
// visible is 10^floor(limit.min) <= v <= 10^ceil(limit.max) compared on the raw values (the fractions stay the ones
// mpt_linepart_linear computes for that range: the log10() of a fraction in (0,1) is negative and set_cut()/set_trim()
// refuse it). part() is watched from a subclass: a call that consumes nothing would make linepart::array::apply() spin
// (and allocate) for ever, so it is answered with a part that moves on and reported after apply() has returned.
struct Graph3 : public layout::graph::transform3 {
  mutable bool stalled = false, overrun = false;
  mutable long bad_len = 0;
  mutable linepart bad;
  Range effective[3] = {Range(0, 1), Range(0, 1), Range(0, 1)};
  const Range *eff[3] = {0, 0, 0};
  linepart part(unsigned dim, const double *val, int len) const override {
    linepart p = layout::graph::transform3::part(dim, val, len);
    long lim = len > 65535 ? 65535 : len;
    if (len > 0 && (!p.raw || p.raw > lim || p.usr > lim)) {
      if (!stalled && !overrun) { bad = p; bad_len = len; }
      if (!p.raw) stalled = true; else overrun = true;
      p = linepart((int)lim);
    }
    return p;
  }
  // dims used, per dimension: limit (0 = none) and logarithmic flag
  void setup(int dims, const Range *const *limit, const bool *lg) {
    for (int i = 0; i < 3; i++) {
      _dim[i].to = i >= dims ? fpoint(0, 0) : i == 0 ? fpoint(1, 0) : i == 1 ? fpoint(0, 1) : fpoint(0.5f, 0.5f);
      _dim[i]._flags &= ~(uint32_t)(TransformLimit | TransformLg);
      eff[i] = 0;
      if (i >= dims || !limit[i]) continue;
      _dim[i]._flags |= TransformLimit;
      _dim[i].limit = *limit[i];
      effective[i] = *limit[i];
      if (lg && lg[i]) {
        _dim[i]._flags |= TransformLg;
        effective[i] = Range(exp10(floor(limit[i]->min)), exp10(ceil(limit[i]->max)));
      }
      eff[i] = &effective[i];
    }
  }
};

// What polyline makes of a list of parts (apply_data(), polyline::iterator, polyline::part): part k reads the raw values
// from the sum of the earlier `raw`, owns `usr` consecutive points of the point array, and part::points() — the real
// consumer, called here — leaves out the first / last of them when _cut / _trim is set (that point is the place where the
// line is cut, not a point of the data). Statement for any number of coordinates: a point is drawn exactly once iff it is
// in range in every dimension applied, and never otherwise (so an out-of-range end point of a window has to carry a
// fraction), and points() stays inside the points the part owns.
static void check_drawn(Ctx &c, const char *stage, size_t N, const std::vector<linepart> &parts, const std::vector<uint8_t> &visible) {
  std::vector<uint8_t> drawn(N, 0);
  size_t off = 0, total = 0;
  for (const linepart &lp : parts) total += lp.usr;
  static std::vector<polyline::point> store;  // only addresses inside are used; kept between calls (large for long runs)
  if (store.size() < total + 2) store.resize(total + 2);
  const polyline::point *pts = store.data();
  for (size_t k = 0; k < parts.size(); k++) {
    const linepart &lp = parts[k];
    VP_CHECK(c, off + lp.raw <= N, "raw-sum", "%s part %zu at %zu: raw %u runs past the %zu input points", stage, k, off, lp.raw, N);
    VP_CHECK(c, off + lp.usr <= N, "window-beyond-data", "%s part %zu at %zu: usr %u runs past the %zu input points", stage, k, off, lp.usr, N);
    polyline::part pp(lp, pts);
    span<const polyline::point> line = pp.line(), sp = pp.points();
    VP_CHECK(c, line.begin() == pts && line.size() == (long)lp.usr, "points-span-outside-part", "%s part %zu: line() is not the %u points of the part", stage, k, lp.usr);
    long first = sp.begin() ? (long)(sp.begin() - pts) : -1, cnt = sp.size();
    VP_CHECK(c, cnt == 0 || (first >= 0 && cnt > 0 && first + cnt <= (long)lp.usr), "points-span-outside-part",
             "%s part %zu at %zu {raw %u usr %u cut %u trim %u}: polyline::part::points() is [%ld, %ld + %ld) relative to the %u points the part owns", stage, k, off, lp.raw, lp.usr, lp._cut,
             lp._trim, first, first, cnt, lp.usr);
    for (long j = first; cnt > 0 && j < first + cnt; j++) {
      size_t i = off + (size_t)j;
      if (!visible[i]) {
        bool end = j == 0 || j + 1 == (long)lp.usr;
        c.fail(end ? "end-point-without-fraction" : "drawn-outside-interior", "%s part %zu at %zu (raw %u usr %u cut %u trim %u): point %zu is out of range in some dimension and %s", stage, k, off,
               lp.raw, lp.usr, lp._cut, lp._trim, i, end ? "ends the drawn window without a cut/trim fraction" : "lies inside the drawn window");
      }
      if (drawn[i] < 2) ++drawn[i];
    }
    off += lp.raw;
    pts += lp.usr;
  }
  VP_CHECK(c, off == N, "raw-sum", "%s: the parts cover %zu of %zu input points", stage, off, N);
  for (size_t i = 0; i < N; i++) {
    if (!visible[i]) continue;
    VP_CHECK(c, drawn[i] != 0, "in-range-not-drawn", "%s: point %zu is in range in every dimension but is not drawn", stage, i);
    VP_CHECK(c, drawn[i] == 1, "in-range-drawn-twice", "%s: point %zu is drawn by more than one part", stage, i);
  }
}

// Several coordinates: the fraction stored for an end point of a drawn window has to put the line end inside the range of
// EVERY coordinate applied. Per coordinate in which the end point is out of range (and its neighbour inside the window is in
// range) the line crosses the boundary at fraction f_i, measured from the end point; the line end is inside all ranges from
// max f_i on, and cutting more than that removes visible line. So: decoded fraction >= every f_i and == max f_i, both to one
// 16-bit step (linepart::array::apply keeps the larger of the existing fraction and the one of the next coordinate).
static void check_end_fractions(Ctx &c, const char *stage, int dims, const std::vector<double> *d, const Range *const *r, const std::vector<linepart> &parts) {
  size_t off = 0;
  const long double step = 1.0L / 65536 + 1e-9L;
  for (size_t k = 0; k < parts.size(); k++) {
    const linepart &lp = parts[k];
    for (int end = 0; end < 2 && lp.usr >= 2; end++) {
      size_t idx = end ? off + lp.usr - 1 : off, nb = end ? idx - 1 : idx + 1;
      unsigned code = end ? lp._trim : lp._cut;
      double dec = mpt_linepart_real((int)code);
      long double F = -1;
      int which = -1;
      for (int i = 0; i < dims; i++) {
        double out = d[i][idx], in = d[i][nb];
        if (in_range(out, r[i]) || !in_range(in, r[i])) continue;
        long double f = out < r[i]->min ? ((long double)r[i]->min - out) / ((long double)in - out) : ((long double)out - r[i]->max) / ((long double)out - in);
        VP_CHECK(c, dec >= f - step, "line-end-outside-range",
                 "%s part %zu at %zu {raw %u usr %u cut %u trim %u}: the %s fraction %.6f puts the line end outside the range of coordinate %d (its line from %.17g to %.17g crosses at %.6Lf)", stage, k,
                 off, lp.raw, lp.usr, lp._cut, lp._trim, end ? "trim" : "cut", dec, i, out, in, f);
        if (f > F) { F = f; which = i; }
      }
      if (which < 0) continue;
      long double err = dec > F ? dec - F : F - dec;
      VP_CHECK(c, err <= step, end ? "trim-fraction" : "cut-fraction", "%s part %zu at %zu {raw %u usr %u cut %u trim %u}: %s decodes to %.6f, the last crossing is that of coordinate %d at %.6Lf", stage,
               k, off, lp.raw, lp.usr, lp._cut, lp._trim, end ? "trim" : "cut", dec, which, F);
      c.label("fractions:multi-coordinate-end");
    }
    off += lp.raw;
  }
}

// linepart::array::apply() dimension by dimension the way polyline::set does it; `preset`: start from set(N)
// (polyline::set) or from an empty array
static void apply_scenario(Ctx &c, int dims, const Range *const *ranges, const std::vector<double> *d, bool preset, Graph3 *graph = 0) {
  RangeTransform own;
  for (int i = 0; i < dims; i++) own.r.push_back(ranges[i]);
  const transform &tr = graph ? static_cast<const transform &>(*graph) : static_cast<const transform &>(own);
  if (graph) { c.label("cxx-apply:graph-transform3"); c.logf("transformation: layout::graph::transform3"); }
  size_t N = d[0].size();
  if (!N) return;
  linepart::array vis;
  if (preset) VP_CHECK(c, vis.set((long)N), "cxx-set-sum", "set(%zu) failed", N);
  c.logf("%s", preset ? "linepart::array::set(N), then apply per dimension" : "empty linepart::array, apply per dimension");
  std::vector<uint8_t> visible(N, 1);
  for (int i = 0; i < dims; i++) {
    if (c.verbose()) {
      if (ranges[i]) c.logf("dim %d: range [%.17g, %.17g] N=%zu", i, ranges[i]->min, ranges[i]->max, N);
      else c.logf("dim %d: no range N=%zu", i, N);
      for (size_t k = 0, shown = 0; k < N && shown < 120; k++)
        if (k < 12 || k + 12 >= N || d[i][k] != d[i][k - 1] || (k + 1 < N && d[i][k] != d[i][k + 1])) { c.logf("  [%zu] %.17g %s", k, d[i][k], cls(d[i][k], ranges[i])); ++shown; }
    }
    Slice s(d[i].data(), N);
    bool ok = vis.apply(tr, i, span<const double>(s.p, (long)N));
    if (graph) {
      VP_CHECK(c, !graph->stalled, "no-progress", "transform3::part(dim %d, %ld values) consumes nothing: {raw %u usr %u cut %u trim %u}", i, graph->bad_len, graph->bad.raw, graph->bad.usr, graph->bad._cut, graph->bad._trim);
      VP_CHECK(c, !graph->overrun, "raw-exceeds-input", "transform3::part(dim %d, %ld values) returns {raw %u usr %u}", i, graph->bad_len, graph->bad.raw, graph->bad.usr);
    }
    VP_CHECK(c, ok, "cxx-apply-refused", "linepart::array::apply(dim %d, %zu points) failed", i, N);
    std::vector<linepart> parts(vis.begin(), vis.end());
    for (size_t k = 0; k < parts.size() && k < 64; k++) c.logf("  after dim %d: part %zu raw %u usr %u cut %u trim %u", i, k, parts[k].raw, parts[k].usr, parts[k]._cut, parts[k]._trim);
    // first coordinate: the complete single-run oracle incl. the fractions (later ones are merged heuristically by the library)
    if (i == 0) check_parts(c, "cxx-apply", d[0], ranges[0], parts);
    for (size_t k = 0; k < N; k++) if (!in_range(d[i][k], ranges[i])) visible[k] = 0;
    check_drawn(c, i ? "cxx-apply (2 dimensions)" : "cxx-apply", N, parts, visible);
    if (i) check_end_fractions(c, "cxx-apply (2 dimensions)", i + 1, d, ranges, parts);
    c.count("cxx-apply:parts", parts.size());
    for (const linepart &lp : parts) if (lp._cut || lp._trim) { c.label("cxx-apply:crossing"); c.nontrivial(); break; }
    if (i) for (const linepart &lp : parts) if (lp.usr && lp.usr < lp.raw && lp._trim) { c.label("cxx-apply:2-dim-trim-before-skipped"); break; }
  }
  c.label(dims == 3 ? "cxx-apply:3-dim" : dims == 2 ? "cxx-apply:2-dim" : "cxx-apply:1-dim");
  if (!preset) c.label("cxx-apply:fresh-array");
  if (N > 65533) { c.label("cxx-apply:multi-chunk"); c.nontrivial(); }
}

static void run_cxx_apply(Ctx &c) {
  int dims = c.chance(64) ? 2 : 1;
  Range rr[2] = {Range(0, 1), Range(0, 1)};
  const Range *ranges[2] = {0, 0};
  std::vector<double> d[2];
  bool longrun = c.chance(10);
  for (int i = 0; i < dims; i++) {
    ranges[i] = draw_range(c, rr[i]);
    d[i] = draw_data(c, ranges[i], longrun, i ? d[0].size() : 0);
  }
  // no draw of its own (committed inputs keep their decoding): one coordinate always starts from set(N)
  bool preset = dims == 1 || ((c.hash() >> 11) & 1);
  // every second case goes through the library's graph transformation with the same limits (no draw either)
  Graph3 g;
  bool lib = (c.hash() >> 13) & 1;
  if (lib) g.setup(dims, ranges, 0);
  apply_scenario(c, dims, ranges, d, preset, lib ? &g : 0);
}

// ---- the graph transformation with generated axis settings: 1..3 dimensions, each without limit, with a linear or with a
// logarithmic limit
static void run_cxx_graph(Ctx &c) {
  int dims = 1 + (int)c.weighted({3, 4, 2});
  Range lim[3] = {Range(0, 1), Range(0, 1), Range(0, 1)};
  const Range *limit[3] = {0, 0, 0};
  bool lg[3] = {false, false, false};
  std::vector<double> d[3];
  bool longrun = c.chance(10), preset = c.flip();
  Graph3 g;
  for (int i = 0; i < dims; i++) {
    switch (c.weighted({2, 4, 3})) {
      case 0: c.label("graph:no-limit"); break;
      case 1: limit[i] = draw_range(c, lim[i]); c.label("graph:linear-limit"); break;
      default: {
        double lo = (double)c.range(0, 8) - 4 + (c.flip() ? 0.5 : 0), hi = lo + (double)c.range(0, 3) + (c.flip() ? 0.25 : 0);
        lim[i] = Range(lo, hi);
        limit[i] = &lim[i];
        lg[i] = true;
        c.label("graph:log-limit");
        break;
      }
    }
  }
  g.setup(dims, limit, lg);
  for (int i = 0; i < dims; i++) d[i] = draw_data(c, g.eff[i], longrun, i ? d[0].size() : 0);
  apply_scenario(c, dims, g.eff, d, preset, &g);
}

// ---- enumerated: two coordinates, x over {below, inside, above}, y over {inside, above}, range [1,3] for both
static void run_cxx_enum(Ctx &c) {
  static const double X[3] = {0, 2, 4}, Y[2] = {2, 4};
  Range rx(1, 3), ry(1, 3);
  const Range *ranges[2] = {&rx, &ry};
  bool preset = c.pick(2);
  size_t n = c.pick(9);
  std::vector<double> d[2];
  for (size_t i = 0; i < n; i++) { d[0].push_back(X[c.pick(3)]); d[1].push_back(Y[c.pick(2)]); }
  c.label("enum:cxx-apply-2-dim");
  apply_scenario(c, 2, ranges, d, preset);
  c.nontrivial();
}

// ---- enumerated: two coordinates whose values give different crossing fractions (both orders: the coordinate applied first
// crosses later / earlier than the second), (x,y) sequences of length <= 3 (thorough 4), range [1,3] for both
static void run_cxx_fracenum(Ctx &c) {
  static const double X[5] = {-2, 0, 2, 4, 8};       // crossings towards 2: 0.75, 0.5, -, 0.5, 0.8333
  static const double Y[5] = {-5, 0.5, 2, 3.5, 9};   //                      0.857, 0.333, -, 0.333, 0.857
  Range rx(1, 3), ry(1, 3);
  const Range *ranges[2] = {&rx, &ry};
  bool preset = c.pick(2);
  size_t n = c.pick(6);
  std::vector<double> d[2];
  for (size_t i = 0; i < n; i++) { d[0].push_back(X[c.pick(5)]); d[1].push_back(Y[c.pick(5)]); }
  c.label("enum:cxx-apply-2-dim-fractions");
  apply_scenario(c, 2, ranges, d, preset);
  c.nontrivial();
}

// ---- enumerated: two coordinates around the 65533-point chunks of set(N) and the 65535 limit of a part: N = 65534..65538,
// per coordinate either all inside or one run of 1..3 points above the range starting at 65531..65537
static void run_cxx_longenum(Ctx &c) {
  Range rx(1, 3), ry(1, 3);
  const Range *ranges[2] = {&rx, &ry};
  bool preset = c.pick(2);
  size_t N = 65534 + c.pick(5);
  std::vector<double> d[2];
  for (int i = 0; i < 2; i++) {
    d[i].assign(N, 2.0);
    size_t hole = c.pick(22);
    if (!hole) continue;
    size_t start = 65531 + (hole - 1) / 3, cnt = 1 + (hole - 1) % 3;
    for (size_t k = start; k < N && k < start + cnt; k++) d[i][k] = 4.0;
  }
  // trailing draw: 0 harness transformation, 1 graph transformation with both limits, 2 / 3 graph transformation without a
  // limit for the first / second coordinate
  size_t kind = c.pick(4);
  Graph3 g;
  if (kind == 2) ranges[0] = 0;
  if (kind == 3) ranges[1] = 0;
  if (kind) g.setup(2, ranges, 0);
  c.label("enum:cxx-apply-2-dim-long");
  apply_scenario(c, 2, ranges, d, preset, kind ? &g : 0);
  c.nontrivial();
}

// ---- enumerated: sequences over {below, at-min, inside, at-max, above} for the range [1,3]
static const double kSym[5] = {0, 1, 2, 3, 4};
static void run_alphabet(Ctx &c) {
  Range rr(1, 3);
  size_t n = c.pick(10);
  std::vector<double> d;
  for (size_t i = 0; i < n; i++) d.push_back(kSym[c.pick(5)]);
  long lenmode = (long)c.pick(4);
  c.label("enum:alphabet");
  run_sequence(c, d, &rr, lenmode, true);
  c.nontrivial();
}
// ---- enumerated: run lengths 65533..65537, head / body / last-but-one / last over {below, inside, above}
static void run_longenum(Ctx &c) {
  static const double S[3] = {0, 2, 4};
  Range rr(1, 3);
  size_t L = 65533 + c.pick(5);
  double head = S[c.pick(3)], body = S[c.pick(3)], t2 = S[c.pick(3)], t1 = S[c.pick(3)];
  std::vector<double> d(L, body);
  d[0] = head; d[L - 2] = t2; d[L - 1] = t1;
  c.label("enum:long-run");
  run_sequence(c, d, &rr, 0, true);
  c.nontrivial();
}

// ---- join on arbitrary records
static void run_join_records(Ctx &c) {
  auto field = [&]() -> uint16_t { return (uint16_t)c.near({0, 1, 2, 32767, 32768, 65533, 65534, 65535}, 65535); };
  linepart to, post;
  to.raw = field(); to.usr = c.chance(160) ? to.raw : field(); to._cut = c.chance(64) ? field() : 0; to._trim = c.chance(64) ? field() : 0;
  post.raw = field(); post.usr = c.chance(128) ? post.raw : field(); post._cut = c.chance(64) ? field() : 0; post._trim = c.chance(64) ? field() : 0;
  if (c.chance(64)) { post.raw = 65535 - to.raw + (uint16_t)c.range(0, 2) - 1; post.usr = post.raw; }
  linepart before = to;
  linepart *res = mpt_linepart_join(&to, post);
  c.logf("join {raw %u usr %u cut %u trim %u} + {raw %u usr %u cut %u trim %u} -> %s {raw %u usr %u cut %u trim %u}", before.raw, before.usr, before._cut, before._trim, post.raw, post.usr,
         post._cut, post._trim, res ? "accepted" : "refused", to.raw, to.usr, to._cut, to._trim);
  if (res) {
    VP_CHECK(c, res == &to, "join-result", "join returned a foreign pointer");
    VP_CHECK(c, (unsigned)to.raw == (unsigned)before.raw + post.raw && (unsigned)to.usr == (unsigned)before.usr + post.usr, "join-sum", "join {raw %u usr %u} + {raw %u usr %u} gives {raw %u usr %u}",
             before.raw, before.usr, post.raw, post.usr, to.raw, to.usr);
    c.label("records:accepted");
    if ((unsigned)before.raw + post.raw >= 65534 || (unsigned)before.usr + post.usr >= 65534) c.label("records:accepted-near-limit");
    c.nontrivial();
  } else {
    VP_CHECK(c, !memcmp(&to, &before, sizeof to), "join-refused-modified", "refused join changed the part");
    c.label("records:refused");
    if ((unsigned)before.raw + post.raw > 65535 || (unsigned)before.usr + post.usr > 65535) { c.label("records:refused-overflow"); c.nontrivial(); }
  }
}

// ---- fraction coding
static double draw_fraction(Ctx &c) {
  static const double T[] = {0.0, -0.0, 5e-324, 1e-300, 1.0 / 131072, 1.0 / 65536, 2.0 / 65536, 0.25, 0.5, 0.75, 65534.0 / 65536, 65535.0 / 65536, 65535.5 / 65536, 1.0};
  double v;
  switch (c.weighted({4, 4, 4, 2})) {
    case 0: v = T[c.pick(sizeof T / sizeof *T)]; break;
    case 1: v = (double)c.range(0, 65536) / 65536; break;
    case 2: v = (double)c.u32() / 4294967296.0; break;
    default: {
      static const double O[] = {-5e-324, -1e-9, -1, -kBig, 1.0000000000000002, 1.5, 2, 65536, kBig};
      return O[c.pick(sizeof O / sizeof *O)];
    }
  }
  if (c.chance(64)) v = std::nextafter(v, c.flip() ? 2.0 : -1.0);
  return v;
}
static void run_code(Ctx &c) {
  double v[2] = {draw_fraction(c), draw_fraction(c)};
  int code[2];
  for (int i = 0; i < 2; i++) {
    code[i] = mpt_linepart_code(v[i]);
    c.logf("code(%.17g) = %d", v[i], code[i]);
    if (v[i] >= 0 && v[i] <= 1) {
      VP_CHECK(c, code[i] >= 0 && code[i] <= 65535, "code-range", "code(%.17g) = %d", v[i], code[i]);
      double back = mpt_linepart_real(code[i]);
      VP_CHECK(c, back == (double)code[i] / 65536, "real-exact", "real(%d) = %.17g", code[i], back);
      long double err = back > v[i] ? (long double)back - v[i] : (long double)v[i] - back;
      VP_CHECK(c, err <= 1.0L / 65536, "code-precision", "code(%.17g) = %d decodes to %.17g (error %.3Lg > 1/65536)", v[i], code[i], back, err);
      // "if (val && !small) return 1" in linepart_code.c: a fraction that is not zero never encodes as 0 (= no cut/trim for
      // polyline::part::points(), apply<>() and mpt_linepart_join)
      VP_CHECK(c, v[i] == 0 || code[i] >= 1, "code-zero-for-nonzero", "code(%.17g) = 0: a non-zero fraction encodes as 'no cut/trim'", v[i]);
      c.label("code:in-range");
      if (code[i] == 65535) c.label("code:clamped-top");
      if (v[i] > 0 && code[i] <= 1) c.label("code:tiny");
    } else {
      VP_CHECK(c, code[i] < 0, "code-accepts-outside", "code(%.17g) = %d, a value outside [0,1] must be refused", v[i], code[i]);
      c.label("code:refused");
    }
  }
  if (v[0] >= 0 && v[0] <= 1 && v[1] >= 0 && v[1] <= 1) {
    if (v[0] <= v[1]) VP_CHECK(c, code[0] <= code[1], "code-monotone", "code(%.17g)=%d > code(%.17g)=%d", v[0], code[0], v[1], code[1]);
    else VP_CHECK(c, code[0] >= code[1], "code-monotone", "code(%.17g)=%d < code(%.17g)=%d", v[0], code[0], v[1], code[1]);
    if (code[0] != code[1]) c.nontrivial();
  }
}

// ---- C++ linepart::array::set(len): initial parts for `len` points (polyline::set starts from these)
static void run_cxx_set(Ctx &c) {
  long len = (long)c.near({0, 1, 2, 65532, 65533, 65534, 65535, 65536, 131065, 131066, 131067, 196599}, 400000);
  linepart::array a;
  bool ok = a.set(len);
  c.logf("linepart::array::set(%ld) -> %d, %ld parts, raw %ld usr %ld", len, ok, (long)a.length(), a.length_raw(), a.length_user());
  if (!ok) { c.label("cxx-set:refused"); return; }
  for (int pass = 0; pass < 2; pass++) {
    long sr = 0, su = 0, n = a.length();
    const linepart *lp = a.begin();
    for (long i = 0; i < n; i++) {
      VP_CHECK(c, lp[i].raw >= 1, "cxx-set-empty-part", "set(%ld)%s: part %ld of %ld covers no point", len, pass ? "+set(-1)" : "", i, n);
      VP_CHECK(c, !lp[i]._cut && !lp[i]._trim, "cxx-set-fraction", "set(%ld): part %ld has cut %u trim %u", len, i, lp[i]._cut, lp[i]._trim);
      sr += lp[i].raw; su += lp[i].usr;
    }
    VP_CHECK(c, sr == len && su == len, "cxx-set-sum", "set(%ld)%s: parts cover raw %ld usr %ld", len, pass ? "+set(-1)" : "", sr, su);
    VP_CHECK(c, a.length_raw() == len && a.length_user() == len, "cxx-set-sum", "set(%ld): length_raw %ld length_user %ld", len, a.length_raw(), a.length_user());
    if (pass || !c.flip()) break;
    ok = a.set(-1);  // re-derive from the points the existing parts cover
    VP_CHECK(c, ok, "cxx-set-sum", "set(-1) after set(%ld) failed", len);
    c.label("cxx-set:rederive");
  }
  c.label("cxx-set");
  if (len > 65533) { c.label("cxx-set:multi-part"); c.nontrivial(); }
}

// ---- object histories: set / clear / copy / re-chunk on the same polyline and linepart::array objects, copies kept.
// After every step every live object is checked against the data IT was made for ("parts partition the data they belong
// to"): parts cover exactly its points, polyline::part::points() serves exactly the points in range in every coordinate,
// the polyline holds as many points as its parts draw, iteration over its parts terminates, and every point has the value
// the real apply<>() template computes from its own data (cut / trim end points: the interpolated crossing).
struct DataSet {
  int dims = 1;
  std::vector<double> d[2];
  bool has[2] = {true, true};
  Range rr[2] = {Range(1, 3), Range(1, 3)};
  const Range *range(int i) const { return has[i] ? &rr[i] : 0; }
  size_t len(int i) const { return d[i].size(); }
  size_t N() const { size_t n = 0; for (int i = 0; i < dims; i++) n = std::max(n, d[i].size()); return n; }
  bool ragged() const { return dims == 2 && d[0].size() != d[1].size(); }
  std::vector<uint8_t> visible(int upto) const {
    std::vector<uint8_t> v(N(), 1);
    for (int i = 0; i < upto; i++) for (size_t k = 0; k < v.size(); k++) if (k >= d[i].size() || !in_range(d[i][k], range(i))) v[k] = 0;
    return v;
  }
};
typedef std::shared_ptr<const DataSet> DataRef;

// transformation of a harness "graph": x from coordinate 0, y from coordinate 1, through the library's apply<>() template
// (what layout::graph::transform3::apply does for a linear axis, including its guard for parts without points)
struct PlotTransform : public RangeTransform {
  bool apply(unsigned dim, const linepart &pt, point<double> *dest, const double *from) const override {
    if (!from || dim > 1) return false;
    if (!pt.usr) return true;
    const point<double> scale(dim == 0 ? 1 : 0, dim == 1 ? 1 : 0);
    ::mpt::apply<point<double>, double>(dest, pt, from, scale);
    return true;
  }
};

static DataRef draw_dataset(Ctx &c, bool allow_long) {
  std::shared_ptr<DataSet> ds = std::make_shared<DataSet>();
  ds->dims = c.chance(112) ? 1 : 2;
  bool lng = allow_long && c.chance(4);
  size_t N = lng ? (c.chance(48) ? 131064 : 65530) + c.range(0, 10) : (c.chance(8) ? 0 : c.range(1, 10));
  for (int i = 0; i < ds->dims; i++) {
    bool general = !lng && c.chance(40);
    if (general) ds->has[i] = draw_range(c, ds->rr[i]) != 0;
    size_t n = N;
    if (i && !lng && c.chance(12)) n = c.range(1, 10);  // coordinates of different length
    if (lng) {
      ds->d[i].assign(n, 2.0);
      for (size_t holes = c.range(0, 3); holes; --holes) {
        size_t pos = c.near({1, 65532, 65534, 65536, 131066}, n - 1), cnt = c.range(1, 4);
        double v = c.flip() ? 0.0 : 4.0;
        for (size_t k = pos; k < n && k < pos + cnt; k++) ds->d[i][k] = v;
      }
    } else if (general) {
      ds->d[i] = draw_data(c, ds->range(i), false, n);
    } else {
      for (size_t k = 0; k < n; k++) ds->d[i].push_back(kSym[c.pick(5)]);
    }
  }
  if (lng) c.label("hist:long-data");
  if (ds->ragged()) c.label("hist:ragged-coordinates");
  return ds;
}

static void log_dataset(Ctx &c, const char *what, const DataSet &ds) {
  if (!c.verbose()) return;
  for (int i = 0; i < ds.dims; i++) {
    const Range *r = ds.range(i);
    if (r) c.logf("    %s dim %d: range [%.17g, %.17g], %zu values", what, i, r->min, r->max, ds.len(i));
    else c.logf("    %s dim %d: no range, %zu values", what, i, ds.len(i));
    const std::vector<double> &d = ds.d[i];
    for (size_t k = 0, shown = 0; k < d.size() && shown < 40; k++)
      if (k < 12 || k + 4 >= d.size() || d[k] != d[k - 1] || (k + 1 < d.size() && d[k] != d[k + 1])) { c.logf("      [%zu] %.17g %s", k, d[k], cls(d[k], r)); ++shown; }
  }
}
static void log_parts(Ctx &c, const char *name, const std::vector<linepart> &parts) {
  if (!c.verbose()) return;
  std::string t;
  char buf[96];
  for (size_t k = 0; k < parts.size() && k < 24; k++) { snprintf(buf, sizeof buf, " {raw %u usr %u cut %u trim %u}", parts[k].raw, parts[k].usr, parts[k]._cut, parts[k]._trim); t += buf; }
  c.logf("    %s: %zu parts%s", name, parts.size(), t.c_str());
}

// parts right after linepart::array::set(n): n points, all drawn, nothing cut
static void check_preset(Ctx &c, const char *name, size_t N, const std::vector<linepart> &parts) {
  size_t sr = 0, su = 0;
  for (size_t k = 0; k < parts.size(); k++) {
    VP_CHECK(c, parts[k].raw >= 1, "cxx-set-empty-part", "%s: part %zu of %zu covers no point", name, k, parts.size());
    VP_CHECK(c, !parts[k]._cut && !parts[k]._trim, "cxx-set-fraction", "%s: after set() part %zu has cut %u trim %u", name, k, parts[k]._cut, parts[k]._trim);
    sr += parts[k].raw; su += parts[k].usr;
  }
  VP_CHECK(c, sr == N && su == N, "cxx-set-sum", "%s: after set() for %zu points the parts cover raw %zu usr %zu", name, N, sr, su);
}

// parts against the data set they belong to, after `applied` coordinates
static void check_against(Ctx &c, const char *name, const DataSet &ds, int applied, const std::vector<linepart> &parts, bool single_run_oracle) {
  if (!applied) return check_preset(c, name, ds.N(), parts);
  if (ds.ragged()) {
    // coordinates of different length: only the statement about the points covered (the longest coordinate; maxsize())
    size_t sr = 0;
    for (const linepart &lp : parts) sr += lp.raw;
    VP_CHECK(c, sr == ds.N(), "raw-sum", "%s: the parts cover %zu points, the coordinates have %zu and %zu values", name, sr, ds.len(0), ds.len(1));
    return;
  }
  if (single_run_oracle && applied == 1) check_parts(c, name, ds.d[0], ds.range(0), parts);
  check_drawn(c, name, ds.N(), parts, ds.visible(applied));
  if (applied > 1) {
    const Range *rr[2] = {ds.range(0), ds.range(1)};
    check_end_fractions(c, name, applied, ds.d, rr, parts);
  }
}

struct PolySlot {
  polyline pl;
  DataRef data;  // data of the last successful set(), none: nothing to draw
};
static void check_polyline(Ctx &c, const char *name, const PolySlot &s) {
  span<const linepart> ps = s.pl.parts();
  std::vector<linepart> parts;
  for (long k = 0; k < ps.size(); k++) parts.push_back(ps.begin()[k]);
  span<const polyline::point> pts = s.pl.points();
  long np = pts.size(), su = 0;
  for (const linepart &lp : parts) su += lp.usr;
  log_parts(c, name, parts);
  VP_CHECK(c, np == su, "points-parts-mismatch", "%s: the parts draw %ld points, the polyline holds %ld", name, su, np);
  long steps = 0, served = 0;
  for (polyline::iterator it = s.pl.begin(), end = s.pl.end(); it != end; ++it) {
    VP_CHECK(c, ++steps <= (long)parts.size() + 1, "iteration-endless", "%s: iteration over %zu parts does not reach end()", name, parts.size());
    served += (*it).line().size();
  }
  VP_CHECK(c, served == su, "points-parts-mismatch", "%s: iteration serves %ld points in %ld steps, the parts draw %ld", name, served, steps, su);
  if (!s.data) {
    VP_CHECK(c, np == 0, "points-parts-mismatch", "%s: nothing to draw but %ld points", name, np);
    return;
  }
  const DataSet &ds = *s.data;
  check_against(c, name, ds, ds.dims, parts, true);
  if (ds.ragged()) return;
  // point values
  size_t off = 0, uoff = 0;
  for (size_t k = 0; k < parts.size(); k++) {
    const linepart &lp = parts[k];
    for (size_t j = 0; j < lp.usr; j++) {
      double want[2] = {0, 0};
      for (int i = 0; i < ds.dims; i++) {
        const double *src = ds.d[i].data() + off;
        if (j == 0 && lp._cut && lp.usr >= 2) want[i] = src[0] + (double)lp.cut() * (src[1] - src[0]);
        else if (j + 1 == lp.usr && lp._trim && lp.usr >= 2) want[i] = src[j] + (double)lp.trim() * (src[j - 1] - src[j]);
        else want[i] = src[j];
      }
      const polyline::point &pt = pts.begin()[uoff + j];
      double tol[2];
      for (int i = 0; i < 2; i++) tol[i] = 1e-12 * std::fabs(want[i]) + 1e-300;
      VP_CHECK(c, std::fabs(pt.x - want[0]) <= tol[0] && std::fabs(pt.y - want[1]) <= tol[1], "point-value",
               "%s: point %zu of part %zu {raw %u usr %u cut %u trim %u} at %zu is (%.17g, %.17g), its data give (%.17g, %.17g)", name, j, k, lp.raw, lp.usr, lp._cut, lp._trim, off, pt.x, pt.y,
               want[0], want[1]);
    }
    off += lp.raw;
    uoff += lp.usr;
  }
}

struct PartSlot {
  linepart::array a;
  DataRef data;
  int applied = 0;    // coordinates applied since the last set()
  bool clean = true;  // built by set()/empty + apply in order: the single-run oracle applies to the first coordinate
};
static void check_partslot(Ctx &c, const char *name, const PartSlot &s) {
  std::vector<linepart> parts(s.a.begin(), s.a.end());
  log_parts(c, name, parts);
  if (!s.data) {
    VP_CHECK(c, parts.empty(), "cxx-set-sum", "%s: emptied array has %zu parts", name, parts.size());
    return;
  }
  check_against(c, name, *s.data, s.applied, parts, s.clean);
}

static void run_history(Ctx &c) {
  enum { NP = 3, NA = 3 };
  PolySlot P[NP];
  PartSlot A[NA];
  int longs = 0, steps = 0;
  int pgroup[NP] = {0, 1, 2}, agroup[NA] = {0, 1, 2}, next_group = 3;  // objects that share storage since their last copy
  bool resets = false, copies = false;
  char name[32];
  while (c.more() && steps++ < 16) {
    size_t op = c.weighted({8, 2, 4, 5, 3, 3, 3, 2});
    size_t k = c.pick(3);
    int group_before = op <= 2 ? pgroup[k] : agroup[k];
    switch (op) {
      case 0: {  // polyline::set
        DataRef ds = draw_dataset(c, longs < 1);
        if (ds->N() > 60000) ++longs;
        PlotTransform tr;
        value_store st[2];
        for (int i = 0; i < ds->dims; i++) {
          tr.r.push_back(ds->range(i));
          st[i].set(span<const double>(ds->d[i].data(), (long)ds->len(i)));
        }
        std::vector<linepart> before;
        for (long j = 0; j < P[k].pl.parts().size(); j++) before.push_back(P[k].pl.parts().begin()[j]);
        long np_before = P[k].pl.points().size();
        bool had = P[k].data || !before.empty();
        c.logf("P%zu.set(%d coordinates, %zu points) ...", k, ds->dims, ds->N());
        log_dataset(c, "new data", *ds);
        bool ok = P[k].pl.set(tr, span<const value_store>(st, ds->dims));
        c.logf("  -> %d", ok);
        if (ok) {
          P[k].data = ds;
          c.label("hist:polyline-set");
          if (had) { c.label("hist:polyline-set-again"); resets = true; }
        } else {
          long np = P[k].pl.points().size(), su = 0;
          std::vector<linepart> after;
          for (long j = 0; j < P[k].pl.parts().size(); j++) { after.push_back(P[k].pl.parts().begin()[j]); su += after.back().usr; }
          bool same = after.size() == before.size() && np == np_before && (after.empty() || !memcmp(after.data(), before.data(), after.size() * sizeof(linepart)));
          if (same) c.label("hist:polyline-set-refused-unchanged");
          else {
            // a refused set() may leave the object without anything to draw, but not with a mixture of old and new
            VP_CHECK(c, su == 0 && np == 0, "refused-set-inconsistent", "P%zu: refused set() leaves parts drawing %ld points and %ld points held (before: %ld)", k, su, np, np_before);
            P[k].data.reset();
            c.label("hist:polyline-set-refused-emptied");
            if (had) resets = true;
          }
        }
        break;
      }
      case 1: P[k].pl.clear(); P[k].data.reset(); c.logf("P%zu.clear()", k); c.label("hist:polyline-clear"); break;
      case 2: {  // copy of a polyline (shares parts and points until one side is written)
        size_t from = c.pick(3);
        if (from == k) break;
        if (c.flip()) P[k].pl = P[from].pl; else { polyline tmp(P[from].pl); P[k].pl = tmp; }
        P[k].data = P[from].data;
        pgroup[k] = pgroup[from];
        c.logf("P%zu = P%zu", k, from);
        if (P[k].data) { c.label("hist:polyline-copy"); copies = true; }
        break;
      }
      case 3: {  // part array: set(n) for new data
        DataRef ds = draw_dataset(c, longs < 1);
        if (ds->N() > 60000) ++longs;
        bool had = A[k].a.length() > 0;
        bool ok = A[k].a.set((long)ds->N());
        c.logf("A%zu.set(%zu) -> %d", k, ds->N(), ok);
        log_dataset(c, "data", *ds);
        VP_CHECK(c, ok, "cxx-set-sum", "set(%zu) failed", ds->N());
        if (ds->N()) { A[k].data = ds; A[k].applied = 0; A[k].clean = true; } else { A[k].data.reset(); A[k].applied = 0; }
        c.label("hist:array-set");
        if (had) { c.label("hist:array-set-again"); resets = true; }
        break;
      }
      case 4: {  // next coordinate; an empty array takes new data directly
        if (!A[k].data) {
          if (A[k].a.length()) break;
          DataRef ds = draw_dataset(c, longs < 1);
          if (ds->N() > 60000) ++longs;
          if (!ds->N() || ds->ragged()) break;
          A[k].data = ds; A[k].applied = 0; A[k].clean = true;
          log_dataset(c, "data", *ds);
        }
        const DataSet &ds = *A[k].data;
        if (A[k].applied >= ds.dims || ds.ragged()) break;
        int dim = A[k].applied;
        PlotTransform tr;
        for (int i = 0; i < ds.dims; i++) tr.r.push_back(ds.range(i));
        Slice sl(ds.d[dim].data(), ds.len(dim));
        bool ok = A[k].a.apply(tr, dim, span<const double>(sl.p, (long)ds.len(dim)));
        c.logf("A%zu.apply(dim %d, %zu values) -> %d", k, dim, ds.len(dim), ok);
        VP_CHECK(c, ok, "cxx-apply-refused", "apply(dim %d, %zu values) failed", dim, ds.len(dim));
        A[k].applied = dim + 1;
        c.label("hist:array-apply");
        break;
      }
      case 5: {  // re-chunk: set(-1) keeps the number of points, all drawn again
        bool ok = A[k].a.set(-1);
        c.logf("A%zu.set(-1) -> %d", k, ok);
        VP_CHECK(c, ok, "cxx-set-sum", "set(-1) failed");
        if (A[k].data) { A[k].applied = 0; A[k].clean = true; c.label("hist:array-rechunk"); resets = true; }
        break;
      }
      case 6: {  // copy of a part array
        size_t from = c.pick(3);
        if (from == k) break;
        if (c.flip()) A[k].a = A[from].a; else { linepart::array tmp(A[from].a); A[k].a = tmp; }
        A[k].data = A[from].data; A[k].applied = A[from].applied; A[k].clean = A[from].clean;
        agroup[k] = agroup[from];
        c.logf("A%zu = A%zu", k, from);
        if (A[k].data) { c.label("hist:array-copy"); copies = true; }
        break;
      }
      default: A[k].a.set(0); A[k].data.reset(); A[k].applied = 0; c.logf("A%zu.set(0)", k); break;
    }
    // every object is re-checked after every step, except long ones that neither were the target of the step nor share
    // (or shared when the step began) storage with the target
    bool onP = op <= 2;
    for (size_t i = 0; i < NP; i++) {
      bool related = onP && (i == k || pgroup[i] == group_before);
      if (!related && P[i].data && P[i].data->N() > 4096) continue;
      snprintf(name, sizeof name, "P%zu", i);
      check_polyline(c, name, P[i]);
    }
    for (size_t i = 0; i < NA; i++) {
      bool related = !onP && (i == k || agroup[i] == group_before);
      if (!related && A[i].data && A[i].data->N() > 4096) continue;
      snprintf(name, sizeof name, "A%zu", i);
      check_partslot(c, name, A[i]);
    }
    if (op == 0 || op == 1) pgroup[k] = next_group++;
    if (op == 3 || op == 4 || op == 5 || op == 7) agroup[k] = next_group++;
  }
  c.label("hist");
  if (resets || copies) c.nontrivial();
  if (resets && copies) c.label("hist:copy-and-reset");
}

// ---- apply_data() without part records (span without address, its size is the number of points): every point of every
// coordinate is transformed, in pieces of at most 65535
static void run_apply_data_noparts(Ctx &c) {
  static const size_t kN[] = {1, 2, 65534, 65535, 65536, 65537, 131069, 131070, 131071, 196606};
  size_t N = kN[c.pick(10)];
  int dims = 1 + (int)c.pick(2);
  PlotTransform tr;
  value_store st[2];
  std::vector<double> d[2];
  for (int i = 0; i < dims; i++) {
    tr.r.push_back(0);
    for (size_t k = 0; k < N; k++) d[i].push_back(i ? -(double)k - 1 : (double)k + 1);
    st[i].set(span<const double>(d[i].data(), (long)N));
  }
  std::vector<point<double> > dest(N);
  int proc = apply_data(dest.data(), span<const linepart>(0, (long)N), tr, span<const value_store>(st, dims));
  c.logf("apply_data(no parts, %zu points, %d coordinates) -> %d", N, dims, proc);
  VP_CHECK(c, proc == dims, "apply-data-dimensions", "apply_data processed %d of %d coordinates", proc, dims);
  for (size_t k = 0; k < N; k++) {
    double wx = (double)k + 1, wy = dims > 1 ? -(double)k - 1 : 0;
    VP_CHECK(c, dest[k].x == wx && dest[k].y == wy, "point-value", "apply_data without parts, %zu points: point %zu is (%.17g, %.17g), its data give (%.17g, %.17g)", N, k, dest[k].x, dest[k].y, wx, wy);
  }
  c.label("apply-data:no-parts");
  if (N > 65535) c.nontrivial();
}

static void run(Ctx &c) {
  uint8_t sel = c.u8();
  if (sel == 0xfb) return run_apply_data_noparts(c);
  if (sel >= 150 && sel < 176) return run_history(c);
  if (sel >= 140 && sel < 150) return run_cxx_graph(c);
  if (sel >= 206 && sel < 216) return run_cxx_set(c);
  if (sel >= 176 && sel < 206) return run_cxx_apply(c);
  if (sel == 0xff) return run_alphabet(c);
  if (sel == 0xfe) return run_longenum(c);
  if (sel == 0xfd) return run_cxx_enum(c);
  if (sel == 0xfc) return run_cxx_longenum(c);
  if (sel == 0xfa) return run_cxx_fracenum(c);
  if (sel >= 236) return run_code(c);
  if (sel >= 216) return run_join_records(c);
  run_random(c);
}

// sequences of length <= 8 (quick) / 9 (thorough) over 5 symbols, whole remainder per call
static uint64_t pow5sum(int maxlen) { uint64_t s = 0, p = 1; for (int i = 0; i <= maxlen; i++) { s += p; p *= 5; } return s; }
static void make_alpha(uint64_t idx, long lenmode, std::vector<uint8_t> &out) {
  out.clear();
  out.push_back(0xff);
  size_t n = 0;
  uint64_t span = 1;
  while (idx >= span) { idx -= span; span *= 5; ++n; }
  out.push_back((uint8_t)n);
  for (size_t i = 0; i < n; i++) { out.push_back((uint8_t)(idx % 5)); idx /= 5; }
  out.push_back((uint8_t)lenmode);
}
static uint64_t alpha_count(int tier) { return pow5sum(tier ? 9 : 8); }
static void alpha_make(uint64_t idx, int, std::vector<uint8_t> &out) { make_alpha(idx, 0, out); }
// the same with at most 1, 2 or 3 points visible per call
static uint64_t chunk_count(int tier) { return 3 * pow5sum(tier ? 8 : 6); }
static void chunk_make(uint64_t idx, int, std::vector<uint8_t> &out) { make_alpha(idx / 3, 1 + (long)(idx % 3), out); }
static uint64_t long_count(int) { return 5 * 81; }
static void long_make(uint64_t idx, int, std::vector<uint8_t> &out) {
  out.clear();
  out.push_back(0xfe);
  out.push_back((uint8_t)(idx % 5)); idx /= 5;
  for (int i = 0; i < 4; i++) { out.push_back((uint8_t)(idx % 3)); idx /= 3; }
}

// two coordinates: (x,y) pairs over 3 x 2 classes, length <= 6 (thorough 7), from set(N) and from an empty array
static uint64_t pow6sum(int maxlen) { uint64_t s = 0, p = 1; for (int i = 0; i <= maxlen; i++) { s += p; p *= 6; } return s; }
static uint64_t cxx2_count(int tier) { return 2 * pow6sum(tier ? 7 : 6); }
static void cxx2_make(uint64_t idx, int, std::vector<uint8_t> &out) {
  out.clear();
  out.push_back(0xfd);
  out.push_back((uint8_t)(idx % 2)); idx /= 2;
  size_t n = 0;
  uint64_t span = 1;
  while (idx >= span) { idx -= span; span *= 6; ++n; }
  out.push_back((uint8_t)n);
  for (size_t i = 0; i < n; i++) { out.push_back((uint8_t)(idx % 3)); out.push_back((uint8_t)((idx / 3) % 2)); idx /= 6; }
}

// quick: N in {65535, 65537}, runs of 1 or 3 points (2 x 2 x 15 x 15); thorough: N 65534..65538, runs of 1..3 (2 x 5 x 22 x 22)
static uint64_t frac_count(int tier) { uint64_t s = 0, p = 1; for (int i = 0; i <= (tier ? 4 : 3); i++) { s += p; p *= 25; } return 2 * s; }
static void frac_make(uint64_t idx, int, std::vector<uint8_t> &out) {
  out.clear();
  out.push_back(0xfa);
  out.push_back((uint8_t)(idx % 2)); idx /= 2;
  size_t n = 0;
  uint64_t span = 1;
  while (idx >= span) { idx -= span; span *= 25; ++n; }
  out.push_back((uint8_t)n);
  for (size_t i = 0; i < n; i++) { out.push_back((uint8_t)(idx % 5)); out.push_back((uint8_t)((idx / 5) % 5)); idx /= 25; }
}
static uint64_t noparts_count(int) { return 20; }
static void noparts_make(uint64_t idx, int, std::vector<uint8_t> &out) {
  out.clear();
  out.push_back(0xfb);
  out.push_back((uint8_t)(idx % 10));
  out.push_back((uint8_t)(idx / 10));
}
static uint64_t cxx2long_count(int tier) { return 4 * (tier ? 2 * 5 * 22 * 22 : 2 * 2 * 15 * 15); }
static void cxx2long_make(uint64_t idx, int tier, std::vector<uint8_t> &out) {
  uint8_t kind = (uint8_t)(idx % 4); idx /= 4;
  struct Tail { std::vector<uint8_t> &o; uint8_t k; ~Tail() { o.push_back(k); } } tail{out, kind};
  out.clear();
  out.push_back(0xfc);
  out.push_back((uint8_t)(idx % 2)); idx /= 2;
  if (tier) {
    out.push_back((uint8_t)(idx % 5)); idx /= 5;
    out.push_back((uint8_t)(idx % 22)); idx /= 22;
    out.push_back((uint8_t)(idx % 22));
  } else {
    out.push_back((uint8_t)(idx % 2 ? 3 : 1)); idx /= 2;
    for (int i = 0; i < 2; i++) {
      uint64_t h = idx % 15; idx /= 15;
      out.push_back((uint8_t)(h ? 1 + ((h - 1) / 2) * 3 + ((h - 1) % 2) * 2 : 0));  // start index (h-1)/2, length 1 or 3
    }
  }
}

static Target t = {
    "C18",
    "random: range (normal | min==max | min>max | one/both sides infinite | none) x run-length structured real sequence (below/at-min/inside/at-max/above realised next to, on and far "
    "from the bounds, |x| <= DBL_MAX/2, equal neighbours, runs around 65535) x length per call (whole remainder | fixed chunk | drawn); mpt_linepart_linear advanced by raw, "
    "mpt_linepart_join over adjacent parts and on arbitrary records, mpt_linepart_code/real on [0,1] and outside. exhaustive: all sequences of length <= 8 (thorough 9) over "
    "{below,at-min,inside,at-max,above} for [1,3]; the same up to length 6 (8) with 1..3 points per call; run lengths 65533..65537 x head/body/last-but-one/last over {below,inside,above}; "
    "linepart::array::apply for two coordinates ((x,y) sequences of length <= 6 (7) over {below,inside,above} x {inside,above}, from set(N) and from an empty array), where the points "
    "polyline::part::points() serves have to be exactly the points in range in every coordinate applied. "
    "two coordinates with different crossing fractions per coordinate ((x,y) sequences of length <= 3 (4) over 5 x 5 values), end fractions checked against the last crossing of "
    "all coordinates; the library's graph transformation layout::graph::transform3 (1-3 dimensions without limit / linear limit / logarithmic limit) as alternative "
    "transformation of the C++ scenario and of the chunk-limit sub-space; object histories: up to 16 steps of polyline::set (1-2 coordinates, also of different length, also around 65533/65535/131066 points) / clear / copy and linepart::array "
    "set(n) / apply / set(-1) / set(0) / copy on 3 polylines and 3 part arrays, every live object checked after every step against the data it was made for (parts, points "
    "served, point count, point values through the apply<>() template, terminating iteration); apply_data without part records. "
    "non-trivial: a part carries a cut or trim fraction, a join was accepted, the run is longer than 65535, a join hit the 16-bit limit, two fractions encode differently "
    "(all enumerated cases count); distinct by hash of the draw sequence.",
    run,
    {400, 400},
    false,
    true,
    {{"sequences len<=8 (9) over 5 classes, whole remainder", alpha_count, alpha_make},
     {"sequences len<=6 (8) over 5 classes x 1..3 points per call", chunk_count, chunk_make},
     {"run lengths 65533..65537 x 81 head/body/tail patterns", long_count, long_make},
     {"two coordinates: (x,y) sequences len<=6 (7) over {below,inside,above}x{inside,above}, from set(N) and from an empty array", cxx2_count, cxx2_make},
     {"two coordinates around the chunk limit: N 65534..65538 (quick: 65535, 65537) x (no / one run of 1..3 (quick: 1 or 3) points outside from 65531..65537) per coordinate, from set(N) and from an empty array, x 4 transformations (harness; layout::graph::transform3 with both limits / without limit for x / for y)", cxx2long_count, cxx2long_make},
     {"two coordinates with different crossing fractions: (x,y) sequences len<=3 (4) over 5 x 5 values, from set(N) and from an empty array", frac_count, frac_make},
     {"apply_data without part records: 10 point counts up to 3 x 65535 x 1..2 coordinates", noparts_count, noparts_make}},
    0,
    0,
};
Target &vp::target() { return t; }
