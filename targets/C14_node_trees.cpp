// C14 — node trees stay structurally sound            vp-link: core
//
// G: history over a small node population (<= 12 created nodes, clones on top of that up to 30 live) with names
//    from the alphabet {a,b,c} (1-2 letters, a few unnamed, a few long ones across the inline identifier capacity)
//    and values none / counting harness metatype (clone and unref observable, some refuse to clone) / mpt_meta_new text:
//    node_new, gnode_add/node_add (list, by position / by name), gnode_insert/node_insert (child), gnode_after/before,
//    node_unlink, node_move (merge of two lists of different trees), node_clone/list_clone/tree_clone, node_clear,
//    node_destroy (linked: must refuse; detached: frees the subtree), gnode_swap, gnode_switch, gnode_relink
//    (on a sound tree, and after the derived links prev/parent below a node were spoilt), gnode_traverse, gnode_pos,
//    node_locate; mpt_parse_node of a generated configuration text (options, sections to depth 3, comments, blank lines;
//    also texts without any element: empty, blank-only, comment-only) into a live node with or without children, names
//    overlapping / extending / disjoint from the present children. It runs in the turns in which the drawn operation has
//    nothing to work on (the operation weights are untouched: corpus files decode as before). In the same turns, and when
//    a move finds only one tree, a second operation follows while bytes are left: mpt_node_parse (FILE from fmemopen)
//    reloading a populated or empty node; mpt_node_clear of children parked under a stack node while they still name
//    their old parent, which already has a new child or none (what mpt_node_parse does); manual surgery (a list tail cut
//    off and hung below another node by forward links / children head only) followed by mpt_gnode_relink; mpt_parse_config
//    with a handler calling mpt_node_append, seeded like mpt_parse_node (current node = target, previous operation =
//    section start), on populated and empty targets: the parsed elements go behind the children the target has.
//    Allocation-failure injection (engine/vp_alloc.h; about one case in eight): for mpt_node_new, node/list/tree clone and the
//    three ways of parsing a text into a node the allocations of the undisturbed call are counted on a throw-away twin, then
//    the call runs with the k-th library allocation (k drawn in 1..n) failing. Oracle: error or complete success; a refused
//    clone leaves nothing behind (cloned values released once, nodes: leak oracle), the sources are untouched; a failed
//    mpt_parse_node / mpt_node_parse leaves the target as it was, a failed mpt_node_append run leaves the elements appended
//    before the failure (complete, a prefix of the text); all invariants hold; no sanitizer report.
//    C++ value assignment node = reference<metatype> (header only) with another node's, an empty and the node's own
//    reference; counting values count their handles (shareable ones hand out more through addref).
//    A share of the nodes is named by binary identifier data (charset 0, 3 bytes inline or 21/24/85/300 bytes), derived
//    from the name draws; clones are compared with mpt_identifier_inequal and byte by byte.
//    Preconditions taken from the callers in /repo: the inserted node is detached (no parent/next/prev), the target is
//    not inside the inserted node's own subtree, move works between different trees with dst = head of the target list.
// O: after every step a full walk over all live nodes (see observe()): next/prev agree, siblings share the parent,
//    parent->children is the list head, children->parent is the node, no link leaves the set of live nodes, no cycle;
//    the observed forest equals the model forest (positions chosen by pos/by name and by move are NOT modelled: the
//    placed nodes must occur exactly once in the right list and the order of the others must be unchanged);
//    nodes the step releases are freed (ASan poison), all others are not; counting values are released exactly once;
//    names and values of every live node are unchanged; a clone is a separate sound structure isomorphic to its source
//    with equal names and values at every depth. mpt_parse_node: the model merge is the documented one (mpt_node_move +
//    mpt_node_clear): parsed elements in text order, then the old children without a parsed namesake; an old child with a
//    namesake is released after its children were merged into the namesake's by the same rule; parser-made nodes are
//    matched to the text in order (name, value), then the whole forest is walked as after every step. Case end: everything destroyed, every node freed, every counting
//    value released exactly once, allocation balance/LSan by the engine.
#include "vp.hpp"

#include "mpt_c.hpp"

#include <deque>
#include <exception>
#include <sanitizer/asan_interface.h>

using namespace vp;
using namespace mpt;

// ---------------------------------------------------------------------------------------------------------------
// counting harness metatype: C layout (v-table pointer first), never freed by the library's unref (the harness
// owns the storage), so that a second release is an oracle failure instead of a wild access
struct CountMeta;
struct CMetaVptr {
  int (*convert)(convertable *, type_t, void *);
  void (*unref)(metatype *);
  uintptr_t (*addref)(metatype *);
  metatype *(*clone)(const metatype *);
};
struct CountMeta {
  const CMetaVptr *vptr;
  int payload;
  bool clonable;
  int released;
  int serial;
  const CountMeta *clone_of;
  int refs;        // handles on the value: 1 for the creator, +1 per successful addref, -1 per unref
  bool shareable;  // addref hands out further handles (else 0 = "not shareable", every handle is a clone)
};
struct World;
static World *g_world = 0;

static int cm_convert(convertable *, type_t type, void *) { return type ? MPT_ERROR(BadType) : (int)TypeMetaPtr; }
static void cm_unref(metatype *m) { CountMeta *cm = (CountMeta *)m; if (--cm->refs <= 0) cm->released++; }  // released when the last handle goes; every further unref counts again
static uintptr_t cm_addref(metatype *m) { CountMeta *cm = (CountMeta *)m; if (!cm->shareable || cm->refs <= 0) return 0; return (uintptr_t)++cm->refs; }
static metatype *cm_clone(const metatype *m);
static const CMetaVptr kCountVptr = {cm_convert, cm_unref, cm_addref, cm_clone};

// ---------------------------------------------------------------------------------------------------------------
struct MNode {
  node *p = 0;
  bool live = false;
  bool named = false;
  bool binary = false;  // named by non-printable identifier data (charset 0, length > 0): `name` holds the bytes, named stays false
  std::string name;
  int vkind = 0;  // 0 none, 1 counting, 2 text
  CountMeta *cm = 0;
  std::string text;
  metatype *mt = 0;
  int parent = -1;
  std::vector<int> kids;
};

struct Forest {
  std::vector<int> parent;
  std::vector<std::vector<int>> kids;
  std::vector<std::vector<int>> tops;
};

struct Model {
  std::vector<MNode> n;
  std::vector<std::vector<int>> tops;  // top-level sibling lists (parent == NULL), singletons are detached nodes

  int topIndex(int s) const {
    for (size_t i = 0; i < tops.size(); i++)
      for (int x : tops[i]) if (x == s) return (int)i;
    return -1;
  }
  std::vector<int> &listOf(int s) { return n[s].parent >= 0 ? n[n[s].parent].kids : tops[topIndex(s)]; }
  const std::vector<int> &listOfC(int s) const { return n[s].parent >= 0 ? n[n[s].parent].kids : tops[topIndex(s)]; }
  int rootOf(int s) const { while (n[s].parent >= 0) s = n[s].parent; return s; }
  int compOf(int s) const { return topIndex(rootOf(s)); }
  bool inSubtree(int x, int r) const { for (; x >= 0; x = n[x].parent) if (x == r) return true; return false; }
  void subtree(int r, std::vector<int> &out) const { out.push_back(r); for (int k : n[r].kids) subtree(k, out); }
  int depthBelow(int r) const { int d = 0; for (int k : n[r].kids) d = std::max(d, 1 + depthBelow(k)); return d; }
  bool detached(int s) const { return n[s].parent < 0 && tops[topIndex(s)].size() == 1; }
  void removeFromList(int s) {
    if (n[s].parent >= 0) {
      std::vector<int> &l = n[n[s].parent].kids;
      l.erase(std::find(l.begin(), l.end(), s));
    } else {
      int t = topIndex(s);
      tops[t].erase(std::find(tops[t].begin(), tops[t].end(), s));
      if (tops[t].empty()) tops.erase(tops.begin() + t);
    }
    n[s].parent = -1;
  }
  void detach(int s) { removeFromList(s); tops.push_back({s}); }
  std::vector<int> liveSlots() const { std::vector<int> v; for (size_t i = 0; i < n.size(); i++) if (n[i].live) v.push_back((int)i); return v; }
  std::string key(int s) const { return n[s].named ? "=" + n[s].name : n[s].binary ? "#" + n[s].name : std::string("-"); }
  std::string show(int s) const {
    std::string r = std::to_string(s) + "(" + (n[s].named ? (n[s].name.size() > 6 ? n[s].name.substr(0, 4) + ".." + std::to_string(n[s].name.size()) : n[s].name) : n[s].binary ? "#" + std::to_string(n[s].name.size()) : std::string("-")) + ")";
    if (!n[s].kids.empty()) { r += "{"; for (size_t i = 0; i < n[s].kids.size(); i++) r += (i ? " " : "") + show(n[s].kids[i]); r += "}"; }
    return r;
  }
  std::string show() const {
    std::string r;
    for (auto &t : tops) { r += "["; for (size_t i = 0; i < t.size(); i++) r += (i ? " " : "") + show(t[i]); r += "] "; }
    return r;
  }
};

struct World {
  Model m;
  std::deque<CountMeta> metas;
  std::vector<node *> ever;  // every node pointer the library handed out
  int created = 0;

  // no clean-up here: after an oracle failure the structure may be unsound, the case leaves it alone (the worker re-runs
  // failing cases in fresh children); a passing case has destroyed everything itself at the end of run()
  World() { g_world = this; }
  ~World() { g_world = 0; }
  CountMeta *newMeta(int payload, bool clonable, const CountMeta *from) {
    metas.push_back(CountMeta{&kCountVptr, payload, clonable, 0, (int)metas.size(), from, 1, from ? from->shareable : false});
    return &metas.back();
  }
  CountMeta *asCount(const void *p) { for (auto &x : metas) if (&x == p) return &x; return 0; }
};

static metatype *cm_clone(const metatype *m) {
  const CountMeta *s = (const CountMeta *)m;
  if (!s->clonable || !g_world) return 0;
  return (metatype *)g_world->newMeta(s->payload, true, s);
}

static std::string fmtstr(const char *fmt, ...) __attribute__((format(printf, 1, 2)));
static std::string fmtstr(const char *fmt, ...) {
  char b[600];
  va_list ap; va_start(ap, fmt); vsnprintf(b, sizeof b, fmt, ap); va_end(ap);
  return b;
}
static std::string tagAt(const char *kind, const char *op) { return std::string(kind) + "@" + op; }

// ---------------------------------------------------------------------------------------------------------------
// the walk: consistency of the links of all live nodes, result = observed forest in slot numbers
static Forest observe(Ctx &c, const Model &m, const char *op) {
  std::map<const node *, int> slot;
  std::vector<int> live = m.liveSlots();
  for (int s : live) {
    VP_CHECK(c, !__asan_region_is_poisoned((void *)m.n[s].p, sizeof(node)), tagAt("live-node-freed", op).c_str(), "after %s: node %d is still part of the model but its memory was released", op, s);
    slot[m.n[s].p] = s;
  }
  auto ref = [&](int s, const node *q, const char *which) -> int {
    if (!q) return -1;
    auto it = slot.find(q);
    if (it == slot.end()) {
      bool freed = __asan_address_is_poisoned((void *)q);
      c.fail(tagAt("dangling-link", op).c_str(), "after %s: %s of node %d points to %s", op, which, s, freed ? "a released node" : "something that is not a live node");
    }
    VP_CHECK(c, it->second != s, tagAt("self-link", op).c_str(), "after %s: %s of node %d points to the node itself", op, which, s);
    return it->second;
  };
  size_t N = m.n.size();
  std::vector<int> nx(N, -1), pv(N, -1), pa(N, -1), ch(N, -1);
  for (int s : live) {
    const node *p = m.n[s].p;
    nx[s] = ref(s, p->next, "next");
    pv[s] = ref(s, p->prev, "prev");
    pa[s] = ref(s, p->parent, "parent");
    ch[s] = ref(s, p->children, "children");
  }
  for (int s : live) {
    if (nx[s] >= 0) {
      VP_CHECK(c, pv[nx[s]] == s, tagAt("link-next-prev", op).c_str(), "after %s: node %d has next %d, but the prev of %d is %d", op, s, nx[s], nx[s], pv[nx[s]]);
      VP_CHECK(c, pa[nx[s]] == pa[s], tagAt("link-sibling-parent", op).c_str(), "after %s: siblings %d and %d name different parents (%d, %d)", op, s, nx[s], pa[s], pa[nx[s]]);
    }
    if (pv[s] >= 0) VP_CHECK(c, nx[pv[s]] == s, tagAt("link-next-prev", op).c_str(), "after %s: node %d has prev %d, but the next of %d is %d", op, s, pv[s], pv[s], nx[pv[s]]);
    if (ch[s] >= 0) {
      VP_CHECK(c, pa[ch[s]] == s, tagAt("link-child-parent", op).c_str(), "after %s: node %d has first child %d, whose parent is %d", op, s, ch[s], pa[ch[s]]);
      VP_CHECK(c, pv[ch[s]] < 0, tagAt("link-children-head", op).c_str(), "after %s: children of node %d is %d, which is not a list head (prev %d)", op, s, ch[s], pv[ch[s]]);
    }
    if (pa[s] >= 0 && pv[s] < 0)
      VP_CHECK(c, ch[pa[s]] == s, tagAt("link-children-head", op).c_str(), "after %s: node %d heads a list under parent %d, whose children link is %d", op, s, pa[s], ch[pa[s]]);
  }
  // parent chains end
  for (int s : live) {
    size_t steps = 0;
    for (int x = s; x >= 0; x = pa[x]) VP_CHECK(c, ++steps <= live.size(), tagAt("cycle", op).c_str(), "after %s: parent chain of node %d does not end", op, s);
  }
  Forest f;
  f.parent = pa;
  f.kids.assign(N, {});
  std::vector<char> seen(N, 0);
  for (int s : live) {
    if (pv[s] >= 0) continue;
    std::vector<int> l;
    for (int x = s; x >= 0; x = nx[x]) {
      VP_CHECK(c, !seen[x] && l.size() <= live.size(), tagAt("cycle", op).c_str(), "after %s: node %d is reached twice along next links", op, x);
      seen[x] = 1;
      l.push_back(x);
    }
    if (pa[s] >= 0) f.kids[pa[s]] = l; else f.tops.push_back(l);
  }
  for (int s : live) VP_CHECK(c, seen[s], tagAt("cycle", op).c_str(), "after %s: node %d is on a sibling ring without a head", op, s);
  return f;
}

static std::vector<int> without(const std::vector<int> &v, const std::set<int> &W) {
  std::vector<int> r;
  for (int x : v) if (!W.count(x)) r.push_back(x);
  return r;
}
static std::string showv(const std::vector<int> &v) {
  std::string r = "[";
  for (size_t i = 0; i < v.size(); i++) r += (i ? " " : "") + std::to_string(v[i]);
  return r + "]";
}

// observed forest == expected model, except for the position of the nodes in W inside their list
static void compare(Ctx &c, const Model &E, const Forest &A, const std::set<int> &W, const char *op) {
  std::string tag = tagAt("shape", op);
  for (int s : E.liveSlots()) {
    VP_CHECK(c, A.parent[s] == E.n[s].parent, tag.c_str(), "after %s: node %d has parent %d, expected %d   (expected forest %s)", op, s, A.parent[s], E.n[s].parent, E.show().c_str());
    std::vector<int> a = A.kids[s], e = E.n[s].kids;
    VP_CHECK(c, without(a, W) == without(e, W), tag.c_str(), "after %s: children of node %d are %s, expected %s (order of the nodes placed by the step is free)", op, s, showv(a).c_str(), showv(e).c_str());
    std::sort(a.begin(), a.end()); std::sort(e.begin(), e.end());
    VP_CHECK(c, a == e, tag.c_str(), "after %s: children of node %d are the set %s, expected %s", op, s, showv(a).c_str(), showv(e).c_str());
  }
  VP_CHECK(c, A.tops.size() == E.tops.size(), tag.c_str(), "after %s: %zu top-level lists, expected %zu (%s)", op, A.tops.size(), E.tops.size(), E.show().c_str());
  for (auto &e : E.tops) {
    const std::vector<int> *a = 0;
    for (auto &cand : A.tops) if (std::find(cand.begin(), cand.end(), e[0]) != cand.end()) a = &cand;
    VP_CHECK(c, a != 0, tag.c_str(), "after %s: node %d should be in a top-level list", op, e[0]);
    VP_CHECK(c, without(*a, W) == without(e, W), tag.c_str(), "after %s: top-level list is %s, expected %s (order of the nodes placed by the step is free)", op, showv(*a).c_str(), showv(e).c_str());
    std::vector<int> as = *a, es = e;
    std::sort(as.begin(), as.end()); std::sort(es.begin(), es.end());
    VP_CHECK(c, as == es, tag.c_str(), "after %s: top-level list holds %s, expected %s", op, showv(as).c_str(), showv(es).c_str());
  }
}

static int holders(const Model &m, const CountMeta *cm) { int n = 0; for (int s : m.liveSlots()) if (m.n[s].vkind == 1 && m.n[s].cm == cm) ++n; return n; }
// names and values of all live nodes are what the model says
static void check_payload(Ctx &c, World &w, const char *op) {
  for (int s : w.m.liveSlots()) {
    const MNode &mn = w.m.n[s];
    const char *id = mpt_node_ident(mn.p);
    if (mn.binary) VP_CHECK(c, id == 0 && mn.p->ident._charset == 0 && mn.p->ident._len == mn.name.size() && !memcmp(mpt_identifier_data(&mn.p->ident), mn.name.data(), mn.name.size()), tagAt("name", op).c_str(),
                            "after %s: node %d no longer carries its binary name of %zu bytes (charset %u, length %u)", op, s, mn.name.size(), (unsigned)mn.p->ident._charset, (unsigned)mn.p->ident._len);
    else if (!mn.named) VP_CHECK(c, id == 0 && mn.p->ident._len == 0, tagAt("name", op).c_str(), "after %s: unnamed node %d has a name of length %u", op, s, (unsigned)mn.p->ident._len);
    else VP_CHECK(c, id && mn.name == id && mn.p->ident._len == mn.name.size() + 1, tagAt("name", op).c_str(), "after %s: node %d is named '%.40s' (len %u), expected '%.40s'", op, s, id ? id : "(null)", (unsigned)mn.p->ident._len, mn.name.c_str());
    VP_CHECK(c, (metatype *)mn.p->_meta == mn.mt, tagAt("value", op).c_str(), "after %s: node %d holds another value object than the one it was given", op, s);
    if (mn.vkind == 1) VP_CHECK(c, mn.cm->refs == holders(w.m, mn.cm), tagAt("value-released", op).c_str(), "after %s: value #%d of live node %d counts %d handles, %d nodes hold it", op, mn.cm->serial, s, mn.cm->refs, holders(w.m, mn.cm));
    if (mn.vkind == 1) VP_CHECK(c, mn.cm->released == 0, tagAt("value-released", op).c_str(), "after %s: value of live node %d was released %d time(s)", op, s, mn.cm->released);
    if (mn.vkind == 2) {
      size_t len = 0;
      const char *d = mpt_node_data(mn.p, &len);
      VP_CHECK(c, d && mn.text == std::string(d, strnlen(d, len)), tagAt("value", op).c_str(), "after %s: text value of node %d reads '%.40s', expected '%.40s'", op, s, d ? d : "(null)", mn.text.c_str());
    }
  }
}

// nodes that the step had to release
static void check_freed(Ctx &c, World &w, const std::vector<int> &gone, const char *op) {
  for (int s : gone) {
    MNode &mn = w.m.n[s];
    VP_CHECK(c, __asan_address_is_poisoned((void *)mn.p), tagAt("not-freed", op).c_str(), "after %s: node %d should have been released but its memory is still allocated", op, s);
    if (mn.vkind == 1 && holders(w.m, mn.cm) > 0) continue;  // other nodes still hold the (shared) value: checked with them
    if (mn.vkind == 1) VP_CHECK(c, mn.cm->released == 1, tagAt("value-released", op).c_str(), "after %s: value of released node %d was released %d time(s), expected once", op, s, mn.cm->released);
  }
}

// everything together; adopts the observed order into the model
static void settle(Ctx &c, World &w, Model &E, const std::set<int> &W, const std::vector<int> &gone, const char *op) {
  for (int s : gone) E.n[s].live = false;
  Forest A = observe(c, E, op);
  compare(c, E, A, W, op);
  for (int s : E.liveSlots()) E.n[s].kids = A.kids[s];
  E.tops = A.tops;
  w.m = E;
  // a released counting value must not be released again later, a live one never: checked in check_payload/check_freed
  check_freed(c, w, gone, op);
  check_payload(c, w, op);
  for (auto &cm : w.metas) VP_CHECK(c, cm.released <= 1, tagAt("value-released", op).c_str(), "after %s: counting value #%d was released %d times", op, cm.serial, cm.released);
  if (c.verbose()) c.logf("      forest: %s", w.m.show().c_str());
}

// ---------------------------------------------------------------------------------------------------------------
static int pickOf(Ctx &c, const std::vector<int> &v) { return v[c.pick(v.size())]; }

// A share of the names is binary identifier data (mpt_identifier_set(id, NULL, len) + filling the bytes: charset 0,
// length > 0), decided by what is drawn anyway: two equal letters -> 3 bytes (inline), the long-name lengths 21/24/85/300
// -> that many bytes (allocated, or inline in a fitted node).
static std::string binaryBytes(size_t len, unsigned salt) {
  std::string b(len, '\0');
  for (size_t i = 0; i < len; i++) b[i] = (char)((i * 37 + salt * 11 + (i % 5 == 2 ? 0 : 1 + i / 3)) & 0xff);
  if (len > 1) b[1] = 0;  // a zero inside: not a C string
  return b;
}
static std::string drawName(Ctx &c, bool &named, bool &fit, bool &binary) {
  static const char A[] = "abc";
  named = true;
  binary = false;
  fit = c.flip();  // mpt_node_new(len + 1) like mpt_node_append, or default-size node
  switch (c.weighted({10, 3, 1, 1})) {
    case 0: return std::string(1, A[c.pick(3)]);
    case 1: { std::string s; s += A[c.pick(3)]; s += A[c.pick(3)]; if (s[0] == s[1]) { named = false; binary = true; c.label("name:binary"); return binaryBytes(3, (unsigned)s[0]); } return s; }
    case 2: named = false; return "";
    default: {
      size_t len = c.choose<size_t>({18, 19, 20, 21, 23, 24, 60, 83, 84, 85, 250, 300});
      c.label("name:long");
      size_t letter = c.pick(3);
      if (len == 21 || len == 24 || len == 85 || len == 300) { named = false; binary = true; c.label("name:binary"); return binaryBytes(len, (unsigned)letter); }
      return std::string(len, A[letter]);
    }
  }
}

static int newNode(Ctx &c, World &w) {
  bool named, fit, binary;
  std::string name = drawName(c, named, fit, binary);
  node *p = mpt_node_new(named && fit ? name.size() + 1 : binary && fit ? name.size() : 0);
  VP_CHECK(c, p, "new-null", "mpt_node_new returned NULL");
  VP_CHECK(c, !p->next && !p->prev && !p->parent && !p->children && !p->_meta, "new-links", "fresh node has links set");
  w.ever.push_back(p);
  if (named) VP_CHECK(c, mpt_identifier_set(&p->ident, name.c_str(), (int)name.size()), "new-name", "mpt_identifier_set refused a name of %zu bytes", name.size());
  MNode mn;
  if (binary) {
    void *d = mpt_identifier_set(&p->ident, 0, (int)name.size());
    VP_CHECK(c, d, "new-name", "mpt_identifier_set refused %zu bytes of non-printable identifier data", name.size());
    memcpy(d, name.data(), name.size());
  }
  mn.p = p; mn.live = true; mn.named = named; mn.binary = binary; mn.name = name;
  switch (c.weighted({3, 8, 1, 4})) {
    case 0: break;
    case 1: mn.vkind = 1; mn.cm = w.newMeta((int)c.range(0, 3), true, 0); mn.cm->shareable = mn.cm->payload & 1; break;  // odd payload: addref hands out handles
    case 2: mn.vkind = 1; mn.cm = w.newMeta((int)c.range(0, 3), false, 0); c.label("value:unclonable"); break;
    default: {
      size_t len = c.near({0, 1, 30, 200}, 200);  // >= 250 is refused by mpt_meta_new on this tree (C09), kept below
      std::string t(len, 'x');
      for (size_t i = 0; i < len; i++) t[i] = "xyz0 "[(i * 7 + len) % 5];
      const char *tp = t.c_str();
      CObj<value> v;
      v->_addr = &tp;
      v->_type = 's';
      metatype *mt = mpt_meta_new(v);
      if (mt) { mn.vkind = 2; mn.text = t; mn.mt = mt; c.label("value:text"); }
      else c.label("value:text-refused");
    }
  }
  if (mn.vkind == 1) mn.mt = (metatype *)mn.cm;
  p->_meta = mn.mt;
  int s = (int)w.m.n.size();
  w.m.n.push_back(mn);
  w.m.tops.push_back({s});
  w.created++;
  if (c.verbose()) c.logf("  new -> node %d name=%s value=%s", s, named ? (name.size() > 8 ? fmtstr("%c x %zu", name[0], name.size()).c_str() : name.c_str()) : binary ? fmtstr("(binary, %zu bytes)", name.size()).c_str() : "(none)",
         mn.vkind == 0 ? "none" : mn.vkind == 1 ? fmtstr("count#%d payload %d%s", mn.cm->serial, mn.cm->payload, mn.cm->clonable ? "" : " unclonable").c_str() : fmtstr("text[%zu]", mn.text.size()).c_str());
  return s;
}

enum { MaxCreated = 12, MaxLive = 30 };

// a detached node to insert somewhere; makes one when there is none
static int takeDetached(Ctx &c, World &w, const char *&how) {
  std::vector<int> d;
  for (int s : w.m.liveSlots()) if (w.m.detached(s)) d.push_back(s);
  // leave at least one other node as target
  if (!d.empty() && w.m.liveSlots().size() >= 2) { how = "detached"; return pickOf(c, d); }
  if (w.created < MaxCreated) { how = "fresh"; return newNode(c, w); }
  std::vector<int> live = w.m.liveSlots();
  if (live.size() < 2) { how = "none"; return -1; }
  // population used up and everything is linked: take a node out of its list first
  int n = pickOf(c, live);
  c.logf("  node_unlink(%d)   (to get a detached node)", n);
  mpt_node_unlink(w.m.n[n].p);
  Model E = w.m;
  E.detach(n);
  settle(c, w, E, std::set<int>(), std::vector<int>(), "node_unlink");
  how = "unlinked";
  return n;
}

static std::vector<int> targetsOutside(const Model &m, int n) {
  std::vector<int> v;
  for (int s : m.liveSlots()) if (!m.inSubtree(s, n)) v.push_back(s);
  return v;
}

static int drawPos(Ctx &c) { return c.choose<int>({0, 1, 2, 3, -1, -2, -3, 7, -7, 0, 1, -1}); }

struct Visit { std::vector<std::pair<node *, size_t>> v; };
static int collect(node *n, void *ctx, size_t depth) { ((Visit *)ctx)->v.push_back({n, depth}); return 0; }

static bool wants(const Model &m, int s, int flags) { return m.n[s].kids.empty() ? (flags & TraverseLeafs) : (flags & TraverseNonLeafs); }
static void expPre(const Model &m, int s, size_t d, int fl, std::vector<std::pair<int, size_t>> &o) { if (wants(m, s, fl)) o.push_back({s, d}); for (int k : m.n[s].kids) expPre(m, k, d + 1, fl, o); }
static void expPost(const Model &m, int s, size_t d, int fl, std::vector<std::pair<int, size_t>> &o) { for (int k : m.n[s].kids) expPost(m, k, d + 1, fl, o); if (wants(m, s, fl)) o.push_back({s, d}); }
static void expIn(const Model &m, int s, size_t d, int fl, std::vector<std::pair<int, size_t>> &o) {
  const std::vector<int> &k = m.n[s].kids;
  if (!k.empty()) expIn(m, k[0], d + 1, fl, o);
  if (wants(m, s, fl)) o.push_back({s, d});
  for (size_t i = 1; i < k.size(); i++) expIn(m, k[i], d + 1, fl, o);
}

// mpt_node_move as documented: elements of the source list without a namesake in the target list move there;
// for the others the children are merged into / handed to the namesake. The target list is addressed through one of
// its members (it never becomes empty), because top-level lists change their index when a source list empties.
static void modelMove(Model &E, std::vector<int> srcCopy, int dmember, std::set<int> &W, bool &deep) {
  for (int s : srcCopy) {
    int match = -1;
    for (int d : E.listOf(dmember)) if (E.key(d) == E.key(s)) { match = d; break; }
    if (match < 0) {
      if (!E.n[s].kids.empty()) deep = true;
      E.removeFromList(s);
      E.n[s].parent = E.n[dmember].parent;
      E.listOf(dmember).push_back(s);
      W.insert(s);
      continue;
    }
    if (E.n[s].kids.empty()) continue;
    deep = true;
    if (!E.n[match].kids.empty()) {
      modelMove(E, E.n[s].kids, E.n[match].kids[0], W, deep);
    } else {
      E.n[match].kids = E.n[s].kids;
      E.n[s].kids.clear();
      for (int k : E.n[match].kids) E.n[k].parent = match;
    }
  }
}

// clone of the model nodes `roots` (a sibling sequence) with subtrees; returns false when a value refuses to clone
static bool clonable(const Model &m, int s, bool deep) {
  if (m.n[s].vkind == 1 && !m.n[s].cm->clonable) return false;
  if (deep) for (int k : m.n[s].kids) if (!clonable(m, k, true)) return false;
  return true;
}

// compares clone structure `q` (library memory, not yet in the model) with model node s; registers the new nodes
static int adoptClone(Ctx &c, World &w, Model &E, node *q, int src, bool deep, node *expParent, node *expPrev, std::set<const node *> &seen, const char *op) {
  std::string tl = tagAt("clone-links", op), tc = tagAt("clone-content", op);
  VP_CHECK(c, !__asan_region_is_poisoned(q, sizeof(node)), tl.c_str(), "%s: clone of node %d lies in released memory", op, src);
  VP_CHECK(c, seen.insert(q).second, tl.c_str(), "%s: clone structure reaches a node twice", op);
  for (int s : E.liveSlots()) VP_CHECK(c, E.n[s].p != q, tl.c_str(), "%s: clone of node %d is the existing node %d", op, src, s);
  VP_CHECK(c, q->parent == expParent, tl.c_str(), "%s: clone of node %d has parent %p, expected %s", op, src, (void *)q->parent, expParent ? "the clone of its parent" : "none");
  VP_CHECK(c, q->prev == expPrev, tl.c_str(), "%s: clone of node %d has a wrong prev link", op, src);
  const MNode &sn = E.n[src];
  MNode mn;
  mn.p = q; mn.live = true; mn.named = sn.named; mn.binary = sn.binary; mn.name = sn.name;
  const char *id = mpt_node_ident(q);
  VP_CHECK(c, mpt_identifier_inequal(&q->ident, &sn.p->ident) == 0, tc.c_str(), "%s: mpt_identifier_inequal says the clone of node %d is named differently from its source (charset %u/%u, length %u/%u)", op, src,
           (unsigned)q->ident._charset, (unsigned)sn.p->ident._charset, (unsigned)q->ident._len, (unsigned)sn.p->ident._len);
  if (sn.binary) VP_CHECK(c, !id && q->ident._charset == 0 && q->ident._len == sn.name.size() && !memcmp(mpt_identifier_data(&q->ident), sn.name.data(), sn.name.size()), tc.c_str(),
                          "%s: clone of node %d does not carry the %zu bytes of binary name of its source (charset %u, length %u)", op, src, sn.name.size(), (unsigned)q->ident._charset, (unsigned)q->ident._len);
  else if (!sn.named) VP_CHECK(c, !id && q->ident._len == 0, tc.c_str(), "%s: clone of unnamed node %d has a name", op, src);
  else VP_CHECK(c, id && sn.name == id, tc.c_str(), "%s: clone of node %d is named '%.40s', source '%.40s'", op, src, id ? id : "(null)", sn.name.c_str());
  if (sn.vkind == 0) VP_CHECK(c, !q->_meta, tc.c_str(), "%s: clone of value-less node %d has a value", op, src);
  else if (sn.vkind == 1) {
    CountMeta *cm = w.asCount(q->_meta);
    VP_CHECK(c, cm && cm != sn.cm && cm->clone_of == sn.cm && cm->payload == sn.cm->payload && cm->released == 0, tc.c_str(), "%s: value of the clone of node %d is not a fresh clone of the source value", op, src);
    for (int s : E.liveSlots()) VP_CHECK(c, E.n[s].cm != cm, tc.c_str(), "%s: clone of node %d shares its value object with node %d", op, src, s);
    mn.vkind = 1; mn.cm = cm; mn.mt = (metatype *)cm;
  } else {
    VP_CHECK(c, q->_meta && !w.asCount(q->_meta), tc.c_str(), "%s: clone of node %d lost its text value", op, src);
    size_t len = 0;
    const char *d = mpt_node_data(q, &len);
    VP_CHECK(c, d && sn.text == std::string(d, strnlen(d, len)), tc.c_str(), "%s: text value of the clone of node %d differs", op, src);
    mn.vkind = 2; mn.text = sn.text; mn.mt = (metatype *)q->_meta;
  }
  int s = (int)E.n.size();
  E.n.push_back(mn);
  w.ever.push_back(q);
  if (!deep) {
    VP_CHECK(c, !q->children, tl.c_str(), "%s: shallow clone of node %d has children", op, src);
    return s;
  }
  node *k = q->children, *prev = 0;
  for (int sk : E.n[src].kids) {
    VP_CHECK(c, k != 0, tagAt("clone-shape", op).c_str(), "%s: clone of node %d has fewer children than the source (%zu)", op, src, E.n[src].kids.size());
    int ks = adoptClone(c, w, E, k, sk, true, q, prev, seen, op);
    E.n[ks].parent = s;
    E.n[s].kids.push_back(ks);
    prev = k;
    VP_CHECK(c, !__asan_region_is_poisoned(k, sizeof(node)), tl.c_str(), "%s: released node in clone", op);
    k = k->next;
  }
  VP_CHECK(c, k == 0, tagAt("clone-shape", op).c_str(), "%s: clone of node %d has more children than the source (%zu)", op, src, E.n[src].kids.size());
  return s;
}


// ---------------------------------------------------------------------------------------------------------------
// mpt_parse_node into an existing node: a small configuration text in the default format
//   name = value      option          name {       section (children until the closing line)
//   # ...             comment         }
// The text is rendered from a drawn tree, so the elements the parser has to deliver are known.
struct PNode { std::string name, value; bool section = false; std::vector<PNode> kids; };
static size_t pcount(const std::vector<PNode> &v) { size_t n = v.size(); for (auto &k : v) n += pcount(k.kids); return n; }

static void drawNoise(Ctx &c, std::string &out, const std::string &ind) {
  switch (c.weighted({12, 2, 2, 1})) {
    case 0: break;
    case 1: out += "\n"; break;
    case 2: out += ind + "# a = comment\n"; break;
    default: out += "  \t\n" + ind + "#\n"; break;
  }
}
static std::vector<PNode> drawPTree(Ctx &c, const std::vector<std::string> &names, int depth, size_t maxn) {
  std::vector<PNode> v;
  size_t n = depth ? c.range(1, 3) : c.range(1, maxn);
  for (size_t i = 0; i < n; i++) {
    PNode p;
    p.name = names[c.pick(names.size())];
    if (depth < 2 && c.chance(depth ? 50 : 90)) {
      p.section = true;
      if (!c.chance(40)) p.kids = drawPTree(c, names, depth + 1, maxn);  // else: empty section
    } else {
      size_t len = c.range(1, 5);
      uint8_t salt = c.u8();
      for (size_t k = 0; k < len; k++) p.value += "v0w1x2y3z"[(k * 4 + salt) % 9];
    }
    v.push_back(p);
  }
  return v;
}
static void renderPTree(Ctx &c, const std::vector<PNode> &v, std::string &out, int depth) {
  std::string ind(depth * (size_t)2, ' ');
  for (auto &p : v) {
    drawNoise(c, out, ind);
    if (p.section) {
      out += ind + p.name + " {\n";
      renderPTree(c, p.kids, out, depth + 1);
      out += ind + "}\n";
    } else out += ind + p.name + " = " + p.value + "\n";
  }
  drawNoise(c, out, ind);
}
struct TextSource {
  std::string text; size_t pos = 0;
  static int getc(void *arg) { TextSource *s = (TextSource *)arg; return s->pos < s->text.size() ? (unsigned char)s->text[s->pos++] : -2; }
};
// model slots (without a library node yet) for the elements the text describes; returns the sibling list
static std::vector<int> addParsed(Model &E, const std::vector<PNode> &v, int parent) {
  std::vector<int> l;
  for (auto &p : v) {
    MNode mn;
    mn.live = true; mn.named = true; mn.name = p.name; mn.parent = parent;
    if (!p.section) { mn.vkind = 2; mn.text = p.value; }
    int s = (int)E.n.size();
    E.n.push_back(mn);
    std::vector<int> kids = addParsed(E, p.kids, s);
    E.n[s].kids = kids;
    l.push_back(s);
  }
  return l;
}
// gives the parser-made nodes below `first` to the model slots that wait for them (in text order; nodes that existed
// before may stand anywhere in between, compare() decides about those)
static void bindParsed(Ctx &c, World &w, Model &E, int parent, node *first, const std::set<const node *> &old) {
  std::vector<int> fresh;
  for (int k : E.n[parent].kids) if (!E.n[k].p) fresh.push_back(k);
  size_t fi = 0, steps = 0;
  for (node *q = first; q; q = q->next) {
    VP_CHECK(c, ++steps <= 200, "cycle@parse_node", "children list of node %d does not end after mpt_parse_node", parent);
    VP_CHECK(c, !__asan_region_is_poisoned(q, sizeof(node)), "dangling-link@parse_node", "after mpt_parse_node the children list of node %d runs through released memory", parent);
    if (old.count(q)) continue;
    VP_CHECK(c, fi < fresh.size(), "parse-shape", "after mpt_parse_node node %d has more new children than the text describes (%zu)", parent, fresh.size());
    int s = fresh[fi++];
    MNode &mn = E.n[s];
    for (node *e : w.ever) VP_CHECK(c, e != q, "dangling-link@parse_node", "after mpt_parse_node the children list of node %d holds a node that was released earlier", parent);
    const char *id = mpt_node_ident(q);
    VP_CHECK(c, id && mn.name == id, "parse-content", "parsed child %zu of node %d is named '%.20s', the text says '%s'", fi - 1, parent, id ? id : "(none)", mn.name.c_str());
    if (mn.vkind == 2) {
      size_t len = 0;
      const char *d = q->_meta ? mpt_node_data(q, &len) : 0;
      VP_CHECK(c, d && mn.text == std::string(d, strnlen(d, len)), "parse-content", "parsed element '%s' below node %d has value '%.20s', the text says '%s'", mn.name.c_str(), parent, d ? d : "(none)", mn.text.c_str());
    } else VP_CHECK(c, !q->_meta, "parse-content", "parsed section '%s' below node %d has a value", mn.name.c_str(), parent);
    mn.p = q;
    mn.mt = (metatype *)q->_meta;
    w.ever.push_back(q);
    bindParsed(c, w, E, s, q->children, old);
  }
  VP_CHECK(c, fi == fresh.size(), "parse-shape", "after mpt_parse_node node %d has %zu new children, the text describes %zu", parent, fi, fresh.size());
}

// path handler that hands every element to mpt_node_append (what mpt_parse_node's own handler does)
static int appendHandler(void *ctx, const path *p, const value *val, int last, int curr) {
  node **pos = (node **)ctx, *next = mpt_node_append(*pos, p, val, last, curr);
  if (!next) return BadOperation;
  *pos = next;
  return 0;
}
// like bindParsed, for a parse that stopped half-way (allocation failure): the elements that were appended before the
// stop are there, complete and in text order; what is missing is collected in `absent`
static void bindParsedPrefix(Ctx &c, World &w, Model &E, int parent, node *first, const std::set<const node *> &old, std::vector<int> &absent) {
  std::vector<int> fresh;
  for (int k : E.n[parent].kids) if (!E.n[k].p) fresh.push_back(k);
  size_t fi = 0, steps = 0;
  for (node *q = first; q; q = q->next) {
    VP_CHECK(c, ++steps <= 200, "cycle@node_append", "children list of node %d does not end after the failed parse", parent);
    VP_CHECK(c, !__asan_region_is_poisoned(q, sizeof(node)), "dangling-link@node_append", "after the failed parse the children list of node %d runs through released memory", parent);
    if (old.count(q)) continue;
    VP_CHECK(c, fi < fresh.size(), "parse-shape", "after the failed parse node %d has more new children than the text describes (%zu)", parent, fresh.size());
    int s = fresh[fi++];
    MNode &mn = E.n[s];
    const char *id = mpt_node_ident(q);
    VP_CHECK(c, id && mn.name == id, "parse-content", "element %zu appended below node %d before the failure is named '%.20s', the text says '%s'", fi - 1, parent, id ? id : "(none)", mn.name.c_str());
    if (mn.vkind == 2) {
      size_t len = 0;
      const char *d = q->_meta ? mpt_node_data(q, &len) : 0;
      VP_CHECK(c, d && mn.text == std::string(d, strnlen(d, len)), "parse-content", "element '%s' appended below node %d before the failure has value '%.20s', the text says '%s'", mn.name.c_str(), parent, d ? d : "(none)", mn.text.c_str());
    } else VP_CHECK(c, !q->_meta, "parse-content", "section '%s' appended below node %d before the failure has a value", mn.name.c_str(), parent);
    mn.p = q;
    mn.mt = (metatype *)q->_meta;
    w.ever.push_back(q);
    bindParsedPrefix(c, w, E, s, q->children, old, absent);
  }
  for (; fi < fresh.size(); fi++) E.subtree(fresh[fi], absent);
}

// ---------------------------------------------------------------------------------------------------------------
static void run(Ctx &c) {
  World w;
  Model &m = w.m;
  bool nt = false;
  const std::set<int> none;
  const std::vector<int> nobody;
  int steps = 0;

  // a few nodes to start with, so that short cases do something
  size_t init = c.range(1, 4);
  for (size_t i = 0; i < init; i++) newNode(c, w);

  while (c.more() && ++steps <= 80) {
    std::vector<int> live = m.liveSlots();
    if (live.empty()) { if (w.created >= MaxCreated) break; newNode(c, w); continue; }
    Model E = m;
    // (the weights stay as they are: the corpus files are decoded through them. mpt_parse_node takes the turns in which a
    //  drawn operation has nothing to work on, see `idle`)
    size_t op = c.weighted({6, 8, 8, 8, 6, 6, 8, 8, 4, 4, 3, 3, 2, 2, 3, 2});
    bool idle = false, extra = false;
    switch (op) {
      case 0: {  // new
        if (w.created >= MaxCreated) {  // population used up: release a detached subtree instead
          std::vector<int> d;
          for (int s : live) if (m.detached(s)) d.push_back(s);
          if (d.empty()) { c.label("skip:population"); idle = true; break; }
          int n = pickOf(c, d);
          std::vector<int> gone;
          m.subtree(n, gone);
          c.logf("  node_destroy(%d) detached, %zu nodes", n, gone.size());
          node *r = mpt_node_destroy(m.n[n].p);
          VP_CHECK(c, r == 0, "return@node_destroy", "mpt_node_destroy of a detached node refused");
          E.removeFromList(n);
          settle(c, w, E, none, gone, "node_destroy");
          c.label("op:destroy");
          if (gone.size() > 1) c.label("destroy:subtree");
          break;
        }
        newNode(c, w);
        E = m;
        settle(c, w, E, none, nobody, "new");
        c.label("op:new");
        break;
      }
      case 1: case 2: {  // list insertion by position / by name
        const char *how;
        int n = takeDetached(c, w, how);
        if (n < 0) { c.label("skip:no-detached"); idle = true; break; }
        E = m;
        std::vector<int> tg = targetsOutside(m, n);
        if (tg.empty()) { c.label("skip:no-target"); idle = true; break; }
        int first = pickOf(c, tg), pos = drawPos(c);
        // by name: `first` is the first node of the list (mpt_node_insert hands in parent->children, nothing in /repo
        // calls mpt_node_add); with a later node and namesakes only in front of it the by-name search finds no anchor
        if (op == 2) first = m.listOfC(first)[0];
        const char *opn = op == 1 ? "gnode_add" : "node_add";
        c.logf("  %s(first=%d, pos=%d, node=%d)", opn, first, pos, n);
        node *r = op == 1 ? mpt_gnode_add(m.n[first].p, pos, m.n[n].p) : mpt_node_add(m.n[first].p, pos, m.n[n].p);
        VP_CHECK(c, r == m.n[n].p, tagAt("return", opn).c_str(), "%s does not return the inserted node", opn);
        E.removeFromList(n);
        E.n[n].parent = E.n[first].parent;
        E.listOf(first).push_back(n);
        // listOf() of a top-level target needs the parent set first: done above (parent -1 -> topIndex(first))
        settle(c, w, E, {n}, nobody, opn);
        c.label(op == 1 ? "op:gnode_add" : "op:node_add");
        if (pos < 0) c.label("pos:negative"); else if (pos > 1) c.label("pos:nth"); else c.label(pos ? "pos:first" : "pos:last");
        break;
      }
      case 3: case 4: {  // child insertion by position / by name
        const char *how;
        int n = takeDetached(c, w, how);
        if (n < 0) { c.label("skip:no-detached"); idle = true; break; }
        E = m;
        std::vector<int> tg = targetsOutside(m, n);
        if (tg.empty()) { c.label("skip:no-target"); idle = true; break; }
        int par = pickOf(c, tg), pos = drawPos(c);
        const char *opn = op == 3 ? "gnode_insert" : "node_insert";
        c.logf("  %s(parent=%d, pos=%d, node=%d)", opn, par, pos, n);
        int r = op == 3 ? mpt_gnode_insert(m.n[par].p, pos, m.n[n].p) : mpt_node_insert(m.n[par].p, pos, m.n[n].p);
        VP_CHECK(c, r == 0, tagAt("return", opn).c_str(), "%s returned %d", opn, r);
        E.removeFromList(n);
        E.n[n].parent = par;
        E.n[par].kids.push_back(n);
        settle(c, w, E, {n}, nobody, opn);
        c.label(op == 3 ? "op:gnode_insert" : "op:node_insert");
        if (E.n[par].kids.size() > 1) c.label("insert:into-populated");
        break;
      }
      case 5: {  // after / before: exact position
        const char *how;
        int n = takeDetached(c, w, how);
        if (n < 0) { c.label("skip:no-detached"); idle = true; break; }
        E = m;
        std::vector<int> tg = targetsOutside(m, n);
        if (tg.empty()) { c.label("skip:no-target"); idle = true; break; }
        int at = pickOf(c, tg);
        bool after = c.flip();
        const char *opn = after ? "gnode_after" : "gnode_before";
        c.logf("  %s(position=%d, node=%d)", opn, at, n);
        node *r = after ? mpt_gnode_after(m.n[at].p, m.n[n].p) : mpt_gnode_before(m.n[at].p, m.n[n].p);
        VP_CHECK(c, r == m.n[n].p, tagAt("return", opn).c_str(), "%s does not return the inserted node", opn);
        E.removeFromList(n);
        E.n[n].parent = E.n[at].parent;
        std::vector<int> &l = E.listOf(at);
        auto it = std::find(l.begin(), l.end(), at);
        bool head = it == l.begin();
        l.insert(after ? it + 1 : it, n);
        settle(c, w, E, none, nobody, opn);
        c.label(after ? "op:gnode_after" : "op:gnode_before");
        if (!after && head && E.n[n].parent >= 0) c.label("before:new-first-child");
        break;
      }
      case 6: {  // unlink
        int n = pickOf(c, live);
        c.logf("  node_unlink(%d)", n);
        const std::vector<int> &l = m.listOfC(n);
        bool head = l[0] == n && l.size() > 1;
        mpt_node_unlink(m.n[n].p);
        E.detach(n);
        settle(c, w, E, none, nobody, "node_unlink");
        c.label("op:unlink");
        if (head) { c.label("unlink:list-head"); nt = true; }
        break;
      }
      case 7: {  // move / merge between two trees
        if (m.tops.size() < 2) { if (w.created < MaxCreated) newNode(c, w); c.label("skip:one-tree"); extra = true; break; }
        E = m;
        // source list: a top-level list or the children of a node
        int scomp = (int)c.pick(m.tops.size());
        std::vector<int> inS;
        for (int r : m.tops[scomp]) m.subtree(r, inS);
        std::vector<int> sowners;
        for (int s : inS) if (!m.n[s].kids.empty()) sowners.push_back(s);
        int sowner = (!sowners.empty() && c.chance(96)) ? pickOf(c, sowners) : -1;
        // target list in another tree
        std::vector<int> comps;
        for (size_t i = 0; i < m.tops.size(); i++) if ((int)i != scomp) comps.push_back((int)i);
        int dcomp = pickOf(c, comps);
        std::vector<int> inD;
        for (int r : m.tops[dcomp]) m.subtree(r, inD);
        std::vector<int> downers;
        for (int s : inD) if (!m.n[s].kids.empty()) downers.push_back(s);
        int downer = (!downers.empty() && c.chance(96)) ? pickOf(c, downers) : -1;
        std::vector<int> S = sowner >= 0 ? m.n[sowner].kids : m.tops[scomp];
        std::vector<int> D = downer >= 0 ? m.n[downer].kids : m.tops[dcomp];
        node *fromLocal = m.n[S[0]].p;
        node **from = sowner >= 0 ? &m.n[sowner].p->children : &fromLocal;
        if (c.verbose()) c.logf("  node_move(from=%s %s, dst=%s %s)", sowner >= 0 ? fmtstr("children of %d", sowner).c_str() : "top-level list", showv(S).c_str(),
               downer >= 0 ? fmtstr("children of %d", downer).c_str() : "top-level list", showv(D).c_str());
        size_t moved = mpt_node_move(from, m.n[D[0]].p);
        std::set<int> W;
        bool deep = false;
        modelMove(E, S, D[0], W, deep);
        if (c.verbose()) c.logf("      moved %zu, expected forest %s", moved, E.show().c_str());
        // the remaining source list must still be addressed by *from (mpt_parse_node clears what is left through it)
        if (sowner < 0) {
          std::vector<int> rest;
          for (int s : S) if (!W.count(s)) rest.push_back(s);
          node *want = rest.empty() ? 0 : m.n[rest[0]].p;
          VP_CHECK(c, fromLocal == want, "move-from@node_move", "after node_move the source reference points to %s, expected %s (remaining source list %s)",
                   fromLocal ? "another node" : "NULL", want ? fmtstr("its head %d", rest[0]).c_str() : "NULL", showv(rest).c_str());
        }
        settle(c, w, E, W, nobody, "node_move");
        c.label("op:move");
        if (!W.empty()) c.label("move:moved-some");
        if (W.size() < S.size()) c.label("move:name-clash");
        if (deep) { c.label("move:with-children"); nt = true; }
        break;
      }
      case 8: {  // clone
        int n = pickOf(c, live);
        int kind = (int)c.weighted({2, 3, 4});  // node / list / tree
        const char *opn = kind == 0 ? "node_clone" : kind == 1 ? "list_clone" : "tree_clone";
        std::vector<int> srcs;
        if (kind == 1) { const std::vector<int> &l = m.listOfC(n); srcs.assign(std::find(l.begin(), l.end(), n), l.end()); }
        else srcs.push_back(n);
        size_t total = 0;
        bool ok = true;
        int depth = 0;
        for (int s : srcs) {
          if (kind == 0) total += 1; else { std::vector<int> t; m.subtree(s, t); total += t.size(); depth = std::max(depth, m.depthBelow(s)); }
          if (!clonable(m, s, kind != 0)) ok = false;
        }
        if (live.size() + total > MaxLive) { c.label("skip:clone-too-big"); break; }
        if (c.verbose()) c.logf("  %s(%d)  sources %s, %zu nodes, depth %d, %s", opn, n, showv(srcs).c_str(), total, depth, ok ? "all values clonable" : "holds a value that refuses to clone");
        size_t metasBefore = w.metas.size();
        node *q = kind == 0 ? mpt_node_clone(m.n[n].p) : kind == 1 ? mpt_list_clone(m.n[n].p) : mpt_tree_clone(m.n[n].p);
        if (!ok) {
          // a value cannot be cloned: the only correct answer is a refusal that leaves nothing behind
          VP_CHECK(c, q == 0, tagAt("clone-incomplete", opn).c_str(), "%s returned a clone although a value inside refuses to be cloned (the clone cannot be equal to its source)", opn);
          for (size_t i = metasBefore; i < w.metas.size(); i++)
            VP_CHECK(c, w.metas[i].released == 1, tagAt("clone-refusal-leak", opn).c_str(), "%s failed but a value cloned on the way was released %d times", opn, w.metas[i].released);
          settle(c, w, E, none, nobody, opn);
          c.label("clone:refused-unclonable");
          break;
        }
        VP_CHECK(c, q != 0, tagAt("clone-null", opn).c_str(), "%s returned NULL for a structure of %zu nodes (depth %d) whose values are all clonable", opn, total, depth);
        std::set<const node *> seen;
        std::vector<int> tops;
        node *prev = 0;
        for (int s : srcs) {
          VP_CHECK(c, q != 0, tagAt("clone-shape", opn).c_str(), "%s: cloned list is shorter than the source", opn);
          int ns = adoptClone(c, w, E, q, s, kind != 0, 0, prev, seen, opn);
          tops.push_back(ns);
          prev = q;
          q = q->next;
        }
        VP_CHECK(c, q == 0, tagAt("clone-shape", opn).c_str(), "%s: clone continues behind the cloned sequence", opn);
        E.tops.push_back(tops);
        settle(c, w, E, none, nobody, opn);
        c.label(kind == 0 ? "op:node_clone" : kind == 1 ? "op:list_clone" : "op:tree_clone");
        if (kind && depth >= 1) { nt = true; c.label("clone:with-children"); }
        if (kind && depth >= 2) c.label("clone:depth>=2");
        break;
      }
      case 9: {  // clear
        int n = pickOf(c, live);
        std::vector<int> gone;
        for (int k : m.n[n].kids) m.subtree(k, gone);
        if (c.verbose()) c.logf("  node_clear(%d) releases %s", n, showv(gone).c_str());
        mpt_node_clear(m.n[n].p);
        E.n[n].kids.clear();
        settle(c, w, E, none, gone, "node_clear");
        c.label("op:clear");
        if (!gone.empty()) c.label("clear:non-empty");
        break;
      }
      case 10: {  // destroy
        int n = pickOf(c, live);
        bool linked = !m.detached(n);
        c.logf("  node_destroy(%d) %s", n, linked ? "linked: must refuse" : "detached");
        node *r = mpt_node_destroy(m.n[n].p);
        if (linked) {
          VP_CHECK(c, r == m.n[n].p, "return@node_destroy", "mpt_node_destroy of a linked node returned %s", r ? "another node" : "NULL (destroyed)");
          settle(c, w, E, none, nobody, "node_destroy");
          c.label("destroy:refused-linked");
        } else {
          VP_CHECK(c, r == 0, "return@node_destroy", "mpt_node_destroy of a detached node refused");
          std::vector<int> gone;
          m.subtree(n, gone);
          E.removeFromList(n);
          settle(c, w, E, none, gone, "node_destroy");
          c.label("op:destroy");
          if (gone.size() > 1) c.label("destroy:subtree");
        }
        break;
      }
      case 11: case 12: {  // swap children / switch positions: neither node is inside the other's subtree
        int a = pickOf(c, live);
        std::vector<int> cand;
        for (int s : live) if (s != a && !m.inSubtree(s, a) && !m.inSubtree(a, s)) cand.push_back(s);
        if (cand.empty()) { c.label("skip:no-partner"); idle = true; break; }
        int b = pickOf(c, cand);
        if (op == 11) {
          c.logf("  gnode_swap(%d, %d)", a, b);
          mpt_gnode_swap(m.n[a].p, m.n[b].p);
          std::swap(E.n[a].kids, E.n[b].kids);
          for (int k : E.n[a].kids) E.n[k].parent = a;
          for (int k : E.n[b].kids) E.n[k].parent = b;
          settle(c, w, E, none, nobody, "gnode_swap");
          c.label("op:swap");
          if (!E.n[a].kids.empty() || !E.n[b].kids.empty()) c.label("swap:with-children");
        } else {
          const std::vector<int> &la = m.listOfC(a);
          bool same = std::find(la.begin(), la.end(), b) != la.end();
          bool adjacent = false;
          if (same) { long ia = std::find(la.begin(), la.end(), a) - la.begin(), ib = std::find(la.begin(), la.end(), b) - la.begin(); adjacent = ia - ib == 1 || ib - ia == 1; }
          c.logf("  gnode_switch(%d, %d)%s", a, b, adjacent ? " adjacent siblings" : same ? " same list" : "");
          mpt_gnode_switch(m.n[a].p, m.n[b].p);
          // exchange the two positions
          int pa = E.n[a].parent, pb = E.n[b].parent;
          std::vector<int> &A = E.listOf(a);
          size_t ia = std::find(A.begin(), A.end(), a) - A.begin();
          std::vector<int> &B = E.listOf(b);
          size_t ib = std::find(B.begin(), B.end(), b) - B.begin();
          A[ia] = b;   // A and B may be the same vector: indices stay valid
          B[ib] = a;
          E.n[a].parent = pb;
          E.n[b].parent = pa;
          settle(c, w, E, none, nobody, "gnode_switch");
          c.label("op:switch");
          if (adjacent) c.label("switch:adjacent");
        }
        break;
      }
      case 13: {  // relink: no-op on a sound tree; restores prev/parent below the node from children/next
        bool spoil = c.flip();
        std::vector<int> owners;
        for (int s : live) if (!m.n[s].kids.empty()) owners.push_back(s);
        int n = (spoil && !owners.empty()) ? pickOf(c, owners) : pickOf(c, live);
        std::vector<int> below;
        for (int k : m.n[n].kids) m.subtree(k, below);
        size_t spoilt = 0;
        if (spoil) {
          for (int s : below) {
            node *p = m.n[s].p;
            unsigned bits = (unsigned)c.range(0, 3) | (below.size() == 1 ? 1u : 0u);
            if (bits & 1) { p->parent = c.flip() ? 0 : m.n[n].p == p->parent ? 0 : m.n[n].p; ++spoilt; }
            if ((bits & 2) && p->prev) { p->prev = 0; ++spoilt; }
          }
        }
        c.logf("  gnode_relink(%d)%s", n, spoilt ? fmtstr(" after spoiling %zu prev/parent links below it", spoilt).c_str() : "");
        mpt_gnode_relink(m.n[n].p);
        settle(c, w, E, none, nobody, spoilt ? "gnode_relink(restore)" : "gnode_relink");
        c.label(spoilt ? "op:relink-restore" : "op:relink");
        break;
      }
      case 14: {  // traverse
        int n = pickOf(c, live);
        int order = (int)c.pick(4), fl = (int)c.choose<int>({TraverseAll, TraverseAll, TraverseLeafs, TraverseNonLeafs});
        static const int kOrder[] = {TraversePreOrder, TraversePostOrder, TraverseInOrder, TraverseLevelOrder};
        static const char *kOrderName[] = {"pre", "post", "in", "level"};
        const std::vector<int> &l = m.listOfC(n);
        std::vector<int> from(std::find(l.begin(), l.end(), n), l.end());
        std::vector<std::pair<int, size_t>> exp;
        for (int s : from) { if (order == 0) expPre(m, s, 0, fl, exp); else if (order == 1) expPost(m, s, 0, fl, exp); else if (order == 2) expIn(m, s, 0, fl, exp); else expPre(m, s, 0, fl, exp); }
        Visit vis;
        node *r = mpt_gnode_traverse(m.n[n].p, kOrder[order] | fl, collect, &vis);
        c.logf("  gnode_traverse(%d, %s, flags %d) visits %zu nodes", n, kOrderName[order], fl, vis.v.size());
        VP_CHECK(c, r == 0, "traverse", "traverse returned a node although the handler never stops");
        std::vector<std::pair<int, size_t>> got;
        for (auto &pr : vis.v) {
          int s = -1;
          for (int x : live) if (m.n[x].p == pr.first) s = x;
          VP_CHECK(c, s >= 0, "traverse", "traverse visits something that is not a live node");
          got.push_back({s, pr.second});
        }
        if (order == 3) { std::sort(got.begin(), got.end()); std::sort(exp.begin(), exp.end()); }
        VP_CHECK(c, got.size() == exp.size(), "traverse", "%s-order traverse from node %d visits %zu nodes, expected %zu", kOrderName[order], n, got.size(), exp.size());
        for (size_t i = 0; i < got.size(); i++)
          VP_CHECK(c, got[i] == exp[i], "traverse", "%s-order traverse from node %d: visit %zu is node %d at depth %zu, expected node %d at depth %zu", kOrderName[order], n, i, got[i].first, got[i].second, exp[i].first, exp[i].second);
        c.label("op:traverse");
        break;
      }
      default: {  // gnode_pos / node_locate against the model list
        int n = pickOf(c, live), pos = drawPos(c);
        const std::vector<int> &l = m.listOfC(n);
        long i = std::find(l.begin(), l.end(), n) - l.begin();
        if (c.flip()) {
          long want = pos > 0 ? i + pos - 1 : pos < 0 ? i + pos : (long)l.size() - 1;
          node *r = mpt_gnode_pos(m.n[n].p, pos);
          node *e = (want >= 0 && want < (long)l.size()) ? m.n[l[want]].p : 0;
          c.logf("  gnode_pos(%d, %d)", n, pos);
          VP_CHECK(c, r == e, "gnode_pos", "mpt_gnode_pos(node %d at index %ld of %zu, %d) returns %s, expected %s", n, i, l.size(), pos, r ? "another node" : "NULL", e ? fmtstr("node %d", l[want]).c_str() : "NULL");
          c.label("op:gnode_pos");
        } else {
          // by the name of some live node (text names only: len + implied terminator, charset -1 = default)
          int k = pickOf(c, live);
          if (!m.n[k].named) { c.label("skip:locate-unnamed"); break; }
          const std::string &name = m.n[k].name;
          std::vector<long> hits;
          for (long j = 0; j < (long)l.size(); j++) if (m.n[l[j]].named && m.n[l[j]].name == name) hits.push_back(j);
          long want = -1;
          if (pos > 0) { int left = pos; for (long j : hits) if (j >= i && !--left) { want = j; break; } }
          else if (pos < 0) { int left = -pos; for (size_t h = hits.size(); h-- > 0;) if (hits[h] < i && !--left) { want = hits[h]; break; } }
          else if (!hits.empty()) want = hits.back();
          node *r = mpt_node_locate(m.n[n].p, pos, name.c_str(), name.size(), -1);
          node *e = want >= 0 ? m.n[l[want]].p : 0;
          c.logf("  node_locate(%d, %d, '%.20s')", n, pos, name.c_str());
          VP_CHECK(c, r == e, "node_locate", "mpt_node_locate(node %d at index %ld of list %s, pos %d, name '%.20s') returns %s, expected %s", n, i, showv(l).c_str(), pos, name.c_str(), r ? "another node" : "NULL",
                   e ? fmtstr("node %d", l[want]).c_str() : "NULL");
          c.label("op:node_locate");
        }
        break;
      }
    }
    if (idle)
    {  // mpt_parse_node: parse a configuration text into a node, merging with the children it has
      live = m.liveSlots();
      if (live.empty()) continue;
      E = m;
      std::vector<int> owners;
      for (int s : live) if (!m.n[s].kids.empty()) owners.push_back(s);
      int R = (!owners.empty() && c.chance(170)) ? pickOf(c, owners) : pickOf(c, live);
      // names: the alphabet, plus the names of the present children (overlap), plus one that is surely new
      std::vector<std::string> names = {"a", "b", "c", "ab", "d"};
      for (int k : m.n[R].kids) if (m.n[k].named && m.n[k].name.size() <= 2 && m.n[k].name.find('.') == std::string::npos) names.push_back(m.n[k].name);
      std::string text;
      std::vector<PNode> tree;
      if (c.chance(70)) {  // legitimate input without elements
        text = c.choose<const char *>({"", "\n", "\n\n", "# nothing\n", "  \n# a = 1\n\n", "#", "\t \n"});
        c.label("parse:no-elements");
      } else {
        tree = drawPTree(c, names, 0, 4);
        renderPTree(c, tree, text, 0);
      }
      size_t fresh = pcount(tree);
      if (live.size() + fresh > MaxLive) { c.label("skip:parse-too-big"); continue; }
      if (c.verbose()) { std::string shown = text; for (auto &ch : shown) if (ch == '\n') ch = '|'; c.logf("  parse_node(root=%d) text \"%s\" (%zu elements)", R, shown.c_str(), fresh); }
      TextSource src;
      src.text = text;
      CObj<parser_context> pc;
      pc->src.getc = TextSource::getc;
      pc->src.arg = &src;
      pc->src.line = 1;
      pc->name.sect = 0xff;
      pc->name.opt = 0xff;
      int r = mpt_parse_node(m.n[R].p, pc, 0);
      VP_CHECK(c, r >= 0, "parse-refused", "mpt_parse_node refused a well-formed text (%d, line %zu)", r, (size_t)pc->src.line);
      // model: the parsed elements form a list of their own; what the root had moves over unless a namesake is there
      // (children merged the same way), the rest of the old children is released (mpt_node_move + mpt_node_clear)
      std::set<const node *> old;
      for (int s : live) old.insert(m.n[s].p);
      std::set<int> W;
      std::vector<int> gone;
      bool deep = false;
      bool hadKids = !m.n[R].kids.empty();
      if (fresh) {
        std::vector<int> top = addParsed(E, tree, -1);
        E.tops.push_back(top);
        if (hadKids) modelMove(E, E.n[R].kids, top[0], W, deep);
        for (int k : E.n[R].kids) E.subtree(k, gone);   // superseded by a parsed namesake
        std::vector<int> merged = E.listOf(top[0]);
        E.tops.erase(E.tops.begin() + E.topIndex(top[0]));
        E.n[R].kids = merged;
        for (int k : merged) E.n[k].parent = R;
        bindParsed(c, w, E, R, m.n[R].p->children, old);
      }
      settle(c, w, E, W, gone, "parse_node");
      c.label("op:parse_node");
      if (fresh && hadKids) { c.label("parse:merge"); nt = true; }
      if (!fresh && hadKids) { c.label("parse:no-elements-into-populated"); nt = true; }
      if (!gone.empty()) c.label("parse:supersedes");
      if (!W.empty()) c.label("parse:keeps-old");
      if (deep) c.label("parse:merges-children");
      extra = true;
    }
    // a second operation in the turns that would otherwise be idle (only when bytes are left: cases that end here
    // decode as before): reload with mpt_node_parse, mpt_node_clear of children parked under a stack node the way
    // mpt_node_parse does it, manual list surgery followed by mpt_gnode_relink
    if (!extra || !c.more()) continue;
    live = m.liveSlots();
    if (live.empty()) continue;
    E = m;
    std::vector<int> owners2;
    for (int s : live) if (!m.n[s].kids.empty()) owners2.push_back(s);
    // (appended weights: draws below 15 keep their meaning)
    switch (c.weighted({3, 2, 3, 3, 4, 3})) {
      case 5: {  // C++ value assignment  node = reference<metatype>  (header only: node.h / core.h): the old value loses one handle,
                 // the node takes a new handle on the assigned value if that is shareable (addref), else ends up without value
        int A = pickOf(c, live);
        size_t how = c.weighted({3, 1, 3});  // another node's reference, an empty reference, the node's own reference
        int B = how == 0 ? pickOf(c, live) : how == 2 ? A : -1;
        MNode &an = E.n[A];
        CountMeta *oldcm = an.vkind == 1 ? an.cm : 0;
        if (how == 1) { reference<metatype> none2; *m.n[A].p = none2; }
        else *m.n[A].p = m.n[B].p->meta();
        // model
        const MNode bn = B >= 0 ? m.n[B] : MNode();
        bool takes = B >= 0 && bn.vkind == 1 && bn.cm->shareable;
        c.logf("  node %d = %s  (%s)", A, how == 0 ? fmtstr("value reference of node %d", B).c_str() : how == 1 ? "empty reference" : "its own value reference",
               takes ? "shareable: another handle" : "nothing to share: no value afterwards");
        if (takes) { an.vkind = 1; an.cm = bn.cm; an.mt = (metatype *)bn.cm; an.text.clear(); }
        else { an.vkind = 0; an.cm = 0; an.mt = 0; an.text.clear(); }
        settle(c, w, E, none, nobody, "node=reference");
        if (oldcm && holders(w.m, oldcm) == 0) VP_CHECK(c, oldcm->released == 1, "value-released@node=reference", "the value node %d held before the assignment was released %d times, expected once", A, oldcm->released);
        c.label(how == 0 ? "op:assign-other" : how == 1 ? "op:assign-empty" : "op:assign-own");
        if (takes) c.label("assign:shared");
        break;
      }
      case 4: {  // allocation-failure injection: the k-th allocation the library makes during the call returns NULL
        size_t sub = c.weighted({1, 2, 3, 4, 3, 2, 3});  // node_new, node/list/tree clone, parse_node, node_parse, node_append
        if (sub == 0) {
          size_t len = c.choose<size_t>({0, 5, 100, 300});
          long f0 = alloc_failures();
          alloc_fail_after(1);
          node *p = mpt_node_new(len);
          alloc_fail_after(0);
          c.logf("  inject: node_new(%zu) with its allocation failing -> %s", len, p ? "a node" : "NULL");
          if (p) mpt_node_destroy(p);
          VP_CHECK(c, alloc_failures() > f0 && !p, "inject@node_new", "mpt_node_new returned a node although its only allocation failed");
          settle(c, w, E, none, nobody, "node_new(alloc failure)");
          c.label("inject:node_new");
          break;
        }
        if (sub <= 3) {
          int n = pickOf(c, live);
          int kind = (int)sub - 1;
          const char *opn = kind == 0 ? "node_clone" : kind == 1 ? "list_clone" : "tree_clone";
          std::vector<int> srcs;
          if (kind == 1) { const std::vector<int> &l = m.listOfC(n); srcs.assign(std::find(l.begin(), l.end(), n), l.end()); }
          else srcs.push_back(n);
          size_t total = 0;
          bool ok = true;
          int depth = 0;
          for (int s : srcs) {
            if (kind == 0) total += 1; else { std::vector<int> t; m.subtree(s, t); total += t.size(); depth = std::max(depth, m.depthBelow(s)); }
            if (!clonable(m, s, kind != 0)) ok = false;
          }
          if (live.size() + total > MaxLive) { c.label("skip:clone-too-big"); break; }
          auto cloneIt = [&]() { return kind == 0 ? mpt_node_clone(m.n[n].p) : kind == 1 ? mpt_list_clone(m.n[n].p) : mpt_tree_clone(m.n[n].p); };
          // allocations of an undisturbed clone of the same structure, on a throw-away copy
          size_t metas0 = w.metas.size();
          alloc_fail_after(0);
          node *twin = cloneIt();
          long nalloc = alloc_calls();
          for (node *q = twin; q;) { node *nx = mpt_node_unlink(q); node *r = mpt_node_destroy(q); VP_CHECK(c, r == 0, "return@node_destroy", "destroy of a throw-away clone refused"); q = nx; }
          for (size_t i = metas0; i < w.metas.size(); i++) VP_CHECK(c, w.metas[i].released == 1, tagAt("value-released", opn).c_str(), "value of the throw-away clone was released %d times", w.metas[i].released);
          if (nalloc < 1) { c.label("skip:inject-no-allocation"); break; }
          long k = 1 + (long)c.pick((size_t)nalloc);
          size_t metas1 = w.metas.size();
          long f0 = alloc_failures();
          alloc_fail_after(k);
          node *q = cloneIt();
          alloc_fail_after(0);
          bool fired = alloc_failures() > f0;
          std::string opname = std::string(opn) + "(alloc failure)";
          if (c.verbose()) c.logf("  inject: %s(%d) sources %s, %zu nodes, allocation %ld of %ld fails%s -> %s", opn, n, showv(srcs).c_str(), total, k, nalloc, fired ? "" : " (not reached)", q ? "a clone" : "NULL");
          c.label(kind == 0 ? "inject:node_clone" : kind == 1 ? "inject:list_clone" : "inject:tree_clone");
          if (!q) {
            // refused: nothing may be left behind (values cloned on the way are released once; nodes: leak oracle of the engine)
            for (size_t i = metas1; i < w.metas.size(); i++)
              VP_CHECK(c, w.metas[i].released == 1, tagAt("clone-refusal-leak", opn).c_str(), "%s failed (allocation %ld of %ld) but a value cloned on the way was released %d times", opn, k, nalloc, w.metas[i].released);
            VP_CHECK(c, fired || !ok, tagAt("clone-null", opn).c_str(), "%s returned NULL although no allocation failed and all values are clonable", opn);
            settle(c, w, E, none, nobody, opname.c_str());
            c.label("inject:refused");
            if (depth >= 1) nt = true;
            break;
          }
          VP_CHECK(c, ok, tagAt("clone-incomplete", opn).c_str(), "%s returned a clone although a value inside refuses to be cloned", opn);
          std::set<const node *> seen;
          std::vector<int> tops;
          node *prev = 0;
          for (int s : srcs) {
            VP_CHECK(c, q != 0, tagAt("clone-shape", opn).c_str(), "%s (allocation %ld of %ld failed): cloned list is shorter than the source", opn, k, nalloc);
            int ns = adoptClone(c, w, E, q, s, kind != 0, 0, prev, seen, opn);
            tops.push_back(ns);
            prev = q;
            q = q->next;
          }
          VP_CHECK(c, q == 0, tagAt("clone-shape", opn).c_str(), "%s: clone continues behind the cloned sequence", opn);
          E.tops.push_back(tops);
          settle(c, w, E, none, nobody, opname.c_str());
          c.label("inject:survived");
          break;
        }
        // the three ways of parsing a text into a node
        int flavour = (int)sub - 4;
        const char *opn = flavour == 0 ? "parse_node" : flavour == 1 ? "node_parse" : "node_append";
        int R = (!owners2.empty() && c.chance(200)) ? pickOf(c, owners2) : pickOf(c, live);
        std::vector<std::string> names = {"a", "b", "c", "ab", "d"};
        for (int k : m.n[R].kids) if (m.n[k].named && m.n[k].name.size() <= 2 && m.n[k].name.find('.') == std::string::npos) names.push_back(m.n[k].name);
        std::vector<PNode> tree = drawPTree(c, names, 0, 4);
        std::string text;
        renderPTree(c, tree, text, 0);
        size_t fresh = pcount(tree);
        if (live.size() + fresh > MaxLive) { c.label("skip:parse-too-big"); break; }
        auto parseInto = [&](node *target) -> int {
          if (flavour == 1) {
            std::string copy = text;
            FILE *fd = fmemopen(&copy[0], copy.size(), "r");
            if (!fd) return -1000;
            int r = mpt_node_parse(target, fd, 0, 0, 0);
            fclose(fd);
            return r;
          }
          TextSource src;
          src.text = text;
          CObj<parser_context> pc;
          pc->src.getc = TextSource::getc;
          pc->src.arg = &src;
          pc->src.line = 1;
          pc->name.sect = 0xff;
          pc->name.opt = 0xff;
          if (flavour == 0) return mpt_parse_node(target, pc, 0);
          CObj<parser_format> pf;
          input_parser_t fn = mpt_parse_next_fcn(mpt_parse_format(pf, 0));
          pc->prev = parser_context::Section;
          node *pos = target;
          return mpt_parse_config(fn, pf.get(), pc, appendHandler, &pos);
        };
        // allocations of the undisturbed parse, on a throw-away target
        node *twin = mpt_node_new(0);
        VP_CHECK(c, twin, "new-null", "mpt_node_new returned NULL");
        alloc_fail_after(0);
        int r0 = parseInto(twin);
        long nalloc = alloc_calls();
        mpt_node_clear(twin);
        mpt_node_destroy(twin);
        VP_CHECK(c, r0 >= 0, "parse-refused", "%s refused a well-formed text (%d)", opn, r0);
        if (nalloc < 1) { c.label("skip:inject-no-allocation"); break; }
        long k = 1 + (long)c.pick((size_t)nalloc);
        long f0 = alloc_failures();
        alloc_fail_after(k);
        int r = parseInto(m.n[R].p);
        alloc_fail_after(0);
        bool fired = alloc_failures() > f0;
        std::string opname = std::string(opn) + "(alloc failure)";
        if (c.verbose()) { std::string shown = text; for (auto &ch : shown) if (ch == '\n') ch = '|'; c.logf("  inject: %s(target=%d) text \"%s\" (%zu elements), allocation %ld of %ld fails%s -> %d", opn, R, shown.c_str(), fresh, k, nalloc, fired ? "" : " (not reached)", r); }
        c.label(flavour == 0 ? "inject:parse_node" : flavour == 1 ? "inject:node_parse" : "inject:node_append");
        std::set<const node *> old;
        for (int s : live) old.insert(m.n[s].p);
        bool hadKids = !m.n[R].kids.empty();
        std::set<int> W;
        std::vector<int> gone;
        if (r < 0) {
          VP_CHECK(c, fired, "parse-refused", "%s refused a well-formed text (%d) although no allocation failed", opn, r);
          if (flavour == 2) {
            // no promise to undo: what was appended before the failure stays, complete and in text order
            size_t base = E.n.size();
            std::vector<int> kids = addParsed(E, tree, R);
            for (int kk : kids) E.n[R].kids.push_back(kk);
            std::vector<int> absent;
            bindParsedPrefix(c, w, E, R, m.n[R].p->children, old, absent);
            std::set<int> gap(absent.begin(), absent.end());
            int firstAbsent = absent.empty() ? -1 : *gap.begin();
            for (size_t s2 = base; s2 < E.n.size(); s2++)
              if (!gap.count((int)s2)) VP_CHECK(c, firstAbsent < 0 || (int)s2 < firstAbsent, "parse-shape", "after the failed parse element %zu of the text is there although an earlier one (%d) is missing", s2 - base, firstAbsent - (int)base);
            for (int a : absent) { E.n[a].live = false; int pa = E.n[a].parent; if (pa >= 0) { auto &kv = E.n[pa].kids; kv.erase(std::remove(kv.begin(), kv.end(), a), kv.end()); } }
            c.label(absent.size() < fresh ? "inject:append-partial" : "inject:append-nothing");
          }
          // parse_node / node_parse: the target is as it was (mpt_parse_node clears what it built, mpt_node_parse puts the old
          // children back)
          settle(c, w, E, none, nobody, opname.c_str());
          c.label("inject:refused");
          if (hadKids) nt = true;
          break;
        }
        // went through (the failing allocation was not needed, or was compensated): the complete result, as without injection
        if (flavour == 0) {
          std::vector<int> top = addParsed(E, tree, -1);
          E.tops.push_back(top);
          bool deep = false;
          if (hadKids) modelMove(E, E.n[R].kids, top[0], W, deep);
          for (int kk : E.n[R].kids) E.subtree(kk, gone);
          std::vector<int> merged = E.listOf(top[0]);
          E.tops.erase(E.tops.begin() + E.topIndex(top[0]));
          E.n[R].kids = merged;
          for (int kk : merged) E.n[kk].parent = R;
        } else if (flavour == 1) {
          for (int kk : m.n[R].kids) m.subtree(kk, gone);
          E.n[R].kids = addParsed(E, tree, R);
        } else {
          std::vector<int> kids = addParsed(E, tree, R);
          for (int kk : kids) E.n[R].kids.push_back(kk);
        }
        bindParsed(c, w, E, R, m.n[R].p->children, old);
        settle(c, w, E, W, gone, opname.c_str());
        c.label("inject:survived");
        break;
      }
      case 3: {  // mpt_parse_config with a handler that hands every element to mpt_node_append, started the way mpt_parse_node
                 // seeds its context (current node = target, previous operation = section start): the elements go behind the
                 // children the target has
        int T = (!owners2.empty() && c.chance(200)) ? pickOf(c, owners2) : pickOf(c, live);
        std::vector<std::string> names = {"a", "b", "c", "ab", "d"};
        std::string text;
        std::vector<PNode> tree;
        if (c.chance(40)) { text = c.choose<const char *>({"", "\n", "# nothing\n", "  \n# a = 1\n\n"}); c.label("append:no-elements"); }
        else { tree = drawPTree(c, names, 0, 4); renderPTree(c, tree, text, 0); }
        size_t fresh = pcount(tree);
        if (live.size() + fresh > MaxLive) { c.label("skip:parse-too-big"); break; }
        if (c.verbose()) { std::string shown = text; for (auto &ch : shown) if (ch == '\n') ch = '|'; c.logf("  parse_config + node_append(target=%d) text \"%s\" (%zu elements)", T, shown.c_str(), fresh); }
        struct Handler {
          static int save(void *ctx, const path *p, const value *val, int last, int curr) {
            node **pos = (node **)ctx, *next = mpt_node_append(*pos, p, val, last, curr);
            if (!next) return BadOperation;
            *pos = next;
            return 0;
          }
        };
        CObj<parser_format> pf;
        input_parser_t fn = mpt_parse_next_fcn(mpt_parse_format(pf, 0));
        VP_CHECK(c, fn != 0, "harness-parser", "no parser for the default format");
        TextSource src;
        src.text = text;
        CObj<parser_context> pc;
        pc->src.getc = TextSource::getc;
        pc->src.arg = &src;
        pc->src.line = 1;
        pc->name.sect = 0xff;
        pc->name.opt = 0xff;
        pc->prev = parser_context::Section;
        node *pos = m.n[T].p;
        int r = mpt_parse_config(fn, pf.get(), pc, Handler::save, &pos);
        VP_CHECK(c, r >= 0, "parse-refused", "mpt_parse_config with the mpt_node_append handler refused a well-formed text (%d, line %zu)", r, (size_t)pc->src.line);
        std::set<const node *> old;
        for (int s : live) old.insert(m.n[s].p);
        bool hadKids = !m.n[T].kids.empty();
        std::vector<int> kids = addParsed(E, tree, T);
        for (int k : kids) E.n[T].kids.push_back(k);
        bindParsed(c, w, E, T, m.n[T].p->children, old);
        settle(c, w, E, none, nobody, "node_append");
        c.label("op:node_append");
        if (fresh && hadKids) { c.label("append:into-populated"); nt = true; }
        break;
      }
      case 0: {  // mpt_node_parse: replaces the children of the node by what the text describes
        int R = (!owners2.empty() && c.chance(200)) ? pickOf(c, owners2) : pickOf(c, live);
        std::vector<std::string> names = {"a", "b", "c", "ab", "d"};
        for (int k : m.n[R].kids) if (m.n[k].named && m.n[k].name.size() <= 2 && m.n[k].name.find('.') == std::string::npos) names.push_back(m.n[k].name);
        std::string text;
        std::vector<PNode> tree;
        if (c.chance(50)) { text = c.choose<const char *>({"\n", "\n\n", "# nothing\n", "  \n# a = 1\n\n", "#", "\t \n"}); c.label("reload:no-elements"); }
        else { tree = drawPTree(c, names, 0, 4); renderPTree(c, tree, text, 0); }
        std::vector<int> gone;
        for (int k : m.n[R].kids) m.subtree(k, gone);
        size_t fresh = pcount(tree);
        if (live.size() + fresh > MaxLive + gone.size()) { c.label("skip:parse-too-big"); break; }
        if (c.verbose()) { std::string shown = text; for (auto &ch : shown) if (ch == '\n') ch = '|'; c.logf("  node_parse(conf=%d) text \"%s\" (%zu elements), releases %s", R, shown.c_str(), fresh, showv(gone).c_str()); }
        FILE *fd = fmemopen(&text[0], text.size(), "r");
        VP_CHECK(c, fd != 0, "harness-fmemopen", "fmemopen failed");
        int r = mpt_node_parse(m.n[R].p, fd, 0, 0, 0);
        fclose(fd);
        VP_CHECK(c, r >= 0, "parse-refused", "mpt_node_parse refused a well-formed text (%d)", r);
        std::set<const node *> old;
        for (int s : live) old.insert(m.n[s].p);
        std::vector<int> kids = addParsed(E, tree, R);
        E.n[R].kids = kids;
        bindParsed(c, w, E, R, m.n[R].p->children, old);
        settle(c, w, E, none, gone, "node_parse");
        c.label("op:node_parse");
        if (!gone.empty()) { c.label("reload:into-populated"); nt = true; }
        break;
      }
      case 1: {  // mpt_node_clear of children that still name another node as parent (the reload pattern)
        if (owners2.empty()) { c.label("skip:no-owner"); break; }
        int X = pickOf(c, owners2);
        std::vector<int> det;
        for (int s : live) if (m.detached(s) && s != X && !m.inSubtree(X, s)) det.push_back(s);
        int D = (!det.empty() && c.flip()) ? pickOf(c, det) : -1;
        std::vector<int> gone;
        for (int k : m.n[X].kids) m.subtree(k, gone);
        c.logf("  children of %d parked under a stack node, %s; node_clear(stack node) releases %s", X, D >= 0 ? fmtstr("node %d is the new child", D).c_str() : "no new children", showv(gone).c_str());
        CObj<node> root;
        root->children = m.n[X].p->children;
        m.n[X].p->children = D >= 0 ? m.n[D].p : 0;
        if (D >= 0) m.n[D].p->parent = m.n[X].p;
        mpt_node_clear(root);
        VP_CHECK(c, root->children == 0, "clear-leaves-children", "mpt_node_clear leaves a children link behind");
        E.n[X].kids.clear();
        if (D >= 0) { E.removeFromList(D); E.n[D].parent = X; E.n[X].kids.push_back(D); }
        settle(c, w, E, none, gone, "node_clear(parked)");
        c.label("op:clear-parked");
        if (D >= 0) c.label("clear-parked:with-new-child");
        nt = true;
        break;
      }
      default: {  // cut the tail of a list, hang it below another node by forward links only, relink that node
        std::vector<std::vector<int>> lists;
        for (auto &t : m.tops) if (t.size() >= 2) lists.push_back(t);
        for (int s : live) if (m.n[s].kids.size() >= 2) lists.push_back(m.n[s].kids);
        if (lists.empty()) { c.label("skip:no-list"); break; }
        std::vector<int> L = lists[c.pick(lists.size())];
        size_t at = 1 + c.pick(L.size() - 1);
        std::vector<int> tail(L.begin() + at, L.end());
        std::vector<int> tg;
        for (int s : live) {
          bool ok = true;
          for (int t : tail) if (m.inSubtree(s, t)) ok = false;
          if (ok) tg.push_back(s);
        }
        if (tg.empty()) { c.label("skip:no-target"); break; }
        int T = pickOf(c, tg);
        // model first (the lists are looked up by member); what T has left after the cut decides where the tail goes
        for (int t : tail) E.removeFromList(t);
        int lastKid = E.n[T].kids.empty() ? -1 : E.n[T].kids.back();
        bool first = lastKid < 0;
        c.logf("  list %s cut in front of %d, tail %s hung %s node %d by forward links; gnode_relink(%d)", showv(L).c_str(), tail[0], showv(tail).c_str(), first ? "as children below" : "behind the children of", T, T);
        for (int t : tail) { E.n[t].parent = T; E.n[T].kids.push_back(t); }
        // forward links and children heads only, as the documentation of mpt_gnode_relink asks for
        m.n[L[at - 1]].p->next = 0;
        if (first) m.n[T].p->children = m.n[tail[0]].p;
        else m.n[lastKid].p->next = m.n[tail[0]].p;
        mpt_gnode_relink(m.n[T].p);
        settle(c, w, E, none, nobody, "gnode_relink(surgery)");
        c.label("op:relink-surgery");
        if (first) c.label("surgery:tail-becomes-first-child");
        nt = true;
        break;
      }
    }
  }

  // release everything: every list member is unlinked and destroyed (destroy clears the subtree)
  {
    Model E = m;
    std::vector<int> gone = m.liveSlots();
    std::vector<std::vector<int>> tops = m.tops;
    for (auto &t : tops)
      for (int s : t) {
        mpt_node_unlink(m.n[s].p);
        node *r = mpt_node_destroy(m.n[s].p);
        VP_CHECK(c, r == 0, "return@final-destroy", "final mpt_node_destroy of unlinked node %d refused", s);
      }
    for (int s : gone) m.n[s].live = false;
    check_freed(c, w, gone, "final-destroy");
    for (node *p : w.ever) VP_CHECK(c, __asan_address_is_poisoned(p), "not-freed@final-destroy", "a node is still allocated after everything was destroyed");
    for (auto &cm : w.metas) VP_CHECK(c, cm.released == 1, "value-released@final-destroy", "counting value #%d was released %d times by the end of the case, expected once", cm.serial, cm.released);
  }
  if (nt) c.nontrivial();
}

static Target t = {
    "C14",
    "random histories (<= 80 steps) over <= 12 created nodes (+ clones, <= 30 live) with names from {a,b,c} (1-2 letters, unnamed, long names across the inline "
    "identifier capacity) and values none/counting metatype/text: new, gnode_add/node_add and gnode_insert/node_insert at pos {0,1,2,3,-1,-2,-3,7,-7}, "
    "gnode_after/before, unlink, node_move between two trees (top-level or children lists), node/list/tree clone, clear, destroy, gnode_swap/switch, "
    "gnode_relink (plain and after spoiling prev/parent), traverse, gnode_pos, node_locate, mpt_parse_node of generated texts (incl. element-less ones) into populated and empty nodes; full link walk + model comparison + release accounting after every step. "
    "non-trivial: a move/merge or a list/tree clone involved a node with children, an unlink removed the head of a list with followers, or a text was parsed into a node that has children; distinct by hash of the draw sequence.",
    run,
    {400, 1200},
    false,
    true,
    {},
    0,
    0,
};
Target &vp::target() { return t; }
