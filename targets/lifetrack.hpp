// lifetrack.hpp — lifetime observers shared by the C05 / C15 targets.
//
//  * Viol     violations noticed inside callbacks that have library frames above them: recorded,
//             raised by the harness after the library call returned (never thrown across C frames)
//  * Tracker  "token" elements for harness-defined type_traits: every constructed element carries a
//             unique token registered in a live set; fini removes it and poisons the slot
//  * HMeta    reference counted harness metatype with a C v-table (convert/unref/addref/clone)
#pragma once
#include "vp.hpp"
#include "mpt_c.hpp"

#include <unordered_map>
#include <unordered_set>

extern "C" int __asan_address_is_poisoned(void const volatile *addr);

namespace lt {

struct Viol {
  bool set = false;
  std::string tag, msg;
  void rec(const char *t, const char *fmt, ...) __attribute__((format(printf, 3, 4))) {
    if (set) return;  // keep the first one
    char buf[600];
    va_list ap;
    va_start(ap, fmt);
    vsnprintf(buf, sizeof buf, fmt, ap);
    va_end(ap);
    set = true;
    tag = t;
    msg = buf;
  }
  void raise(vp::Ctx &c, const char *during) {
    if (set) c.fail(tag.c_str(), "%s [during %s]", msg.c_str(), during);
  }
};

// ------------------------------------------------------------------ token elements
// element layout: [0,8) token  [8,12) value  [12,16) ~value  [16,size) 0xA5
static const uint64_t TOK_MAGIC = 0x7E57ull << 48, TOK_MASK = 0xFFFFull << 48;
static const uint64_t TOK_DEAD = 0xDEADDEADDEADDEADull, TOK_FAILED = 0xFA11FA11FA11FA11ull;

struct Tracker {
  struct Info { uint32_t val; uint32_t size; };
  std::unordered_map<uint64_t, Info> live;
  std::unordered_set<uint64_t> seen;
  uint64_t serial = 0;
  Viol *viol = 0;
  // failure injection for library-invoked init calls
  unsigned fail_nth = 0, fail_ctr = 0;
  bool fail_copy_only = false;
  // counters (whole case)
  unsigned n_copy = 0, n_default = 0, n_fini = 0, n_failed = 0;

  static std::string describe(const void *p) {
    uint64_t t;
    memcpy(&t, p, 8);
    char b[80];
    if (t == TOK_DEAD) return "an element that was already finalised";
    if (t == TOK_FAILED) return "a slot whose constructor reported failure";
    if ((t & TOK_MASK) == TOK_MAGIC) { snprintf(b, sizeof b, "token #%llu", (unsigned long long)(t & ~TOK_MASK)); return b; }
    snprintf(b, sizeof b, "non-element bytes %016llx", (unsigned long long)t);
    return b;
  }
  void arm(unsigned nth, bool copy_only) { fail_nth = nth; fail_ctr = 0; fail_copy_only = copy_only; }
  unsigned disarm() { unsigned f = fail_nth && fail_ctr >= fail_nth; fail_nth = 0; return f; }

  void write(void *p, uint64_t tok, uint32_t val, size_t size) {
    uint8_t *b = (uint8_t *)p;
    uint32_t inv = ~val;
    memcpy(b, &tok, 8);
    memcpy(b + 8, &val, 4);
    memcpy(b + 12, &inv, 4);
    if (size > 16) memset(b + 16, 0xA5, size - 16);
  }
  // harness side construction (never fails)
  void make(void *p, uint32_t val, size_t size) {
    uint64_t t = TOK_MAGIC | ++serial;
    write(p, t, val, size);
    live[t] = Info{val, (uint32_t)size};
  }
  // type_traits::init
  int init(void *p, const void *src, size_t size) {
    if (fail_nth && (!fail_copy_only || src)) {
      if (++fail_ctr == fail_nth) {
        ++n_failed;
        write(p, TOK_FAILED, 0xFA11FA11u, size);
        return -1;
      }
    }
    uint32_t val = 0;
    if (src) {
      uint64_t st;
      memcpy(&st, src, 8);
      auto it = live.find(st);
      if (it == live.end()) {
        if (viol) viol->rec("copy-from-dead", "init(dst,src): the source is not a live element but %s", describe(src).c_str());
      } else {
        val = it->second.val;
      }
      ++n_copy;
    } else {
      ++n_default;
    }
    uint64_t t = TOK_MAGIC | ++serial;
    write(p, t, val, size);
    live[t] = Info{val, (uint32_t)size};
    return src ? 1 : 0;
  }
  // type_traits::fini
  void fini(void *p, size_t size) {
    uint64_t t;
    memcpy(&t, p, 8);
    auto it = live.find(t);
    if (it == live.end()) {
      if (!viol) return;
      if (t == TOK_DEAD) viol->rec("double-fini", "fini called a second time on an element that was already finalised");
      else if (t == TOK_FAILED) viol->rec("fini-unconstructed", "fini called on a slot whose constructor had reported failure");
      else if ((t & TOK_MASK) == TOK_MAGIC) viol->rec("double-fini", "fini called on a stale byte copy of %s, which was finalised before", describe(p).c_str());
      else viol->rec("fini-non-element", "fini called on memory that is not an element (%s)", describe(p).c_str());
      return;
    }
    if (it->second.size != size && viol) viol->rec("fini-wrong-type", "fini for element size %zu called on an element of size %u", size, it->second.size);
    live.erase(it);
    ++n_fini;
    write(p, TOK_DEAD, 0xDDDDDDDDu, size);
    if (size > 16) memset((uint8_t *)p + 16, 0xDD, size - 16);
  }
  // assignment between two constructed elements (C++ operator=)
  void assign(void *dst, const void *src) {
    uint64_t dt, st;
    memcpy(&dt, dst, 8);
    memcpy(&st, src, 8);
    auto d = live.find(dt), s = live.find(st);
    if (d == live.end()) { if (viol) viol->rec("assign-to-dead", "operator= on a target that is not a live element but %s", describe(dst).c_str()); return; }
    if (s == live.end()) { if (viol) viol->rec("copy-from-dead", "operator= from a source that is not a live element but %s", describe(src).c_str()); return; }
    d->second.val = s->second.val;
    write(dst, dt, d->second.val, d->second.size);
  }
  // slot inspection by the oracle: is this a live, intact element?  -> value
  bool read(const void *p, size_t size, uint32_t &val, std::string &why) {
    uint64_t t;
    uint32_t v, inv;
    memcpy(&t, p, 8);
    memcpy(&v, (const uint8_t *)p + 8, 4);
    memcpy(&inv, (const uint8_t *)p + 12, 4);
    auto it = live.find(t);
    if (it == live.end()) { why = "holds " + describe(p); return false; }
    if (v != it->second.val || inv != ~v) { why = "holds " + describe(p) + " with a corrupted payload"; return false; }
    if (it->second.size != size) { why = "holds " + describe(p) + " of a different element size"; return false; }
    for (size_t i = 16; i < size; i++)
      if (((const uint8_t *)p)[i] != 0xA5) { why = "holds " + describe(p) + " with corrupted padding"; return false; }
    val = v;
    return true;
  }
  void tally_begin() { seen.clear(); }
  // false: the same token was seen in another slot (bytes duplicated instead of init(dst,src))
  bool tally(const void *p) {
    uint64_t t;
    memcpy(&t, p, 8);
    return seen.insert(t).second;
  }
  bool tally_token(uint64_t t) { return seen.insert(t).second; }
  // live elements that are in no buffer
  size_t unseen(std::string &first) {
    size_t n = 0;
    for (auto &kv : live)
      if (!seen.count(kv.first)) {
        if (!n++) { char b[64]; snprintf(b, sizeof b, "token #%llu (value %u)", (unsigned long long)(kv.first & ~TOK_MASK), kv.second.val); first = b; }
      }
    return n;
  }
};

// ------------------------------------------------------------------ harness metatype (C v-table)
struct HMeta;
struct HMetaVptr {
  int (*convert)(HMeta *, mpt::type_t, void *);
  void (*unref)(HMeta *);
  uintptr_t (*addref)(HMeta *);
  HMeta *(*clone)(const HMeta *);
};
struct MetaPool;
struct HMeta {
  const HMetaVptr *vptr;
  MetaPool *pool;
  uintptr_t refs;
  int id;
  int destroyed;  // number of times the destructor ran
  mpt::metatype *mt() { return reinterpret_cast<mpt::metatype *>(this); }
};
struct MetaPool {
  std::vector<std::unique_ptr<HMeta>> objs;  // memory kept until the case ends: a late unref is a recorded violation, not a crash
  Viol *viol = 0;
  bool refuse_addref = false;  // addref reports failure (returns 0) while set
  unsigned n_addref = 0, n_unref = 0, n_refused = 0, n_clone = 0;

  static int s_convert(HMeta *m, mpt::type_t type, void *dest) {
    if (m->destroyed && m->pool->viol) m->pool->viol->rec("use-after-destroy", "convert() called on harness metatype #%d after its destructor ran", m->id);
    if (!type) {
      static const uint8_t fmt[] = {0};
      if (dest) *(const uint8_t **)dest = fmt;
      return mpt::TypeMetaPtr;
    }
    if (type == mpt::TypeMetaPtr) {
      if (dest) *(void **)dest = m;
      return mpt::TypeMetaPtr;
    }
    return mpt::BadType;
  }
  static void s_unref(HMeta *m) {
    MetaPool *p = m->pool;
    ++p->n_unref;
    if (m->destroyed || !m->refs) {
      if (p->viol) p->viol->rec("unref-after-destroy", "unref() on harness metatype #%d after its last reference was dropped (destructor already ran)", m->id);
      return;
    }
    if (!--m->refs) ++m->destroyed;
  }
  static uintptr_t s_addref(HMeta *m) {
    MetaPool *p = m->pool;
    if (m->destroyed || !m->refs) {
      if (p->viol) p->viol->rec("addref-after-destroy", "addref() on harness metatype #%d after its destructor ran", m->id);
      return 0;
    }
    if (p->refuse_addref) { ++p->n_refused; return 0; }
    if (m->refs == UINTPTR_MAX) { ++p->n_refused; return 0; }  // a counter at its maximum cannot be raised (as mpt_refcount_raise)
    ++p->n_addref;
    return ++m->refs;
  }
  static HMeta *s_clone(const HMeta *m) {
    MetaPool *p = m->pool;
    ++p->n_clone;
    return p->create();
  }
  HMeta *create() {
    static const HMetaVptr vp = {s_convert, s_unref, s_addref, s_clone};
    HMeta *m = new HMeta{&vp, this, 1, (int)objs.size() + 1, 0};
    objs.emplace_back(m);
    return m;
  }
};

}  // namespace lt
