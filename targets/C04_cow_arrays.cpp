// C04 — copy-on-write arrays behave as independent values            vp-link: core
//
// G: history over 4 handle slots (plain array | slice window onto an array | raw encode_array) with one
//    content flavour per case (raw bytes | 'c' characters | plain 4-byte elements). Operations of the C API:
//    mpt_array_{append,insert,set,slice,reserve,clone,reduce,string}, mpt_buffer_{insert,cut,set} (only on
//    buffers held by exactly one handle: that is the callers' precondition), mpt_slice_write,
//    mpt_printf/mpt_vprintf, raw mpt_array_push, buffers seeded through _mpt_buffer_alloc(len, flags) with
//    flags {0, Immutable, NoCopy, both}. Offsets/lengths near {0, used, size, 64, 128, 192} (+-2), past the
//    end, and (rarely) near SIZE_MAX/LONG_MAX for the functions that carry an explicit overflow guard.
// O: every handle has a std::vector<uint8_t> model with value semantics. After EVERY operation every handle
//    is read back completely (length + bytes) and compared with its model:
//      other-changed:<op>    a handle that was not the target reads something else than before
//      target-mismatch:<op>  the target does not read what the vector model contains after the operation
//      refused-changed:<op>  the operation reported failure but some handle reads differently
//      not-refused:<op>      arguments outside the data / capacity were accepted
//      ret-address:<op>      the returned address is not the documented position inside the handle's buffer
//      used-gt-size, slice-window   accounting invariants (_used <= _size, slice inside the used data)
//    Refusal is always allowed (DESIGN sect. 4); all handles are released at the end (leak check on).
#include "vp.hpp"

#include "mpt_c.hpp"

#include <climits>

using namespace vp;
using namespace mpt;

namespace {

enum HKind { KArray, KSlice, KEnc };
enum { NH = 4 };
enum { FRaw, FChar, FT4 };

const type_traits *TC = 0;        // mpt_type_traits('c')
const type_traits T4(4);          // plain 4-byte element, no init/fini (managed elements are C05)

struct Handle {
  HKind kind = KArray;
  CObj<slice> sl;                 // array handles use the array part only
  CObj<encode_array> enc;
  std::vector<uint8_t> m;         // model: array/encode = whole content, slice = the window
  array *arr() { return kind == KEnc ? &enc.get()->_d : static_cast<array *>(sl.get()); }
  CBuf *buf() { return cbuf(arr()); }
};

const char *tname(const type_traits *t) { return !t ? "raw" : t == TC ? "char" : t == &T4 ? "t4" : "?"; }
size_t esz(const type_traits *t) { return t ? t->size : 1; }
buffer *lib(CBuf *b) { return reinterpret_cast<buffer *>(b); }

int vcall(array *a, const char *fmt, ...) {
  va_list ap;
  va_start(ap, fmt);
  int r = mpt_vprintf(a, fmt, ap);
  va_end(ap);
  return r;
}

struct Pre { bool shared, immutable, grow, others; };

struct World {
  Ctx &c;
  Handle h[NH];
  int flavor = FRaw;
  const type_traits *ft = 0;
  std::string tagbuf;

  explicit World(Ctx &cc) : c(cc) {}

  // ---------------------------------------------------------------- helpers
  const char *tag(const char *cls, const char *op) { tagbuf = std::string(cls) + ":" + op; return tagbuf.c_str(); }
  int sharers(CBuf *b) { int n = 0; if (b) for (auto &x : h) if (x.buf() == b) ++n; return n; }
  uint32_t flags(CBuf *b) { return b->vptr->get_flags(b); }
  std::string desc(int i) {
    Handle &x = h[i];
    CBuf *b = x.buf();
    char s[160];
    if (!b) { snprintf(s, sizeof s, "h%d{%s no buffer}", i, x.kind == KArray ? "array" : x.kind == KSlice ? "slice" : "encode"); return s; }
    snprintf(s, sizeof s, "h%d{%s %s used=%zu size=%zu flags=%#x holders=%d", i, x.kind == KArray ? "array" : x.kind == KSlice ? "slice" : "encode",
             tname(b->traits), b->used, b->size, flags(b), sharers(b));
    std::string r = s;
    if (x.kind == KSlice) { snprintf(s, sizeof s, " window=%zu+%zu", (size_t)x.sl->_off, (size_t)x.sl->_len); r += s; }
    if (x.kind == KEnc) { snprintf(s, sizeof s, " done=%zu scratch=%zu", x.enc->_state.done, x.enc->_state.scratch); r += s; }
    return r + "}";
  }
  Pre pre(int i, bool grow) {
    CBuf *b = h[i].buf();
    Pre p = {sharers(b) > 1, b && (flags(b) & BufferImmutable), grow, false};
    for (int j = 0; j < NH; j++) if (j != i && h[j].buf()) p.others = true;
    return p;
  }
  void wrote(const Pre &p) {
    if (p.shared) c.label("nt:write-while-shared");
    if (p.immutable) c.label("nt:write-while-immutable");
    if (p.grow) c.label("nt:write-at-capacity");
    if ((p.shared || p.immutable || p.grow) && p.others) c.nontrivial();
  }
  void outcome(const char *op, bool ok) { c.label((std::string(ok ? "ok:" : "refused:") + op).c_str()); }

  size_t dsize(size_t used, size_t cap, size_t max) { return c.near({0, used, cap, 64, 128, 192}, max); }
  size_t al(size_t v, size_t e) { if (e > 1 && !c.chance(20)) v -= v % e; return v; }
  size_t huge() { size_t k = (size_t)c.range(0, 130); return c.flip() ? SIZE_MAX - k : (size_t)LONG_MAX + 1 - k; }
  bool want_huge() { bool v = c.chance(4); if (v) c.label("arg:huge"); return v; }
  std::vector<uint8_t> pattern(size_t n) {
    uint8_t s = c.u8();
    std::vector<uint8_t> v(n);
    for (size_t i = 0; i < n; i++) { uint8_t b = (uint8_t)(s + 3 * i); v[i] = b ? b : 0x5a; }
    return v;
  }
  std::string text(size_t n) {
    uint8_t s = c.u8();
    std::string v(n, 'a');
    for (size_t i = 0; i < n; i++) v[i] = (char)('a' + (s + i) % 26);
    return v;
  }
  // handle choice: construction based (first matching slot after a drawn start)
  template <typename P> int pickh(P pred) {
    int start = (int)c.pick(NH);
    for (int k = 0; k < NH; k++) { int i = (start + k) % NH; if (pred(h[i])) return i; }
    return -1;
  }
  int pick_array(bool prefer_buffer = false) {
    int i = -1;
    if (prefer_buffer) i = pickh([](Handle &x) { return x.kind == KArray && x.buf(); });
    if (i < 0) i = pickh([](Handle &x) { return x.kind == KArray; });
    if (i < 0) { i = (int)c.pick(NH); release(i, "release"); }
    return i;
  }
  int pick_private(bool need_mutable) {  // buffer held by exactly one handle (precondition of the mpt_buffer_* calls)
    return pickh([&](Handle &x) { CBuf *b = x.buf(); return x.kind == KArray && b && sharers(b) == 1 && !(need_mutable && (flags(b) & BufferImmutable)); });
  }

  // ---------------------------------------------------------------- observation
  void read(int i, std::vector<uint8_t> &out, const char *op) {
    Handle &x = h[i];
    CBuf *b = x.buf();
    out.clear();
    if (!b) {
      if (x.kind == KSlice) VP_CHECK(c, x.sl->_len == 0, tag("slice-window", op), "h%d: slice without buffer has length %zu after %s", i, (size_t)x.sl->_len, op);
      return;
    }
    VP_CHECK(c, b->used <= b->size, tag("used-gt-size", op), "h%d: _used %zu > _size %zu after %s", i, b->used, b->size, op);
    if (x.kind == KSlice) {
      size_t off = x.sl->_off, len = x.sl->_len;
      VP_CHECK(c, off <= b->used && len <= b->used - off, tag("slice-window", op), "h%d: slice window %zu+%zu outside used data %zu after %s", i, off, len, b->used, op);
      out.assign(b->data() + off, b->data() + off + len);
    } else {
      out.assign(b->data(), b->data() + b->used);
    }
  }
  void mismatch(const char *cls, const char *op, int target, int i, const std::vector<uint8_t> &got) {
    const std::vector<uint8_t> &m = h[i].m;
    size_t d = 0;
    while (d < got.size() && d < m.size() && got[d] == m[d]) ++d;
    size_t from = d > 8 ? d - 8 : 0;
    c.fail(tag(cls, op), "after %s on h%d: %s reads %zu bytes, the value model has %zu bytes; first difference at %zu: read ..%s, model ..%s", op, target, desc(i).c_str(),
           got.size(), m.size(), d, hex(got.data() + std::min(from, got.size()), got.size() - std::min(from, got.size()), 24).c_str(),
           hex(m.data() + std::min(from, m.size()), m.size() - std::min(from, m.size()), 24).c_str());
  }
  void verify(const char *op, int target, bool refused) {
    std::vector<uint8_t> got;
    for (int k = 0; k < NH; k++) {  // the other handles first: they are the heart of the property
      int i = (target + 1 + k) % NH;
      read(i, got, op);
      if (got != h[i].m) mismatch(refused ? "refused-changed" : i == target ? "target-mismatch" : "other-changed", op, target, i, got);
    }
    if (c.verbose()) for (int i = 0; i < NH; i++) if (h[i].buf() || h[i].kind != KArray) c.logf("      %s", desc(i).c_str());
  }

  // ---------------------------------------------------------------- operations
  void release(int i, const char *op) {
    Handle &x = h[i];
    if (x.kind == KEnc) {
      c.logf("  %s: mpt_encode_array_fini(h%d)", op, i);
      mpt_encode_array_fini(x.enc);
      memset(x.enc.raw, 0, sizeof x.enc.raw);
    } else {
      int r = mpt_array_clone(x.arr(), 0);
      c.logf("  %s: mpt_array_clone(h%d, NULL) = %d", op, i, r);
      VP_CHECK(c, r >= 0 && !x.buf(), tag("release-failed", op), "mpt_array_clone(h%d, NULL) returned %d, buffer %p", i, r, (void *)x.buf());
      x.sl->_off = x.sl->_len = 0;
    }
    x.kind = KArray;
    x.m.clear();
    verify(op, i, false);
  }

  void op_append() {
    int i = pick_array();
    Handle &x = h[i];
    CBuf *b = x.buf();
    size_t used = b ? b->used : 0, cap = b ? b->size : 0;
    bool hg = want_huge();
    size_t len = hg ? huge() : c.near({0, cap - used, 64, 128, 192}, 300);
    bool zero = hg || c.chance(64);
    std::vector<uint8_t> d = zero ? std::vector<uint8_t>(hg ? 0 : len, 0) : pattern(len);
    Pre p = pre(i, !hg && len > cap - used);
    c.logf("  mpt_array_append(h%d, len=%zu, %s)   [%s]", i, len, zero ? "NULL" : hex(d.data(), d.size(), 8).c_str(), desc(i).c_str());
    void *r = mpt_array_append(x.arr(), len, zero ? 0 : d.data());
    c.logf("    = %s", r ? "address" : "NULL");
    VP_CHECK(c, !(hg && r), "not-refused:append", "mpt_array_append(len=%zu) on %zu used bytes succeeded", len, used);
    if (r) {
      b = x.buf();
      VP_CHECK(c, b && (uint8_t *)r == b->data() + used, "ret-address:append", "returned %p, appended data must start at base %p + %zu", r, b ? (void *)b->data() : 0, used);
      x.m.insert(x.m.end(), d.begin(), d.end());
      if (len) wrote(p);
    }
    outcome("append", r);
    verify("append", i, !r);
  }

  void op_insert() {
    int i = pick_array(flavor != FRaw);
    Handle &x = h[i];
    CBuf *b = x.buf();
    size_t used = b ? b->used : 0, cap = b ? b->size : 0, e = esz(b ? b->traits : 0);
    size_t pos = al(dsize(used, cap, 300), e), base = std::max(used, pos);
    bool hg = want_huge();
    size_t len = hg ? huge() : al(c.near({0, cap > base ? cap - base : 0, 64, 128, 192}, 300), e);
    Pre p = pre(i, !hg && base + len > cap);
    c.logf("  mpt_array_insert(h%d, pos=%zu, len=%zu)   [%s]", i, pos, len, desc(i).c_str());
    void *r = mpt_array_insert(x.arr(), pos, len);
    c.logf("    = %s", r ? "address" : "NULL");
    VP_CHECK(c, !(hg && r), "not-refused:insert", "mpt_array_insert(pos=%zu, len=%zu) succeeded", pos, len);
    if (r) {
      b = x.buf();
      VP_CHECK(c, b && b->used <= b->size && pos <= b->used && len <= b->used - pos && (uint8_t *)r == b->data() + pos, "ret-address:insert",
               "returned %p; inserted data must be %zu bytes at base %p + %zu inside used=%zu size=%zu", r, len, b ? (void *)b->data() : 0, pos, b ? b->used : 0, b ? b->size : 0);
      std::vector<uint8_t> d = pattern(len);   // the inserted region is documented as NOT initialised: the caller fills it
      if (len) memcpy(r, d.data(), len);
      if (x.m.size() < pos) x.m.resize(pos, 0);
      x.m.insert(x.m.begin() + pos, d.begin(), d.end());
      if (len || pos > used) wrote(p);
    }
    outcome("insert", r);
    verify("insert", i, !r);
  }

  void op_set() {
    int i = pick_array();
    Handle &x = h[i];
    CBuf *b = x.buf();
    size_t used = b ? b->used : 0, cap = b ? b->size : 0;
    const type_traits *bt = b ? b->traits : 0, *t = bt ? bt : (ft ? ft : TC);
    if (c.chance(12)) { t = t == TC ? &T4 : TC; c.label("arg:other-traits"); }
    size_t e = t->size, ue = used / e, ce = cap / e;
    long off = c.chance(64) ? -(long)c.near({0, 1, ue, ue + 1}, 100) : (long)c.near({0, ue, ce, 16, 32, 48}, 100);
    bool hg = want_huge();
    size_t len = e * c.near({0, 1, ce > ue ? ce - ue : 0, 16, 32, 48}, 80);
    if (e > 1 && c.chance(12)) len += (size_t)c.range(1, e - 1);
    if (hg) len = huge();
    bool zero = hg || c.chance(48);
    std::vector<uint8_t> d = zero ? std::vector<uint8_t>(hg ? 0 : len, 0) : pattern(len);
    long long p = (long long)off * (long long)e;
    if (b && off < 0) p += (long long)used;
    bool must = hg || p < 0;
    Pre pr = pre(i, !must && (size_t)p + len > cap);
    c.logf("  mpt_array_set(h%d, %s, len=%zu, %s, off=%ld)   [%s]", i, tname(t), len, zero ? "NULL" : hex(d.data(), d.size(), 8).c_str(), off, desc(i).c_str());
    void *r = mpt_array_set(x.arr(), t, len, zero ? 0 : d.data(), off);
    c.logf("    = %s", r ? "address" : "NULL");
    VP_CHECK(c, !(must && r), "not-refused:set", "mpt_array_set(len=%zu, off=%ld) with %zu used bytes (byte position %lld) succeeded", len, off, used, p);
    if (r) {
      b = x.buf();
      VP_CHECK(c, b && (uint8_t *)r == b->data() + p, "ret-address:set", "returned %p, assigned data must start at base %p + %lld", r, b ? (void *)b->data() : 0, p);
      if (x.m.size() < (size_t)p + len) x.m.resize((size_t)p + len, 0);
      std::copy(d.begin(), d.end(), x.m.begin() + p);
      if (len || (size_t)p > used) wrote(pr);
    }
    outcome("set", r);
    verify("set", i, !r);
  }

  void op_slice() {
    int i = pick_array(flavor != FRaw);
    Handle &x = h[i];
    CBuf *b = x.buf();
    size_t used = b ? b->used : 0, cap = b ? b->size : 0, e = esz(b ? b->traits : 0);
    size_t off = al(dsize(used, cap, 300), e);
    bool hg = want_huge();
    size_t len = hg ? huge() : al(c.near({0, used > off ? used - off : 0, cap > off ? cap - off : 0, 64, 128, 192}, 300), e);
    Pre p = pre(i, !hg && off + len > cap);
    c.logf("  mpt_array_slice(h%d, off=%zu, len=%zu)   [%s]", i, off, len, desc(i).c_str());
    void *r = mpt_array_slice(x.arr(), off, len);
    c.logf("    = %s", r ? "address" : "NULL");
    VP_CHECK(c, !(hg && r), "not-refused:slice", "mpt_array_slice(off=%zu, len=%zu) succeeded", off, len);
    if (r) {
      b = x.buf();
      VP_CHECK(c, b && b->used <= b->size && off <= b->used && len <= b->used - off && (uint8_t *)r == b->data() + off, "ret-address:slice",
               "returned %p; slice must be %zu bytes at base %p + %zu inside used=%zu size=%zu", r, len, b ? (void *)b->data() : 0, off, b ? b->used : 0, b ? b->size : 0);
      if (x.m.size() < off + len) x.m.resize(off + len, 0);
      if (len && !c.chance(48)) {  // the caller writes through the returned address (mpt_vprintf, mpt_path_addchar do)
        std::vector<uint8_t> d = pattern(len);
        memcpy(r, d.data(), len);
        std::copy(d.begin(), d.end(), x.m.begin() + off);
        c.logf("    wrote %s", hex(d.data(), d.size(), 8).c_str());
        wrote(p);
      }
    }
    outcome("slice", r);
    verify("slice", i, !r);
  }

  void op_reserve() {
    int i = pick_array();
    Handle &x = h[i];
    CBuf *b = x.buf();
    size_t used = b ? b->used : 0, cap = b ? b->size : 0;
    const type_traits *bt = b ? b->traits : 0, *t = b ? bt : ft;
    if (c.chance(24)) { t = t == 0 ? TC : t == TC ? &T4 : 0; c.label("arg:other-traits"); }
    size_t len = c.near({0, used, cap, cap + 1, 64, 128, 192}, 400);
    uint32_t fl = b ? flags(b) : 0;
    Pre p = pre(i, len > cap);
    c.logf("  mpt_array_reserve(h%d, len=%zu, %s)   [%s]", i, len, tname(t), desc(i).c_str());
    buffer *r = mpt_array_reserve(x.arr(), len, t);
    c.logf("    = %s", r ? "buffer" : "NULL");
    if (r) {
      VP_CHECK(c, lib(x.buf()) == r, "ret-address:reserve", "returned buffer %p is not the buffer of the array %p", (void *)r, (void *)x.buf());
      std::vector<uint8_t> got;
      read(i, got, "reserve");
      size_t es = esz(t), alen = len % es ? len + es - len % es : len;
      bool same = !b || bt == t;
      // content: kept; or cut to the reserved length (both readings of "reserve" occur in the code); a type change
      // or a buffer that must not be copied starts empty (documented: "clear incompatible data")
      bool ok = got == x.m || (same && alen < x.m.size() && got == std::vector<uint8_t>(x.m.begin(), x.m.begin() + alen)) || ((!same || (fl & BufferNoCopy)) && got.empty());
      if (!ok) mismatch("target-mismatch", "reserve", i, i, got);
      if (got != x.m) c.label(got.empty() ? "reserve:cleared" : "reserve:cut");
      x.m = got;
      if (p.shared || p.immutable) wrote(p);
    }
    outcome("reserve", r);
    verify("reserve", i, !r);
  }

  void op_clone() {
    int i = pickh([](Handle &x) { return x.kind != KEnc; });
    if (i < 0) { i = (int)c.pick(NH); release(i, "release"); }
    Handle &x = h[i];
    int s = -1;
    if (x.kind == KArray && !c.chance(56)) s = pickh([&](Handle &y) { return y.kind != KSlice && (&y != &x || c.chance(16)); });
    CBuf *b = x.buf(), *sb = s >= 0 ? h[s].buf() : 0;
    if (s >= 0) c.logf("  mpt_array_clone(h%d, h%d)   [target %s, source %s]", i, s, desc(i).c_str(), desc(s).c_str());
    else c.logf("  mpt_array_clone(h%d, NULL)   [%s]", i, desc(i).c_str());
    int r = mpt_array_clone(x.arr(), s >= 0 ? h[s].arr() : 0);
    c.logf("    = %d", r);
    if (r >= 0) {
      if (s >= 0) x.m = h[s].m; else x.m.clear();
      if (s < 0) { x.sl->_off = x.sl->_len = 0; x.kind = KArray; }
      if (s >= 0 && sb) c.label(!b ? "clone:share" : sb == b ? "clone:same" : "clone:replace");
      if (s >= 0 && !sb) c.label(b ? "clone:from-empty-over-content" : "clone:from-empty");
    }
    outcome(s >= 0 ? "clone" : "clone-null", r >= 0);
    verify("clone", i, r < 0);
  }

  void op_reduce() {
    int i = pick_array(true);
    c.logf("  mpt_array_reduce(h%d)   [%s]", i, desc(i).c_str());
    size_t r = mpt_array_reduce(h[i].arr());
    c.logf("    = %zu", r);
    outcome("reduce", true);
    verify("reduce", i, false);
  }

  void op_binsert() {
    int i = pick_private(false);
    if (i < 0) { c.label("skip:buffer_insert"); return; }
    Handle &x = h[i];
    CBuf *b = x.buf();
    size_t used = b->used, cap = b->size, e = esz(b->traits);
    size_t pos = al(dsize(used, cap, cap + 70), e), base = std::max(used, pos);
    size_t len = al(c.near({0, cap > base ? cap - base : 0, 1, 64}, 300), e);
    bool must = base + len > cap;
    Pre p = pre(i, false);
    c.logf("  mpt_buffer_insert(h%d, pos=%zu, len=%zu)%s   [%s]", i, pos, len, must ? " out of range" : "", desc(i).c_str());
    void *r = mpt_buffer_insert(lib(b), pos, len);
    c.logf("    = %s", r ? "address" : "NULL");
    VP_CHECK(c, !(must && r), "not-refused:buffer_insert", "mpt_buffer_insert(pos=%zu, len=%zu) needs %zu bytes but the buffer holds %zu and succeeded", pos, len, base + len, cap);
    if (r) {
      VP_CHECK(c, (uint8_t *)r == b->data() + pos && b->used <= b->size && pos + len <= b->used, "ret-address:buffer_insert", "returned %p; inserted data must be %zu bytes at base %p + %zu inside used=%zu", r, len,
               (void *)b->data(), pos, b->used);
      std::vector<uint8_t> d = pattern(len);
      if (len) memcpy(r, d.data(), len);
      if (x.m.size() < pos) x.m.resize(pos, 0);
      x.m.insert(x.m.begin() + pos, d.begin(), d.end());
      if (len || pos > used) wrote(p);
    }
    if (must) c.label("range:buffer_insert");
    outcome("buffer_insert", r);
    verify("buffer_insert", i, !r);
  }

  void op_bcut() {
    int i = pick_private(true);
    if (i < 0) { c.label("skip:buffer_cut"); return; }
    Handle &x = h[i];
    CBuf *b = x.buf();
    size_t used = b->used, cap = b->size, e = esz(b->traits);
    size_t off = al(dsize(used, cap, cap + 70), e);
    size_t len = al(c.near({0, used > off ? used - off : 0, used, 1, 64}, 300), e);
    bool must = len ? (len > used || off > used - len) : off > used;
    c.logf("  mpt_buffer_cut(h%d, off=%zu, len=%zu)%s   [%s]", i, off, len, must ? " out of range" : "", desc(i).c_str());
    ssize_t r = mpt_buffer_cut(lib(b), off, len);
    c.logf("    = %zd", r);
    VP_CHECK(c, !(must && r >= 0), "not-refused:buffer_cut", "mpt_buffer_cut(off=%zu, len=%zu) on %zu used bytes (size %zu) returned %zd, _used is now %zu", off, len, used, cap, r, b->used);
    if (r >= 0) {
      if (len) x.m.erase(x.m.begin() + off, x.m.begin() + off + len); else x.m.resize(off);
      c.label(len ? "cut:remove" : "cut:truncate");
    }
    if (must) c.label("range:buffer_cut");
    outcome("buffer_cut", r >= 0);
    verify("buffer_cut", i, r < 0);
  }

  void op_bset() {
    int i = pick_private(true);
    if (i < 0) { c.label("skip:buffer_set"); return; }
    Handle &x = h[i];
    CBuf *b = x.buf();
    size_t used = b->used, cap = b->size, e = esz(b->traits);
    const type_traits *t = b->traits;
    if (c.chance(12)) { t = t == 0 ? TC : t == TC ? &T4 : 0; c.label("arg:other-traits"); }
    size_t pos = al(dsize(used, cap, cap + 70), e);
    bool hg = want_huge();
    size_t len = hg ? huge() : al(c.near({0, cap > pos ? cap - pos : 0, used > pos ? used - pos : 0, 1, 64}, 300), e);
    bool must = hg || pos + len > cap;
    bool zero = hg || c.chance(48);
    std::vector<uint8_t> d = zero ? std::vector<uint8_t>(hg ? 0 : len, 0) : pattern(len);
    Pre p = pre(i, false);
    c.logf("  mpt_buffer_set(h%d, %s, pos=%zu, %s, len=%zu)%s   [%s]", i, tname(t), pos, zero ? "NULL" : hex(d.data(), d.size(), 8).c_str(), len, must ? " out of range" : "", desc(i).c_str());
    long r = mpt_buffer_set(lib(b), t, pos, zero ? 0 : d.data(), len);
    c.logf("    = %ld", r);
    VP_CHECK(c, !(must && r >= 0), "not-refused:buffer_set", "mpt_buffer_set(pos=%zu, len=%zu) on a buffer of size %zu returned %ld", pos, len, cap, r);
    if (r >= 0) {
      if (x.m.size() < pos + len) x.m.resize(pos + len, 0);
      std::copy(d.begin(), d.end(), x.m.begin() + pos);
      if (pos > used) c.label("set:gap");
      if (len || pos > used) wrote(p);
    }
    if (must) c.label("range:buffer_set");
    outcome("buffer_set", r >= 0);
    verify("buffer_set", i, r < 0);
  }

  void op_mkslice() {
    int i = pickh([](Handle &x) { return x.kind != KEnc; });
    if (i < 0) { i = (int)c.pick(NH); }
    int s = pickh([&](Handle &y) { return y.kind != KSlice && &y != &h[i]; });
    if (s < 0) { c.label("skip:mkslice"); return; }
    if (h[i].buf() || h[i].kind != KArray) release(i, "release");
    Handle &x = h[i];
    size_t total = h[s].m.size();
    size_t off = c.near({0, total}, total), len = c.near({0, total - off}, total - off);
    c.logf("  slice h%d := h%d[%zu, +%zu) through mpt_array_clone   [source %s]", i, s, off, len, desc(s).c_str());
    int r = mpt_array_clone(x.arr(), h[s].arr());
    c.logf("    = %d", r);
    if (r >= 0) {
      x.kind = KSlice;
      x.sl->_off = off;
      x.sl->_len = len;
      x.m.assign(h[s].m.begin() + off, h[s].m.begin() + off + len);
    }
    outcome("mkslice", r >= 0);
    verify("mkslice", i, r < 0);
  }

  void op_swrite() {
    int i = pickh([](Handle &x) { return x.kind == KSlice; });
    if (i < 0) { c.label("skip:slice_write"); return; }
    Handle &x = h[i];
    CBuf *b = x.buf();
    size_t end = x.sl->_off + x.sl->_len, avail = b ? b->size - end : 0;
    size_t size = c.choose<size_t>({0, 1, 1, 1, 2, 3, 4, 8, 16});
    size_t nblk = size ? c.near({0, 1, 2, avail / size, 64 / size}, 300 / size) : c.near({0, 1, avail, 64}, 300);
    bool zero = size ? c.chance(32) : !c.chance(24);
    std::vector<uint8_t> d = zero ? std::vector<uint8_t>(nblk * size, 0) : pattern(size ? nblk * size : 4);
    Pre p = pre(i, nblk * size > avail);
    c.logf("  mpt_slice_write(h%d, nblk=%zu, %s, size=%zu)   [%s]", i, nblk, zero ? "NULL" : hex(d.data(), d.size(), 8).c_str(), size, desc(i).c_str());
    ssize_t r = mpt_slice_write(x.sl, nblk, zero ? 0 : d.data(), size);
    c.logf("    = %zd", r);
    if (r >= 0 && size) {
      VP_CHECK(c, (size_t)r <= nblk, "slice-write-count", "mpt_slice_write(nblk=%zu, size=%zu) reports %zd elements written", nblk, size, r);
      x.m.insert(x.m.end(), d.begin(), d.begin() + (size_t)r * size);
      if (r) { wrote(p); c.label((size_t)r < nblk ? "swrite:partial" : "swrite:all"); }
    }
    outcome(size ? "slice_write" : "slice_write-prepare", r >= 0);
    verify("slice_write", i, r < 0);
  }

  void op_push() {
    int i = pickh([](Handle &x) { return x.kind == KEnc; });
    if (i < 0 || c.chance(16)) {
      int j = pickh([](Handle &x) { return x.kind == KArray && !x.buf(); });
      if (j < 0 && i < 0) { j = (int)c.pick(NH); release(j, "release"); }
      if (j >= 0) { i = j; h[i].kind = KEnc; c.logf("  h%d := raw encode_array", i); }
    }
    Handle &x = h[i];
    CBuf *b = x.buf();
    size_t max = x.enc->_state.done + x.enc->_state.scratch, used = b ? b->used : 0, cap = b ? b->size : 0;
    if (c.chance(40)) {
      c.logf("  mpt_array_push(h%d, 0, NULL)   [%s]", i, desc(i).c_str());
      ssize_t r = mpt_array_push(x.enc, 0, 0);
      c.logf("    = %zd", r);
      outcome("push-end", r >= 0);
      verify("push", i, r < 0);
      return;
    }
    size_t len = c.near({1, cap > used ? cap - used : 0, 64, 128}, 200);
    if (!len) len = 1;
    std::vector<uint8_t> d = pattern(len);
    Pre p = pre(i, max + len > cap);
    c.logf("  mpt_array_push(h%d, len=%zu, %s)   [%s]", i, len, hex(d.data(), d.size(), 8).c_str(), desc(i).c_str());
    ssize_t r = mpt_array_push(x.enc, len, d.data());
    c.logf("    = %zd", r);
    if (r >= 0) {
      VP_CHECK(c, (size_t)r <= len, "push-count", "mpt_array_push(len=%zu) consumed %zd", len, r);
      x.m.resize(max, 0);
      x.m.insert(x.m.end(), d.begin(), d.begin() + r);
      if (r) wrote(p);
    }
    outcome("push", r >= 0);
    verify("push", i, r < 0);
  }

  void op_seed() {
    int i = pickh([](Handle &x) { return x.kind == KArray && !x.buf(); });
    if (i < 0) { i = pickh([](Handle &x) { return x.kind != KEnc; }); if (i < 0) i = (int)c.pick(NH); release(i, "release"); }
    Handle &x = h[i];
    static const int kFlags[] = {0, BufferImmutable, BufferNoCopy, BufferImmutable | BufferNoCopy};
    int fl = kFlags[c.weighted({3, 2, 2, 1})];
    size_t want = c.near({0, 64, 192}, 300);
    CBuf *b = reinterpret_cast<CBuf *>(_mpt_buffer_alloc(want, fl));
    VP_CHECK(c, b, "alloc-failed", "_mpt_buffer_alloc(%zu, %#x) returned NULL", want, fl);
    VP_CHECK(c, b->size >= want && !b->used, "alloc-size", "_mpt_buffer_alloc(%zu) returned size %zu used %zu", want, b->size, b->used);
    size_t e = esz(ft), n = c.near({0, b->size, want}, b->size);
    n -= n % e;
    std::vector<uint8_t> d = pattern(n);
    b->traits = ft;                 // the creator of a buffer fills it directly (config_item_reserve.c, array_message.c do)
    if (n) memcpy(b->data(), d.data(), n);
    b->used = n;
    cbuf(x.arr()) = b;
    x.m = d;
    c.logf("  h%d := _mpt_buffer_alloc(%zu, flags=%#x) content %s, %zu bytes %s", i, want, fl, tname(ft), n, hex(d.data(), d.size(), 8).c_str());
    c.label(fl == 0 ? "seed:plain" : (fl & BufferImmutable) ? "seed:immutable" : "seed:nocopy");
    verify("seed", i, false);
  }

  void op_printf() {
    int i = pickh([](Handle &x) { CBuf *b = x.buf(); return x.kind == KArray && (!b || b->traits == TC); });
    if (i < 0) i = pick_array();
    Handle &x = h[i];
    CBuf *b = x.buf();
    size_t used = b ? b->used : 0, cap = b ? b->size : 0, avail = cap - used;
    size_t L = c.near({0, 1, 63, 64, 65, 127, 128, avail, avail + 64}, 300);
    int variant = (int)c.weighted({5, 2, 2, 2}), v = 0, w = 0;
    bool via = c.flip();
    std::string s;
    char want[1400];
    int r = 0, n = 0;
    array *a = x.arr();
    Pre p = pre(i, L >= avail);
    static const char *kFmt[] = {"%s", "%d", "%*s", "[%s|%d]"};
    c.logf("  %s(h%d, \"%s\", length parameter %zu)   [%s]", via ? "mpt_vprintf" : "mpt_printf", i, kFmt[variant], L, desc(i).c_str());
    switch (variant) {
      case 0: s = text(L); n = snprintf(want, sizeof want, "%s", s.c_str()); r = via ? vcall(a, "%s", s.c_str()) : mpt_printf(a, "%s", s.c_str()); break;
      case 1: v = (int)c.u32(); n = snprintf(want, sizeof want, "%d", v); r = via ? vcall(a, "%d", v) : mpt_printf(a, "%d", v); break;
      case 2: w = (int)L; s = text(c.range(0, 5)); n = snprintf(want, sizeof want, "%*s", w, s.c_str()); r = via ? vcall(a, "%*s", w, s.c_str()) : mpt_printf(a, "%*s", w, s.c_str()); break;
      default: v = (int)c.u8() - 100; s = text(L); n = snprintf(want, sizeof want, "[%s|%d]", s.c_str(), v); r = via ? vcall(a, "[%s|%d]", s.c_str(), v) : mpt_printf(a, "[%s|%d]", s.c_str(), v); break;
    }
    c.logf("    = %d, the formatted text has %d characters", r, n);
    if (r >= 0) {
      x.m.insert(x.m.end(), want, want + n);
      if (n) wrote(p);
      c.label(n < 64 ? "printf:<64" : n % 64 == 0 ? "printf:multiple-of-64" : "printf:>64");
    }
    outcome("printf", r >= 0);
    verify("printf", i, r < 0);
  }

  void op_string() {
    int i = pickh([](Handle &x) { CBuf *b = x.buf(); return x.kind == KArray && b && b->traits == TC; });
    if (i < 0) i = pick_array(true);
    Handle &x = h[i];
    CBuf *b = x.buf();
    Pre p = pre(i, b && b->used == b->size);
    c.logf("  mpt_array_string(h%d)   [%s]", i, desc(i).c_str());
    char *r = mpt_array_string(x.arr());
    c.logf("    = %s", r ? "address" : "NULL");
    if (r) {
      b = x.buf();
      VP_CHECK(c, b && (uint8_t *)r == b->data(), "ret-address:array_string", "returned %p, the string must start at the data of the array's buffer %p", (void *)r, b ? (void *)b->data() : 0);
      if (std::find(x.m.begin(), x.m.end(), 0) == x.m.end()) { x.m.push_back(0); wrote(p); c.label("string:terminated"); }
    }
    outcome("array_string", r);
    verify("array_string", i, !r);
  }

  // ---------------------------------------------------------------- history
  enum { OAppend, OInsert, OSet, OSlice, OReserve, OClone, OReduce, OBInsert, OBCut, OBSet, OMkSlice, OSWrite, OPush, OSeed, OPrintf, OString, NOps };

  void run() {
    TC = mpt_type_traits('c');
    VP_CHECK(c, TC && TC->size == 1 && !TC->init && !TC->fini, "no-char-traits", "mpt_type_traits('c') unusable");
    flavor = (int)c.weighted({4, 3, 3});
    ft = flavor == FRaw ? 0 : flavor == FChar ? TC : &T4;
    c.label(flavor == FRaw ? "flavor:raw" : flavor == FChar ? "flavor:char" : "flavor:t4");
    c.logf("C API history, content flavour %s", tname(ft));
    static const unsigned W[3][NOps] = {
        //             app ins set sli res clo red bin bcu bse mks swr pus see prf str
        /* raw  */ {10, 8, 1, 8, 4, 12, 2, 5, 6, 5, 5, 10, 6, 5, 1, 1},
        /* char */ {1, 6, 8, 6, 4, 12, 2, 4, 5, 5, 1, 1, 0, 5, 14, 4},
        /* t4   */ {1, 8, 12, 8, 5, 12, 2, 5, 6, 6, 1, 1, 0, 6, 0, 0},
    };
    unsigned tot = 0;
    for (unsigned w : W[flavor]) tot += w;
    unsigned nops = 0;
    while (c.more() && nops < 48) {
      unsigned r = (unsigned)c.range(0, tot - 1), op = 0;
      while (r >= W[flavor][op]) r -= W[flavor][op++];
      ++nops;
      switch (op) {
        case OAppend: op_append(); break;
        case OInsert: op_insert(); break;
        case OSet: op_set(); break;
        case OSlice: op_slice(); break;
        case OReserve: op_reserve(); break;
        case OClone: op_clone(); break;
        case OReduce: op_reduce(); break;
        case OBInsert: op_binsert(); break;
        case OBCut: op_bcut(); break;
        case OBSet: op_bset(); break;
        case OMkSlice: op_mkslice(); break;
        case OSWrite: op_swrite(); break;
        case OPush: op_push(); break;
        case OSeed: op_seed(); break;
        case OPrintf: op_printf(); break;
        default: op_string(); break;
      }
    }
    c.count("ops", nops);
    for (int i = 0; i < NH; i++) release(i, "final-release");
  }
};

void run(Ctx &c) {
  // everything the case creates is released by the history itself (final-release); when an oracle fails the
  // handles are abandoned on purpose: the library state is not trusted any more and the process is left
  World *w = new World(c);
  w->run();
  delete w;
}

Target t = {
    "C04",
    "random: history of <= 48 operations over 4 handle slots (array | slice window | raw encode_array), one content flavour per case (raw | 'c' | plain 4-byte elements); "
    "operations mpt_array_{append,insert,set,slice,reserve,clone,reduce,string}, mpt_buffer_{insert,cut,set} on privately held buffers, mpt_slice_write, mpt_printf/mpt_vprintf, raw mpt_array_push, "
    "buffers seeded by _mpt_buffer_alloc(len, {0,Immutable,NoCopy,both}); offsets/lengths near {0, used, size, 64, 128, 192} +-2, past the end, rarely near SIZE_MAX/LONG_MAX; "
    "every handle read back and compared with a std::vector value model after every operation. "
    "non-trivial: a successful write went through a handle whose buffer was shared, immutable or too small while another handle held data (and was read afterwards); distinct by hash of the draw sequence.",
    run,
    {700, 2000},
    false,
    true,
    {},
    0,
    0,
};

}  // namespace

Target &vp::target() { return t; }
