// C04 — copy-on-write arrays behave as independent values            vp-link: core cxx
//
// Scenario 1 (3 of 4 cases): C API.
// G: history over 4 handle slots (plain array | slice window onto an array | raw encode_array) with one
//    content flavour per case (raw bytes | 'c' characters | plain 4-byte elements). Operations of the C API:
//    mpt_array_{append,insert,set,slice,reserve,clone,reduce,string}, mpt_buffer_{insert,cut,set} (only on
//    buffers held by exactly one handle: that is the callers' precondition), mpt_slice_write,
//    mpt_printf/mpt_vprintf, raw mpt_array_push, buf->_vptr->detach(len), buffers seeded through
//    _mpt_buffer_alloc(len, flags) with flags {0, Immutable, NoCopy, both}. Offsets/lengths near {0, used, size, 64, 128, 192} (+-2), past the
//    end, and (rarely) near SIZE_MAX/LONG_MAX for the functions that carry an explicit overflow guard.
//    Two operations were added later (3 % of the operations): "far" = mpt_buffer_{cut,insert,set}, mpt_array_{insert,slice,set}
//    with an offset/length (pair) around SIZE_MAX, LONG_MAX, 2^62, incl. pairs whose sum (element offset: product) wraps back
//    into the data, all of which must be refused; "printf-conv" = mpt_printf/mpt_vprintf with a wide character the "C" locale
//    cannot convert (vsnprintf fails), which must be refused with every handle unchanged.
// O: every handle has a std::vector<uint8_t> model with value semantics. After EVERY operation every handle
//    is read back completely (length + bytes) and compared with its model:
//      other-changed:<op>    a handle that was not the target reads something else than before
//      target-mismatch:<op>  the target does not read what the vector model contains after the operation
//      refused-changed:<op>  the operation reported failure but some handle reads differently
//      not-refused:<op>      arguments outside the data / capacity were accepted
//      ret-address:<op>      the returned address is not the documented position inside the handle's buffer
//      used-gt-size, slice-window   accounting invariants (_used <= _size, slice inside the used data)
//      immutable-modified:<op>  a buffer created with BufferImmutable changed while a handle still holds it
//      refused-by-state:<op>    append/insert/set/slice/reserve/printf refused on a handle, but the same call with the same
//                               arguments is accepted on a private, mutable, roomy array holding the same bytes (round 4)
//    Refusal is always allowed (DESIGN sect. 4); all handles are released at the end (leak check on).
// Scenario 2 (1 of 4 cases): C++ API (public members only), same oracle classes with the prefix "cxx-":
//    bytes:  mpt::array {set, append, insert, prepend, =array, =iovec, +=iovec, +=span, +=content, =slice, printf, string} and
//            mpt::slice {slice(array), shift, trim, write, data};
//    typed:  typed_array<int32_t> | unique_array<int32_t> | pointer_array<int> {copy, =, insert, set, get, resize, reserve, detach,
//            compact, swap, unused, offset} against std::vector<T>;
//    map:    map<int32_t,int32_t> {set, append, get, values, copy} against an ordered vector of pairs.
//    refs:   reference_array<T> | item_array<T> of counted objects (round 5): grown across the 64/192/320-byte capacity steps,
//            shared (=, copy), modified (insert/append, resize); NoCopy flag kept, writes through a shared handle refused.
//    encode: mpt::encode_array without encoder (round 6): push, push(0,0), data(), shift(n), shift(), prepare(n), copy / assignment.
// Round 6: buffers created by _mpt_buffer_map (one page and more) are a seed kind of the raw flavour.
// Round 7: allocation-failure injection (vp::alloc_fail_after) for a small share of the modifying steps of both scenarios:
//    the k-th (1..3) library allocation of the call fails; labels inject:<op>, inject:cxx, inject:hit.
// Round 5: user flags of a buffer (NoCopy, other user bits) are modelled per handle and must survive every operation
//    (flag-lost / flag-gained); a shared NoCopy buffer with data is never copied (nocopy-copied).
#include "vp.hpp"

#include "mpt_c.hpp"
#include "ref/cobs.hpp"

#include <climits>
#include <type_traits>

using namespace vp;
using namespace mpt;

namespace {

enum HKind { KArray, KSlice, KEnc };
enum { NH = 4 };
enum { FRaw, FChar, FT4 };

const type_traits *TC = 0;        // mpt_type_traits('c')
const type_traits T4(4);          // plain 4-byte element, no init/fini (managed elements are C05)

struct Handle {
  HKind kind = KArray;
  CObj<slice> sl;                 // array handles use the array part only
  CObj<encode_array> enc;
  std::vector<uint8_t> m;         // model: array/encode = whole content, slice = the window
  uint32_t uf = 0;                // model: user flags of the buffer (creation flags without Immutable, which a copy clears)
  array *arr() { return kind == KEnc ? &enc.get()->_d : static_cast<array *>(sl.get()); }
  CBuf *buf() { return cbuf(arr()); }
};

const char *tname(const type_traits *t) { return !t ? "raw" : t == TC ? "char" : t == &T4 ? "t4" : "?"; }
size_t esz(const type_traits *t) { return t ? t->size : 1; }
buffer *lib(CBuf *b) { return reinterpret_cast<buffer *>(b); }

int vcall(array *a, const char *fmt, ...) {
  va_list ap;
  va_start(ap, fmt);
  int r = mpt_vprintf(a, fmt, ap);
  va_end(ap);
  return r;
}

struct Pre { bool shared, immutable, grow, others; };

struct World {
  Ctx &c;
  Handle h[NH];
  int flavor = FRaw;
  const type_traits *ft = 0;
  std::string tagbuf;
  struct Frozen { CBuf *b; std::vector<uint8_t> bytes; };
  std::vector<Frozen> frozen;     // buffers created with BufferImmutable and their content at that time
  long inj_k = 0, inj_f0 = 0;     // allocation-failure injection (round 7): k-th library allocation of the next call fails
  bool inj_hit = false;           // the last library call met the injected failure
  int lp_i = -1;                  // last pre(): target, its buffer, and whether that was a shared NoCopy buffer with content
  CBuf *lp_b = 0;
  bool lp_ncs = false;

  explicit World(Ctx &cc) : c(cc) {}

  // ---------------------------------------------------------------- helpers
  const char *tag(const char *cls, const char *op) { tagbuf = std::string(cls) + ":" + op; return tagbuf.c_str(); }
  int sharers(CBuf *b) { int n = 0; if (b) for (auto &x : h) if (x.buf() == b) ++n; return n; }
  uint32_t flags(CBuf *b) { return b->vptr->get_flags(b); }
  std::string desc(int i) {
    Handle &x = h[i];
    CBuf *b = x.buf();
    char s[160];
    if (!b) { snprintf(s, sizeof s, "h%d{%s no buffer}", i, x.kind == KArray ? "array" : x.kind == KSlice ? "slice" : "encode"); return s; }
    snprintf(s, sizeof s, "h%d{%s %s used=%zu size=%zu flags=%#x holders=%d", i, x.kind == KArray ? "array" : x.kind == KSlice ? "slice" : "encode",
             tname(b->traits), b->used, b->size, flags(b), sharers(b));
    std::string r = s;
    if (x.kind == KSlice) { snprintf(s, sizeof s, " window=%zu+%zu", (size_t)x.sl->_off, (size_t)x.sl->_len); r += s; }
    if (x.kind == KEnc) { snprintf(s, sizeof s, " done=%zu scratch=%zu", x.enc->_state.done, x.enc->_state.scratch); r += s; }
    return r + "}";
  }
  Pre pre(int i, bool grow) {
    CBuf *b = h[i].buf();
    Pre p = {sharers(b) > 1, b && (flags(b) & BufferImmutable), grow && b && b->used, false};  // "at capacity": existing data had to move
    for (int j = 0; j < NH; j++) if (j != i && h[j].buf()) p.others = true;
    lp_i = i; lp_b = b; lp_ncs = b && (flags(b) & BufferNoCopy) && sharers(b) > 1 && (h[i].kind == KSlice ? h[i].sl->_len : b->used);   // data the call would have to copy
    return p;
  }
  void wrote(const Pre &p) {
    if (p.shared) c.label("nt:write-while-shared");
    if (p.immutable) c.label("nt:write-while-immutable");
    if (p.grow) c.label("nt:write-at-capacity");
    if ((p.shared || p.immutable || p.grow) && p.others) c.nontrivial();
  }
  void outcome(const char *op, bool ok) { c.label((std::string(ok ? "ok:" : "refused:") + op).c_str()); }
  // allocation-failure injection around exactly one library call: a refusal caused by it is an allocation failure (allowed,
  // not subject to the twin rule); everything C04 says about a refused operation applies, as does the normal oracle when
  // the call needs no allocation or gets along without the failed one
  void arm(const char *op) {
    inj_hit = false;
    if (!inj_k) return;
    c.label(!strcmp(op, "push") || !strcmp(op, "reduce") || !strcmp(op, "array_string") ? "inject:other" : (std::string("inject:") + op).c_str());   // (160 label slots)
    c.logf("    (allocation %ld of this call is made to fail)", inj_k);
    inj_f0 = alloc_failures();
    alloc_fail_after(inj_k);
  }
  void disarm() {
    if (!inj_k) return;
    inj_hit = alloc_failures() > inj_f0;
    alloc_fail_after(0);
    inj_k = 0;
    if (inj_hit) { c.label("inject:hit"); c.logf("    (the allocation failed)"); }
  }

  size_t dsize(size_t used, size_t cap, size_t max) { return c.near({0, used, cap, 64, 128, 192}, max); }
  // largest drawn size: as before for heap buffers; a memory mapped buffer (a page and more) gets its size on top, so that
  // appends / inserts / reserves cross the end of the mapping
  size_t mx(CBuf *b, size_t dflt) { return b && (flags(b) & BufferMapped) ? b->size + dflt : dflt; }
  size_t al(size_t v, size_t e) { if (e > 1 && !c.chance(20)) v -= v % e; return v; }
  size_t huge() { size_t k = (size_t)c.range(0, 130); return c.flip() ? SIZE_MAX - k : (size_t)LONG_MAX + 1 - k; }
  bool want_huge() { bool v = c.chance(4); if (v) c.label("arg:huge"); return v; }
  std::vector<uint8_t> pattern(size_t n) {
    uint8_t s = c.u8();
    std::vector<uint8_t> v(n);
    for (size_t i = 0; i < n; i++) { uint8_t b = (uint8_t)(s + 3 * i); v[i] = b ? b : 0x5a; }
    return v;
  }
  std::string text(size_t n) {
    uint8_t s = c.u8();
    std::string v(n, 'a');
    for (size_t i = 0; i < n; i++) v[i] = (char)('a' + (s + i) % 26);
    return v;
  }
  // handle choice: construction based (first matching slot after a drawn start)
  template <typename P> int pickh(P pred) {
    int start = (int)c.pick(NH);
    for (int k = 0; k < NH; k++) { int i = (start + k) % NH; if (pred(h[i])) return i; }
    return -1;
  }
  int pick_array(bool prefer_buffer = false) {
    int i = -1;
    if (prefer_buffer) i = pickh([](Handle &x) { return x.kind == KArray && x.buf(); });
    if (i < 0) i = pickh([](Handle &x) { return x.kind == KArray; });
    if (i < 0) { i = (int)c.pick(NH); release(i, "release"); }
    return i;
  }
  int pick_private(bool need_mutable) {  // buffer held by exactly one handle (precondition of the mpt_buffer_* calls)
    return pickh([&](Handle &x) { CBuf *b = x.buf(); return x.kind == KArray && b && sharers(b) == 1 && !(need_mutable && (flags(b) & BufferImmutable)); });
  }

  // ---------------------------------------------------------------- observation
  void read(int i, std::vector<uint8_t> &out, const char *op) {
    Handle &x = h[i];
    CBuf *b = x.buf();
    out.clear();
    if (!b) {
      if (x.kind == KSlice) VP_CHECK(c, x.sl->_len == 0, tag("slice-window", op), "h%d: slice without buffer has length %zu after %s", i, (size_t)x.sl->_len, op);
      return;
    }
    VP_CHECK(c, b->used <= b->size, tag("used-gt-size", op), "h%d: _used %zu > _size %zu after %s", i, b->used, b->size, op);
    if (x.kind == KSlice) {
      size_t off = x.sl->_off, len = x.sl->_len;
      VP_CHECK(c, off <= b->used && len <= b->used - off, tag("slice-window", op), "h%d: slice window %zu+%zu outside used data %zu after %s", i, off, len, b->used, op);
      out.assign(b->data() + off, b->data() + off + len);
    } else {
      out.assign(b->data(), b->data() + b->used);
    }
  }
  void mismatch(const char *cls, const char *op, int target, int i, const std::vector<uint8_t> &got) {
    const std::vector<uint8_t> &m = h[i].m;
    size_t d = 0;
    while (d < got.size() && d < m.size() && got[d] == m[d]) ++d;
    size_t from = d > 8 ? d - 8 : 0;
    c.fail(tag(cls, op), "after %s on h%d: %s reads %zu bytes, the value model has %zu bytes; first difference at %zu: read ..%s, model ..%s", op, target, desc(i).c_str(),
           got.size(), m.size(), d, hex(got.data() + std::min(from, got.size()), got.size() - std::min(from, got.size()), 24).c_str(),
           hex(m.data() + std::min(from, m.size()), m.size() - std::min(from, m.size()), 24).c_str());
  }
  void verify(const char *op, int target, bool refused) {
    std::vector<uint8_t> got;
    for (int k = 0; k < NH; k++) {  // the other handles first: they are the heart of the property
      int i = (target + 1 + k) % NH;
      read(i, got, op);
      if (got != h[i].m) mismatch(refused ? "refused-changed" : i == target ? "target-mismatch" : "other-changed", op, target, i, got);
    }
    // the content of a shared buffer flagged NoCopy cannot be copied ("block copy of data", ENOTSUP), at any size:
    // a successful call must not leave the handle with another buffer that holds data
    if (!refused && lp_i == target && lp_ncs) {
      CBuf *nb = h[target].buf();
      VP_CHECK(c, !(nb && nb != lp_b && nb->used), tag("nocopy-copied", op), "%s on h%d succeeded with a new buffer of %zu bytes although the handle shared a NoCopy buffer with data", op, target, nb ? nb->used : 0);
    }
    lp_i = -1;
    // user flags are part of the buffer's identity: they survive every reallocation (growth, detach, reserve);
    // only Immutable is documented to be cleared on a copy, and it is never gained
    for (int i = 0; i < NH; i++) {
      CBuf *b = h[i].buf();
      if (!b) continue;
      uint32_t fl = flags(b) & BufferFlagsUser;
      VP_CHECK(c, (fl & ~(uint32_t)BufferImmutable) == h[i].uf, tag("flag-lost", op), "after %s on h%d: the buffer of h%d has user flags %#x, the array was created with %#x", op, target, i, fl, h[i].uf);
      if (fl & BufferImmutable) {
        bool known = false;
        for (auto &f : frozen) if (f.b == b) known = true;
        VP_CHECK(c, known, tag("flag-gained", op), "after %s on h%d: the buffer of h%d is flagged immutable but was not created so", op, target, i);
      }
    }
    // a buffer flagged immutable never changes while a handle still holds it
    for (size_t k = 0; k < frozen.size();) {
      CBuf *b = frozen[k].b;
      if (!sharers(b) || !(flags(b) & BufferImmutable)) { frozen.erase(frozen.begin() + k); continue; }
      const std::vector<uint8_t> &w = frozen[k].bytes;
      VP_CHECK(c, b->used == w.size() && !memcmp(b->data(), w.data(), w.size()), tag("immutable-modified", op), "after %s on h%d: the immutable buffer seeded with %zu bytes %s now holds %zu bytes %s", op, target,
               w.size(), hex(w.data(), w.size(), 16).c_str(), b->used, hex(b->data(), std::min(b->used, b->size), 16).c_str());
      ++k;
    }
    if (c.verbose()) for (int i = 0; i < NH; i++) if (h[i].buf() || h[i].kind != KArray) c.logf("      %s", desc(i).c_str());
  }

  // ---------------------------------------------------------------- metamorphic rule for refusals
  // A call that was refused on a handle is repeated with the same arguments on a "twin": a fresh array of the same
  // content type with the same bytes, held by nobody else, mutable, with plenty of room. Whether an array-level
  // operation is possible may depend on its arguments and on the content, not on who else holds the buffer, on its
  // flags or on the slack of the allocation (the array calls exist to hide exactly that: they grow / detach as
  // needed). The twin accepting what the handle refused is reported as refused-by-state:<op>.
  // Exempt (documented state dependent refusals): a buffer flagged NoCopy that is shared cannot be detached (ENOTSUP);
  // a memory mapped buffer with a content type cannot be copied at all.
  template <typename F> void twin_check(const char *op, int i, F call) {
    CBuf *b = h[i].buf();
    if (!b || h[i].kind != KArray) return;
    uint32_t fl = flags(b);
    if ((fl & BufferNoCopy) && sharers(b) > 1) { c.label("twin:exempt-nocopy"); return; }
    // second documented limitation: the memory mapped backend copies raw bytes only ("only detach raw buffer", ENOTSUP);
    // a mapped buffer that was given a content type by mpt_array_reserve cannot get a private copy
    if ((fl & BufferMapped) && b->traits) { c.label("twin:exempt-mapped-typed"); return; }
    CBuf *tb = reinterpret_cast<CBuf *>(_mpt_buffer_alloc(b->used + 1024, 0));
    VP_CHECK(c, tb && tb->size >= b->used + 1024, "alloc-failed", "_mpt_buffer_alloc(%zu) for the twin", b->used + 1024);
    tb->traits = b->traits;
    if (b->used) memcpy(tb->data(), b->data(), b->used);
    tb->used = b->used;
    CObj<array> ta;
    cbuf(ta.get()) = tb;
    size_t tsize = tb->size;   // the call may replace the twin's buffer
    bool accepted = call(ta.get());
    c.logf("    twin (private, mutable, %zu bytes, size %zu): %s", b->used, tsize, accepted ? "accepted" : "refused");
    mpt_array_clone(ta.get(), 0);
    c.label(accepted ? "twin:accepted" : "twin:refused");
    VP_CHECK(c, !accepted, tag("refused-by-state", op), "%s was refused on %s but the same call is accepted on a private mutable array with the same %zu bytes and more room", op, desc(i).c_str(), b->used);
  }

  // ---------------------------------------------------------------- operations
  void release(int i, const char *op) {
    Handle &x = h[i];
    if (x.kind == KEnc) {
      c.logf("  %s: mpt_encode_array_fini(h%d)", op, i);
      mpt_encode_array_fini(x.enc);
      memset(x.enc.raw, 0, sizeof x.enc.raw);
    } else {
      int r = mpt_array_clone(x.arr(), 0);
      c.logf("  %s: mpt_array_clone(h%d, NULL) = %d", op, i, r);
      VP_CHECK(c, r >= 0 && !x.buf(), tag("release-failed", op), "mpt_array_clone(h%d, NULL) returned %d, buffer %p", i, r, (void *)x.buf());
      x.sl->_off = x.sl->_len = 0;
    }
    x.kind = KArray;
    x.m.clear();
    x.uf = 0;
    verify(op, i, false);
  }

  void op_append() {
    int i = pick_array();
    Handle &x = h[i];
    CBuf *b = x.buf();
    size_t used = b ? b->used : 0, cap = b ? b->size : 0;
    bool hg = want_huge();
    size_t len = hg ? huge() : c.near({0, cap - used, 64, 128, 192}, mx(b, 300));
    bool zero = hg || c.chance(64);
    std::vector<uint8_t> d = zero ? std::vector<uint8_t>(hg ? 0 : len, 0) : pattern(len);
    Pre p = pre(i, !hg && len > cap - used);
    c.logf("  mpt_array_append(h%d, len=%zu, %s)   [%s]", i, len, zero ? "NULL" : hex(d.data(), d.size(), 8).c_str(), desc(i).c_str());
    arm("append");
    void *r = mpt_array_append(x.arr(), len, zero ? 0 : d.data());
    disarm();
    c.logf("    = %s", r ? "address" : "NULL");
    VP_CHECK(c, !(hg && r), "not-refused:append", "mpt_array_append(len=%zu) on %zu used bytes succeeded", len, used);
    if (r) {
      b = x.buf();
      VP_CHECK(c, b && (uint8_t *)r == b->data() + used, "ret-address:append", "returned %p, appended data must start at base %p + %zu", r, b ? (void *)b->data() : 0, used);
      x.m.insert(x.m.end(), d.begin(), d.end());
      if (len) wrote(p);
    }
    outcome("append", r);
    verify("append", i, !r);
    if (!r && !inj_hit) twin_check("append", i, [&](array *a) { return mpt_array_append(a, len, zero ? 0 : d.data()) != 0; });
  }

  void op_insert() {
    int i = pick_array(flavor != FRaw);
    Handle &x = h[i];
    CBuf *b = x.buf();
    size_t used = b ? b->used : 0, cap = b ? b->size : 0, e = esz(b ? b->traits : 0);
    size_t pos = al(dsize(used, cap, mx(b, 300)), e), base = std::max(used, pos);
    bool hg = want_huge();
    size_t len = hg ? huge() : al(c.near({0, cap > base ? cap - base : 0, 64, 128, 192}, mx(b, 300)), e);
    Pre p = pre(i, !hg && base + len > cap);
    c.logf("  mpt_array_insert(h%d, pos=%zu, len=%zu)   [%s]", i, pos, len, desc(i).c_str());
    arm("insert");
    void *r = mpt_array_insert(x.arr(), pos, len);
    disarm();
    c.logf("    = %s", r ? "address" : "NULL");
    VP_CHECK(c, !(hg && r), "not-refused:insert", "mpt_array_insert(pos=%zu, len=%zu) succeeded", pos, len);
    if (r) {
      b = x.buf();
      VP_CHECK(c, b && b->used <= b->size && pos <= b->used && len <= b->used - pos && (uint8_t *)r == b->data() + pos, "ret-address:insert",
               "returned %p; inserted data must be %zu bytes at base %p + %zu inside used=%zu size=%zu", r, len, b ? (void *)b->data() : 0, pos, b ? b->used : 0, b ? b->size : 0);
      std::vector<uint8_t> d = pattern(len);   // the inserted region is documented as NOT initialised: the caller fills it
      if (len) memcpy(r, d.data(), len);
      if (x.m.size() < pos) x.m.resize(pos, 0);
      x.m.insert(x.m.begin() + pos, d.begin(), d.end());
      if (len || pos > used) wrote(p);
    }
    outcome("insert", r);
    verify("insert", i, !r);
    if (!r && !inj_hit) twin_check("insert", i, [&](array *a) { return mpt_array_insert(a, pos, len) != 0; });
  }

  void op_set() {
    int i = pick_array();
    Handle &x = h[i];
    CBuf *b = x.buf();
    size_t used = b ? b->used : 0, cap = b ? b->size : 0;
    const type_traits *bt = b ? b->traits : 0, *t = bt ? bt : (ft ? ft : TC);
    if (c.chance(12)) { t = t == TC ? &T4 : TC; c.label("arg:other-traits"); }
    size_t e = t->size, ue = used / e, ce = cap / e;
    long off = c.chance(64) ? -(long)c.near({0, 1, ue, ue + 1}, 100) : (long)c.near({0, ue, ce, 16, 32, 48}, 100);
    bool hg = want_huge();
    size_t len = e * c.near({0, 1, ce > ue ? ce - ue : 0, 16, 32, 48}, 80);
    if (e > 1 && c.chance(12)) len += (size_t)c.range(1, e - 1);
    if (hg) len = huge();
    bool zero = hg || c.chance(48);
    std::vector<uint8_t> d = zero ? std::vector<uint8_t>(hg ? 0 : len, 0) : pattern(len);
    long long p = (long long)off * (long long)e;
    if (b && off < 0) p += (long long)used;
    bool must = hg || p < 0;
    Pre pr = pre(i, !must && (size_t)p + len > cap);
    c.logf("  mpt_array_set(h%d, %s, len=%zu, %s, off=%ld)   [%s]", i, tname(t), len, zero ? "NULL" : hex(d.data(), d.size(), 8).c_str(), off, desc(i).c_str());
    arm("set");
    void *r = mpt_array_set(x.arr(), t, len, zero ? 0 : d.data(), off);
    disarm();
    c.logf("    = %s", r ? "address" : "NULL");
    VP_CHECK(c, !(must && r), "not-refused:set", "mpt_array_set(len=%zu, off=%ld) with %zu used bytes (byte position %lld) succeeded", len, off, used, p);
    if (r) {
      b = x.buf();
      VP_CHECK(c, b && (uint8_t *)r == b->data() + p, "ret-address:set", "returned %p, assigned data must start at base %p + %lld", r, b ? (void *)b->data() : 0, p);
      if (x.m.size() < (size_t)p + len) x.m.resize((size_t)p + len, 0);
      std::copy(d.begin(), d.end(), x.m.begin() + p);
      if (len || (size_t)p > used) wrote(pr);
    }
    outcome("set", r);
    verify("set", i, !r);
    if (!r && !inj_hit) twin_check("set", i, [&](array *a) { return mpt_array_set(a, t, len, zero ? 0 : d.data(), off) != 0; });
  }

  void op_slice() {
    int i = pick_array(flavor != FRaw);
    Handle &x = h[i];
    CBuf *b = x.buf();
    size_t used = b ? b->used : 0, cap = b ? b->size : 0, e = esz(b ? b->traits : 0);
    size_t off = al(dsize(used, cap, mx(b, 300)), e);
    bool hg = want_huge();
    size_t len = hg ? huge() : al(c.near({0, used > off ? used - off : 0, cap > off ? cap - off : 0, 64, 128, 192}, mx(b, 300)), e);
    Pre p = pre(i, !hg && off + len > cap);
    c.logf("  mpt_array_slice(h%d, off=%zu, len=%zu)   [%s]", i, off, len, desc(i).c_str());
    arm("slice");
    void *r = mpt_array_slice(x.arr(), off, len);
    disarm();
    c.logf("    = %s", r ? "address" : "NULL");
    VP_CHECK(c, !(hg && r), "not-refused:slice", "mpt_array_slice(off=%zu, len=%zu) succeeded", off, len);
    if (r) {
      b = x.buf();
      VP_CHECK(c, b && b->used <= b->size && off <= b->used && len <= b->used - off && (uint8_t *)r == b->data() + off, "ret-address:slice",
               "returned %p; slice must be %zu bytes at base %p + %zu inside used=%zu size=%zu", r, len, b ? (void *)b->data() : 0, off, b ? b->used : 0, b ? b->size : 0);
      if (x.m.size() < off + len) x.m.resize(off + len, 0);
      if (len && !c.chance(48)) {  // the caller writes through the returned address (mpt_vprintf, mpt_path_addchar do)
        std::vector<uint8_t> d = pattern(len);
        memcpy(r, d.data(), len);
        std::copy(d.begin(), d.end(), x.m.begin() + off);
        c.logf("    wrote %s", hex(d.data(), d.size(), 8).c_str());
        wrote(p);
      }
    }
    outcome("slice", r);
    verify("slice", i, !r);
    if (!r && !inj_hit) twin_check("slice", i, [&](array *a) { return mpt_array_slice(a, off, len) != 0; });
  }

  void op_reserve() {
    int i = pick_array();
    Handle &x = h[i];
    CBuf *b = x.buf();
    size_t used = b ? b->used : 0, cap = b ? b->size : 0;
    const type_traits *bt = b ? b->traits : 0, *t = b ? bt : ft;
    if (c.chance(24)) { t = t == 0 ? TC : t == TC ? &T4 : 0; c.label("arg:other-traits"); }
    size_t len = c.near({0, used, cap, cap + 1, 64, 128, 192}, mx(b, 400));
    uint32_t fl = b ? flags(b) : 0;
    Pre p = pre(i, len > cap);
    c.logf("  mpt_array_reserve(h%d, len=%zu, %s)   [%s]", i, len, tname(t), desc(i).c_str());
    arm("reserve");
    buffer *r = mpt_array_reserve(x.arr(), len, t);
    disarm();
    c.logf("    = %s", r ? "buffer" : "NULL");
    if (r) {
      VP_CHECK(c, lib(x.buf()) == r, "ret-address:reserve", "returned buffer %p is not the buffer of the array %p", (void *)r, (void *)x.buf());
      std::vector<uint8_t> got;
      read(i, got, "reserve");
      size_t es = esz(t), alen = len % es ? len + es - len % es : len;
      bool same = !b || bt == t;
      // content: kept, as a vector's reserve keeps it whatever the requested size is. Only a type change or a shared
      // buffer that must not be copied starts empty (documented: "clear incompatible data", "copy compatible content")
      (void)alen;
      bool ok = got == x.m || ((!same || ((fl & BufferNoCopy) && (p.shared || p.immutable))) && got.empty());
      if (!ok) mismatch("target-mismatch", "reserve", i, i, got);
      if (got != x.m) c.label(got.empty() ? "reserve:cleared" : "reserve:cut");
      x.m = got;
      if (p.shared || p.immutable) wrote(p);
    }
    outcome("reserve", r);
    verify("reserve", i, !r);
    if (!r && !inj_hit) twin_check("reserve", i, [&](array *a) { return mpt_array_reserve(a, len, t) != 0; });
  }

  void op_clone() {
    int i = pickh([](Handle &x) { return x.kind != KEnc; });
    if (i < 0) { i = (int)c.pick(NH); release(i, "release"); }
    Handle &x = h[i];
    int s = -1;
    if (x.kind == KArray && !c.chance(56)) s = pickh([&](Handle &y) { return y.kind != KSlice && (&y != &x || c.chance(16)); });
    CBuf *b = x.buf(), *sb = s >= 0 ? h[s].buf() : 0;
    if (s >= 0) c.logf("  mpt_array_clone(h%d, h%d)   [target %s, source %s]", i, s, desc(i).c_str(), desc(s).c_str());
    else c.logf("  mpt_array_clone(h%d, NULL)   [%s]", i, desc(i).c_str());
    int r = mpt_array_clone(x.arr(), s >= 0 ? h[s].arr() : 0);
    c.logf("    = %d", r);
    if (r >= 0) {
      if (s >= 0) x.m = h[s].m; else x.m.clear();
      x.uf = s >= 0 ? h[s].uf : 0;
      if (s < 0) { x.sl->_off = x.sl->_len = 0; x.kind = KArray; }
      if (s >= 0 && sb) c.label(!b ? "clone:share" : sb == b ? "clone:same" : "clone:replace");
      if (s >= 0 && !sb) c.label(b ? "clone:from-empty-over-content" : "clone:from-empty");
    }
    outcome(s >= 0 ? "clone" : "clone-null", r >= 0);
    verify("clone", i, r < 0);
  }

  void op_reduce() {
    int i = pick_array(true);
    c.logf("  mpt_array_reduce(h%d)   [%s]", i, desc(i).c_str());
    pre(i, false);
    arm("reduce");
    size_t r = mpt_array_reduce(h[i].arr());
    disarm();
    c.logf("    = %zu", r);
    outcome("reduce", true);
    verify("reduce", i, false);
  }

  void op_detach() {  // the buffer interface itself, the way array_push.c, path_del.c, stage_data.c call it
    int i = pick_array(true);
    Handle &x = h[i];
    CBuf *b = x.buf();
    if (!b) { c.label("skip"); return; }
    size_t used = b->used, cap = b->size, e = esz(b->traits);
    size_t len = al(c.near({0, used, used ? used - 1 : 0, cap, cap + 1, 64, 128, 192}, mx(b, 400)), e);
    Pre p = pre(i, len > cap);
    c.logf("  h%d: buf->detach(%zu)   [%s]", i, len, desc(i).c_str());
    arm("detach");
    CBuf *n = b->vptr->detach(b, len);
    disarm();
    c.logf("    = %s", !n ? "NULL" : n == b ? "same buffer" : "new buffer");
    if (n) {
      cbuf(x.arr()) = n;
      std::vector<uint8_t> got;
      read(i, got, "detach");
      size_t alen = len % e ? len + e - len % e : len;
      // content kept, or cut to the requested size when the data had to move to a smaller private buffer
      bool ok = got == x.m || (alen < x.m.size() && got == std::vector<uint8_t>(x.m.begin(), x.m.begin() + alen));
      if (!ok) mismatch("target-mismatch", "detach", i, i, got);
      if (got != x.m) c.label("detach:cut");
      x.m = got;
      if (n != b && (p.shared || p.immutable)) wrote(p);
    }
    outcome("detach", n);
    verify("detach", i, !n);
  }

  void op_binsert() {
    int i = pick_private(false);
    if (i < 0) { c.label("skip"); return; }
    Handle &x = h[i];
    CBuf *b = x.buf();
    size_t used = b->used, cap = b->size, e = esz(b->traits);
    size_t pos = al(dsize(used, cap, cap + 70), e), base = std::max(used, pos);
    size_t len = al(c.near({0, cap > base ? cap - base : 0, 1, 64}, mx(b, 300)), e);
    bool must = base + len > cap;
    Pre p = pre(i, false);
    c.logf("  mpt_buffer_insert(h%d, pos=%zu, len=%zu)%s   [%s]", i, pos, len, must ? " out of range" : "", desc(i).c_str());
    void *r = mpt_buffer_insert(lib(b), pos, len);
    c.logf("    = %s", r ? "address" : "NULL");
    VP_CHECK(c, !(must && r), "not-refused:buffer_insert", "mpt_buffer_insert(pos=%zu, len=%zu) needs %zu bytes but the buffer holds %zu and succeeded", pos, len, base + len, cap);
    if (r) {
      VP_CHECK(c, (uint8_t *)r == b->data() + pos && b->used <= b->size && pos + len <= b->used, "ret-address:buffer_insert", "returned %p; inserted data must be %zu bytes at base %p + %zu inside used=%zu", r, len,
               (void *)b->data(), pos, b->used);
      std::vector<uint8_t> d = pattern(len);
      if (len) memcpy(r, d.data(), len);
      if (x.m.size() < pos) x.m.resize(pos, 0);
      x.m.insert(x.m.begin() + pos, d.begin(), d.end());
      if (len || pos > used) wrote(p);
    }
    if (must) c.label("range:buffer_insert");
    outcome("buffer_insert", r);
    verify("buffer_insert", i, !r);
  }

  void op_bcut() {
    int i = pick_private(true);
    if (i < 0) { c.label("skip"); return; }
    Handle &x = h[i];
    CBuf *b = x.buf();
    size_t used = b->used, cap = b->size, e = esz(b->traits);
    size_t off = al(dsize(used, cap, cap + 70), e);
    size_t len = al(c.near({0, used > off ? used - off : 0, used, 1, 64}, mx(b, 300)), e);
    bool must = len ? (len > used || off > used - len) : off > used;
    c.logf("  mpt_buffer_cut(h%d, off=%zu, len=%zu)%s   [%s]", i, off, len, must ? " out of range" : "", desc(i).c_str());
    ssize_t r = mpt_buffer_cut(lib(b), off, len);
    c.logf("    = %zd", r);
    VP_CHECK(c, !(must && r >= 0), "not-refused:buffer_cut", "mpt_buffer_cut(off=%zu, len=%zu) on %zu used bytes (size %zu) returned %zd, _used is now %zu", off, len, used, cap, r, b->used);
    if (r >= 0) {
      if (len) x.m.erase(x.m.begin() + off, x.m.begin() + off + len); else x.m.resize(off);
      c.label(len ? "cut:remove" : "cut:truncate");
    }
    if (must) c.label("range:buffer_cut");
    outcome("buffer_cut", r >= 0);
    verify("buffer_cut", i, r < 0);
  }

  void op_bset() {
    int i = pick_private(true);
    if (i < 0) { c.label("skip"); return; }
    Handle &x = h[i];
    CBuf *b = x.buf();
    size_t used = b->used, cap = b->size, e = esz(b->traits);
    const type_traits *t = b->traits;
    if (c.chance(12)) { t = t == 0 ? TC : t == TC ? &T4 : 0; c.label("arg:other-traits"); }
    size_t pos = al(dsize(used, cap, cap + 70), e);
    bool hg = want_huge();
    size_t len = hg ? huge() : al(c.near({0, cap > pos ? cap - pos : 0, used > pos ? used - pos : 0, 1, 64}, mx(b, 300)), e);
    bool must = hg || pos + len > cap;
    bool zero = hg || c.chance(48);
    std::vector<uint8_t> d = zero ? std::vector<uint8_t>(hg ? 0 : len, 0) : pattern(len);
    Pre p = pre(i, false);
    c.logf("  mpt_buffer_set(h%d, %s, pos=%zu, %s, len=%zu)%s   [%s]", i, tname(t), pos, zero ? "NULL" : hex(d.data(), d.size(), 8).c_str(), len, must ? " out of range" : "", desc(i).c_str());
    long r = mpt_buffer_set(lib(b), t, pos, zero ? 0 : d.data(), len);
    c.logf("    = %ld", r);
    VP_CHECK(c, !(must && r >= 0), "not-refused:buffer_set", "mpt_buffer_set(pos=%zu, len=%zu) on a buffer of size %zu returned %ld", pos, len, cap, r);
    if (r >= 0) {
      if (x.m.size() < pos + len) x.m.resize(pos + len, 0);
      std::copy(d.begin(), d.end(), x.m.begin() + pos);
      if (pos > used) c.label("set:gap");
      if (len || pos > used) wrote(p);
    }
    if (must) c.label("range:buffer_set");
    outcome("buffer_set", r >= 0);
    verify("buffer_set", i, r < 0);
  }

  void op_mkslice() {
    int i = pickh([](Handle &x) { return x.kind != KEnc; });
    if (i < 0) { i = (int)c.pick(NH); }
    int s = pickh([&](Handle &y) { return y.kind != KSlice && &y != &h[i]; });
    if (s < 0) { c.label("skip"); return; }
    if (h[i].buf() || h[i].kind != KArray) release(i, "release");
    Handle &x = h[i];
    size_t total = h[s].m.size();
    size_t off = c.near({0, total}, total), len = c.near({0, total - off}, total - off);
    c.logf("  slice h%d := h%d[%zu, +%zu) through mpt_array_clone   [source %s]", i, s, off, len, desc(s).c_str());
    int r = mpt_array_clone(x.arr(), h[s].arr());
    c.logf("    = %d", r);
    if (r >= 0) {
      x.kind = KSlice;
      x.uf = h[s].uf;
      x.sl->_off = off;
      x.sl->_len = len;
      x.m.assign(h[s].m.begin() + off, h[s].m.begin() + off + len);
    }
    outcome("mkslice", r >= 0);
    verify("mkslice", i, r < 0);
  }

  void op_swrite() {
    int i = pickh([](Handle &x) { return x.kind == KSlice; });
    if (i < 0) { c.label("skip"); return; }
    Handle &x = h[i];
    CBuf *b = x.buf();
    size_t end = x.sl->_off + x.sl->_len, avail = b ? b->size - end : 0;
    size_t size = c.choose<size_t>({0, 1, 1, 1, 2, 3, 4, 8, 16});
    size_t nblk = size ? c.near({0, 1, 2, avail / size, 64 / size}, 300 / size) : c.near({0, 1, avail, 64}, 300);
    bool zero = size ? c.chance(32) : !c.chance(24);
    std::vector<uint8_t> d = zero ? std::vector<uint8_t>(nblk * size, 0) : pattern(size ? nblk * size : 4);
    Pre p = pre(i, nblk * size > avail);
    c.logf("  mpt_slice_write(h%d, nblk=%zu, %s, size=%zu)   [%s]", i, nblk, zero ? "NULL" : hex(d.data(), d.size(), 8).c_str(), size, desc(i).c_str());
    arm("slice_write");
    ssize_t r = mpt_slice_write(x.sl, nblk, zero ? 0 : d.data(), size);
    disarm();
    c.logf("    = %zd", r);
    if (r >= 0 && size) {
      VP_CHECK(c, (size_t)r <= nblk, "slice-write-count", "mpt_slice_write(nblk=%zu, size=%zu) reports %zd elements written", nblk, size, r);
      x.m.insert(x.m.end(), d.begin(), d.begin() + (size_t)r * size);
      if (r) { wrote(p); c.label((size_t)r < nblk ? "swrite:partial" : "swrite:all"); }
    }
    outcome(size ? "slice_write" : "slice_write-prepare", r >= 0);
    verify("slice_write", i, r < 0);
  }

  void op_push() {
    int i = pickh([](Handle &x) { return x.kind == KEnc; });
    if (i < 0 || c.chance(16)) {
      int j = pickh([](Handle &x) { return x.kind == KArray && !x.buf(); });
      if (j < 0 && i < 0) { j = (int)c.pick(NH); release(j, "release"); }
      if (j >= 0) { i = j; h[i].kind = KEnc; c.logf("  h%d := raw encode_array", i); }
    }
    Handle &x = h[i];
    CBuf *b = x.buf();
    size_t max = x.enc->_state.done + x.enc->_state.scratch, used = b ? b->used : 0, cap = b ? b->size : 0;
    if (c.chance(40)) {
      c.logf("  mpt_array_push(h%d, 0, NULL)   [%s]", i, desc(i).c_str());
      ssize_t r = mpt_array_push(x.enc, 0, 0);
      c.logf("    = %zd", r);
      outcome("push-end", r >= 0);
      verify("push", i, r < 0);
      return;
    }
    size_t len = c.near({1, cap > used ? cap - used : 0, 64, 128}, 200);
    if (!len) len = 1;
    std::vector<uint8_t> d = pattern(len);
    Pre p = pre(i, max + len > cap);
    c.logf("  mpt_array_push(h%d, len=%zu, %s)   [%s]", i, len, hex(d.data(), d.size(), 8).c_str(), desc(i).c_str());
    arm("push");
    ssize_t r = mpt_array_push(x.enc, len, d.data());
    disarm();
    c.logf("    = %zd", r);
    if (r >= 0) {
      VP_CHECK(c, (size_t)r <= len, "push-count", "mpt_array_push(len=%zu) consumed %zd", len, r);
      x.m.resize(max, 0);
      x.m.insert(x.m.end(), d.begin(), d.begin() + r);
      if (r) wrote(p);
    }
    outcome("push", r >= 0);
    verify("push", i, r < 0);
  }

  void op_seed() {
    int i = pickh([](Handle &x) { return x.kind == KArray && !x.buf(); });
    if (i < 0) { i = pickh([](Handle &x) { return x.kind != KEnc; }); if (i < 0) i = (int)c.pick(NH); release(i, "release"); }
    Handle &x = h[i];
    static const int kFlags[] = {0, BufferImmutable, BufferNoCopy, BufferImmutable | BufferNoCopy};
    int fl = kFlags[c.weighted({3, 2, 2, 1})];
    size_t want = c.near({0, 64, 192}, 300);
    if (want % 4 == 3) fl |= 0x40;   // some other user flag (derived from an existing draw): stored and inherited like NoCopy
    // raw flavour, drawn size = 6 mod 8 (no extra draw): a memory mapped buffer (_mpt_buffer_map, one page and more)
    bool mapped = flavor == FRaw && (want & 7) == 6;
    CBuf *b = reinterpret_cast<CBuf *>(mapped ? _mpt_buffer_map(want, fl) : _mpt_buffer_alloc(want, fl));
    VP_CHECK(c, b, "alloc-failed", "%s(%zu, %#x) returned NULL", mapped ? "_mpt_buffer_map" : "_mpt_buffer_alloc", want, fl);
    if (mapped) { c.label("seed:mapped"); VP_CHECK(c, flags(b) & BufferMapped, "alloc-failed", "_mpt_buffer_map returned flags %#x", flags(b)); }
    VP_CHECK(c, b->size >= want && !b->used, "alloc-size", "_mpt_buffer_alloc(%zu) returned size %zu used %zu", want, b->size, b->used);
    size_t e = esz(ft), n = c.near({0, b->size, want}, b->size);
    n -= n % e;
    std::vector<uint8_t> d = pattern(n);
    b->traits = ft;                 // the creator of a buffer fills it directly (config_item_reserve.c, array_message.c do)
    if (n) memcpy(b->data(), d.data(), n);
    b->used = n;
    cbuf(x.arr()) = b;
    x.m = d;
    x.uf = (uint32_t)fl & ~(uint32_t)BufferImmutable;
    for (size_t k = 0; k < frozen.size();) { if (frozen[k].b == b) frozen.erase(frozen.begin() + k); else ++k; }
    if (fl & BufferImmutable) frozen.push_back(Frozen{b, d});
    c.logf("  h%d := %s(%zu, flags=%#x) content %s, %zu bytes %s", i, mapped ? "_mpt_buffer_map" : "_mpt_buffer_alloc", want, fl, tname(ft), n, hex(d.data(), d.size(), 8).c_str());
    c.label(!(fl & 3) ? "seed:plain" : (fl & BufferImmutable) ? "seed:immutable" : "seed:nocopy");
    verify("seed", i, false);
  }

  void op_printf() {
    int i = pickh([](Handle &x) { CBuf *b = x.buf(); return x.kind == KArray && (!b || b->traits == TC); });
    if (i < 0) i = pick_array();
    Handle &x = h[i];
    CBuf *b = x.buf();
    size_t used = b ? b->used : 0, cap = b ? b->size : 0, avail = cap - used;
    size_t L = c.near({0, 1, 63, 64, 65, 127, 128, avail, avail + 64}, 300);
    int variant = (int)c.weighted({5, 2, 2, 2}), v = 0, w = 0;
    bool via = c.flip();
    std::string s;
    char want[1400];
    int r = 0, n = 0;
    array *a = x.arr();
    Pre p = pre(i, L >= avail);
    static const char *kFmt[] = {"%s", "%d", "%*s", "[%s|%d]"};
    c.logf("  %s(h%d, \"%s\", length parameter %zu)   [%s]", via ? "mpt_vprintf" : "mpt_printf", i, kFmt[variant], L, desc(i).c_str());
    auto print = [&](array *a) -> int {
      switch (variant) {
        case 0: return via ? vcall(a, "%s", s.c_str()) : mpt_printf(a, "%s", s.c_str());
        case 1: return via ? vcall(a, "%d", v) : mpt_printf(a, "%d", v);
        case 2: return via ? vcall(a, "%*s", w, s.c_str()) : mpt_printf(a, "%*s", w, s.c_str());
        default: return via ? vcall(a, "[%s|%d]", s.c_str(), v) : mpt_printf(a, "[%s|%d]", s.c_str(), v);
      }
    };
    switch (variant) {
      case 0: s = text(L); n = snprintf(want, sizeof want, "%s", s.c_str()); break;
      case 1: v = (int)c.u32(); n = snprintf(want, sizeof want, "%d", v); break;
      case 2: w = (int)L; s = text(c.range(0, 5)); n = snprintf(want, sizeof want, "%*s", w, s.c_str()); break;
      default: v = (int)c.u8() - 100; s = text(L); n = snprintf(want, sizeof want, "[%s|%d]", s.c_str(), v); break;
    }
    arm("printf");
    r = print(a);
    disarm();
    c.logf("    = %d, the formatted text has %d characters", r, n);
    if (r >= 0) {
      x.m.insert(x.m.end(), want, want + n);
      if (n) wrote(p);
      c.label(n < 64 ? "printf:<64" : n % 64 == 0 ? "printf:multiple-of-64" : "printf:>64");
    }
    outcome("printf", r >= 0);
    verify("printf", i, r < 0);
    if (r < 0 && !inj_hit) twin_check("printf", i, [&](array *ta) { return print(ta) >= 0; });
  }

  void op_string() {
    int i = pickh([](Handle &x) { CBuf *b = x.buf(); return x.kind == KArray && b && b->traits == TC; });
    if (i < 0) i = pick_array(true);
    Handle &x = h[i];
    CBuf *b = x.buf();
    Pre p = pre(i, b && b->used == b->size);
    c.logf("  mpt_array_string(h%d)   [%s]", i, desc(i).c_str());
    arm("array_string");
    char *r = mpt_array_string(x.arr());
    disarm();
    c.logf("    = %s", r ? "address" : "NULL");
    if (r) {
      b = x.buf();
      VP_CHECK(c, b && (uint8_t *)r == b->data(), "ret-address:array_string", "returned %p, the string must start at the data of the array's buffer %p", (void *)r, b ? (void *)b->data() : 0);
      if (std::find(x.m.begin(), x.m.end(), 0) == x.m.end()) { x.m.push_back(0); wrote(p); c.label("string:terminated"); }
    }
    outcome("array_string", r);
    verify("array_string", i, !r);
  }


  // ---- arguments far outside any buffer: around SIZE_MAX, LONG_MAX and the values whose sum / product wraps
  // back into the data ("operations whose arguments fall outside the data are refused")
  size_t far() {
    size_t k = c.near({0, 1, 3, 7, 64, 130}, 260);
    switch (c.pick(4)) {
      case 0: return SIZE_MAX - k;
      case 1: return (size_t)LONG_MAX + 1 - k;
      case 2: return (size_t)LONG_MAX + 1 + k;
      default: return ((size_t)1 << 62) + k;
    }
  }
  // (first, second) with at least one far value; mode 1: the sum wraps to a position inside [0, lim + 2]
  void far_pair(size_t lim, size_t e, size_t &a, size_t &b) {
    switch (c.pick(3)) {
      case 0: a = far(); b = c.near({0, 1, lim, e, 64}, lim + 70); break;
      case 1: { size_t t = c.near({0, 1, lim}, lim + 2); a = far(); if (a < SIZE_MAX - 600 && c.flip()) a = SIZE_MAX - (size_t)c.range(0, 260); b = (size_t)0 - a + t; } break;
      default: a = c.near({0, 1, lim}, lim + 2); b = far(); break;
    }
    if (e > 1 && !c.chance(20)) { a -= a % e; b -= b % e; }
  }
  void op_far() {
    int sub = (int)c.weighted({4, 2, 2, 2, 2, 3});
    int i = sub < 3 ? pick_private(true) : -1;
    if (i < 0 && sub < 3) sub += 3;   // no privately held buffer: the array level call of the same kind
    if (i < 0) i = pick_array(sub != 5);
    Handle &x = h[i];
    CBuf *b = x.buf();
    size_t used = b ? b->used : 0, cap = b ? b->size : 0, e = esz(b ? b->traits : 0), a1 = 0, a2 = 0;
    bool ok = false;
    const char *op = "";
    if (sub != 5) far_pair(sub == 0 ? used : cap, e, a1, a2);
    switch (sub) {
      case 0: {
        op = "buffer_cut";
        c.logf("  mpt_buffer_cut(h%d, off=%zu, len=%zu) far out of range   [%s]", i, a1, a2, desc(i).c_str());
        ssize_t r = mpt_buffer_cut(lib(b), a1, a2);
        c.logf("    = %zd", r);
        ok = r >= 0;
      } break;
      case 1: {
        op = "buffer_insert";
        c.logf("  mpt_buffer_insert(h%d, pos=%zu, len=%zu) far out of range   [%s]", i, a1, a2, desc(i).c_str());
        void *r = mpt_buffer_insert(lib(b), a1, a2);
        c.logf("    = %s", r ? "address" : "NULL");
        ok = r;
      } break;
      case 2: {
        op = "buffer_set";
        bool zero = c.flip();
        std::vector<uint8_t> d = pattern(16);   // never read when the call is refused as it must be
        c.logf("  mpt_buffer_set(h%d, %s, pos=%zu, %s, len=%zu) far out of range   [%s]", i, tname(b->traits), a1, zero ? "NULL" : "data", a2, desc(i).c_str());
        long r = mpt_buffer_set(lib(b), b->traits, a1, zero ? 0 : d.data(), a2);
        c.logf("    = %ld", r);
        ok = r >= 0;
      } break;
      case 3: {
        op = "insert";
        c.logf("  mpt_array_insert(h%d, pos=%zu, len=%zu) far out of range   [%s]", i, a1, a2, desc(i).c_str());
        void *r = mpt_array_insert(x.arr(), a1, a2);
        c.logf("    = %s", r ? "address" : "NULL");
        ok = r;
      } break;
      case 4: {
        op = "slice";
        c.logf("  mpt_array_slice(h%d, off=%zu, len=%zu) far out of range   [%s]", i, a1, a2, desc(i).c_str());
        void *r = mpt_array_slice(x.arr(), a1, a2);
        c.logf("    = %s", r ? "address" : "NULL");
        ok = r;
      } break;
      default: {  // element offset whose byte position does not fit / wraps
        op = "set";
        const type_traits *bt = b ? b->traits : 0, *t = bt ? bt : (ft ? ft : TC);
        size_t es = t->size, k = (size_t)c.range(0, 70);
        long off;
        switch (c.pick(5)) {
          case 0: off = LONG_MAX - (long)k; break;
          case 1: off = (long)(LONG_MAX / es + 1 + k); break;           // off * size leaves the positive range
          case 2: off = (long)(SIZE_MAX / es + 1 + k); break;           // off * size wraps to k * size (size > 1)
          case 3: off = LONG_MIN + (long)k; break;
          default: off = (long)((size_t)0 - (SIZE_MAX / es / 2 + 1) * 2 + k); break;   // -(2^64/size) + k: wraps to k * size behind the end
        }
        if (es == 1 && off >= 0 && off < LONG_MAX - 70) off = LONG_MAX - (long)k;   // size 1: every representable far offset
        if (es == 1 && off < 0 && off > LONG_MIN + 70) off = LONG_MIN + (long)k;
        size_t len = es * c.near({0, 1, 16}, 40);
        bool zero = c.flip();
        std::vector<uint8_t> d = pattern(len);
        c.logf("  mpt_array_set(h%d, %s, len=%zu, %s, off=%ld) far out of range   [%s]", i, tname(t), len, zero ? "NULL" : "data", off, desc(i).c_str());
        void *r = mpt_array_set(x.arr(), t, len, zero ? 0 : d.data(), off);
        c.logf("    = %s", r ? "address" : "NULL");
        ok = r;
      } break;
    }
    VP_CHECK(c, !ok, tag("not-refused", op), "%s with arguments far outside the data (%zu used, size %zu) was accepted; used is now %zu", op, used, cap, x.buf() ? x.buf()->used : 0);
    outcome("far", false);   // (the engine keeps 160 labels: one label for all six calls)
    verify(op, i, true);
  }

  // a print whose conversion fails (wide character without representation in the "C" locale): refused, nothing changes
  void op_printf_conv() {
    static const wchar_t bad[] = {0x20ac, 0};
    int i = pickh([](Handle &x) { CBuf *b = x.buf(); return x.kind == KArray && b && b->traits == TC; });
    if (i < 0) i = pickh([](Handle &x) { CBuf *b = x.buf(); return x.kind == KArray && !b; });
    if (i < 0) i = pick_array();
    Handle &x = h[i];
    int variant = (int)c.pick(3);
    bool via = c.flip();
    std::string s = text(c.near({0, 1, 63, 64}, 80));
    static const char *kFmt[] = {"%ls", "%s%ls", "<%ls>%s"};
    char want[400];
    int n, r;
    array *a = x.arr();
    CBuf *b = x.buf();
    if (b && sharers(b) > 1) c.label("printf-conv:shared");
    c.logf("  %s(h%d, \"%s\") with a wide character that cannot be converted   [%s]", via ? "mpt_vprintf" : "mpt_printf", i, kFmt[variant], desc(i).c_str());
    switch (variant) {
      case 0: n = snprintf(want, sizeof want, "%ls", bad); r = via ? vcall(a, "%ls", bad) : mpt_printf(a, "%ls", bad); break;
      case 1: n = snprintf(want, sizeof want, "%s%ls", s.c_str(), bad); r = via ? vcall(a, "%s%ls", s.c_str(), bad) : mpt_printf(a, "%s%ls", s.c_str(), bad); break;
      default: n = snprintf(want, sizeof want, "<%ls>%s", bad, s.c_str()); r = via ? vcall(a, "<%ls>%s", bad, s.c_str()) : mpt_printf(a, "<%ls>%s", bad, s.c_str()); break;
    }
    c.logf("    = %d (snprintf of the C library: %d)", r, n);
    if (r >= 0) {
      VP_CHECK(c, n >= 0, "printf-invented", "the C library cannot convert the arguments (snprintf = %d) but the print reports %d characters", n, r);
      x.m.insert(x.m.end(), want, want + n);
    }
    outcome("printf-conv", r >= 0);
    verify("printf-conv", i, r < 0);
  }

  // ---------------------------------------------------------------- history
  enum { OAppend, OInsert, OSet, OSlice, OReserve, OClone, OReduce, OBInsert, OBCut, OBSet, OMkSlice, OSWrite, OPush, OSeed, OPrintf, OString, ODetach, NOps };

  void run() {
    TC = mpt_type_traits('c');
    VP_CHECK(c, TC && TC->size == 1 && !TC->init && !TC->fini, "no-char-traits", "mpt_type_traits('c') unusable");
    flavor = (int)c.weighted({4, 3, 3});
    ft = flavor == FRaw ? 0 : flavor == FChar ? TC : &T4;
    c.label(flavor == FRaw ? "flavor:raw" : flavor == FChar ? "flavor:char" : "flavor:t4");
    c.logf("C API history, content flavour %s", tname(ft));
    static const unsigned W[3][NOps] = {
        //             app ins set sli res clo red bin bcu bse mks swr pus see prf str det
        /* raw  */ {10, 8, 1, 8, 4, 12, 2, 5, 6, 5, 8, 12, 6, 5, 1, 1, 2},
        /* char */ {1, 6, 8, 6, 4, 12, 2, 4, 5, 5, 1, 1, 0, 5, 14, 4, 2},
        /* t4   */ {1, 8, 12, 8, 5, 12, 2, 5, 6, 6, 1, 1, 0, 6, 0, 0, 3},
    };
    unsigned tot = 0;
    for (unsigned w : W[flavor]) tot += w;
    unsigned nops = 0;
    while (c.more() && nops < 48) {
      // one byte: the 8 highest values select the operations added later (far arguments, failing print conversion),
      // every other value keeps its earlier meaning (byte % total weight) so that saved cases decode as before
      unsigned byte = (unsigned)c.range(0, 255), r = byte % tot, op = 0;
      ++nops;
      inj_k = 0;
      alloc_fail_after(0);
      if (byte >= 240 && byte < 248) {   // round 7: the operation drawn next runs with a failing allocation
        inj_k = 1 + (long)c.pick(3);
        byte = (unsigned)c.range(0, 247);
        r = byte % tot;
      }
      if (byte >= 248) {
        if (byte < 253 && !(flavor == FChar && byte >= 251)) op_far(); else op_printf_conv();
        continue;
      }
      while (r >= W[flavor][op]) r -= W[flavor][op++];
      switch (op) {
        case OAppend: op_append(); break;
        case OInsert: op_insert(); break;
        case OSet: op_set(); break;
        case OSlice: op_slice(); break;
        case OReserve: op_reserve(); break;
        case OClone: op_clone(); break;
        case OReduce: op_reduce(); break;
        case OBInsert: op_binsert(); break;
        case OBCut: op_bcut(); break;
        case OBSet: op_bset(); break;
        case OMkSlice: op_mkslice(); break;
        case OSWrite: op_swrite(); break;
        case OPush: op_push(); break;
        case OSeed: op_seed(); break;
        case OPrintf: op_printf(); break;
        case ODetach: op_detach(); break;
        default: op_string(); break;
      }
    }
    c.count("ops", nops);
    inj_k = 0;
    alloc_fail_after(0);
    for (int i = 0; i < NH; i++) release(i, "final-release");
  }
};


// =====================================================================================================
// Scenario 2: C++ API
// =====================================================================================================

std::string vtag(const char *cls, const char *op) { return std::string("cxx-") + cls + ":" + op; }

// allocation-failure injection in the C++ scenarios (round 7): the operation byte values 248..255 mean "the operation
// drawn next runs with the k-th library allocation failing" (k and the operation are drawn only in that branch; every
// other value keeps its meaning byte % total weight). Armed at the start of an eligible (modifying) operation, switched
// off when its result is verified. Oracle: as for any refusal (reported, nothing changed) or complete success.
struct Inject {
  long k = 0, f0 = 0;
  bool armed = false, hit = false;
  unsigned select(Ctx &c, std::initializer_list<unsigned> w) {
    unsigned tot = 0, sel = 0;
    for (unsigned x : w) tot += x;
    unsigned byte = (unsigned)c.range(0, 255);
    k = 0;
    if (byte >= 248) { k = 1 + (long)c.pick(3); byte = (unsigned)c.range(0, 247); }
    unsigned r = byte % tot;
    for (unsigned x : w) { if (r < x) break; r -= x; ++sel; }
    return sel;
  }
  void arm(Ctx &c, bool eligible) {
    hit = armed = false;
    if (!k || !eligible) { k = 0; return; }
    c.label("inject:cxx");
    c.logf("    (library allocation %ld of the next operation is made to fail)", k);
    f0 = alloc_failures();
    alloc_fail_after(k);
    armed = true;
  }
  void disarm(Ctx &c) {
    if (armed) {
      hit = alloc_failures() > f0;
      alloc_fail_after(0);
      if (hit) { c.label("inject:hit"); c.logf("    (the allocation failed)"); }
    }
    armed = false;
    k = 0;
  }
};

// ---- bytes: mpt::array and mpt::slice ---------------------------------------------------------------
struct CxxBytes {
  Ctx &c;
  enum { NA = 3 };
  array *a[NA];
  std::vector<uint8_t> m[NA];
  slice *s = 0;                              // window onto one of the arrays (shares its buffer)
  std::vector<uint8_t> sm, sfront, sback;    // window, known bytes hidden before / behind it
  bool back_known = true;

  explicit CxxBytes(Ctx &cc) : c(cc) { for (auto &x : a) x = 0; }

  std::vector<uint8_t> pattern(size_t n) {
    uint8_t sd = c.u8();
    std::vector<uint8_t> v(n);
    for (size_t i = 0; i < n; i++) { uint8_t b = (uint8_t)(sd + 3 * i); v[i] = b ? b : 0x5a; }
    return v;
  }
  std::string text(size_t n) {
    uint8_t sd = c.u8();
    std::string v(n, 'a');
    for (size_t i = 0; i < n; i++) v[i] = (char)('a' + (sd + i) % 26);
    return v;
  }
  static std::vector<uint8_t> bytes(const array &x) {
    const array::content *d = x.data();
    if (!d) return {};
    const uint8_t *p = (const uint8_t *)d->data();
    return std::vector<uint8_t>(p, p + d->length());
  }
  std::string desc(int i) {
    const array::content *d = a[i]->data();
    char t[120];
    if (!d) snprintf(t, sizeof t, "a%d{no buffer}", i);
    else snprintf(t, sizeof t, "a%d{%s used=%zu left=%zu%s}", i, d->content_traits() ? "typed" : "raw", d->length(), d->left(), a[i]->shared() ? " shared" : "");
    return t;
  }
  void fail(const char *cls, const char *op, const char *who, const std::vector<uint8_t> &got, const std::vector<uint8_t> &want) {
    size_t d = 0;
    while (d < got.size() && d < want.size() && got[d] == want[d]) ++d;
    size_t from = d > 8 ? d - 8 : 0;
    c.fail(vtag(cls, op).c_str(), "after %s: %s reads %zu bytes, the value model has %zu bytes; first difference at %zu: read ..%s, model ..%s", op, who, got.size(), want.size(), d,
           hex(got.data() + std::min(from, got.size()), got.size() - std::min(from, got.size()), 24).c_str(), hex(want.data() + std::min(from, want.size()), want.size() - std::min(from, want.size()), 24).c_str());
  }
  std::vector<uint8_t> window() {
    span<const uint8_t> d = s->data();
    const array::content *b = static_cast<const array *>(s)->data();
    size_t used = b ? b->length() : 0;
    VP_CHECK(c, d.size() >= 0 && (size_t)d.size() <= used && (!d.size() || (d.begin() >= (const uint8_t *)b->data() && d.begin() + d.size() <= (const uint8_t *)b->data() + used)), "cxx-slice-window",
             "slice window of %ld bytes is not inside the %zu used bytes of its buffer", d.size(), used);
    return std::vector<uint8_t>(d.begin(), d.begin() + d.size());
  }
  Inject inj;
  void verify(const char *op, int target, bool refused) {  // target: array index, NA = the slice, -1 none
    inj.disarm(c);
    for (int k = 0; k < NA; k++) {
      int i = (target + 1 + k + NA + 1) % NA;
      std::vector<uint8_t> got = bytes(*a[i]);
      if (got != m[i]) fail(refused ? "refused-changed" : i == target ? "target-mismatch" : "other-changed", op, desc(i).c_str(), got, m[i]);
    }
    if (s) {
      std::vector<uint8_t> got = window();
      if (got != sm) fail(refused ? "refused-changed" : target == NA ? "target-mismatch" : "other-changed", op, "the slice", got, sm);
    }
    if (c.verbose()) { std::string l; for (int i = 0; i < NA; i++) l += " " + desc(i); c.logf("     %s%s", l.c_str(), s ? " +slice" : ""); }
  }
  bool writing(int i) {  // label/non-triviality: the write goes through a handle that shares its buffer while others hold data
    bool sh = a[i]->shared();
    if (sh) { c.label("cxx-nt:write-while-shared"); c.nontrivial(); }
    return sh;
  }
  void outcome(const char *op, bool ok) { if (op[0] == '+' || op[0] == '=') op = "operator"; c.label((std::string(ok ? "cxx-ok:" : "cxx-refused:") + op).c_str()); }
  size_t dsize(int i, size_t max) { size_t used = a[i]->length(), cap = used + a[i]->left(); return c.near({0, used, cap, 64, 128, 192}, max); }

  void run() {
    c.label("cxx:bytes");
    c.logf("C++ API history: mpt::array / mpt::slice");
    for (int i = 0; i < NA; i++) {
      size_t cap = c.chance(96) ? c.near({1, 64, 65, 192}, 300) : 0;
      a[i] = new array(cap);
      c.logf("  a%d = array(%zu)", i, cap);
    }
    verify("create", -1, false);
    unsigned nops = 0;
    while (c.more() && nops++ < 40) {
      int i = (int)c.pick(NA), j = (int)c.pick(NA);
      array &x = *a[i];
      size_t used = m[i].size();
      inj.disarm(c);
      unsigned opsel = inj.select(c, {8, 8, 8, 3, 10, 2, 2, 2, 2, 2, 4, 2, 5, 4, 4, 6});
      inj.arm(c, opsel != 4 && opsel != 12 && opsel != 13 && opsel != 14);
      switch (opsel) {
        case 0: {  // set(len, base)
          size_t len = dsize(i, 300);
          bool zero = c.chance(48);
          std::vector<uint8_t> d = zero ? std::vector<uint8_t>(len, 0) : pattern(len);
          c.logf("  a%d.set(%zu, %s)   [%s]", i, len, zero ? "NULL" : hex(d.data(), d.size(), 8).c_str(), desc(i).c_str());
          bool sh = writing(i);
          void *r = x.set(len, zero ? 0 : (const void *)d.data());
          c.logf("    = %s", r ? "address" : "NULL");
          if (r) { VP_CHECK(c, x.data() && r == x.data()->data(), "cxx-ret-address:set", "set returned %p, the data of the array starts at %p", r, x.data() ? x.data()->data() : 0); m[i] = d; }
          (void)sh; outcome("set", r); verify("set", i, !r);
        } break;
        case 1: {  // append
          size_t len = c.near({0, x.left(), 64, 128, 192}, 300);
          bool zero = c.chance(48);
          std::vector<uint8_t> d = zero ? std::vector<uint8_t>(len, 0) : pattern(len);
          c.logf("  a%d.append(%zu, %s)   [%s]", i, len, zero ? "NULL" : hex(d.data(), d.size(), 8).c_str(), desc(i).c_str());
          writing(i);
          void *r = x.append(len, zero ? 0 : (const void *)d.data());
          c.logf("    = %s", r ? "address" : "NULL");
          if (r) { VP_CHECK(c, x.data() && r == (uint8_t *)x.data()->data() + used, "cxx-ret-address:append", "append returned %p, appended data starts at %p + %zu", r, x.data() ? x.data()->data() : 0, used); m[i].insert(m[i].end(), d.begin(), d.end()); }
          outcome("append", r); verify("append", i, !r);
        } break;
        case 2: case 3: {  // insert / prepend
          bool pre = false;
          size_t off = dsize(i, 300);
          if (c.chance(64)) { pre = true; off = 0; }
          size_t base = std::max(off, used), cap = used + x.left();
          size_t len = c.near({0, 1, cap > base ? cap - base : 0, 64, 128}, 300);
          bool zero = c.chance(48);
          std::vector<uint8_t> d = zero ? std::vector<uint8_t>(len, 0) : pattern(len);
          const char *op = pre ? "prepend" : "insert";
          c.logf("  a%d.%s(%s%zu, %s)   [%s]", i, op, pre ? "" : (std::to_string(off) + ", ").c_str(), len, zero ? "NULL" : hex(d.data(), d.size(), 8).c_str(), desc(i).c_str());
          writing(i);
          void *r = pre ? x.prepend(len, zero ? 0 : (const void *)d.data()) : x.insert(off, len, zero ? 0 : (const void *)d.data());
          c.logf("    = %s", r ? "address" : "NULL");
          if (r) {
            if (m[i].size() < off) m[i].resize(off, 0);
            m[i].insert(m[i].begin() + off, d.begin(), d.end());
            VP_CHECK(c, x.data() && r == (uint8_t *)x.data()->data() + off, vtag("ret-address", op).c_str(), "%s returned %p, the inserted data must start at %p + %zu", op, r, x.data() ? x.data()->data() : 0, off);
          }
          outcome(op, r); verify(op, i, !r);
        } break;
        case 4: {  // a = b
          c.logf("  a%d = a%d   [%s <- %s]", i, j, desc(i).c_str(), desc(j).c_str());
          x = *a[j];
          m[i] = m[j];
          c.label("cxx-ok:assign"); verify("assign", i, false);
        } break;
        case 5: case 6: {  // = iovec, += iovec  (no result: either nothing or everything)
          bool add = c.flip();
          size_t len = dsize(i, 300);
          std::vector<uint8_t> d = pattern(len), want = add ? m[i] : std::vector<uint8_t>();
          want.insert(want.end(), d.begin(), d.end());
          struct iovec v = {d.data(), len};
          c.logf("  a%d %s iovec{%zu bytes %s}   [%s]", i, add ? "+=" : "=", len, hex(d.data(), d.size(), 8).c_str(), desc(i).c_str());
          writing(i);
          if (add) x += v; else x = v;
          bool done = bytes(x) == want;
          if (done) m[i] = want;
          outcome(add ? "+=iovec" : "=iovec", done); verify(add ? "+=iovec" : "=iovec", i, !done);
        } break;
        case 7: {  // += span
          size_t len = c.near({0, x.left(), 64}, 200);
          std::vector<uint8_t> d = pattern(len), want = m[i];
          want.insert(want.end(), d.begin(), d.end());
          c.logf("  a%d += span{%zu bytes}   [%s]", i, len, desc(i).c_str());
          writing(i);
          x += span<uint8_t>(d.data(), (long)len);
          bool done = bytes(x) == want;
          if (done) m[i] = want;
          outcome("+=span", done); verify("+=span", i, !done);
        } break;
        case 8: {  // += content of another array
          const array::content *src = a[j]->data();
          if (!src || i == j) { c.label("cxx-skip"); break; }
          std::vector<uint8_t> want = m[i];
          want.insert(want.end(), m[j].begin(), m[j].end());
          c.logf("  a%d += *a%d.data()   [%s, %s]", i, j, desc(i).c_str(), desc(j).c_str());
          writing(i);
          x += *src;
          bool done = bytes(x) == want;
          if (done) m[i] = want;
          outcome("+=content", done); verify("+=content", i, !done);
        } break;
        case 9: {  // a = slice
          if (!s) { c.label("cxx-skip"); break; }
          c.logf("  a%d = slice   [%s, window %zu bytes]", i, desc(i).c_str(), sm.size());
          writing(i);
          x = *s;
          bool done = bytes(x) == sm;
          if (done) m[i] = sm;
          outcome("=slice", done); verify("=slice", i, !done);
        } break;
        case 10: {  // printf
          size_t L = c.near({0, 1, 63, 64, 65, 127, 128, x.left()}, 300);
          std::string t = text(L);
          int v = (int)c.u8();
          bool two = c.flip();
          char want[700];
          int n = two ? snprintf(want, sizeof want, "%s=%d", t.c_str(), v) : snprintf(want, sizeof want, "%s", t.c_str());
          c.logf("  a%d.printf(\"%s\", %zu characters)   [%s]", i, two ? "%s=%d" : "%s", L, desc(i).c_str());
          writing(i);
          int r = two ? x.printf("%s=%d", t.c_str(), v) : x.printf("%s", t.c_str());
          c.logf("    = %d, the formatted text has %d characters", r, n);
          if (r >= 0) m[i].insert(m[i].end(), want, want + n);
          outcome("printf", r >= 0); verify("printf", i, r < 0);
        } break;
        case 11: {  // string
          c.logf("  a%d.string()   [%s]", i, desc(i).c_str());
          char *r = x.string();
          c.logf("    = %s", r ? "address" : "NULL");
          if (r) {
            VP_CHECK(c, x.data() && r == x.data()->data(), "cxx-ret-address:string", "string() returned %p, data starts at %p", (void *)r, x.data() ? x.data()->data() : 0);
            if (std::find(m[i].begin(), m[i].end(), 0) == m[i].end()) m[i].push_back(0);
          }
          outcome("string", r); verify("string", i, !r);
        } break;
        case 12: {  // new slice over an array
          delete s;
          s = new slice(*a[j]);
          size_t n = a[j]->length();   // typed content is not visible to a slice (array::length() is 0)
          sm.assign(m[j].begin(), m[j].begin() + std::min(n, m[j].size()));
          if (n != m[j].size()) sm.clear();
          sfront.clear(); sback.clear(); back_known = n == m[j].size();
          c.logf("  slice = slice(a%d)   [%s]", j, desc(j).c_str());
          c.label("cxx-ok:slice"); verify("slice", NA, false);
        } break;
        case 13: {  // shift
          if (!s) { c.label("cxx-skip"); break; }
          bool neg = c.chance(96);
          long n = neg ? -(long)c.near({0, 1, sfront.size(), sfront.size() + 1}, 300) : (long)c.near({0, 1, sm.size(), sm.size() + 1}, 300);
          bool must = neg ? (size_t)-n > sfront.size() : (size_t)n > sm.size();
          c.logf("  slice.shift(%ld)   [window %zu, hidden before %zu]%s", n, sm.size(), sfront.size(), must ? " out of range" : "");
          bool r = s->shift(n);
          c.logf("    = %d", r);
          VP_CHECK(c, !(must && r), "cxx-not-refused:shift", "shift(%ld) accepted with a window of %zu bytes and %zu bytes hidden before it", n, sm.size(), sfront.size());
          if (r && n >= 0) { sfront.insert(sfront.end(), sm.begin(), sm.begin() + n); sm.erase(sm.begin(), sm.begin() + n); }
          if (r && n < 0) { sm.insert(sm.begin(), sfront.end() + n, sfront.end()); sfront.resize(sfront.size() + n); }
          outcome("shift", r); verify("shift", NA, !r);
        } break;
        case 14: {  // trim
          if (!s) { c.label("cxx-skip"); break; }
          bool neg = c.chance(96);
          long n = neg ? -(long)c.near({0, 1, sback.size(), sback.size() + 1}, 300) : (long)c.near({0, 1, sm.size(), sm.size() + 1}, 300);
          bool must = neg ? (back_known && (size_t)-n > sback.size()) : (size_t)n > sm.size();
          c.logf("  slice.trim(%ld)   [window %zu, hidden behind %zu%s]%s", n, sm.size(), sback.size(), back_known ? "" : " (unknown)", must ? " out of range" : "");
          bool r = s->trim(n);
          c.logf("    = %d", r);
          VP_CHECK(c, !(must && r), "cxx-not-refused:trim", "trim(%ld) accepted with a window of %zu bytes and %zu bytes behind it", n, sm.size(), sback.size());
          if (r && n >= 0) { sback.insert(sback.begin(), sm.end() - n, sm.end()); sm.resize(sm.size() - n); }
          if (r && n < 0) {
            if (back_known) { sm.insert(sm.end(), sback.begin(), sback.begin() - n); sback.erase(sback.begin(), sback.begin() - n); }
            else { std::vector<uint8_t> got = window(); if (got.size() == sm.size() + (size_t)-n && std::equal(sm.begin(), sm.end(), got.begin())) sm = got; else fail("target-mismatch", "trim", "the slice", got, sm); }
          }
          outcome("trim", r); verify("trim", NA, !r);
        } break;
        default: {  // slice write
          if (!s) { c.label("cxx-skip"); break; }
          size_t size = c.choose<size_t>({1, 1, 1, 2, 4, 8}), nblk = c.near({0, 1, 2, 64 / size, 192 / size}, 300 / size);
          std::vector<uint8_t> d = pattern(nblk * size);
          c.logf("  slice.write(%zu, %s, %zu)   [window %zu]", nblk, hex(d.data(), d.size(), 8).c_str(), size, sm.size());
          if (static_cast<array *>(s)->shared()) { c.label("cxx-nt:write-while-shared"); c.nontrivial(); }
          ssize_t r = s->write(nblk, d.data(), size);
          c.logf("    = %zd", r);
          if (r >= 0) {
            VP_CHECK(c, (size_t)r <= nblk, "cxx-slice-write-count", "slice::write(nblk=%zu, size=%zu) reports %zd elements written", nblk, size, r);
            sm.insert(sm.end(), d.begin(), d.begin() + (size_t)r * size);
            if (r) { sback.clear(); back_known = false; }
          }
          outcome("write", r >= 0); verify("write", NA, r < 0);
        } break;
      }
    }
    inj.disarm(c);
    if (s) { c.logf("  delete slice"); delete s; s = 0; verify("delete", -1, false); }
    for (int i = 0; i < NA; i++) {
      inj.disarm(c);
      c.logf("  delete a%d", i);
      delete a[i];
      a[i] = new array();
      m[i].clear();
      verify("delete", i, false);
    }
    for (int i = 0; i < NA; i++) { delete a[i]; a[i] = 0; }
  }
};

// ---- typed: typed_array<T> / unique_array<T> / pointer_array<P> against std::vector ------------------
int g_pool[8];

template <typename T> struct ValueOf {
  static T draw(Ctx &c) { return (T)(int32_t)c.u16() - 1000; }
  static std::string show(const T &v) { return std::to_string((long long)v); }
};
template <> struct ValueOf<int *> {
  static int *draw(Ctx &c) { size_t k = c.pick(10); return k < 8 ? &g_pool[k] : (int *)0; }
  static std::string show(int *const &v) { return v ? "&pool[" + std::to_string(v - g_pool) + "]" : "null"; }
};

enum TypedKind { TTyped, TUnique, TPointer };

template <typename Arr, typename T, int Kind>
struct CxxTyped {
  Ctx &c;
  enum { NA = 3 };
  Arr *a[NA];
  std::vector<T> m[NA];
  const char *name;

  CxxTyped(Ctx &cc, const char *n) : c(cc), name(n) { for (auto &x : a) x = 0; }

  std::string show(const std::vector<T> &v) {
    std::string r = "[";
    for (size_t i = 0; i < v.size() && i < 12; i++) r += (i ? " " : "") + ValueOf<T>::show(v[i]);
    if (v.size() > 12) r += " ..(" + std::to_string(v.size()) + ")";
    return r + "]";
  }
  std::vector<T> elems(const Arr &x) {
    long n = x.length();
    T *b = x.begin();
    VP_CHECK(c, n >= 0 && (n == 0 || b), "cxx-typed-length", "%s: length %ld with begin %p", name, n, (void *)b);
    return std::vector<T>(b, b + n);
  }
  Inject inj;
  void verify(const char *op, int target, bool refused) {
    inj.disarm(c);
    for (int k = 0; k < NA; k++) {
      int i = (target + 1 + k + NA + 1) % NA;
      std::vector<T> got = elems(*a[i]);
      if (got != m[i]) {
        const char *cls = refused ? "refused-changed" : i == target ? "target-mismatch" : "other-changed";
        c.fail(vtag(cls, (std::string(name) + "." + op).c_str()).c_str(), "after %s on a%d: a%d reads %zu elements %s, the value model has %zu elements %s", op, target, i, got.size(), show(got).c_str(), m[i].size(),
               show(m[i]).c_str());
      }
    }
    if (Kind == TUnique) {
      // a unique_array lives in a NoCopy buffer (buffer::create_unique) at every size, and the elements of one that
      // is shared cannot be copied: a write through such a handle is refused
      VP_CHECK(c, !(wsh && !refused), vtag("nocopy-copied", (std::string(name) + "." + op).c_str()).c_str(), "%s on a%d succeeded although its no-copy buffer was shared with another array", op, target);
      for (int i = 0; i < NA; i++) {
        buffer *d = a[i]->_ref.instance();
        VP_CHECK(c, d && (d->get_flags() & BufferNoCopy), vtag("flag-lost", (std::string(name) + "." + op).c_str()).c_str(), "after %s on a%d: the buffer of a%d (%ld elements) has flags %#x, NoCopy is gone", op, target, i,
                 a[i]->length(), d ? d->get_flags() : 0u);
      }
    }
    wsh = false;
    if (c.verbose()) { std::string l; for (int i = 0; i < NA; i++) l += " a" + std::to_string(i) + "=" + show(m[i]); c.logf("     %s", l.c_str()); }
  }
  bool wsh = false;   // a write is about to go through a handle that shares a buffer holding elements
  void outcome(const char *op, bool ok) {
    if (ok && (!strcmp(op, "assign") || !strcmp(op, "copy"))) op = "share";   // (the engine keeps 160 labels)
    bool common = !strcmp(op, "share") || !strcmp(op, "get") || !strcmp(op, "reserve") || !strcmp(op, "detach");
    c.label(ok ? (std::string("cxx-ok:") + (common ? "typed" : name) + "." + op).c_str() : (std::string("cxx-refused:typed.") + op).c_str());
  }
  bool shares(int i) { for (int j = 0; j < NA; j++) if (j != i && a[j]->length() && a[j]->begin() == a[i]->begin()) return true; return false; }
  void writing(int i) { if (shares(i)) { c.label("cxx-nt:write-while-shared"); c.nontrivial(); wsh = true; } }
  // model position of a possibly negative index (documented: negative counts from the end); -1 = outside
  static long mpos(long pos, size_t len) { if (pos < 0) pos += (long)len; return pos; }

  void run() {
    c.label((std::string("cxx:") + name).c_str());
    c.logf("C++ API history: %s", name);
    for (int i = 0; i < 8; i++) g_pool[i] = i;
    for (int i = 0; i < NA; i++) {
      long cap = c.chance(128) ? (long)c.near({0, 1, 16, 17}, 40) : -1;
      a[i] = cap < 0 ? new Arr() : new Arr(cap);
      c.logf("  a%d = %s(%ld)", i, name, cap);
    }
    verify("create", -1, false);
    unsigned nops = 0;
    while (c.more() && nops++ < 40) {
      int i = (int)c.pick(NA), j = (int)c.pick(NA);
      Arr &x = *a[i];
      size_t len = m[i].size();
      inj.disarm(c);
      unsigned op = inj.select(c, {12, 10, 10, 4, 5, 4, 3, 3, (unsigned)(Kind == TPointer ? 5 : 0), (unsigned)(Kind == TPointer ? 5 : 0), 2});
      inj.arm(c, op == 0 || op == 1 || (op >= 5 && op <= 9));
      switch (op) {
        case 0: {  // insert
          long pos = c.chance(40) ? -(long)c.near({0, 1, len, len + 1}, 40) : (long)c.near({0, len, len + 1, 16, 48}, 60);
          long p = mpos(pos, len);
          T v = ValueOf<T>::draw(c);
          bool must = p < 0;
          c.logf("  a%d.insert(%ld, %s)   [%zu elements]%s", i, pos, ValueOf<T>::show(v).c_str(), len, must ? " out of range" : "");
          writing(i);
          bool r = do_insert(x, pos, p, v);
          c.logf("    = %d", r);
          VP_CHECK(c, !(must && r), vtag("not-refused", (std::string(name) + ".insert").c_str()).c_str(), "insert(%ld) into %zu elements succeeded", pos, len);
          if (r) { if (m[i].size() < (size_t)p) m[i].resize(p, T()); m[i].insert(m[i].begin() + p, v); }
          outcome("insert", r); verify("insert", i, !r);
        } break;
        case 1: {  // set
          long pos = c.chance(40) ? -(long)c.near({0, 1, len, len + 1}, 40) : (long)c.near({0, len ? len - 1 : 0, len, 16}, 60);
          long p = mpos(pos, len);
          T v = ValueOf<T>::draw(c);
          bool must = p < 0 || (size_t)p >= len;
          c.logf("  a%d.set(%ld, %s)   [%zu elements]%s", i, pos, ValueOf<T>::show(v).c_str(), len, must ? " out of range" : "");
          writing(i);
          bool r = x.set(pos, v);
          c.logf("    = %d", r);
          VP_CHECK(c, !(must && r), vtag("not-refused", (std::string(name) + ".set").c_str()).c_str(), "set(%ld) on %zu elements succeeded", pos, len);
          if (r) m[i][p] = v;
          outcome("set", r); verify("set", i, !r);
        } break;
        case 2: {  // a = b (shares the buffer)
          c.logf("  a%d = a%d", i, j);
          x = *a[j];
          m[i] = m[j];
          outcome("assign", true); verify("assign", i, false);
        } break;
        case 3: {  // copy construction
          c.logf("  a%d = %s(a%d)", i, name, j);
          Arr *n = new Arr(*a[j]);
          std::vector<T> keep = m[j];
          delete a[i];
          a[i] = n;
          m[i] = keep;
          outcome("copy", true); verify("copy", i, false);
        } break;
        case 4: {  // get
          long pos = c.chance(48) ? -(long)c.near({0, 1, len, len + 1}, 40) : (long)c.near({0, len ? len - 1 : 0, len, len + 1}, 60);
          long p = mpos(pos, len);
          bool inside = p >= 0 && (size_t)p < len;
          T *r = x.get(pos);
          c.logf("  a%d.get(%ld) = %s   [%zu elements]", i, pos, r ? "address" : "NULL", len);
          VP_CHECK(c, !r == !inside, vtag(inside ? "get-missing" : "not-refused", (std::string(name) + ".get").c_str()).c_str(), "get(%ld) on %zu elements returned %p", pos, len, (void *)r);
          if (r) VP_CHECK(c, r == x.begin() + p && *r == m[i][p], vtag("target-mismatch", (std::string(name) + ".get").c_str()).c_str(), "get(%ld) points to element %ld with value %s, expected element %ld = %s", pos,
                          (long)(r - x.begin()), ValueOf<T>::show(*r).c_str(), p, ValueOf<T>::show(m[i][p]).c_str());
          outcome("get", r); verify("get", i, false);
        } break;
        case 5: {  // resize (new elements default filled)
          long n = (long)c.near({0, len, len + 1, len ? len - 1 : 0, 16, 17}, 60);
          c.logf("  a%d.resize(%ld)   [%zu elements]", i, n, len);
          writing(i);
          bool r = x.resize(n);
          c.logf("    = %d", r);
          if (r) m[i].resize(n, T());
          outcome("resize", r); verify("resize", i, !r);
        } break;
        case 6: {  // reserve: content unchanged
          long n = c.chance(32) ? -(long)c.near({0, 1, len, len + 1}, 40) : (long)c.near({0, len, len + 1, 16, 17}, 80);
          c.logf("  a%d.reserve(%ld)   [%zu elements]", i, n, len);
          bool r = x.reserve(n);
          c.logf("    = %d", r);
          outcome("reserve", r); verify("reserve", i, !r);
        } break;
        case 7: {  // detach: content unchanged, afterwards private
          c.logf("  a%d.detach()", i);
          bool r = x.detach();
          c.logf("    = %d", r);
          outcome("detach", r); verify("detach", i, !r);
        } break;
        case 8: do_compact(x, i); break;
        case 9: do_swap(x, i, len); break;
        default: {  // offset(): first element equal to the value, read only
          T v = len && c.flip() ? m[i][c.pick(len)] : ValueOf<T>::draw(c);
          long want = -1;
          for (size_t k = 0; k < len; k++) if (m[i][k] == v) { want = (long)k; break; }
          long r = x.offset(v);
          c.logf("  a%d.offset(%s) = %ld", i, ValueOf<T>::show(v).c_str(), r);
          VP_CHECK(c, r == want, vtag("target-mismatch", (std::string(name) + ".offset").c_str()).c_str(), "offset(%s) = %ld, the model has it at %ld", ValueOf<T>::show(v).c_str(), r, want);
          verify("offset", i, false);
        } break;
      }
    }
    for (int i = 0; i < NA; i++) {
      inj.disarm(c);
      c.logf("  delete a%d", i);
      delete a[i];
      a[i] = new Arr();
      m[i].clear();
      verify("delete", i, false);
    }
    for (int i = 0; i < NA; i++) { delete a[i]; a[i] = 0; }
  }

  // typed_array / pointer_array: insert(pos, value); unique_array: insert(pos) returns the slot, the caller assigns
  template <int K = Kind> typename std::enable_if<K != TUnique, bool>::type do_insert(Arr &x, long pos, long p, const T &v) { (void)p; return x.insert(pos, v); }
  template <int K = Kind> typename std::enable_if<K == TUnique, bool>::type do_insert(Arr &x, long pos, long p, const T &v) {
    T *slot = x.insert(pos);
    if (!slot) return false;
    VP_CHECK(c, p >= 0 && slot == x.begin() + p && p < x.length(), vtag("ret-address", (std::string(name) + ".insert").c_str()).c_str(), "insert(%ld) returned element %ld of %ld, expected element %ld", pos, (long)(slot - x.begin()),
             x.length(), p);
    *slot = v;
    return true;
  }
  template <int K = Kind> typename std::enable_if<K == TPointer>::type do_compact(Arr &x, int i) {
    c.logf("  a%d.compact()   [%ld unused]", i, x.unused());
    long un = 0;
    for (auto &v : m[i]) if (!v) ++un;
    VP_CHECK(c, x.unused() == un, vtag("target-mismatch", (std::string(name) + ".unused").c_str()).c_str(), "unused() = %ld, the model has %ld null elements", x.unused(), un);
    writing(i);
    x.compact();
    inj.disarm(c);
    // compact() has no result: with a failed allocation it may leave the (shared) elements as they are
    bool skipped = inj.hit && elems(x) == m[i];
    if (!skipped) m[i].erase(std::remove(m[i].begin(), m[i].end(), (T)0), m[i].end());
    outcome("compact", !skipped); verify("compact", i, skipped);
  }
  template <int K = Kind> typename std::enable_if<K != TPointer>::type do_compact(Arr &, int) {}
  template <int K = Kind> typename std::enable_if<K == TPointer>::type do_swap(Arr &x, int i, size_t len) {
    long p1 = (long)c.near({0, len ? len - 1 : 0, len, len + 1}, 40), p2 = (long)c.near({0, len ? len - 1 : 0, len, len + 1}, 40);
    bool must = (size_t)p1 >= len || (size_t)p2 >= len;
    c.logf("  a%d.swap(%ld, %ld)   [%zu elements]%s", i, p1, p2, len, must ? " out of range" : "");
    writing(i);
    bool r = x.swap(p1, p2);
    c.logf("    = %d", r);
    VP_CHECK(c, !(must && r), vtag("not-refused", (std::string(name) + ".swap").c_str()).c_str(), "swap(%ld, %ld) on %zu elements succeeded", p1, p2, len);
    if (r) std::swap(m[i][p1], m[i][p2]);
    outcome("swap", r); verify("swap", i, !r);
  }
  template <int K = Kind> typename std::enable_if<K != TPointer>::type do_swap(Arr &, int, size_t) {}
};

// ---- map<int32_t,int32_t> against an ordered vector of pairs ------------------------------------------
struct CxxMap {
  typedef map<int32_t, int32_t> Map;
  typedef std::vector<std::pair<int32_t, int32_t> > Model;
  Ctx &c;
  enum { NA = 3 };
  Map *a[NA];
  Model m[NA];
  explicit CxxMap(Ctx &cc) : c(cc) { for (auto &x : a) x = 0; }

  static Model entries(const Map &x) { Model r; for (Map::const_iterator e = x.begin(); e != x.end(); ++e) r.push_back(std::make_pair(e->key, e->value)); return r; }
  static std::string show(const Model &v) {
    std::string r = "{";
    for (size_t i = 0; i < v.size() && i < 10; i++) r += (i ? " " : "") + std::to_string(v[i].first) + ":" + std::to_string(v[i].second);
    if (v.size() > 10) r += " ..(" + std::to_string(v.size()) + ")";
    return r + "}";
  }
  Inject inj;
  void verify(const char *op, int target, bool refused) {
    inj.disarm(c);
    for (int k = 0; k < NA; k++) {
      int i = (target + 1 + k + NA + 1) % NA;
      Model got = entries(*a[i]);
      if (got != m[i]) {
        const char *cls = refused ? "refused-changed" : i == target ? "target-mismatch" : "other-changed";
        c.fail(vtag(cls, (std::string("map.") + op).c_str()).c_str(), "after %s on m%d: m%d reads %s, the value model has %s", op, target, i, show(got).c_str(), show(m[i]).c_str());
      }
    }
    if (c.verbose()) { std::string l; for (int i = 0; i < NA; i++) l += " m" + std::to_string(i) + "=" + show(m[i]); c.logf("     %s", l.c_str()); }
  }
  bool shares(int i) { for (int j = 0; j < NA; j++) if (j != i && a[j]->begin() != a[j]->end() && a[j]->begin() == a[i]->begin()) return true; return false; }
  void run() {
    c.label("cxx:map");
    c.logf("C++ API history: map<int32_t,int32_t>");
    for (int i = 0; i < NA; i++) a[i] = new Map();
    verify("create", -1, false);
    unsigned nops = 0;
    while (c.more() && nops++ < 40) {
      int i = (int)c.pick(NA), j = (int)c.pick(NA);
      Map &x = *a[i];
      int32_t k = (int32_t)c.pick(6), v = (int32_t)c.u16();
      size_t hit = 0;
      while (hit < m[i].size() && m[i][hit].first != k) ++hit;
      bool found = hit < m[i].size();
      inj.disarm(c);
      unsigned opsel = inj.select(c, {10, 5, 6, 4, 3, 6});
      inj.arm(c, opsel < 2);
      switch (opsel) {
        case 0: {
          c.logf("  m%d.set(%d, %d)   [%s]", i, k, v, found ? "key present" : "new key");
          if (shares(i)) { c.label("cxx-nt:write-while-shared"); c.nontrivial(); }
          bool r = x.set(k, v);
          c.logf("    = %d", r);
          if (r) { if (found) m[i][hit].second = v; else m[i].push_back(std::make_pair(k, v)); }
          c.label(r ? (found ? "cxx-ok:map.set-existing" : "cxx-ok:map.set-new") : "cxx-refused:map"); verify("set", i, !r);
        } break;
        case 1: {
          c.logf("  m%d.append(%d, %d)", i, k, v);
          if (shares(i)) { c.label("cxx-nt:write-while-shared"); c.nontrivial(); }
          bool r = x.append(k, v);
          c.logf("    = %d", r);
          if (r) m[i].push_back(std::make_pair(k, v));
          c.label(r ? "cxx-ok:map.append" : "cxx-refused:map"); verify("append", i, !r);
        } break;
        case 2: {
          int32_t *r = x.get(k);
          c.logf("  m%d.get(%d) = %s", i, k, r ? "address" : "NULL");
          VP_CHECK(c, !r == !found, found ? "cxx-get-missing:map.get" : "cxx-not-refused:map.get", "get(%d) returned %p, the model %s the key", k, (void *)r, found ? "has" : "does not have");
          if (r) {
            const Map::entry *b = x.begin();
            long pos = (long)((const char *)r - (const char *)&b->value) / (long)sizeof(Map::entry);
            VP_CHECK(c, r == &const_cast<Map::entry *>(b)[hit].value, "cxx-target-mismatch:map.get", "get(%d) points to the value of entry %ld of %zu, the first entry with the key is %zu", k, pos, m[i].size(), hit);
          }
          c.label("cxx-ok:map.get"); verify("get", i, false);
        } break;
        case 3: case 4: {
          bool all = c.chance(96);
          std::vector<int32_t> want;
          for (auto &e : m[i]) if (all || e.first == k) want.push_back(e.second);
          typed_array<int32_t> r = all ? x.values() : x.values(k);
          std::vector<int32_t> got(r.begin(), r.begin() + r.length());
          c.logf("  m%d.values(%s) = %zu values", i, all ? "" : std::to_string(k).c_str(), got.size());
          VP_CHECK(c, got == want, "cxx-target-mismatch:map.values", "values(%s) returned %zu values, the model has %zu", all ? "" : std::to_string(k).c_str(), got.size(), want.size());
          c.label("cxx-ok:map.values"); verify("values", i, false);
        } break;
        default: {
          c.logf("  m%d = m%d", i, j);
          x = *a[j];
          m[i] = m[j];
          c.label("cxx-ok:map.assign"); verify("assign", i, false);
        } break;
      }
    }
    for (int i = 0; i < NA; i++) {
      inj.disarm(c);
      c.logf("  delete m%d", i);
      delete a[i];
      a[i] = new Map();
      m[i].clear();
      verify("delete", i, false);
    }
    for (int i = 0; i < NA; i++) { delete a[i]; a[i] = 0; }
  }
};


// ---- reference_array<T> / item_array<T>: the no-copy arrays of managed references the library itself uses, created
// through their own constructors; grown across the 64/192/320-byte capacity steps, then shared and modified ----------
struct Obj {
  static long live;
  Obj() { ++live; }
  ~Obj() { --live; }
};
long Obj::live = 0;
typedef reference<Obj>::type RObj;

bool ref_add(reference_array<RObj> &x, long pos, RObj *o) { return x.insert(pos, o); }
bool ref_add(item_array<RObj> &x, long, RObj *o) { char id[24]; snprintf(id, sizeof id, "k%ld", x.length()); return x.append(o, id) != 0; }   // appends
bool ref_inserts(const reference_array<RObj> &) { return true; }
bool ref_inserts(const item_array<RObj> &) { return false; }

template <typename Arr>
struct CxxRef {
  Ctx &c;
  enum { NA = 3 };
  Arr *a[NA];
  std::vector<RObj *> m[NA];
  const char *name;
  size_t esize;

  CxxRef(Ctx &cc, const char *n, size_t es) : c(cc), name(n), esize(es) { for (auto &x : a) x = 0; }

  std::string tagn(const char *cls, const char *op) { return vtag(cls, (std::string(name) + "." + op).c_str()); }
  bool shares(int i) { for (int j = 0; j < NA; j++) if (j != i && a[j]->length() && a[j]->begin() == a[i]->begin()) return true; return false; }
  Inject inj;
  void verify(const char *op, int target, bool refused, bool wrote_shared) {
    inj.disarm(c);
    VP_CHECK(c, !(wrote_shared && !refused), tagn("nocopy-copied", op).c_str(), "%s on a%d succeeded although its no-copy buffer was shared with another array", op, target);
    std::set<RObj *> alive;
    for (int k = 0; k < NA; k++) {
      int i = (target + 1 + k + NA + 1) % NA;
      long n = a[i]->length();
      bool same = n == (long)m[i].size();
      for (long e = 0; same && e < n; e++) same = a[i]->begin()[e].instance() == m[i][e];
      if (!same) c.fail(tagn(refused ? "refused-changed" : i == target ? "target-mismatch" : "other-changed", op).c_str(), "after %s on a%d: a%d reads %ld elements, the value model has %zu (or other objects)", op, target, i, n, m[i].size());
      for (RObj *o : m[i]) if (o) alive.insert(o);
      buffer *d = a[i]->_ref.instance();
      VP_CHECK(c, d && (d->get_flags() & BufferNoCopy), tagn("flag-lost", op).c_str(), "after %s on a%d: the buffer of a%d (%ld elements, %zu bytes) has flags %#x, NoCopy is gone", op, target, i, n, (size_t)n * esize,
               d ? d->get_flags() : 0u);
    }
    // every object some array still refers to is alive, every other one was released exactly once
    VP_CHECK(c, Obj::live == (long)alive.size(), tagn("element-lifetime", op).c_str(), "after %s on a%d: %ld objects are alive, the arrays refer to %zu", op, target, Obj::live, alive.size());
    if (c.verbose()) { std::string l; for (int i = 0; i < NA; i++) l += " a" + std::to_string(i) + "=" + std::to_string(m[i].size()) + (shares(i) ? "(shared)" : ""); c.logf("     %s  alive=%ld", l.c_str(), Obj::live); }
  }
  bool add(int i, long pos) {
    RObj *o = new RObj;
    bool r = ref_add(*a[i], pos, o);
    if (!r) { o->unref(); return false; }
    size_t p = ref_inserts(*a[i]) ? (size_t)pos : m[i].size();
    if (m[i].size() < p) m[i].resize(p, 0);
    m[i].insert(m[i].begin() + p, o);
    return true;
  }
  void run() {
    c.label("cxx:refarray");
    c.logf("C++ API history: %s of counted objects (element size %zu)", name, esize);
    Obj::live = 0;
    for (int i = 0; i < NA; i++) a[i] = new Arr();
    verify("create", -1, false, false);
    size_t s1 = 64 / esize, s2 = 192 / esize, s3 = 320 / esize;
    unsigned nops = 0;
    while (c.more() && nops++ < 30) {
      int i = (int)c.pick(NA), j = (int)c.pick(NA);
      size_t len = m[i].size();
      bool sh = shares(i) && len;
      inj.disarm(c);
      unsigned opsel = inj.select(c, {6, 4, 5, 3, 3});
      inj.arm(c, opsel == 0 || opsel == 1 || opsel == 4);
      switch (opsel) {
        case 0: {  // grow to an element count at a capacity step
          size_t n = c.near({s1, s1 + 1, s2, s2 + 1, s3, s3 + 1}, s3 + 4), added = 0;
          c.logf("  a%d: append up to %zu elements   [%zu elements%s]", i, n, len, sh ? ", shared" : "");
          bool r = true;
          while (r && m[i].size() < n) { r = add(i, (long)m[i].size()); if (r) ++added; }
          c.logf("    %zu appended%s", added, r ? "" : ", then refused");
          if (added) { if (len <= s1 && m[i].size() > s1) { c.label("cxx-ref:crossed-first-block"); c.nontrivial(); } }
          if (sh) c.label(added ? "cxx-ref:shared-write-accepted" : "cxx-ref:shared-write-refused");
          verify("append", i, !added, sh && added);
        } break;
        case 1: {  // single insert
          long pos = (long)c.near({0, len, len + 1}, len + 3);
          c.logf("  a%d.insert(%ld, object)   [%zu elements%s]", i, pos, len, sh ? ", shared" : "");
          bool r = add(i, pos);
          c.logf("    = %d", r);
          if (sh) c.label(r ? "cxx-ref:shared-write-accepted" : "cxx-ref:shared-write-refused");
          verify("insert", i, !r, sh && r);
        } break;
        case 2: {  // a = b: both refer to the same no-copy buffer
          c.logf("  a%d = a%d", i, j);
          *a[i] = *a[j];
          m[i] = m[j];
          if (m[i].size() > s1) { c.label("cxx-ref:shared-beyond-first-block"); c.nontrivial(); }
          verify("assign", i, false, false);
        } break;
        case 3: {  // copy construction
          c.logf("  a%d = %s(a%d)", i, name, j);
          Arr *n = new Arr(*a[j]);
          std::vector<RObj *> keep = m[j];
          delete a[i];
          a[i] = n;
          m[i] = keep;
          verify("copy", i, false, false);
        } break;
        default: {  // resize: shrinking releases the cut objects, growing adds empty references
          long n = (long)c.near({0, len, len ? len - 1 : 0, len + 1, s1, s1 + 1}, s3 + 4);
          c.logf("  a%d.resize(%ld)   [%zu elements%s]", i, n, len, sh ? ", shared" : "");
          bool r = a[i]->resize(n);
          c.logf("    = %d", r);
          if (r) m[i].resize(n, 0);
          if (sh) c.label(r ? "cxx-ref:shared-write-accepted" : "cxx-ref:shared-write-refused");
          verify("resize", i, !r, sh && r && (size_t)n != len);
        } break;
      }
    }
    for (int i = 0; i < NA; i++) {
      inj.disarm(c);
      c.logf("  delete a%d", i);
      delete a[i];
      a[i] = new Arr();
      m[i].clear();
      verify("delete", i, false, false);
    }
    for (int i = 0; i < NA; i++) { delete a[i]; a[i] = 0; }
  }
};

// ---- mpt::encode_array in raw mode (no encoder: push appends bytes), round 6 --------------------------------------------
// The array holds [consumed | finished | open]: push(len, data) adds open bytes, push(0, 0) finishes them, data() shows the
// finished bytes, shift(n) consumes n of them, shift() moves the rest to the buffer front, prepare(n) reserves room.
// Copies (construction, assignment) share the buffer. Pushes are only issued on a compacted array (nothing consumed in
// front): that is the order the buffered writers use (shift() before new data); the encoder driven use is C01's subject.
struct CxxEnc {
  struct Model { std::vector<uint8_t> cons, fin, open; };
  Ctx &c;
  enum { NA = 3 };
  encode_array *e[NA];
  Model m[NA];
  explicit CxxEnc(Ctx &cc) : c(cc) { for (auto &x : e) x = 0; }

  std::vector<uint8_t> pattern(size_t n) {
    uint8_t sd = c.u8();
    std::vector<uint8_t> v(n);
    for (size_t i = 0; i < n; i++) { uint8_t b = (uint8_t)(sd + 3 * i); v[i] = b ? b : 0x5a; }
    return v;
  }
  static std::vector<uint8_t> whole(const Model &x) {
    std::vector<uint8_t> v = x.cons;
    v.insert(v.end(), x.fin.begin(), x.fin.end());
    v.insert(v.end(), x.open.begin(), x.open.end());
    return v;
  }
  std::string desc(int i) {
    char t[160];
    const array::content *d = e[i]->_d.data();
    snprintf(t, sizeof t, "e%d{buffer %zu bytes%s, done=%zu scratch=%zu | model consumed=%zu finished=%zu open=%zu}", i, d ? d->length() : 0, e[i]->_d.shared() ? " shared" : "", e[i]->_state.done,
             e[i]->_state.scratch, m[i].cons.size(), m[i].fin.size(), m[i].open.size());
    return t;
  }
  void differ(const char *cls, const char *op, int i, const char *what, const std::vector<uint8_t> &got, const std::vector<uint8_t> &want) {
    size_t d = 0;
    while (d < got.size() && d < want.size() && got[d] == want[d]) ++d;
    size_t from = d > 8 ? d - 8 : 0;
    c.fail(vtag(cls, (std::string("encode_array.") + op).c_str()).c_str(), "after %s: %s of %s reads %zu bytes, the value model has %zu; first difference at %zu: read ..%s, model ..%s", op, what, desc(i).c_str(), got.size(),
           want.size(), d, hex(got.data() + std::min(from, got.size()), got.size() - std::min(from, got.size()), 24).c_str(), hex(want.data() + std::min(from, want.size()), want.size() - std::min(from, want.size()), 24).c_str());
  }
  Inject inj;
  void verify(const char *op, int target, bool refused) {
    inj.disarm(c);
    for (int k = 0; k < NA; k++) {
      int i = (target + 1 + k + NA + 1) % NA;
      const char *cls = refused ? "refused-changed" : i == target ? "target-mismatch" : "other-changed";
      const array::content *d = e[i]->_d.data();
      size_t len = d ? d->length() : 0;
      std::vector<uint8_t> all = whole(m[i]);
      // accounting first: data() is computed from the length and the two counters
      VP_CHECK(c, e[i]->_state.done + e[i]->_state.scratch <= len, vtag("encode-accounting", (std::string("encode_array.") + op).c_str()).c_str(), "after %s: %s: done + scratch exceed the array length", op, desc(i).c_str());
      std::vector<uint8_t> got(d ? (const uint8_t *)d->data() : 0, d ? (const uint8_t *)d->data() + len : 0);
      if (got != all) differ(cls, op, i, "the array", got, all);
      span<const uint8_t> f = e[i]->data();
      std::vector<uint8_t> fin(f.begin(), f.begin() + f.size());
      if (fin != m[i].fin) differ(cls, op, i, "data()", fin, m[i].fin);
    }
    if (c.verbose()) for (int i = 0; i < NA; i++) c.logf("      %s", desc(i).c_str());
  }
  bool shared(int i) { return e[i]->_d.shared(); }
  void run() {
    c.label("cxx:encode_array");
    c.logf("C++ API history: mpt::encode_array without encoder");
    for (int i = 0; i < NA; i++) e[i] = new encode_array();
    verify("create", -1, false);
    unsigned nops = 0;
    while (c.more() && nops++ < 40) {
      int i = (int)c.pick(NA), j = (int)c.pick(NA);
      encode_array &x = *e[i];
      Model &mm = m[i];
      inj.disarm(c);
      unsigned op = inj.select(c, {10, 5, 5, 5, 5, 6, 3});
      if (op == 0 && !mm.cons.empty()) op = 3;   // compact before new data
      inj.arm(c, op == 0 || op == 3 || op == 4);
      bool sh = shared(i);
      if (sh && (op == 0 || op == 3 || op == 4)) { c.label("cxx-nt:write-while-shared"); c.nontrivial(); }
      switch (op) {
        case 0: {  // push data
          size_t left = x._d.left();
          size_t len = c.near({1, left, left + 1, 64, 128}, 200);
          if (!len) len = 1;
          std::vector<uint8_t> d = pattern(len);
          c.logf("  e%d.push(%zu, %s)   [%s]", i, len, hex(d.data(), d.size(), 8).c_str(), desc(i).c_str());
          ssize_t r = x.push(len, d.data());
          c.logf("    = %zd", r);
          if (r >= 0) { VP_CHECK(c, (size_t)r <= len, "cxx-push-count", "push(%zu) consumed %zd", len, r); mm.open.insert(mm.open.end(), d.begin(), d.begin() + r); }
          c.label(r >= 0 ? "cxx-ok:enc.push" : "cxx-refused:enc"); verify("push", i, r < 0);
        } break;
        case 1: {  // finish the open bytes
          c.logf("  e%d.push(0, NULL)   [%s]", i, desc(i).c_str());
          ssize_t r = x.push(0, 0);
          c.logf("    = %zd", r);
          if (r >= 0) { mm.fin.insert(mm.fin.end(), mm.open.begin(), mm.open.end()); mm.open.clear(); }
          c.label(r >= 0 ? "cxx-ok:enc.finish" : "cxx-refused:enc"); verify("finish", i, r < 0);
        } break;
        case 2: {  // consume finished bytes
          size_t n = c.near({1, mm.fin.size(), mm.fin.size() + 1}, mm.fin.size() + 3);
          if (!n) n = 1;
          bool must = n > mm.fin.size();
          c.logf("  e%d.shift(%zu)%s   [%s]", i, n, must ? " more than finished" : "", desc(i).c_str());
          bool r = x.shift(n);
          c.logf("    = %d", r);
          VP_CHECK(c, !(must && r), "cxx-not-refused:encode_array.shift", "shift(%zu) accepted with %zu finished bytes", n, mm.fin.size());
          if (r) { mm.cons.insert(mm.cons.end(), mm.fin.begin(), mm.fin.begin() + n); mm.fin.erase(mm.fin.begin(), mm.fin.begin() + n); }
          c.label(r ? "cxx-ok:enc.shift" : "cxx-refused:enc"); verify("shift", i, !r);
        } break;
        case 3: {  // move the unconsumed bytes to the front
          c.logf("  e%d.shift()   [%s]", i, desc(i).c_str());
          bool r = x.shift();
          c.logf("    = %d", r);
          if (r) { if (!mm.cons.empty()) c.label(sh ? "cxx-ok:enc.compact-shared" : "cxx-ok:enc.compact"); mm.cons.clear(); }
          else c.label("cxx-refused:enc");
          verify("shift0", i, !r);
        } break;
        case 4: {  // reserve room: nothing readable changes
          size_t n = c.near({0, 1, x._d.left(), x._d.left() + 1, 64, 100}, 300);
          c.logf("  e%d.prepare(%zu)   [%s]", i, n, desc(i).c_str());
          bool r = x.prepare(n);
          c.logf("    = %d", r);
          c.label(r ? "cxx-ok:enc.prepare" : "cxx-refused:enc"); verify("prepare", i, !r);
        } break;
        case 5: {  // assignment: both handles on one buffer
          c.logf("  e%d = e%d", i, j);
          x = *e[j];
          mm = m[j];
          c.label("cxx-ok:enc.share"); verify("assign", i, false);
        } break;
        default: {  // copy construction
          c.logf("  e%d = encode_array(e%d)", i, j);
          encode_array *n = new encode_array(*e[j]);
          Model keep = m[j];
          delete e[i];
          e[i] = n;
          m[i] = keep;
          c.label("cxx-ok:enc.share"); verify("copy", i, false);
        } break;
      }
    }
    for (int i = 0; i < NA; i++) {
      inj.disarm(c);
      c.logf("  delete e%d", i);
      delete e[i];
      e[i] = new encode_array();
      m[i] = Model();
      verify("delete", i, false);
    }
    for (int i = 0; i < NA; i++) { delete e[i]; e[i] = 0; }
  }
};

// ---- mpt::encode_array with an encoder (COBS), round 8 ------------------------------------------------------------------
// push(len, data) adds payload to the open message, push(0, 0) terminates it (writes the delimiter). Copies taken at drawn
// times share the data array. Oracle: every OTHER object reads exactly the bytes and counters it had before; the object
// itself shows in data() one well formed frame per terminated message which the reference decoder (engine/ref/cobs.hpp)
// turns back into the pushed bytes; a refused call changes nothing. (Framing as such is C01's subject.)
struct CxxEncCoded {
  struct Snap { std::vector<uint8_t> bytes; size_t done = 0, scratch = 0; bool operator==(const Snap &o) const { return bytes == o.bytes && done == o.done && scratch == o.scratch; } };
  struct Model { std::vector<std::vector<uint8_t> > msgs; std::vector<uint8_t> cur; Snap snap; };
  Ctx &c;
  enum { NA = 3 };
  encode_array *e[NA];
  Model m[NA];
  Inject inj;
  explicit CxxEncCoded(Ctx &cc) : c(cc) { for (auto &x : e) x = 0; }

  Snap snap(int i) {
    Snap s;
    const array::content *d = e[i]->_d.data();
    if (d) s.bytes.assign((const uint8_t *)d->data(), (const uint8_t *)d->data() + d->length());
    s.done = e[i]->_state.done;
    s.scratch = e[i]->_state.scratch;
    return s;
  }
  std::string desc(int i) {
    char t[160];
    const array::content *d = e[i]->_d.data();
    snprintf(t, sizeof t, "e%d{buffer %zu bytes%s, done=%zu scratch=%zu | model %zu messages, %zu open bytes}", i, d ? d->length() : 0, e[i]->_d.shared() ? " shared" : "", e[i]->_state.done, e[i]->_state.scratch,
             m[i].msgs.size(), m[i].cur.size());
    return t;
  }
  void verify(const char *op, int target, bool refused) {
    inj.disarm(c);
    for (int i = 0; i < NA; i++) {
      Snap now = snap(i);
      if (i != target || refused) {
        if (!(now == m[i].snap))
          c.fail(vtag(refused && i == target ? "refused-changed" : "other-changed", (std::string("encode_array.") + op).c_str()).c_str(),
                 "after %s on e%d: %s held %zu bytes %s (done %zu, scratch %zu) before and holds %zu bytes %s (done %zu, scratch %zu) now", op, target, desc(i).c_str(), m[i].snap.bytes.size(),
                 hex(m[i].snap.bytes.data(), m[i].snap.bytes.size(), 20).c_str(), m[i].snap.done, m[i].snap.scratch, now.bytes.size(), hex(now.bytes.data(), now.bytes.size(), 20).c_str(), now.done, now.scratch);
        continue;
      }
      // the target: finished bytes = one frame per terminated message
      VP_CHECK(c, now.done + now.scratch <= now.bytes.size(), vtag("encode-accounting", (std::string("encode_array.") + op).c_str()).c_str(), "after %s: %s: done + scratch exceed the array length", op, desc(i).c_str());
      span<const uint8_t> f = e[i]->data();
      std::vector<uint8_t> fin(f.begin(), f.begin() + f.size()), out;
      size_t k = 0, start = 0;
      for (size_t p = 0; p < fin.size(); p++) {
        if (fin[p]) continue;
        bool ok = k < m[i].msgs.size() && ref::decode(ref::Cobs, fin.data() + start, p - start, out) == ref::WellFormed && out == m[i].msgs[k];
        if (!ok) c.fail(vtag("target-mismatch", (std::string("encode_array.") + op).c_str()).c_str(), "after %s: frame %zu of %s (%s) does not decode to message %zu of the %zu pushed ones", op, k, desc(i).c_str(),
                        hex(fin.data() + start, p - start, 20).c_str(), k, m[i].msgs.size());
        ++k;
        start = p + 1;
      }
      // (bytes behind the last delimiter are finished blocks of the message that is still open)
      VP_CHECK(c, k == m[i].msgs.size(), vtag("target-mismatch", (std::string("encode_array.") + op).c_str()).c_str(), "after %s: %s shows %zu complete frames, %zu messages were terminated", op, desc(i).c_str(), k, m[i].msgs.size());
      m[i].snap = now;
    }
    if (c.verbose()) for (int i = 0; i < NA; i++) c.logf("      %s", desc(i).c_str());
  }
  void run() {
    c.label("cxx:encode_array");
    c.logf("C++ API history: mpt::encode_array with the COBS encoder");
    data_encoder_t enc = mpt_message_encoder(MPT_ENUM(EncodingCobs));
    VP_CHECK(c, enc, "no-encoder", "mpt_message_encoder(EncodingCobs) is NULL");
    for (int i = 0; i < NA; i++) { e[i] = new encode_array(enc); m[i].snap = snap(i); }
    verify("create", -1, false);
    unsigned nops = 0;
    while (c.more() && nops++ < 40) {
      inj.disarm(c);
      int i = (int)c.pick(NA), j = (int)c.pick(NA);
      encode_array &x = *e[i];
      unsigned op = inj.select(c, {8, 8, 6, 3});
      inj.arm(c, op < 2);
      bool sh = x._d.shared();
      switch (op) {
        case 0: {  // payload
          size_t len = c.near({1, 2, 30, 31, 64}, 120);
          if (!len) len = 1;
          std::vector<uint8_t> d(len);
          uint8_t sd = c.u8();
          for (size_t q = 0; q < len; q++) d[q] = (uint8_t)((sd + q) % 5 ? sd + 3 * q : 0);   // zeros inside the payload
          c.logf("  e%d.push(%zu, %s)   [%s]", i, len, hex(d.data(), d.size(), 8).c_str(), desc(i).c_str());
          if (sh) { c.label("cxx-nt:write-while-shared"); c.nontrivial(); }
          ssize_t r = x.push(len, d.data());
          c.logf("    = %zd", r);
          if (r >= 0) { VP_CHECK(c, (size_t)r <= len, "cxx-push-count", "push(%zu) consumed %zd", len, r); m[i].cur.insert(m[i].cur.end(), d.begin(), d.begin() + r); }
          c.label(r >= 0 ? "cxx-ok:enc.coded-push" : "cxx-refused:enc"); verify("push", i, r < 0);
        } break;
        case 1: {  // terminate the message
          c.logf("  e%d.push(0, NULL)   [%s]", i, desc(i).c_str());
          if (sh) { c.label("cxx-nt:write-while-shared"); c.label("cxx-enc:terminate-shared"); c.nontrivial(); }
          ssize_t r = x.push(0, 0);
          c.logf("    = %zd", r);
          if (r >= 0) { m[i].msgs.push_back(m[i].cur); m[i].cur.clear(); }
          c.label(r >= 0 ? "cxx-ok:enc.coded-finish" : "cxx-refused:enc"); verify("finish", i, r < 0);
        } break;
        case 2: {  // assignment: both on one buffer
          c.logf("  e%d = e%d", i, j);
          x = *e[j];
          m[i] = m[j];
          m[i].snap = snap(i);
          c.label("cxx-ok:enc.share"); verify("assign", -1, false);
        } break;
        default: {  // copy construction
          c.logf("  e%d = encode_array(e%d)", i, j);
          encode_array *n = new encode_array(*e[j]);
          Model keep = m[j];
          delete e[i];
          e[i] = n;
          m[i] = keep;
          m[i].snap = snap(i);
          c.label("cxx-ok:enc.share"); verify("copy", -1, false);
        } break;
      }
    }
    inj.disarm(c);
    for (int i = 0; i < NA; i++) {
      c.logf("  delete e%d", i);
      delete e[i];
      e[i] = new encode_array(enc);
      m[i] = Model();
      m[i].snap = snap(i);
      verify("delete", -1, false);
    }
    for (int i = 0; i < NA; i++) { delete e[i]; e[i] = 0; }
  }
};

void run_cxx(Ctx &c) {
  // objects are abandoned when an oracle fails (see run)
  // one byte: the 24 highest values select the scenarios added later, every other value keeps its meaning (byte % 12)
  unsigned byte = (unsigned)c.range(0, 255);
  if (byte >= 232 && byte < 240) {   // round 6: without encoder (even values); round 8: with the COBS encoder (odd values)
    if (byte & 1) { CxxEncCoded *w = new CxxEncCoded(c); w->run(); delete w; }
    else { CxxEnc *w = new CxxEnc(c); w->run(); delete w; }
    return;
  }
  if (byte >= 240) {
    if (byte & 1) { auto *w = new CxxRef<reference_array<RObj> >(c, "reference_array", sizeof(reference<RObj>)); w->run(); delete w; }
    else { auto *w = new CxxRef<item_array<RObj> >(c, "item_array", sizeof(item<RObj>)); w->run(); delete w; }
    return;
  }
  static const unsigned kW[] = {4, 2, 2, 2, 2};
  unsigned r = byte % 12, sel = 0;
  while (r >= kW[sel]) r -= kW[sel++];
  switch (sel) {
    case 0: { CxxBytes *w = new CxxBytes(c); w->run(); delete w; } break;
    case 1: { auto *w = new CxxTyped<typed_array<int32_t>, int32_t, TTyped>(c, "typed_array"); w->run(); delete w; } break;
    case 2: { auto *w = new CxxTyped<unique_array<int32_t>, int32_t, TUnique>(c, "unique_array"); w->run(); delete w; } break;
    case 3: { auto *w = new CxxTyped<pointer_array<int>, int *, TPointer>(c, "pointer_array"); w->run(); delete w; } break;
    default: { CxxMap *w = new CxxMap(c); w->run(); delete w; } break;
  }
}

void run(Ctx &c) {
  // everything the case creates is released by the history itself (final-release); when an oracle fails the
  // handles are abandoned on purpose: the library state is not trusted any more and the process is left
  // the scalar type table is created lazily by the first mpt_type_traits() call of the process (and does not check its
  // allocation: type registry, C06): create it outside any injected failure so that a case does not depend on process history
  alloc_fail_after(0);
  (void)mpt_type_traits('c');
  uint8_t sel = c.u8();
  if (sel % 4 == 3) { c.label("scenario:cxx"); run_cxx(c); return; }
  c.label("scenario:c");
  World *w = new World(c);
  w->run();
  delete w;
}

Target t = {
    "C04",
    "random, scenario C API (3/4): history of <= 48 operations over 4 handle slots (array | slice window | raw encode_array), one content flavour per case (raw | 'c' | plain 4-byte elements); "
    "operations mpt_array_{append,insert,set,slice,reserve,clone,reduce,string}, mpt_buffer_{insert,cut,set} on privately held buffers, mpt_slice_write, mpt_printf/mpt_vprintf, raw mpt_array_push, buffer detach(len), "
    "buffers seeded by _mpt_buffer_alloc(len, {0,Immutable,NoCopy,both}); offsets/lengths near {0, used, size, 64, 128, 192} +-2, past the end, rarely near SIZE_MAX/LONG_MAX, offset/length pairs far outside (sums/products that wrap into the data), prints whose conversion fails; "
    "every handle read back and compared with a std::vector value model after every operation. "
    "scenario C++ API (1/4): histories of <= 40 operations over 3 objects of mpt::array (+ one mpt::slice) | typed_array<int32_t> | unique_array<int32_t> | pointer_array<int> | map<int32_t,int32_t> "
    "(set/append/insert/prepend/assign/iovec/span/content/printf/string, shift/trim/write, insert/set/get/resize/reserve/detach/compact/swap/offset, set/append/get/values) against std::vector models. "
    "non-trivial: a successful write went through a handle whose buffer was shared, immutable or too small while another handle held data (and was read afterwards); distinct by hash of the draw sequence.",
    run,
    {700, 2000},
    false,
    true,
    {},
    0,
    0,
};

}  // namespace

Target &vp::target() { return t; }
