// C13 — ring-buffer queue is a faithful byte deque            vp-link: core cxx
//
// G: drawn initial state (capacity, start offset, fill; wrapped in more than half of the cases, exact-size
//    malloc block so that ASan sees every access outside the storage) x history over the C queue API
//    (qpush qunshift qpop qshift qpre qpost crop set get empty(+load emulation) find string align resize prepare),
//    lengths/positions drawn relative to the two segments (0, 1, low, high, len, free, off; each +-2) plus over-asks.
// O: model std::deque<uint8_t>. After every step: len<=max, off<=max, len == model size, raw ring read == model,
//    mpt_queue_get(everything) == model, the two segments of mpt_queue_data == model. Data returned by
//    pop/shift/get/find/string == what the model holds. An operation asking for more than stored/free must be
//    refused; any refusal must leave the content unchanged (refusing something that fits is allowed, DESIGN 4).
#include "vp.hpp"

#include "mpt_c.hpp"
#include "io.h"  // mpt++: io::queue

#include <cerrno>
#include <deque>

using namespace vp;
using namespace mpt;

typedef std::deque<uint8_t> Model;

static inline uint8_t pat(uint32_t seed, size_t i) {
  uint32_t x = (seed + 1) * 2654435761u ^ (uint32_t)(i * 40503u + 0x9e37u);
  x ^= x >> 15; x *= 0x2c1b3ce5u; x ^= x >> 12;
  return (uint8_t)x;
}

// The run must be a pure function of the case bytes. A library function that reads one of its own
// uninitialised locals would make it depend on what earlier calls left on the stack; the region below
// the current frame is therefore set to a fixed pattern before every operation.
__attribute__((noinline, no_sanitize("address"))) static void paint_stack() {
  volatile uint8_t area[16384];
  for (size_t i = 0; i < sizeof area; i++) area[i] = 0x01;
}

struct Store {  // the C object; storage is released by the harness whatever the library did
  CObj<queue> q;
  ~Store() { free(q->base); }
};

struct Seg {
  size_t len, max, off, low, high, free;
  bool wrapped;
};
static Seg seg(const queue *q) {
  Seg s;
  s.len = q->len; s.max = q->max; s.off = q->off;
  size_t first = q->max - q->off;
  s.low = s.len < first ? s.len : first;
  s.high = s.len - s.low;
  s.free = s.max - s.len;
  s.wrapped = s.high > 0 && s.low > 0;
  return s;
}

static bool inside(const queue *q, const void *p, size_t n) {
  const uint8_t *b = (const uint8_t *)q->base, *x = (const uint8_t *)p;
  if (!n) return true;
  return b && x >= b && n <= q->max && (size_t)(x - b) <= q->max - n;
}

static std::string mhex(const Model &m, size_t pos, size_t n) {
  std::vector<uint8_t> v;
  for (size_t i = pos; i < pos + n && i < m.size() && v.size() < 24; i++) v.push_back(m[i]);
  return hex(v.data(), v.size(), 24) + (n > 24 ? ".." : "");
}

// full read-back: invariants, raw ring, mpt_queue_get of everything, the two segments
static void verify(Ctx &c, const queue *q, const Model &m, const char *after) {
  VP_CHECK(c, q->len <= q->max, "inv-len", "after %s: len %zu > max %zu", after, q->len, q->max);
  VP_CHECK(c, q->off <= q->max, "inv-off", "after %s: off %zu > max %zu", after, q->off, q->max);
  VP_CHECK(c, (q->base != 0) || q->max == 0, "inv-base", "after %s: no storage but max %zu", after, q->max);
  if (q->max && q->off == q->max) c.label("state:off==max");
  VP_CHECK(c, q->len == m.size(), "len-mismatch", "after %s: queue holds %zu bytes, the deque %zu", after, q->len, m.size());
  size_t n = m.size();
  if (!n) return;
  const uint8_t *b = (const uint8_t *)q->base;
  std::vector<uint8_t> want(m.begin(), m.end());
  for (size_t i = 0; i < n; i++) {
    uint8_t got = b[(q->off + i) % q->max];
    VP_CHECK(c, got == want[i], "content-mismatch", "after %s: byte %zu of %zu is %02x, the deque holds %02x (off %zu max %zu; deque %s)", after, i, n, got, want[i],
             q->off, q->max, mhex(m, 0, n).c_str());
  }
  std::vector<uint8_t> buf(n, 0xCD);
  int r = mpt_queue_get(q, 0, n, buf.data());
  VP_CHECK(c, r >= 0, "fit-refused", "after %s: mpt_queue_get(0,%zu) of exactly what is stored = %d", after, n, r);
  VP_CHECK(c, buf == want, "get-mismatch", "after %s: mpt_queue_get(0,%zu) gives %s, the deque holds %s (off %zu max %zu)", after, n, hex(buf.data(), n, 24).c_str(),
                mhex(m, 0, n).c_str(), q->off, q->max);
  size_t low = (size_t)-1;
  const uint8_t *d = (const uint8_t *)mpt_queue_data(q, &low);
  VP_CHECK(c, d != 0 && low <= n, "data-segment", "after %s: mpt_queue_data gives %p low %zu for len %zu", after, (const void *)d, low, n);
  VP_CHECK(c, inside(q, d, low) && inside(q, b, n - low), "data-segment", "after %s: segments (%zu at +%td, %zu at +0) leave the storage of %zu", after, low, d - b, n - low, q->max);
  VP_CHECK(c, !memcmp(d, want.data(), low) && !memcmp(b, want.data() + low, n - low), "data-mismatch", "after %s: the two segments (low %zu, high %zu) differ from the deque", after, low,
           n - low);
}

struct Len {
  size_t n;
  bool huge;
};
// a length / position relative to the two segments
static size_t rel(Ctx &c, const Seg &s, size_t max) {
  size_t flow = s.free, fhigh = 0;
  if (s.off + s.len < s.max) { flow = s.max - s.off - s.len; fhigh = s.off; }
  return c.near({0, 1, s.low, s.high, s.len, s.free, s.off, flow, fhigh, s.low + 1, s.len + 1, s.free + 1}, max);
}
static Len oplen(Ctx &c, const Seg &s) {
  Len l;
  l.huge = c.chance(5);
  if (l.huge) {
    l.n = c.flip() ? (size_t)-1 - c.range(0, 3) : ((size_t)1 << 63) + c.range(0, 3);
    c.label("len:huge");
  } else l.n = rel(c, s, s.max + 2);
  return l;
}
// A size no allocator can deliver, or one whose sum with the stored bytes / whose rounding to the allocation
// granule (MPT_align, 8) wraps around. Such a grow request must be refused and leave the queue as it is.
static size_t huge_size(Ctx &c, const Seg &s, const char *&kind) {
  size_t k = c.range(0, 9);
  switch (c.pick(9)) {
    case 0: kind = "SIZE_MAX-k"; return SIZE_MAX - k;
    case 1: kind = "SIZE_MAX-len-k"; return SIZE_MAX - s.len - k;       // len + n within the last granule: alignment wraps to 0
    case 2: kind = "SIZE_MAX-len+1+k"; return s.len ? SIZE_MAX - s.len + 1 + (k < s.len ? k : s.len - 1) : SIZE_MAX;  // len + n wraps to a small number
    case 3: kind = "SIZE_MAX-free-k"; return SIZE_MAX - s.free - k;
    case 4: kind = "SIZE_MAX-max-k"; return SIZE_MAX - s.max - k;
    case 5: kind = "SIZE_MAX/2+-k"; return SIZE_MAX / 2 - 7 + 2 * k;
    case 6: kind = "2^62+k"; return ((size_t)1 << 62) + k;
    case 7: kind = "2^63+-k"; return ((size_t)1 << 63) - 4 + k;
    default: kind = "SIZE_MAX-8k"; return SIZE_MAX - 7 - 8 * k;         // multiples of the granule
  }
}
static std::vector<uint8_t> opdata(Ctx &c, size_t n) {
  std::vector<uint8_t> v(n);
  if (n <= 6) c.bytes(v.data(), n);
  else { uint32_t seed = c.u16(); for (size_t i = 0; i < n; i++) v[i] = pat(seed, i); }
  return v;
}

struct FindArg {
  const queue *q;
  size_t esz;
  const uint8_t *want;
  std::vector<const uint8_t *> seen;
  bool outside;
};
static int find_cmp(const void *e, void *a) {  // no throwing here: library frames above
  FindArg *f = (FindArg *)a;
  if (!inside(f->q, e, f->esz)) { f->outside = true; return 1; }
  f->seen.push_back((const uint8_t *)e);
  return memcmp(e, f->want, f->esz) ? 1 : 0;
}

enum Op { Push, Unshift, Pop, Shift, Pre, Post, Crop, Set, Get, Empty, Find, String, Align, Resize, Prepare, HugeGrow, NOps };
static const char *kOp[] = {"qpush", "qunshift", "qpop", "qshift", "qpre", "qpost", "crop", "set", "get", "empty", "find", "string", "align", "resize", "prepare", "huge-grow"};

static void note(Ctx &c, Op op, bool ok, bool both, bool &nt) {
  char l[LabelLen];
  snprintf(l, sizeof l, "%s:%s", kOp[op], ok ? "ok" : "refused");
  c.label(l);
  if (ok && both) {
    snprintf(l, sizeof l, "both-segments:%s", kOp[op]);
    c.label(l);
    nt = true;
  }
}

static void init_state(Ctx &c, queue *q, Model &m) {
  size_t cap = 0, off = 0, fill = 0;
  switch (c.weighted({9, 4, 2, 1, 1})) {
    case 0:  // wrapped
      cap = 2 + c.near({0, 1, 6, 14, 30}, 62);
      fill = c.range(2, cap);
      off = c.range(cap - fill + 1, cap - 1);
      break;
    case 1:  // anything that is not wrapped
      cap = c.range(1, 64);
      fill = c.range(0, cap);
      off = fill ? c.range(0, cap - fill) : c.range(0, cap - 1);
      if (off >= cap) off = 0;
      break;
    case 2:  // content ends exactly at the end of the storage
      cap = c.range(1, 64);
      fill = c.range(1, cap);
      off = cap - fill;
      break;
    case 3:  // no storage yet (MPT_QUEUE_INIT)
      break;
    default: {  // large and wrapped: rotation by block swaps (parts around 1024)
      cap = c.range(2100, 6000);
      size_t low = c.near({1, 1023, 1024, 1025, cap / 2}, cap - 1);
      if (low < 1) low = 1;
      if (low > cap - 1) low = cap - 1;
      size_t high = c.near({1, 1023, 1024, 1025, cap - low}, cap - low);
      if (high < 1) high = 1;
      if (high > cap - low) high = cap - low;
      off = cap - low;
      fill = low + high;
      c.label("init:large");
    }
  }
  if (cap) {
    q->base = malloc(cap);
    memset(q->base, 0xEE, cap);
  }
  q->max = cap; q->off = off; q->len = fill;
  uint32_t seed = c.u16();
  for (size_t i = 0; i < fill; i++) {
    uint8_t v = pat(seed, i);
    m.push_back(v);
    ((uint8_t *)q->base)[(off + i) % cap] = v;
  }
  Seg s = seg(q);
  c.label(!cap ? "init:no-storage" : s.wrapped ? "init:wrapped" : (fill && off + fill == cap) ? "init:touches-end" : "init:contiguous");
  c.logf("initial state: capacity %zu offset %zu fill %zu (low %zu high %zu)", cap, off, fill, s.low, s.high);
  c.loghex("content", std::vector<uint8_t>(m.begin(), m.end()).data(), m.size());
}

static void run_c(Ctx &c) {
  Store st;
  queue *q = st.q;
  Model m;
  init_state(c, q, m);
  verify(c, q, m, "setup");
  bool nt = false;
  unsigned steps = 0;
  while (c.more() && steps++ < 200) {
    Op op = (Op)c.weighted({10, 8, 10, 8, 4, 4, 10, 6, 6, 5, 5, 4, 8, 5, 3, 5});  // new operations are appended: operation bytes of older corpus files keep their meaning
    Seg s = seg(q);
    size_t n0 = m.size();
    char what[160];
    switch (op) {
      case Push:
      case Unshift: {
        Len l = oplen(c, s);
        bool zero = l.huge || c.chance(40);
        std::vector<uint8_t> d;
        if (!zero) d = opdata(c, l.n);
        else d.assign(l.huge ? 0 : l.n, 0);
        const void *src = zero ? 0 : (d.empty() ? (const void *)"" : d.data());
        c.logf("> %s(%zu, %s)   [off %zu len %zu max %zu low %zu high %zu]", kOp[op], l.n, zero ? "NULL" : "data", s.off, s.len, s.max, s.low, s.high);
        paint_stack();
        int r = op == Push ? mpt_qpush(q, l.n, src) : mpt_qunshift(q, l.n, src);
        snprintf(what, sizeof what, "%s(%zu, %s) = %d", kOp[op], l.n, zero ? "NULL" : hex(d.data(), d.size(), 12).c_str(), r);
        c.logf("  %s", what);
        if (r >= 0) {
          VP_CHECK(c, l.n <= s.free, "over-ask-accepted", "%s with only %zu of %zu bytes free", what, s.free, s.max);
          if (op == Push) m.insert(m.end(), d.begin(), d.end());
          else m.insert(m.begin(), d.begin(), d.end());
        } else if (l.n)  // the deque takes whatever fits: so must the queue (data or NULL = zero fill)
          VP_CHECK(c, l.n > s.free, "fit-refused", "%s although %zu of %zu bytes are free", what, s.free, s.max);
        if (zero && l.n && l.n <= s.free) c.label(op == Push ? "qpush:null-source" : "qunshift:null-source");
        VP_CHECK(c, q->len <= q->max && q->off <= q->max, "inv-len", "after %s: off %zu len %zu max %zu", what, q->off, q->len, q->max);
        Seg a = seg(q);
        bool both = a.wrapped && l.n && (op == Push ? (n0 < a.low && n0 + l.n > a.low) : (l.n > a.low));
        note(c, op, r >= 0, both, nt);
        break;
      }
      case Pop:
      case Shift: {
        Len l = oplen(c, s);
        bool nodata = l.huge || c.chance(64);
        std::vector<uint8_t> d(nodata ? 0 : l.n + 1, 0xCD);
        errno = 0;
        c.logf("> %s(%zu, %s)   [off %zu len %zu max %zu low %zu high %zu]", kOp[op], l.n, nodata ? "NULL" : "buf", s.off, s.len, s.max, s.low, s.high);
        paint_stack();
        const uint8_t *r = (const uint8_t *)(op == Pop ? mpt_qpop(q, l.n, nodata ? 0 : d.data()) : mpt_qshift(q, l.n, nodata ? 0 : d.data()));
        int err = errno;
        snprintf(what, sizeof what, "%s(%zu, %s) = %s", kOp[op], l.n, nodata ? "NULL" : "buf", r ? (!nodata && r == d.data() ? "buf" : "ptr") : "NULL");
        c.logf("  %s", what);
        bool ok = r != 0;
        // a zero-length removal changes nothing whatever it answers
        if (ok && l.n) {
          VP_CHECK(c, l.n <= n0, "over-ask-accepted", "%s with only %zu bytes stored", what, n0);
          size_t from = op == Pop ? n0 - l.n : 0;
          std::vector<uint8_t> want(m.begin() + from, m.begin() + from + l.n);
          bool mine = !nodata && r == d.data();
          VP_CHECK(c, mine || inside(q, r, l.n), "removed-pointer", "%s: returned pointer is neither the target buffer nor %zu bytes inside the storage (+%td of %zu)", what, l.n,
                   r - (const uint8_t *)q->base, q->max);
          VP_CHECK(c, !memcmp(r, want.data(), l.n), "removed-data", "%s: returned pointer holds %s, the deque removed %s", what, hex(r, l.n, 24).c_str(), hex(want.data(), l.n, 24).c_str());
          if (!nodata) VP_CHECK(c, !memcmp(d.data(), want.data(), l.n), "removed-data", "%s: target buffer holds %s, the deque removed %s", what, hex(d.data(), l.n, 24).c_str(),
                                hex(want.data(), l.n, 24).c_str());
          m.erase(m.begin() + from, m.begin() + from + l.n);
        }
        if (!nodata) VP_CHECK(c, d[l.n] == 0xCD, "target-overrun", "%s wrote behind the %zu byte target buffer", what, l.n);
        bool both = s.wrapped && (op == Pop ? l.n > s.high : l.n > s.low);
        if (!ok && l.n && l.n <= n0) {
          // documented exception of the C functions: without a target buffer a range that lies in both segments
          // cannot be handed out as one pointer (errno EINVAL; "target pointer must be supplied if data is non-contiguous")
          if (nodata && both) c.label(op == Pop ? "qpop:null-target-across-wrap-refused" : "qshift:null-target-across-wrap-refused");
          else c.fail("fit-refused", "%s (errno %d) although %zu bytes are stored", what, err, n0);
        }
        if (ok && nodata && l.n) c.label(op == Pop ? "qpop:null-target" : "qshift:null-target");
        note(c, op, ok, both && l.n <= n0, nt);
        break;
      }
      case Pre:
      case Post: {
        Len l = oplen(c, s);
        c.logf("> %s(%zu)   [off %zu len %zu max %zu low %zu high %zu]", kOp[op], l.n, s.off, s.len, s.max, s.low, s.high);
        paint_stack();
        ssize_t r = op == Pre ? mpt_qpre(q, l.n) : mpt_qpost(q, l.n);
        snprintf(what, sizeof what, "%s(%zu) = %zd", kOp[op], l.n, r);
        c.logf("  %s", what);
        if (r >= 0) {
          VP_CHECK(c, l.n <= s.free, "over-ask-accepted", "%s with only %zu of %zu bytes free", what, s.free, s.max);
          VP_CHECK(c, q->len == n0 + l.n && q->len <= q->max && q->off <= q->max, "len-mismatch", "after %s: len %zu (was %zu) off %zu max %zu", what, q->len, n0, q->off, q->max);
          // the reserved bytes are uninitialised: a caller fills them; take them from a drawn pattern
          std::vector<uint8_t> d = opdata(c, l.n);
          const uint8_t *b = (const uint8_t *)q->base;
          for (size_t i = 0; i < l.n; i++) ((uint8_t *)b)[(q->off + (op == Pre ? i : n0 + i)) % q->max] = d[i];
          if (op == Pre) m.insert(m.begin(), d.begin(), d.end());
          else m.insert(m.end(), d.begin(), d.end());
        }
        else if (l.n) VP_CHECK(c, l.n > s.free, "fit-refused", "%s although %zu of %zu bytes are free", what, s.free, s.max);
        Seg a = seg(q);
        bool both = a.wrapped && l.n && (op == Post ? (n0 < a.low && n0 + l.n > a.low) : (l.n > a.low));
        note(c, op, r >= 0, both, nt);
        break;
      }
      case Crop: {
        size_t pos = c.chance(60) ? 0 : rel(c, s, s.len + 1);
        Len l = oplen(c, s);
        if (!l.huge && c.flip() && pos <= s.len) {  // tail lengths: up to the segment end / the content end
          size_t k = c.pick(3);
          l.n = k == 0 ? s.len - pos : (k == 1 && pos < s.low) ? s.low - pos : l.n;
        }
        c.logf("> crop(pos %zu, len %zu)   [off %zu len %zu max %zu low %zu high %zu]", pos, l.n, s.off, s.len, s.max, s.low, s.high);
        paint_stack();
        int r = mpt_queue_crop(q, pos, l.n);
        snprintf(what, sizeof what, "crop(pos %zu, len %zu) = %d", pos, l.n, r);
        c.logf("  %s", what);
        bool fits = pos <= n0 && l.n <= n0 - pos;
        if (r >= 0) {
          VP_CHECK(c, fits || !l.n, "over-ask-accepted", "%s with only %zu bytes stored", what, n0);
          if (fits) m.erase(m.begin() + pos, m.begin() + pos + l.n);
        } else if (l.n) VP_CHECK(c, !fits, "fit-refused", "%s although %zu bytes are stored", what, n0);
        bool both = s.wrapped && l.n && fits && pos < s.low && (pos + l.n > s.low || pos + l.n < n0);
        note(c, op, r >= 0, both, nt);
        if (r >= 0 && fits && pos && l.n && pos + l.n < n0) c.label("crop:middle");
        break;
      }
      case Set: {
        size_t pos = rel(c, s, s.len + 1);
        Len l = oplen(c, s);
        if (!l.huge && c.flip() && pos <= s.len) l.n = c.flip() ? s.len - pos : c.range(0, s.len - pos);
        bool zero = l.huge || c.chance(40);
        std::vector<uint8_t> d;
        if (!zero) d = opdata(c, l.n);
        else d.assign(l.huge ? 0 : l.n, 0);
        c.logf("> set(pos %zu, len %zu, %s)   [off %zu len %zu max %zu low %zu high %zu]", pos, l.n, zero ? "NULL" : "data", s.off, s.len, s.max, s.low, s.high);
        paint_stack();
        int r = mpt_queue_set(q, pos, l.n, zero ? 0 : (d.empty() ? (const void *)"" : d.data()));
        snprintf(what, sizeof what, "set(pos %zu, len %zu, %s) = %d", pos, l.n, zero ? "NULL" : hex(d.data(), d.size(), 12).c_str(), r);
        c.logf("  %s", what);
        bool fits = pos <= n0 && l.n <= n0 - pos;
        if (r >= 0 && l.n) {
          VP_CHECK(c, fits, "over-ask-accepted", "%s with only %zu bytes stored", what, n0);
          for (size_t i = 0; i < l.n; i++) m[pos + i] = d[i];
        } else if (l.n) VP_CHECK(c, !fits, "fit-refused", "%s although %zu bytes are stored", what, n0);
        bool both = s.wrapped && fits && pos < s.low && pos + l.n > s.low;
        note(c, op, r >= 0, both, nt);
        break;
      }
      case Get: {
        size_t pos = rel(c, s, s.len + 1);
        Len l = oplen(c, s);
        if (!l.huge && c.flip() && pos <= s.len) l.n = c.flip() ? s.len - pos : c.range(0, s.len - pos);
        bool nodata = l.huge || c.chance(30);
        std::vector<uint8_t> d(nodata ? 0 : l.n + 1, 0xCD);
        c.logf("> get(pos %zu, len %zu, %s)   [off %zu len %zu max %zu low %zu high %zu]", pos, l.n, nodata ? "NULL" : "buf", s.off, s.len, s.max, s.low, s.high);
        paint_stack();
        int r = mpt_queue_get(q, pos, l.n, nodata ? 0 : d.data());
        snprintf(what, sizeof what, "get(pos %zu, len %zu, %s) = %d", pos, l.n, nodata ? "NULL" : "buf", r);
        c.logf("  %s", what);
        bool fits = pos <= n0 && l.n <= n0 - pos;
        if (r >= 0 && l.n) {
          VP_CHECK(c, fits, "over-ask-accepted", "%s with only %zu bytes stored", what, n0);
          if (!nodata) {
            std::vector<uint8_t> want(m.begin() + pos, m.begin() + pos + l.n);
            VP_CHECK(c, !memcmp(d.data(), want.data(), l.n), "get-mismatch", "%s gives %s, the deque holds %s", what, hex(d.data(), l.n, 24).c_str(), hex(want.data(), l.n, 24).c_str());
          }
        }
        if (r < 0 && l.n) VP_CHECK(c, !fits, "fit-refused", "%s although %zu bytes are stored", what, n0);
        if (!nodata) VP_CHECK(c, d[l.n] == 0xCD, "target-overrun", "%s wrote behind the %zu byte target buffer", what, l.n);
        bool both = s.wrapped && fits && pos < s.low && pos + l.n > s.low && !nodata;
        note(c, op, r >= 0, both, nt);
        break;
      }
      case Empty: {
        // the way mpt_queue_load uses it: write into [ret, ret+low) then [base, base+high), add to len
        size_t low = 0, high = 0;
        snprintf(what, sizeof what, "empty()+write");
        c.logf("> empty()   [off %zu len %zu max %zu low %zu high %zu]", s.off, s.len, s.max, s.low, s.high);
        paint_stack();
        uint8_t *p = (uint8_t *)mpt_queue_empty(q, &low, &high);
        c.logf("  empty() = %s low %zu high %zu", p ? "ptr" : "NULL", low, high);
        if (!p) {
          VP_CHECK(c, !s.free, "fit-refused", "empty() = NULL although %zu of %zu bytes are unused", s.free, s.max);
          note(c, op, false, false, nt);
          break;
        }
        VP_CHECK(c, low <= s.free && high == s.free - low, "empty-size", "empty(): parts %zu + %zu, but %zu of %zu bytes are unused", low, high, s.free, s.max);
        VP_CHECK(c, inside(q, p, low) && inside(q, q->base, high), "empty-range", "empty(): part of %zu bytes at +%td leaves the storage of %zu", low, p - (uint8_t *)q->base, s.max);
        memset(p, 0x5A, low);
        memset(q->base, 0x5A, high);
        if (c.flip()) {
          size_t k = c.near({0, 1, low, low + 1, low + high}, low + high);
          std::vector<uint8_t> d = opdata(c, k);
          for (size_t i = 0; i < k; i++) (i < low ? p[i] : ((uint8_t *)q->base)[i - low]) = d[i];
          q->len += k;
          m.insert(m.end(), d.begin(), d.end());
          c.logf("  load emulation: %zu bytes written to the unused parts, len += %zu", k, k);
          c.label("empty:load");
          note(c, op, true, high && k > low, nt);
        } else note(c, op, true, false, nt);
        break;
      }
      case Find: {
        size_t esz = c.flip() ? c.choose<size_t>({1, 1, 2, 3, 4, 8}) : rel(c, s, s.len + 1);
        if (!esz) esz = 1;
        size_t nelem = n0 / esz;
        size_t j = c.range(0, nelem);  // j == nelem: bytes that (most likely) do not occur
        std::vector<uint8_t> want(esz);
        if (j < nelem) for (size_t i = 0; i < esz; i++) want[i] = m[j * esz + i];
        else { uint32_t seed = c.u16(); for (size_t i = 0; i < esz; i++) want[i] = pat(seed ^ 0x5555, i); }
        FindArg fa = {q, esz, want.data(), {}, false};
        errno = 0;
        c.logf("> find(esz %zu, %s)   [off %zu len %zu max %zu low %zu high %zu]", esz, hex(want.data(), esz, 12).c_str(), s.off, s.len, s.max, s.low, s.high);
        paint_stack();
        const uint8_t *r = (const uint8_t *)mpt_queue_find(q, esz, find_cmp, &fa);
        int err = errno;
        snprintf(what, sizeof what, "find(esz %zu, %s) = %s", esz, hex(want.data(), esz, 12).c_str(), r ? "ptr" : "NULL");
        c.logf("  %s   (errno %d, %zu of %zu elements visited)", what, err, fa.seen.size(), nelem);
        VP_CHECK(c, !fa.outside, "find-outside", "%s: an element passed to the compare function leaves the storage", what);
        VP_CHECK(c, fa.seen.size() <= nelem, "find-element", "%s: %zu elements visited, only %zu stored", what, fa.seen.size(), nelem);
        for (size_t k = 0; k < fa.seen.size(); k++) {
          std::vector<uint8_t> e(m.begin() + k * esz, m.begin() + (k + 1) * esz);
          VP_CHECK(c, !memcmp(fa.seen[k], e.data(), esz), "find-element", "%s: visited element %zu is %s, the deque holds %s", what, k, hex(fa.seen[k], esz, 16).c_str(),
                   hex(e.data(), esz, 16).c_str());
        }
        if (r) VP_CHECK(c, !fa.seen.empty() && r == fa.seen.back() && !memcmp(r, want.data(), esz), "find-result", "%s: result is not the matching element last visited", what);
        else if (!err) VP_CHECK(c, fa.seen.size() == nelem, "find-missed", "%s: reports 'not found' after visiting %zu of %zu elements", what, fa.seen.size(), nelem);
        else c.label("find:refused");
        note(c, op, r != 0 || !err, s.wrapped && fa.seen.size() * esz > s.low, nt);
        break;
      }
      case String: {
        c.logf("> string()   [off %zu len %zu max %zu low %zu high %zu]", s.off, s.len, s.max, s.low, s.high);
        paint_stack();
        char *r = mpt_queue_string(q);
        snprintf(what, sizeof what, "string() = %s", r ? "ptr" : "NULL");
        c.logf("  %s", what);
        if (r) {
          VP_CHECK(c, s.free >= 1, "over-ask-accepted", "%s on a full queue (%zu bytes): no room for the terminator", what, s.max);
          VP_CHECK(c, inside(q, r, n0 + 1), "string-range", "%s: %zu bytes + terminator at +%td leave the storage of %zu", what, n0, (uint8_t *)r - (uint8_t *)q->base, q->max);
          std::vector<uint8_t> want(m.begin(), m.end());
          VP_CHECK(c, !memcmp(r, want.data(), n0) && r[n0] == 0, "string-mismatch", "%s: text %s (terminator %02x), the deque holds %s", what, hex(r, n0, 24).c_str(), (uint8_t)r[n0],
                   mhex(m, 0, n0).c_str());
        }
        else VP_CHECK(c, !s.free, "fit-refused", "%s although %zu of %zu bytes are unused (room for the terminator)", what, s.free, s.max);
        note(c, op, r != 0, s.wrapped, nt);
        break;
      }
      case Align: {
        size_t pos = c.chance(90) ? 0 : c.chance(16) ? s.max + 1 + c.range(0, 2) : rel(c, s, s.max ? s.max - 1 : 0);
        if (pos == s.max && s.max) pos = s.max - 1;
        c.logf("> align(%zu)   [off %zu len %zu max %zu low %zu high %zu]", pos, s.off, s.len, s.max, s.low, s.high);
        paint_stack();
        mpt_queue_align(q, pos);
        snprintf(what, sizeof what, "align(%zu)", pos);
        c.logf("  %s: off %zu", what, q->off);
        bool done = q->off == pos || !n0;
        if (pos < s.max && !done) c.label("align:offset-differs");
        if (done && pos + n0 > s.max) c.label("align:splits");
        note(c, op, pos <= s.max, n0 && (s.wrapped || seg(q).wrapped), nt);
        break;
      }
      case Resize: {
        size_t n = s.max > 12000 ? c.range(0, s.max) : c.near({0, 1, s.len, s.max, s.low, s.high, s.len + 1, s.max + 1, s.max + 8}, s.max + 40);
        c.logf("> resize(%zu)   [off %zu len %zu max %zu low %zu high %zu]", n, s.off, s.len, s.max, s.low, s.high);
        paint_stack();
        void *r = mpt_queue_resize(q, n);
        snprintf(what, sizeof what, "resize(%zu) = %s", n, r ? "ptr" : "NULL");
        c.logf("  %s", what);
        bool ok = r || !n;
        if (ok) {
          VP_CHECK(c, q->max == n, "resize-capacity", "%s: capacity is %zu", what, q->max);
          if (n < n0) { m.erase(m.begin(), m.begin() + (n0 - n)); c.label("resize:below-fill"); }  // documented: "remove data from queue start"
        } else c.fail("fit-refused", "%s: a storage of %zu bytes is refused", what, n);
        note(c, op, ok, s.wrapped && n != s.max && n, nt);
        break;
      }
      case HugeGrow: {
        // grow requests that cannot be served: refused, content/len/storage as before
        const char *kind = "";
        size_t n = huge_size(c, s, kind);
        bool viaprepare = c.flip();
        char l[LabelLen];
        snprintf(l, sizeof l, "huge:%s", kind);
        c.label(l);
        c.label(viaprepare ? "huge:prepare" : "huge:resize");
        if (n0) c.label(s.wrapped ? "huge:on-wrapped" : "huge:on-contiguous"); else c.label(s.max ? "huge:on-empty" : "huge:on-no-storage");
        c.logf("> %s(%zu = %s)   [off %zu len %zu max %zu low %zu high %zu]", viaprepare ? "prepare" : "resize", n, kind, s.off, s.len, s.max, s.low, s.high);
        paint_stack();
        bool ok;
        if (viaprepare) {
          size_t r = mpt_queue_prepare(q, n);
          snprintf(what, sizeof what, "prepare(%zu = %s) = %zu", n, kind, r);
          c.logf("  %s", what);
          ok = r != 0;
          if (ok) VP_CHECK(c, q->len <= q->max && r == q->max - q->len && r >= n, "prepare-size", "%s: %zu bytes unused (max %zu len %zu)", what, q->max - q->len, q->max, q->len);
        } else {
          void *r = mpt_queue_resize(q, n);
          snprintf(what, sizeof what, "resize(%zu = %s) = %s", n, kind, r ? "ptr" : "NULL");
          c.logf("  %s", what);
          ok = r != 0;
          if (ok) VP_CHECK(c, q->max == n, "resize-capacity", "%s: capacity is %zu", what, q->max);
        }
        if (!ok && (q->max != s.max)) c.label("huge:refused-capacity-changed");
        note(c, op, ok, false, nt);
        if (!ok && s.wrapped) { c.label("both-segments:huge-grow-refused"); nt = true; }  // the refusal path ran on wrapped content
        break;
      }
      default: {
        size_t n = s.max > 12000 ? c.range(0, 8) : c.near({0, 1, s.free, s.free + 1, s.free + 8, 64}, 200);
        c.logf("> prepare(%zu)   [off %zu len %zu max %zu low %zu high %zu]", n, s.off, s.len, s.max, s.low, s.high);
        paint_stack();
        size_t r = mpt_queue_prepare(q, n);
        snprintf(what, sizeof what, "prepare(%zu) = %zu", n, r);
        c.logf("  %s", what);
        if (r) VP_CHECK(c, q->len <= q->max && r == q->max - q->len && r >= n, "prepare-size", "%s: %zu bytes unused (max %zu len %zu)", what, q->max - q->len, q->max, q->len);
        if (!r && n) c.fail("fit-refused", "%s: room for %zu more bytes is refused", what, n);
        note(c, Prepare, r || !n, s.wrapped && n > s.free, nt);
      }
    }
    verify(c, q, m, what);
    if (s.wrapped && s.low > 1024 && s.high > 1024 && !seg(q).wrapped && m.size() == s.len) c.label("rotation:block-swaps");
  }
  c.count("steps", steps);
  if (nt) c.nontrivial();
}

// ---- scenario 2: the C++ wrapper io::queue (push/unshift grow the storage on demand)
struct CxxQueue : public io::queue {
  ::mpt::queue *raw() { return &_d; }
};
enum XOp { XPrepare, XPush, XUnshift, XPop, XShift, XWrite, XRead, XPeek, XHuge, NXOps };
static const char *kXOp[] = {"cxx:prepare", "cxx:push", "cxx:unshift", "cxx:pop", "cxx:shift", "cxx:write", "cxx:read", "cxx:peek", "cxx:huge-grow"};
static void xnote(Ctx &c, XOp op, bool ok, bool both, bool &nt) {
  char l[LabelLen];
  snprintf(l, sizeof l, "%s:%s", kXOp[op], ok ? "ok" : "refused");
  c.label(l);
  if (ok && both) {
    snprintf(l, sizeof l, "both-segments:%s", kXOp[op]);
    c.label(l);
    nt = true;
  }
}

static void run_cxx(Ctx &c) {
  CxxQueue cq;  // the destructor releases the storage with mpt_queue_resize(0)
  ::mpt::queue *q = cq.raw();
  Model m;
  c.logf("scenario: C++ io::queue");
  init_state(c, q, m);
  verify(c, q, m, "setup");
  bool nt = false;
  unsigned steps = 0;
  while (c.more() && steps++ < 200) {
    XOp op = (XOp)c.weighted({2, 8, 6, 8, 8, 5, 5, 5, 3});  // appended, see run_c
    Seg s = seg(q);
    size_t n0 = m.size();
    char what[160];
    switch (op) {
      case XPrepare: {
        size_t n = s.max > 12000 ? c.range(0, 8) : c.near({0, 1, s.free, s.free + 1, 64}, 200);
        c.logf("> prepare(%zu)   [off %zu len %zu max %zu low %zu high %zu]", n, s.off, s.len, s.max, s.low, s.high);
        paint_stack();
        bool r = cq.prepare(n);
        snprintf(what, sizeof what, "io::queue::prepare(%zu) = %d", n, r);
        c.logf("  %s", what);
        if (r) VP_CHECK(c, q->len <= q->max && q->max - q->len >= n, "prepare-size", "%s: %zu bytes unused (max %zu len %zu)", what, q->max - q->len, q->max, q->len);
        else c.fail("fit-refused", "%s: room for %zu more bytes is refused", what, n);
        xnote(c, op, r, s.wrapped && n > s.free, nt);
        break;
      }
      case XPush:
      case XUnshift: {
        size_t n = s.max > 12000 ? c.range(0, 8) : rel(c, s, s.max + 12);
        bool zero = c.chance(40);
        std::vector<uint8_t> d;
        if (!zero) d = opdata(c, n);
        else d.assign(n, 0);
        const void *src = zero ? 0 : (d.empty() ? (const void *)"" : d.data());
        c.logf("> %s(%s, %zu)   [off %zu len %zu max %zu low %zu high %zu]", kXOp[op], zero ? "NULL" : "data", n, s.off, s.len, s.max, s.low, s.high);
        paint_stack();
        bool r = op == XPush ? cq.push(src, n) : cq.unshift(src, n);
        snprintf(what, sizeof what, "io::queue::%s(%s, %zu) = %d", kXOp[op] + 4, zero ? "NULL" : hex(d.data(), d.size(), 12).c_str(), n, r);
        c.logf("  %s", what);
        if (r) {
          if (op == XPush) m.insert(m.end(), d.begin(), d.end());
          else m.insert(m.begin(), d.begin(), d.end());
        } else c.fail("fit-refused", "%s: the wrapper grows the storage on demand, %zu bytes must be taken", what, n);
        if (zero && n) {
          c.label(op == XPush ? "cxx:push:null-source" : "cxx:unshift:null-source");
          if (seg(q).wrapped || s.wrapped) c.label("cxx:null-source:wrapped");
        }
        xnote(c, op, r, s.wrapped && n, nt);
        break;
      }
      case XPop:
      case XShift: {
        size_t n = rel(c, s, s.max + 2);
        bool nodata = c.chance(100);
        std::vector<uint8_t> d(nodata ? 0 : n + 1, 0xCD);
        c.logf("> %s(%s, %zu)   [off %zu len %zu max %zu low %zu high %zu]", kXOp[op], nodata ? "NULL" : "buf", n, s.off, s.len, s.max, s.low, s.high);
        paint_stack();
        bool r = op == XPop ? cq.pop(nodata ? 0 : d.data(), n) : cq.shift(nodata ? 0 : d.data(), n);
        snprintf(what, sizeof what, "io::queue::%s(%s, %zu) = %d", kXOp[op] + 4, nodata ? "NULL" : "buf", n, r);
        c.logf("  %s", what);
        if (r && n) {
          VP_CHECK(c, n <= n0, "over-ask-accepted", "%s with only %zu bytes stored", what, n0);
          size_t from = op == XPop ? n0 - n : 0;
          std::vector<uint8_t> want(m.begin() + from, m.begin() + from + n);
          if (!nodata) VP_CHECK(c, !memcmp(d.data(), want.data(), n), "removed-data", "%s: target buffer holds %s, the deque removed %s", what, hex(d.data(), n, 24).c_str(),
                                hex(want.data(), n, 24).c_str());
          m.erase(m.begin() + from, m.begin() + from + n);
        }
        if (!nodata) VP_CHECK(c, d[n] == 0xCD, "target-overrun", "%s wrote behind the %zu byte target buffer", what, n);
        // with or without a target buffer: whatever is stored can be removed (the wrapper drops without copying
        // when no buffer is given; the C functions' "no pointer across the wrap" limitation does not apply to it)
        if (!r && n) VP_CHECK(c, n > n0, "fit-refused", "%s although %zu bytes are stored (low %zu high %zu)", what, n0, s.low, s.high);
        if (r && n) {
          bool across = s.wrapped && (op == XPop ? n > s.high : n > s.low);
          char l[LabelLen];
          snprintf(l, sizeof l, "%s:%s%s", kXOp[op], nodata ? "null-target" : "buffer", across ? ":across-wrap" : s.wrapped ? ":one-segment" : "");
          c.label(l);
        }
        xnote(c, op, r, s.wrapped && n <= n0 && (op == XPop ? n > s.high : n > s.low), nt);
        break;
      }
      case XHuge: {
        // every path of the wrapper that ends in mpt_queue_prepare, with a size that cannot be served:
        // prepare(n), push/unshift(NULL = zero fill, n), write(n, -, 0) ("part 0 reserves count bytes")
        const char *kind = "";
        size_t n = huge_size(c, s, kind);
        size_t via = c.pick(4);
        static const char *kVia[] = {"prepare", "push", "unshift", "write"};
        char l[LabelLen];
        snprintf(l, sizeof l, "cxx:huge:%s", kind);
        c.label(l);
        snprintf(l, sizeof l, "cxx:huge:%s", kVia[via]);
        c.label(l);
        if (n0) c.label(s.wrapped ? "cxx:huge:on-wrapped" : "cxx:huge:on-contiguous"); else c.label("cxx:huge:on-empty");
        c.logf("> %s(%zu = %s)   [off %zu len %zu max %zu low %zu high %zu]", kVia[via], n, kind, s.off, s.len, s.max, s.low, s.high);
        paint_stack();
        bool ok;
        if (via == 0) {
          ok = cq.prepare(n);
          snprintf(what, sizeof what, "io::queue::prepare(%zu = %s) = %d", n, kind, ok);
          c.logf("  %s", what);
          if (ok) VP_CHECK(c, q->len <= q->max && q->max - q->len >= n, "prepare-size", "%s: %zu bytes unused (max %zu len %zu)", what, q->max - q->len, q->max, q->len);
        } else if (via == 3) {
          ssize_t r = cq.write(n, "", 0);
          snprintf(what, sizeof what, "io::queue::write(%zu = %s, -, 0) = %zd", n, kind, r);
          c.logf("  %s", what);
          ok = r != -1;
          if (ok) VP_CHECK(c, r == (ssize_t)n && q->len <= q->max && q->max - q->len >= n, "prepare-size", "%s: %zu bytes unused (max %zu len %zu)", what, q->max - q->len, q->max, q->len);
        } else {
          ok = via == 1 ? cq.push(0, n) : cq.unshift(0, n);
          snprintf(what, sizeof what, "io::queue::%s(NULL, %zu = %s) = %d", kVia[via], n, kind, ok);
          c.logf("  %s", what);
          VP_CHECK(c, !ok, "over-ask-accepted", "%s: that many bytes cannot have been stored", what);
        }
        if (!ok && q->max != s.max) c.label("cxx:huge:refused-capacity-changed");
        xnote(c, op, ok, false, nt);
        if (!ok && s.wrapped) { c.label("both-segments:cxx:huge-grow-refused"); nt = true; }
        break;
      }
      case XWrite: {
        size_t part = c.weighted({1, 6, 3, 2, 2}), cnt = c.range(0, 6);
        if (part == 4) part = rel(c, s, 24);
        std::vector<uint8_t> d = opdata(c, part * cnt);
        c.logf("> write(%zu, %s, %zu)   [off %zu len %zu max %zu low %zu high %zu]", cnt, hex(d.data(), d.size(), 12).c_str(), part, s.off, s.len, s.max, s.low, s.high);
        paint_stack();
        ssize_t r = cq.write(cnt, d.empty() ? (const void *)"" : d.data(), part);
        snprintf(what, sizeof what, "io::queue::write(%zu elements of %zu) = %zd", cnt, part, r);
        c.logf("  %s", what);
        VP_CHECK(c, r <= (ssize_t)cnt, "write-count", "%s: more elements than offered", what);
        // the answer is the number of elements now stored: the content must have grown by exactly those
        size_t added = (r > 0 && part) ? (size_t)r * part : 0;
        VP_CHECK(c, q->len == n0 + added, "write-count", "%s, but the content grew by %zd bytes", what, (ssize_t)(q->len - n0));
        m.insert(m.end(), d.begin(), d.begin() + added);
        if (part) VP_CHECK(c, r == (ssize_t)cnt, "fit-refused", "%s: the wrapper grows the storage on demand, all %zu elements must be taken", what, cnt);
        xnote(c, op, r >= 0, s.wrapped && added, nt);
        break;
      }
      case XRead: {
        size_t part = c.weighted({1, 6, 3, 2, 2}), cnt = c.range(0, 6);
        if (part == 4) part = rel(c, s, 24);
        std::vector<uint8_t> d(part * cnt + 1, 0xCD);
        c.logf("> read(%zu, buf, %zu)   [off %zu len %zu max %zu low %zu high %zu]", cnt, part, s.off, s.len, s.max, s.low, s.high);
        paint_stack();
        ssize_t r = cq.read(cnt, d.data(), part);
        snprintf(what, sizeof what, "io::queue::read(%zu elements of %zu) = %zd", cnt, part, r);
        c.logf("  %s", what);
        VP_CHECK(c, r <= (ssize_t)cnt, "read-count", "%s: more elements than asked for", what);
        VP_CHECK(c, d[part * cnt] == 0xCD, "target-overrun", "%s wrote behind the target buffer", what);
        size_t took = (r > 0 && part) ? (size_t)r * part : 0;
        VP_CHECK(c, took <= n0, "over-ask-accepted", "%s with only %zu bytes stored", what, n0);
        VP_CHECK(c, q->len == n0 - took, "read-count", "%s, but the content shrank by %zd bytes", what, (ssize_t)(n0 - q->len));
        if (part) {
          size_t avail = n0 / part < cnt ? n0 / part : cnt;
          VP_CHECK(c, r == (ssize_t)avail, "fit-refused", "%s although %zu complete elements are stored (%zu bytes, low %zu high %zu)", what, n0 / part, n0, s.low, s.high);
        }
        if (took) {
          // which end "read" takes from is not documented: accept element-wise removal from either end
          bool back = true, front = true;
          for (size_t i = 0; i < (size_t)r; i++)
            for (size_t k = 0; k < part; k++) {
              if (d[i * part + k] != m[n0 - (i + 1) * part + k]) back = false;
              if (d[i * part + k] != m[i * part + k]) front = false;
            }
          VP_CHECK(c, back || front, "removed-data", "%s: buffer holds %s, matching neither end of the deque %s", what, hex(d.data(), took, 24).c_str(), mhex(m, 0, n0).c_str());
          // both fit the buffer (repetitive content): the remaining content decides
          if (back && front) {
            const uint8_t *b = (const uint8_t *)q->base;
            for (size_t i = 0; i < q->len && q->off <= q->max; i++)
              if (b[(q->off + i) % q->max] != m[i]) { back = false; break; }
          }
          if (back) m.erase(m.end() - took, m.end());
          else m.erase(m.begin(), m.begin() + took);
          c.label(back ? "cxx:read:from-end" : "cxx:read:from-start");
        }
        xnote(c, op, r >= 0, s.wrapped && took > (size_t)0 && took > s.high, nt);
        break;
      }
      default: {
        size_t req = c.flip() ? 0 : rel(c, s, s.len + 2);
        c.logf("> peek(%zu)   [off %zu len %zu max %zu low %zu high %zu]", req, s.off, s.len, s.max, s.low, s.high);
        paint_stack();
        span<const uint8_t> v = cq.peek(req);
        size_t got = v.size();
        snprintf(what, sizeof what, "io::queue::peek(%zu) = %zu bytes", req, got);
        c.logf("  %s", what);
        VP_CHECK(c, got <= n0, "over-ask-accepted", "%s with only %zu bytes stored", what, n0);
        VP_CHECK(c, inside(q, v.begin(), got), "peek-range", "%s: view leaves the storage of %zu", what, q->max);
        std::vector<uint8_t> want(m.begin(), m.begin() + got);
        VP_CHECK(c, !got || !memcmp(v.begin(), want.data(), got), "peek-mismatch", "%s: view holds %s, the deque starts with %s", what, hex(v.begin(), got, 24).c_str(), hex(want.data(), got, 24).c_str());
        // peek() is how pipe<T>::elements() and the bundled example obtain the whole content; peek(n) must give at least n when stored
        if (!req) VP_CHECK(c, got == n0, "peek-short", "%s of %zu stored", what, n0);
        else if (req <= n0) VP_CHECK(c, got >= req, "peek-short", "%s of %zu stored", what, n0);
        xnote(c, XPeek, true, s.wrapped && got > s.low, nt);
      }
    }
    verify(c, q, m, what);
  }
  c.count("steps", steps);
  if (nt) c.nontrivial();
}

// Lazy binding: the first call through a PLT entry (harness -> library and library -> library) runs the
// dynamic linker's resolver on the stack region that was just painted. Every entry point is called once per
// process on a scratch queue so that a case behaves the same in a worker that ran other cases before and in
// a fresh replay process. (None of these calls hits a known defect: nothing wrapped is cropped or popped.)
static int never(const void *, void *) { return 1; }
static void warm_up() {
  static bool done;
  if (done) return;
  done = true;
  std::vector<uint8_t> buf(4000, 1);
  size_t a, b;
  {
    CObj<queue> w;
    mpt_queue_prepare(w, 4000);
    mpt_qpush(w, 3500, buf.data());
    mpt_qshift(w, 2400, buf.data());
    mpt_qpush(w, 2700, buf.data());  // wraps: 1600 bytes at the end, 2200 at the start
    mpt_queue_get(w, 10, 3000, buf.data());
    mpt_queue_set(w, 10, 3000, buf.data());
    mpt_queue_find(w, 1, never, 0);
    mpt_queue_empty(w, &a, &b);
    mpt_queue_data(w, &a);
    mpt_queue_align(w, 0);  // rotation by block swaps
    mpt_queue_string(w);
    mpt_qunshift(w, 3, buf.data());
    mpt_qpre(w, 1);
    mpt_qpost(w, 1);
    mpt_qpop(w, 2, buf.data());
    mpt_queue_crop(w, 5, 3);
    mpt_queue_resize(w, 3900);
    mpt_queue_resize(w, 0);
  }
  {
    CxxQueue x;
    x.prepare(64);
    x.push(buf.data(), 8);
    x.unshift(buf.data(), 8);
    x.write(2, buf.data(), 2);
    x.read(1, buf.data(), 2);
    x.pop(buf.data(), 1);
    x.pop(0, 1);
    x.shift(buf.data(), 1);
    x.shift(0, 1);
    x.peek(0);
  }
}

static void run(Ctx &c) {
  warm_up();
  uint8_t mode = c.u8();
  if ((mode & 3) == 3) { c.label("scenario:cxx"); run_cxx(c); }
  else { c.label("scenario:c"); run_c(c); }
}

static Target t = {
    "C13",
    "random: initial (capacity 0..64 or 2100..6000, offset, fill) drawn directly into an exact-size malloc block (wrapped in > half of the cases; also content touching the storage end, "
    "no storage) x history of up to 200 operations over qpush/qunshift (data or NULL=zero fill), qpop/qshift (buffer or NULL), qpre/qpost, crop, set, get, empty (+ emulation of mpt_queue_load: "
    "write into the unused parts, len += n), find(esz), string, align(pos), resize, prepare; lengths and positions near 0/1/low/high/len/free/off (+-2) or uniform, rare SIZE_MAX-sized over-asks; grow requests (resize, prepare, io::queue prepare/push/unshift/write(n,-,0)) with sizes that cannot be served: SIZE_MAX-k, SIZE_MAX-len-k, SIZE_MAX-len+1+k (sum wraps), SIZE_MAX-free-k, SIZE_MAX-max-k, around SIZE_MAX/2, 2^62, 2^63, multiples of 8 below SIZE_MAX. "
    "model std::deque<uint8_t>; full read-back (raw ring, mpt_queue_get, two segments) after every step. "
    "non-trivial: an operation that succeeded touched both segments of a wrapped queue (or created/removed the wrap); distinct by hash of the draw sequence.",
    run,
    {300, 1200},
    false,
    true,
    {},
    0,
    0,
};
Target &vp::target() { return t; }
