// C12 — each request is answered at most once, to the right requester      vp-link: core io
//
// (a) mpt_message_id2buf / mpt_message_buf2id: id (width boundaries, powers of 256 +-1, random 64 bit) x header
//     width 0..9 on exact-size heap buffers. O: id2buf succeeds iff the id fits the width with the reply bit (top
//     bit of the first byte) free; the header is the big-endian id; buf2id(header) == id; a header whose value
//     needs more than 64 bit is refused.
// (b) histories on mpt_reply_deferrable(len, send, ptr): arm (convert(TypeReplyDataPtr) + mpt_reply_set, the way
//     connection_dispatch.c arms), reply, mpt_context_reply, defer, deferred reply, release of deferred handles
//     (reply(NULL)) and of context references in any order, harness transport `send` succeeding or failing.
//     O: model of the outstanding requests; the transport sees exactly the send attempts the model predicts:
//     at most one successful send per armed request, with that request's id bytes and the reply bit set, a
//     rejected send may be retried, answered/moved requests are refused, releasing the last handle of an armed,
//     attached context sends exactly one default reply (msg == NULL); arming leaves v-tables, reference count
//     and transport of the context alone; ASan/LSan silent.
// (c) a stream input (mpt_stream_input over a socketpair) answering a harness client: see stream_history().
// (d) the same client against a connection over a stream (mpt_connection_dispatch), (e) mpt_stream_reply on a
//     fixed-size output (a transport that rejects), (f) the requester side mpt_stream_sync: see the functions.
#include "vp.hpp"
#include "mpt_c.hpp"
#include "ref/cobs.hpp"

#define protected public
#define private public
#include "connection.h"
#include "notify.h"
#include "stream.h"
#undef protected
#undef private

#include <fcntl.h>
#include <poll.h>
#include <signal.h>
#include <unistd.h>
#include <sys/socket.h>
#include <sys/un.h>

using namespace vp;
using namespace mpt;

// ------------------------------------------------------------------ C views of the interfaces
struct CMeta;
struct CMetaVptr {
  int (*convert)(CMeta *, uintptr_t, void *);
  void (*unref)(CMeta *);
  uintptr_t (*addref)(CMeta *);
  CMeta *(*clone)(const CMeta *);
};
struct CMeta { const CMetaVptr *vptr; };
struct CReply;
struct CDetached;
struct CReplyVptr {
  int (*reply)(CReply *, const message *);
  CDetached *(*defer)(CReply *);
};
struct CReply { const CReplyVptr *vptr; };
struct CDetachedVptr { int (*reply)(CDetached *, const message *); };
struct CDetached { const CDetachedVptr *vptr; };

// layout of the private context object behind the metatype handle (reply_deferrable.c); only read, and only after
// the fields that can be cross-checked from outside (send, ptr, initial count, interface addresses) matched
struct CtxMirror {
  void *send, *ptr;
  uintptr_t ref;
  const void *mt_vptr, *ctx_vptr;
  reply_data data;
};

// while the case runs the library's log lines (stderr FILE) go to /dev/null; they are still formatted
struct MuteLog {
  FILE *saved;
  explicit MuteLog(bool verbose) : saved(stderr) {
    static FILE *null = fopen("/dev/null", "w");
    if (!verbose && null) stderr = null;
  }
  ~MuteLog() { stderr = saved; }
};

// ------------------------------------------------------------------ (a) id <-> header bytes
static int sigbytes(uint64_t id) { int n = 0; while (id) { ++n; id >>= 8; } return n; }
static bool fits(uint64_t id, size_t w) { return w == 0 ? id == 0 : w >= 9 ? true : id < (1ull << (8 * w - 1)); }

static void id_case(Ctx &c, uint64_t id, size_t w) {
  c.logf("id 0x%llx (%d significant bytes), header width %zu", (unsigned long long)id, sigbytes(id), w);
  uint8_t *buf = (uint8_t *)malloc(w);
  struct Free { void *p; ~Free() { free(p); } } fr{buf};
  if (w) memset(buf, 0xAA, w);
  int r = mpt_message_id2buf(id, buf, w);
  c.logf("mpt_message_id2buf -> %d  %s", r, hex(buf, w).c_str());
  if (!fits(id, w)) {
    VP_CHECK(c, r < 0, "id2buf-accepted-unfit", "mpt_message_id2buf(0x%llx, width %zu) returned %d (header %s): the id does not fit %zu bytes with the reply bit free", (unsigned long long)id, w, r, hex(buf, w).c_str(), w);
    c.label("id:refused");
    if (w && w <= 8 && (id >> (8 * w - 1)) == 1) { c.label("id:reply-bit-boundary"); c.nontrivial(); }
    return;
  }
  VP_CHECK(c, r >= 0, "id2buf-refused", "mpt_message_id2buf(0x%llx, width %zu) returned %d: the id fits (%d significant bytes, reply bit free)", (unsigned long long)id, w, r, sigbytes(id));
  VP_CHECK(c, (size_t)r <= w, "id2buf-result", "mpt_message_id2buf(0x%llx, width %zu) returned %d", (unsigned long long)id, w, r);
  for (size_t i = 0; i < w; i++) {
    size_t shift = 8 * (w - 1 - i);
    uint8_t want = shift >= 64 ? 0 : (uint8_t)(id >> shift);
    VP_CHECK(c, buf[i] == want, "id2buf-bytes", "mpt_message_id2buf(0x%llx, width %zu) wrote %s: byte %zu is not the big-endian id", (unsigned long long)id, w, hex(buf, w).c_str(), i);
  }
  uint64_t back = 0x5a5a5a5a5a5a5a5aull;
  int q = mpt_message_buf2id(buf, w, &back);
  c.logf("mpt_message_buf2id -> %d  0x%llx", q, (unsigned long long)back);
  VP_CHECK(c, q >= 0, "buf2id-refused", "mpt_message_buf2id(%s) returned %d for the header of id 0x%llx", hex(buf, w).c_str(), q, (unsigned long long)id);
  VP_CHECK(c, back == id, "roundtrip-mismatch", "id 0x%llx written as %s (width %zu) reads back as 0x%llx (buf2id returned %d)", (unsigned long long)id, hex(buf, w).c_str(), w, (unsigned long long)back, q);
  VP_CHECK(c, q <= 8, "buf2id-result", "mpt_message_buf2id returned %d significant bytes for a 64 bit id", q);
  c.label("id:roundtrip");
  if (w >= 2) c.nontrivial();
  if (w && w <= 8 && id + 2 >= (1ull << (8 * w - 1))) { c.label("id:reply-bit-boundary"); c.nontrivial(); }
}

static uint64_t draw_id(Ctx &c, size_t w) {
  switch (c.weighted({4, 3, 2, 2, 1})) {
    case 0: {  // boundary of a width (the drawn one, mostly)
      size_t k = c.flip() ? w : c.range(0, 9);
      uint64_t b;
      switch (c.pick(3)) {
        case 0: b = k == 0 ? 0 : k >= 9 ? 0 : 1ull << (8 * k - 1); break;           // first id that needs the reply bit
        case 1: b = k >= 8 ? 0 : 1ull << (8 * k); break;                            // first id that needs k+1 bytes
        default: b = k == 0 ? 0 : k >= 9 ? 0 : (1ull << (8 * k - 1)) | (c.u64() & ((1ull << (8 * k - 1)) - 1));  // reply bit set, random rest
      }
      return b + (uint64_t)c.range(0, 4) - 2;
    }
    case 1: return (1ull << (8 * c.range(0, 7))) + (uint64_t)c.range(0, 2) - 1;    // powers of 256 +-1
    case 2: return c.u64();
    case 3: return c.u64() >> (8 * c.range(0, 7));
    default: return c.range(0, 300);
  }
}

static void header_case(Ctx &c) {  // buf2id on arbitrary request headers (reply bit clear, as every caller masks it)
  size_t w = c.range(0, 12);
  std::vector<uint8_t> h = c.bytes(w);
  size_t z = c.flip() ? c.range(0, w) : 0;  // leading zero bytes
  for (size_t i = 0; i < z; i++) h[i] = 0;
  if (w) h[0] &= 0x7f;
  uint8_t *buf = (uint8_t *)malloc(w);
  struct Free { void *p; ~Free() { free(p); } } fr{buf};
  if (w) memcpy(buf, h.data(), w);
  size_t lead = 0;
  while (lead < w && !h[lead]) ++lead;
  uint64_t back = 0x5a5a5a5a5a5a5a5aull, want = 0;
  int q = mpt_message_buf2id(buf, w, &back);
  c.logf("mpt_message_buf2id(%s) -> %d  0x%llx", hex(buf, w).c_str(), q, (unsigned long long)back);
  if (w - lead > 8) {
    VP_CHECK(c, q < 0, "buf2id-accepted-unfit", "mpt_message_buf2id(%s) returned %d (0x%llx): the value needs %zu bytes", hex(buf, w).c_str(), q, (unsigned long long)back, w - lead);
    c.label("header:refused");
    c.nontrivial();
    return;
  }
  for (size_t i = lead; i < w; i++) want = want << 8 | h[i];
  VP_CHECK(c, q >= 0, "buf2id-refused", "mpt_message_buf2id(%s) returned %d, the value has %zu significant bytes", hex(buf, w).c_str(), q, w - lead);
  VP_CHECK(c, back == want, "roundtrip-mismatch", "header %s reads as 0x%llx, expected 0x%llx", hex(buf, w).c_str(), (unsigned long long)back, (unsigned long long)want);
  VP_CHECK(c, q <= 8, "buf2id-result", "mpt_message_buf2id returned %d", q);
  c.label("header:read");
  if (w > 8) c.nontrivial();
}

// ------------------------------------------------------------------ (b) reply context histories
struct SendCall {
  void *ptr;
  uint16_t len;
  std::vector<uint8_t> id;
  const message *msg;
  int cmd, arg;  // header of the message, -1000 when there is none
  std::string text;
  int result;
};
struct Transport {
  std::vector<SendCall> calls;
  int next_result = 0;
  unsigned long magic = 0xC12C12;
};
static int transport_send(void *ptr, const reply_data *rd, const message *msg) {
  Transport *t = (Transport *)ptr;
  SendCall s;
  s.ptr = ptr;
  s.len = rd->len;
  s.id.assign(rd->val, rd->val + rd->len);  // reads exactly the armed length
  s.msg = msg;
  s.cmd = s.arg = -1000;
  if (msg && msg->base && msg->used >= 2) { s.cmd = ((const uint8_t *)msg->base)[0]; s.arg = ((const int8_t *)msg->base)[1]; }
  if (msg && msg->clen && msg->cont && msg->cont[0].iov_base) s.text.assign((const char *)msg->cont[0].iov_base, msg->cont[0].iov_len);
  s.result = t->next_result;
  t->calls.push_back(s);
  return t->next_result;
}

struct Request {
  std::vector<uint8_t> id;
  unsigned serial;
  unsigned ok = 0, attempts = 0;
};
struct Deferred {
  CDetached *h;
  Request rq;
  bool empty = false;  // handle obtained although no request was armed: may only be released, never sends
};

struct World {
  Ctx &c;
  Transport tr;
  CMeta *mt = 0;
  CReply *rc = 0;
  CtxMirror *mir = 0;  // valid only when mirror_ok
  bool mirror_ok = false;
  const void *mt_vptr = 0, *rc_vptr = 0;
  size_t max = 0, idlen = 0;
  unsigned held = 0;       // references to the context metatype owned by the harness
  bool attached = true;    // transport attached (until a context reference is dropped while others remain)
  bool armed = false, failed_once = false, unsure = false;
  Request cur;
  std::vector<Deferred> def;
  unsigned serial = 0;
  unsigned sends_ok = 0, interesting = 0;
  uint8_t msgbuf[8] = {0x01, 0, 'o', 'k', 0, 0, 0, 0};

  explicit World(Ctx &ctx) : c(ctx) {}

  size_t refs() const { return held + def.size(); }
  void snapshot_check(const char *when) {
    VP_CHECK(c, mt->vptr == mt_vptr, "context-disturbed", "%s: metatype v-table of the context changed from %p to %p", when, mt_vptr, (const void *)mt->vptr);
    VP_CHECK(c, rc->vptr == rc_vptr, "context-disturbed", "%s: reply_context v-table of the context changed from %p to %p", when, rc_vptr, (const void *)rc->vptr);
    if (mirror_ok) {
      VP_CHECK(c, mir->ref == refs(), "context-refcount", "%s: context reference count is %zu, the harness holds %u context reference(s) and %zu deferred handle(s)", when, (size_t)mir->ref, held, def.size());
      VP_CHECK(c, mir->ptr == &tr && (attached ? mir->send == (void *)transport_send : true), "context-disturbed", "%s: transport of the context changed (send %p ptr %p)", when, mir->send, mir->ptr);
    }
  }
  void set_result() {
    tr.calls.clear();
    tr.next_result = c.chance(70) ? -(int)c.range(1, 6) : (int)c.range(0, 2);
  }
  const message *draw_msg(message &m) {
    if (c.chance(90)) return 0;
    m = message(msgbuf, c.range(2, 4));
    return &m;
  }
  // exactly one send attempt for rq (or none)
  void expect_sends(size_t n, const Request *rq, const message *msg, bool check_msg, const char *op) {
    VP_CHECK(c, tr.calls.size() == n, "send-count", "%s: the transport saw %zu send attempt(s), the model expects %zu%s", op, tr.calls.size(), n, n ? "" : " (request not armed here, already answered, moved to a deferred handle, or transport detached)");
    if (!n) return;
    const SendCall &s = tr.calls[0];
    std::vector<uint8_t> want = rq->id;
    want[0] |= 0x80;
    VP_CHECK(c, s.ptr == &tr, "send-target", "%s: send called with transport pointer %p, registered %p", op, s.ptr, (void *)&tr);
    VP_CHECK(c, s.id == want, "send-id", "%s: reply carries id bytes %s, the request was armed with %s (reply bit must be set: %s)", op, hex(s.id.data(), s.id.size()).c_str(), hex(rq->id.data(), rq->id.size()).c_str(), hex(want.data(), want.size()).c_str());
    if (check_msg) VP_CHECK(c, s.msg == msg, "send-message", "%s: send got message %p, reply was called with %p", op, (const void *)s.msg, (const void *)msg);
  }

  void create() {
    idlen = c.near({1, 2, 4, 5, 8, 9}, 16);
    if (idlen < 1) idlen = 1;
    max = c.chance(80) ? idlen + c.range(1, 4) : idlen;  // datagram style: room for a socket address behind the id
    c.logf("mpt_reply_deferrable(%zu, send, transport)   id length %zu", max, idlen);
    mt = (CMeta *)mpt_reply_deferrable(max, transport_send, &tr);
    VP_CHECK(c, mt, "create-refused", "mpt_reply_deferrable(%zu) returned NULL", max);
    held = 1;
    mt_vptr = mt->vptr;
    void *p = 0;
    int r = mt->vptr->convert(mt, TypeReplyPtr, &p);
    VP_CHECK(c, r >= 0 && p, "convert-refused", "convert(TypeReplyPtr) returned %d / %p", r, p);
    rc = (CReply *)p;
    rc_vptr = rc->vptr;
    CtxMirror *m = (CtxMirror *)((char *)mt - offsetof(CtxMirror, mt_vptr));
    mirror_ok = (void *)&m->ctx_vptr == (void *)rc && m->send == (void *)transport_send && m->ptr == (void *)&tr && m->ref == 1 && m->data._max == max && m->data.len == 0;
    mir = m;
    c.label(mirror_ok ? "mirror:ok" : "mirror:mismatch");
  }

  void arm() {
    if (!held) return;
    if (armed && !failed_once) return;  // callers arm an idle context, or re-arm after their default reply was rejected
    if (armed) { c.label("rearm-after-rejected-send"); c.logf("(request %u is abandoned: re-armed after a rejected send)", cur.serial); }
    Request rq;
    rq.serial = ++serial;
    rq.id = c.bytes(idlen);
    rq.id[0] &= 0x7f;
    rq.id[idlen - 1] = (uint8_t)(rq.serial & 0x7f) | (idlen > 1 ? (rq.id[idlen - 1] & 0x80) : 0);
    if (std::all_of(rq.id.begin(), rq.id.end(), [](uint8_t b) { return !b; })) rq.id[idlen - 1] = 1;  // callers arm for non-zero ids only
    bool toolong = c.chance(10);
    reply_data *rd = 0;
    CReply *rc2 = 0;
    int r1 = mt->vptr->convert(mt, TypeReplyDataPtr, &rd);
    VP_CHECK(c, r1 >= 0 && rd, "arm-refused", "convert(TypeReplyDataPtr) returned %d / %p", r1, (void *)rd);
    int r2 = mt->vptr->convert(mt, TypeReplyPtr, &rc2);
    VP_CHECK(c, r2 >= 0 && rc2 == rc, "arm-refused", "convert(TypeReplyPtr) returned %d / %p, the context interface is %p", r2, (void *)rc2, (void *)rc);
    if (toolong) {
      std::vector<uint8_t> big(std::max<size_t>(max, sizeof(((reply_data *)0)->val)) + 1 + c.range(0, 3), 0x11);  // beyond the declared and the inline capacity
      uint8_t *p = (uint8_t *)malloc(big.size());
      memcpy(p, big.data(), big.size());
      int r = mpt_reply_set(rd, big.size(), p);
      free(p);
      c.logf("mpt_reply_set(%zu bytes > max %zu) -> %d", big.size(), max, r);
      VP_CHECK(c, r < 0, "arm-too-long-accepted", "mpt_reply_set accepted %zu id bytes for a context created for %zu", big.size(), max);
      snapshot_check("after refused arm");
      c.label("arm:too-long-refused");
      return;
    }
    uint8_t *p = (uint8_t *)malloc(idlen);
    memcpy(p, rq.id.data(), idlen);
    int r = mpt_reply_set(rd, idlen, p);
    free(p);
    c.logf("arm request %u: id %s   mpt_reply_set -> %d", rq.serial, hex(rq.id.data(), idlen).c_str(), r);
    VP_CHECK(c, r >= 0, "arm-refused", "mpt_reply_set(%zu bytes, max %zu) returned %d", idlen, max, r);
    snapshot_check("after arm");
    armed = true;
    failed_once = false;
    unsure = false;
    cur = rq;
    c.label("op:arm");
  }

  void after_ctx_send(const char *op, int ret, const message *msg, bool check_msg) {
    if (!attached) {  // nothing may reach the transport; the result of the call is not demanded
      expect_sends(0, 0, 0, false, op);
      if (armed) { unsure = true; }
      c.label("reply:detached");
      return;
    }
    if (unsure) { expect_sends(0, 0, 0, false, op); return; }
    if (!armed) {
      expect_sends(0, 0, 0, false, op);
      VP_CHECK(c, ret < 0, "reply-not-refused", "%s returned %d although no request is armed on the context (never armed, already answered, or moved to a deferred handle)", op, ret);
      c.label("reply:refused");
      ++interesting;
      return;
    }
    expect_sends(1, &cur, msg, check_msg, op);
    ++cur.attempts;
    if (tr.next_result >= 0) {
      VP_CHECK(c, ret >= 0, "reply-result", "%s returned %d although the transport accepted the reply", op, ret);
      armed = false;
      ++sends_ok;
      c.label("reply:sent");
      if (cur.attempts > 1) { c.label("reply:sent-on-retry"); ++interesting; }
    } else {
      VP_CHECK(c, ret < 0, "reply-result", "%s returned %d although the transport rejected the reply with %d", op, ret, tr.next_result);
      failed_once = true;
      c.label("reply:rejected");
    }
  }
  void reply_ctx() {
    if (!held) return;
    set_result();
    if (c.chance(60)) {
      int code = (int)c.range(0, 6) - 3;
      const char *text = c.flip() ? "text" : 0;
      int ret = text ? mpt_context_reply((reply_context *)rc, code, "%s", text) : mpt_context_reply((reply_context *)rc, code, 0);
      c.logf("mpt_context_reply(ctx, %d, %s) [transport will return %d] -> %d, %zu send(s)", code, text ? text : "NULL", tr.next_result, ret, tr.calls.size());
      after_ctx_send("mpt_context_reply", ret, 0, false);
      if (tr.calls.size() == 1) {
        const SendCall &s = tr.calls[0];
        VP_CHECK(c, s.cmd == 0x01 /* MessageAnswer */ && s.arg == code && s.text == (text ? text : ""), "send-message", "mpt_context_reply(%d, %s) sent header cmd %d arg %d text '%s'", code, text ? text : "NULL", s.cmd, s.arg, s.text.c_str());
      }
      c.label("op:context_reply");
      return;
    }
    message m;
    const message *msg = draw_msg(m);
    int ret = rc->vptr->reply(rc, msg);
    c.logf("ctx.reply(%s) [transport will return %d] -> %d, %zu send(s)", msg ? "message" : "NULL", tr.next_result, ret, tr.calls.size());
    after_ctx_send("reply() on the context", ret, msg, true);
    snapshot_check("after reply");
    c.label("op:reply");
  }
  void defer() {
    if (!held) return;
    tr.calls.clear();
    CDetached *h = rc->vptr->defer(rc);
    c.logf("ctx.defer() -> %p", (void *)h);
    expect_sends(0, 0, 0, false, "defer()");
    if (unsure) { if (h) { def.push_back(Deferred{h, cur}); armed = false; unsure = false; } return; }
    if (!armed) {  // nothing to hand over: NULL, or a handle that never reaches the transport
      if (h) { Deferred d{h, Request()}; d.empty = true; def.push_back(d); c.label("defer:handle-without-request"); }
      else c.label("defer:refused");
      return;
    }
    if (!h) { c.label("defer:refused-armed"); return; }
    def.push_back(Deferred{h, cur});
    armed = false;
    failed_once = false;
    snapshot_check("after defer");
    c.label("op:defer");
    ++interesting;
    if (def.size() >= 2) c.label("two-deferred");
  }
  void deferred_reply(size_t i, bool release) {
    Deferred d = def[i];
    if (d.empty) release = true;
    set_result();
    message m;
    const message *msg = release ? 0 : draw_msg(m);
    if (!release && !msg) { m = message(msgbuf, 2); msg = &m; }
    int ret = d.h->vptr->reply(d.h, msg);
    c.logf("deferred[%zu] (request %u).reply(%s) [transport will return %d] -> %d, %zu send(s)", i, d.rq.serial, msg ? "message" : "NULL", tr.next_result, ret, tr.calls.size());
    const char *op = release ? "release of a deferred handle (reply(NULL))" : "reply() on a deferred handle";
    if (!attached || d.empty) {
      expect_sends(0, 0, 0, false, d.empty ? "release of a handle deferred from an unarmed context" : op);
      def.erase(def.begin() + i);
      c.label("deferred:detached");
      after_release();
      return;
    }
    expect_sends(1, &d.rq, msg, true, op);
    ++def[i].rq.attempts;
    if (tr.next_result >= 0) {
      VP_CHECK(c, ret >= 0, "reply-result", "%s returned %d although the transport accepted the reply", op, ret);
      ++sends_ok;
      c.label(release ? "deferred:default-reply" : "deferred:sent");
      if (def[i].rq.attempts > 1) { c.label("deferred:sent-on-retry"); }
      ++interesting;
      def.erase(def.begin() + i);
      after_release();
      return;
    }
    if (release) {  // the handle is gone whatever the transport said
      c.label("deferred:default-reply-rejected");
      def.erase(def.begin() + i);
      after_release();
      return;
    }
    VP_CHECK(c, ret < 0, "reply-result", "%s returned %d although the transport rejected the reply with %d", op, ret, tr.next_result);
    c.label("deferred:rejected");
    ++interesting;
    if (held) snapshot_check("after rejected deferred reply");
  }
  void after_release() {
    if (held) snapshot_check("after a deferred handle was released");
    else if (!def.empty() && mirror_ok) VP_CHECK(c, mir->ref == refs(), "context-refcount", "context reference count is %zu with %zu deferred handle(s) left", (size_t)mir->ref, def.size());
  }
  void addref() {
    if (!held || held >= 3) return;
    uintptr_t n = mt->vptr->addref(mt);
    c.logf("ctx.addref() -> %zu", (size_t)n);
    VP_CHECK(c, n != 0, "addref-refused", "addref() returned 0 with %u context reference(s) and %zu deferred handle(s)", held, def.size());
    ++held;
    snapshot_check("after addref");
    c.label("op:addref");
  }
  void unref() {
    if (!held) return;
    set_result();
    bool last = refs() == 1;
    mt->vptr->unref(mt);
    c.logf("ctx.unref() [%s, transport will return %d] -> %zu send(s)", last ? "last handle" : "other handles remain", tr.next_result, tr.calls.size());
    --held;
    if (last) {
      if (attached && armed && !unsure) {
        expect_sends(1, &cur, 0, true, "release of the last handle of an armed context");
        c.label(tr.next_result >= 0 ? "unref:default-reply" : "unref:default-reply-rejected");
        if (tr.next_result >= 0) ++sends_ok;
        ++interesting;
      } else {
        expect_sends(0, 0, 0, false, "release of the last handle (nothing armed or transport detached)");
        c.label("unref:last-quiet");
      }
      armed = false;
      mt = 0; rc = 0; mirror_ok = false;
      return;
    }
    // other handles remain: the owner of the transport let go, nothing may be sent from now on
    expect_sends(0, 0, 0, false, "release of a context reference while other handles remain");
    if (attached) c.label("detached");
    if (attached && armed) c.label("detached-while-armed");
    attached = false;
    if (held) snapshot_check("after unref");
    else { mt = 0; rc = 0; }
  }
};

static void history(Ctx &c) {
  World w(c);
  w.create();
  while (c.more()) {
    switch (c.weighted({7, 7, 4, 5, 2, 2, 1})) {
      case 0: w.arm(); break;
      case 1: w.reply_ctx(); break;
      case 2: w.defer(); break;
      case 3: if (!w.def.empty()) w.deferred_reply(c.pick(w.def.size()), false); break;
      case 4: if (!w.def.empty()) w.deferred_reply(c.pick(w.def.size()), true); break;
      case 5: w.unref(); break;
      default: w.addref(); break;
    }
  }
  // release everything that is left, context first or deferred handles first
  bool ctx_first = c.flip();
  c.logf("-- cleanup (%s first)", ctx_first ? "context" : "deferred handles");
  if (ctx_first) while (w.held) w.unref();
  while (!w.def.empty()) w.deferred_reply(w.def.size() - 1, true);
  while (w.held) w.unref();
  if (w.sends_ok) c.label("case:sent");
  if (w.sends_ok && w.interesting) c.nontrivial();
}

// ------------------------------------------------------------------ (c) stream input over a socketpair
// Server: mpt_stream_input(sock, RdWr|Write|Buffer, COBS | COBS/R, idlen 1..8), driven the way the notifier drives an
// input (next(ready events), dispatch until no Retry, next(POLLIN|POLLOUT) to flush). Client: the harness, raw
// non-blocking socket + the reference COBS codec. Messages: request (non-zero id, top bit clear), one-way (all-zero
// id), reply-type (top bit set). The harness handler answers through ev->reply (mpt_context_reply / reply(msg),
// once or twice), tries to defer, or does nothing / fails (default reply expected).
// O: every frame the server sends belongs to exactly one request that was delivered (own id bytes), is marked as a
// reply (top bit of the first byte), no request gets two, every delivered request has exactly one after its round
// (unless a deferred handle holds it), one-way and reply-type messages get none.
enum { KRequest, KOneWay, KReplyType };
enum { ANothing, AFail, AContextReply, ARawReply, AReplyTwice, ADefer, NAction };
static const char *kActionName[] = {"nothing", "fail", "mpt_context_reply", "reply(msg)", "reply twice", "defer"};
struct SMsg {
  int kind, action, hret, code;
  bool defer_then_reply;
  std::vector<uint8_t> id;
  std::string payload;
  // observed
  unsigned delivered = 0, replies = 0, explicit_ok = 0;
  bool had_ctx = false, second_accepted = false, held = false, garbled = false;
  size_t peer = 0;                         // which client sent it (a connection can be re-targeted)
  bool orphaned = false, discard = false;  // deferred when the connection left its peer; dispatched in the discard form
  int r1 = 1000, r2 = 1000;
  std::vector<uint8_t> reply_body;
};
struct CInput;
struct CInputVptr {
  CMetaVptr meta;
  int (*next)(CInput *, int);
  int (*dispatch)(CInput *, int (*)(void *, event *), void *);
};
struct CInput { const CInputVptr *vptr; };

// id length of the stream scenarios: one byte; values below 0xc0 give 1..8 exactly as the former range(1,8) did (saved
// inputs keep their meaning), 0xc0..0xff a wide id of 9..255 bytes (255 = what mpt_stream_input() and the uint8_t
// outdata._idlen permit; ids that wide are opaque tokens, not numbers written by mpt_message_id2buf)
static size_t draw_idlen(Ctx &c) {
  size_t b = c.range(0, 255);
  if (b < 0xc0) return b % 8 + 1;
  return std::max<size_t>(c.near({9, 12, 16, 17, 32, 255}, 255), 9);
}

struct StreamWorld {
  Ctx &c;
  int cfd = -1;
  CInput *in = 0;
  connection *con = 0;      // scenario (d): a connection over the stream instead of a stream input
  mpt::stream *csrm = 0;
  CObj<connection> constore;
  int sfd = -1;
  struct Peer { int fd; std::vector<uint8_t> rx; };
  std::vector<Peer> peers;  // the last one is the current target
  bool closed = false, discard_round = false;
  bool dispatch_pending = false;
  bool local_open = false;                       // the local side has pushed part of an outgoing message
  std::string local_text;                        // its text so far
  std::vector<std::pair<size_t, std::string>> local_sent;  // (peer, text) of finished outgoing messages still to arrive
  size_t idlen = 1;
  ref::Dialect dialect = ref::Cobs;
  std::vector<SMsg> msgs;
  std::vector<std::pair<CDetached *, size_t>> handles;  // deferred handle, message index
  unsigned unknown_delivery = 0;
  uint8_t rawmsg[6] = {0x01, 0x07, 'r', 'a', 'w', '!'};

  explicit StreamWorld(Ctx &ctx) : c(ctx) {}
  ~StreamWorld() {
    for (auto &h : handles) h.first->vptr->reply(h.first, 0);
    if (in) in->vptr->meta.unref((CMeta *)in);
    if (con) mpt_connection_fini(con);
    for (auto &p : peers) if (p.fd >= 0) close(p.fd);
  }

  static int handler(void *arg, event *ev) {  // library frames above: record, never throw
    StreamWorld *w = (StreamWorld *)arg;
    if (!ev || !ev->msg) { ++w->unknown_delivery; return 0; }
    message m = *ev->msg;
    char head[8] = {0};
    size_t n = mpt_message_read(&m, 5, head);
    unsigned idx = 0;
    if (n != 5 || head[0] != 'm' || head[4] != ';' || sscanf(head + 1, "%3u", &idx) != 1 || idx >= w->msgs.size()) { ++w->unknown_delivery; return 0; }
    SMsg &s = w->msgs[idx];
    ++s.delivered;
    std::string rest(s.payload.size() > 5 ? s.payload.size() - 5 : 0, 0);
    size_t k = rest.empty() ? 0 : mpt_message_read(&m, rest.size(), &rest[0]);
    if (k != rest.size() || s.payload.compare(5, std::string::npos, rest) || mpt_message_length(&m)) s.garbled = true;
    s.had_ctx = ev->reply != 0;
    CReply *rc = (CReply *)ev->reply;
    int action = s.action;
    if (action == ADefer) {
      CDetached *h = rc ? rc->vptr->defer(rc) : 0;
      if (h) { s.held = true; w->handles.push_back({h, idx}); return s.hret; }
      action = s.defer_then_reply ? AContextReply : ANothing;  // this context cannot defer: answer or leave it to the default
    }
    switch (action) {
      case AContextReply:
        s.r1 = mpt_context_reply(ev->reply, s.code, "%s", "done");
        if (rc && s.r1 >= 0) ++s.explicit_ok;
        break;
      case ARawReply:
      case AReplyTwice:
        if (!rc) break;
        { message r(w->rawmsg, sizeof w->rawmsg); s.r1 = rc->vptr->reply(rc, &r); if (s.r1 >= 0) ++s.explicit_ok; }
        if (action == AReplyTwice) { message r(w->rawmsg, 2); s.r2 = rc->vptr->reply(rc, &r); if (s.r2 >= 0) s.second_accepted = true; }
        break;
      default: break;
    }
    return s.hret;
  }

  // A connection is pointed at a peer with mpt_connection_open("Unix:<path>") — the harness listens on a socket file
  // that exists only between bind() and accept(). The id length has no setter in the C sources, the member is
  // written directly (as every embedding program has to).
  void connect_peer() {
    static unsigned counter = 0;
    char path[96];
    snprintf(path, sizeof path, "/tmp/vp-C12-%d-%u", (int)getpid(), ++counter);
    struct Listener { int fd; const char *path; ~Listener() { if (fd >= 0) close(fd); unlink(path); } } l{::socket(AF_UNIX, SOCK_STREAM | SOCK_CLOEXEC, 0), path};
    struct sockaddr_un a;
    memset(&a, 0, sizeof a);
    a.sun_family = AF_UNIX;
    strcpy(a.sun_path, path);
    unlink(path);
    VP_CHECK(c, l.fd >= 0 && bind(l.fd, (struct sockaddr *)&a, sizeof a) == 0 && listen(l.fd, 1) == 0, "harness-socketpair", "cannot listen on %s", path);
    std::string target = std::string("Unix:") + path;
    int r = mpt_connection_open(con, target.c_str(), 0);
    c.logf("mpt_connection_open(con, \"Unix:<socket of peer %zu>\") -> %d", peers.size(), r);
    VP_CHECK(c, r >= 0, "create-refused", "mpt_connection_open returned %d", r);
    int fd = accept4(l.fd, 0, 0, SOCK_NONBLOCK | SOCK_CLOEXEC);
    VP_CHECK(c, fd >= 0, "harness-socketpair", "accept failed");
    peers.push_back(Peer{fd, {}});
    cfd = fd;
    con->out._idlen = (uint8_t)idlen;
    csrm = (mpt::stream *)cbuf(con->out.buf);
    VP_CHECK(c, csrm && con->out.sock._id < 0, "create-refused", "mpt_connection_open(stream target) left no stream behind");
    sfd = _mpt_stream_fread(&csrm->_info);
    closed = false;
  }
  void open_connection() {
    idlen = draw_idlen(c);
    dialect = ref::Cobs;
    con = constore;
    con->out.sock._id = -1;
    c.logf("connection over a stream (COBS), id length %zu", idlen);
    connect_peer();
  }
  // the local side starts an outgoing message and leaves it unfinished: mpt_connection_dispatch must answer Retry until it is
  // finished (connection_dispatch.c "message transfer in progress"), the requests that arrive meanwhile are answered afterwards
  void local_start() {
    if (local_open) return;
    char text[16];
    snprintf(text, sizeof text, "L%03zu;hello", local_sent.size());
    ssize_t r = mpt_connection_push(con, strlen(text), text);
    c.logf("mpt_connection_push(con, \"%s\") without end of message -> %zd", text, r);
    if (r < 0) { c.label("conn:local-push-refused"); return; }
    local_open = true;
    local_text = text;
    c.label("conn:outgoing-message-open");
  }
  void local_finish() {
    if (!local_open) return;
    ssize_t r = mpt_connection_push(con, 0, 0);
    c.logf("mpt_connection_push(con, end of message) -> %zd", r);
    VP_CHECK(c, r >= 0, "harness-write", "finishing the outgoing message failed with %zd", r);
    local_open = false;
    local_sent.push_back({peers.size() - 1, local_text});
  }
  // the id width of the connection changes while answers may be parked: they cannot be sent under another width any more
  void change_idlen() {
    // only narrower: the connection keeps its reply context, which was created for the width of the first request; a wider
    // id does not fit it any more ("context not ready", request dropped) — observation in the report, not generated
    if (idlen < 2) { c.label("conn:id-width-kept"); return; }
    size_t n = c.range(1, std::min<size_t>(idlen - 1, 8));
    for (auto &s : msgs) if (s.held && !s.orphaned) { s.orphaned = true; c.label("conn:deferred-request-other-width"); }
    c.logf("con->out._idlen: %zu -> %zu", idlen, n);
    idlen = n;
    con->out._idlen = (uint8_t)n;
    c.label("conn:id-width-changed");
  }
  // the connection leaves its peer: requests parked in deferred handles lose their transport
  void leave_peer(bool reopen) {
    for (auto &s : msgs) if (s.held && !s.orphaned) { s.orphaned = true; c.label("conn:deferred-request-orphaned"); }
    if (reopen) { connect_peer(); c.label("conn:retarget"); return; }
    mpt_connection_close(con);
    c.logf("mpt_connection_close(con)");
    closed = true;
    c.label("conn:close");
  }
  void serve_connection() {  // output_remote.c: remoteNext() = mpt_stream_poll(stream, ready events, 0), remoteDispatch() = mpt_connection_dispatch()
    if (closed) return;
    bool pending = dispatch_pending;  // messages already read into the input queue while the output was busy
    dispatch_pending = false;
    for (int guard = 0; guard < 64 && (pending || readable(sfd)); guard++) {
      if (!pending) {
        int r = mpt_stream_poll(csrm, POLLIN | POLLOUT, 0);
        c.logf("  mpt_stream_poll(POLLIN|POLLOUT, 0) -> %d", r);
        if (r < 0) break;
      }
      pending = false;
      if (local_open) guard = 64;
      for (int g2 = 0; g2 < (local_open ? 2 : 64); g2++) {
        int d = discard_round ? mpt_connection_dispatch(con, 0, 0) : mpt_connection_dispatch(con, handler, this);
        c.logf("  mpt_connection_dispatch(%s) -> 0x%x", discard_round ? "con, NULL, NULL" : "con, handler", d);
        if (d < 0 || !(d & 0x10000 /* Retry */)) break;
      }
    }
    for (int guard = 0; guard < 8; guard++) {
      int r = mpt_stream_poll(csrm, POLLOUT, 0);
      c.logf("  mpt_stream_poll(POLLOUT, 0) -> %d", r);
      if (r <= 0 || !(r & POLLOUT)) break;
    }
  }
  void open() {
    idlen = draw_idlen(c);
    bool inl = c.chance(80);
    dialect = inl ? ref::CobsR : ref::Cobs;
    int sv[2];
    VP_CHECK(c, socketpair(AF_UNIX, SOCK_STREAM | SOCK_NONBLOCK | SOCK_CLOEXEC, 0, sv) == 0, "harness-socketpair", "socketpair failed");
    cfd = sv[1];
    CObj<mpt::socket> sock;
    sock->_id = sv[0];
    c.logf("mpt_stream_input(socketpair, RdWr|Write|Buffer, %s, id length %zu)", inl ? "COBS/R" : "COBS", idlen);
    in = (CInput *)mpt_stream_input(sock, mpt::stream::RdWr | mpt::stream::Write | mpt::stream::Buffer, inl ? MPT_ENUM(EncodingCobsInline) : MPT_ENUM(EncodingCobs), idlen);
    peers.push_back(Peer{cfd, {}});
    if (!in) close(sv[0]);
    VP_CHECK(c, in, "create-refused", "mpt_stream_input(id length %zu) returned NULL", idlen);
  }
  bool readable(int fd) {
    struct pollfd p = {fd, POLLIN, 0};
    return poll(&p, 1, 0) > 0 && (p.revents & POLLIN);
  }
  int server_fd() {
    int fd = -1;
    in->vptr->meta.convert((CMeta *)in, TypeUnixSocket, &fd);
    return fd;
  }
  void client_send(const SMsg &s) {
    std::vector<uint8_t> data = s.id;
    data.insert(data.end(), s.payload.begin(), s.payload.end());
    std::vector<uint8_t> f = ref::encode(dialect, data.data(), data.size());
    ssize_t r = write(cfd, f.data(), f.size());
    VP_CHECK(c, r == (ssize_t)f.size(), "harness-write", "client write of %zu bytes returned %zd", f.size(), r);
  }
  // what the notifier does with a ready input, then flush
  void serve(int sfd) {
    if (con) { serve_connection(); return; }
    for (int guard = 0; guard < 64 && readable(sfd); guard++) {
      int r = in->vptr->next(in, POLLIN);
      c.logf("  next(POLLIN) -> %d", r);
      if (r < 0) break;
      for (int g2 = 0; g2 < 64; g2++) {
        int d = in->vptr->dispatch(in, handler, this);
        c.logf("  dispatch -> 0x%x", d);
        if (d < 0 || !(d & 0x10000 /* Retry */)) break;
      }
    }
    for (int guard = 0; guard < 8; guard++) {
      int r = in->vptr->next(in, POLLIN | POLLOUT);
      c.logf("  next(POLLIN|POLLOUT) -> %d", r);
      if (r <= 0 || !(r & POLLOUT)) break;
    }
  }
  struct Anomaly { int prio = 0; std::string tag, msg; };
  void note(Anomaly &a, int prio, const char *tag, const std::string &msg) { if (prio > a.prio) { a.prio = prio; a.tag = tag; a.msg = msg; } }
  // read everything the server sent, account every frame to a request
  void client_collect(Anomaly &a) {
    for (size_t p = 0; p < peers.size(); p++) collect_peer(a, p);
  }
  void collect_peer(Anomaly &a, size_t pi) {
    std::vector<uint8_t> &rx = peers[pi].rx;
    uint8_t buf[4096];
    for (int guard = 0; guard < 256; guard++) {
      ssize_t r = read(peers[pi].fd, buf, sizeof buf);
      if (r <= 0) break;
      rx.insert(rx.end(), buf, buf + r);
    }
    size_t start = 0;
    for (size_t i = 0; i < rx.size(); i++) {
      if (rx[i]) continue;
      std::vector<uint8_t> body;
      ref::Verdict v = ref::decode(dialect, rx.data() + start, i - start, body);
      std::string shown = hex(body.data(), body.size(), 40);
      c.logf("  client%s got frame: %s%s", peers.size() > 1 ? (" " + std::to_string(pi)).c_str() : "", shown.c_str(), v == ref::WellFormed ? "" : " (malformed)");
      start = i + 1;
      if (v != ref::WellFormed || body.size() < idlen) { note(a, 1, "stream-frame", "the server sent a frame that is not a well-formed message with an id: " + shown); continue; }
      std::vector<uint8_t> id(body.begin(), body.begin() + idlen);
      bool marked = id[0] & 0x80;
      id[0] &= 0x7f;
      if (con && !marked && std::all_of(id.begin(), id.end(), [](uint8_t b) { return !b; })) {  // an outgoing message of the local side (id 0)
        std::string text(body.begin() + idlen, body.end());
        auto it = std::find(local_sent.begin(), local_sent.end(), std::make_pair(pi, text));
        if (it != local_sent.end()) { local_sent.erase(it); c.label("conn:outgoing-message-arrived"); continue; }
      }
      SMsg *rq = 0, *other = 0;
      for (auto &s : msgs) if (s.kind == KRequest && s.id == id) { if (s.peer != pi) other = &s; else if (s.delivered || s.discard) rq = &s; }
      if (!rq && other) { note(a, 7, "misdirected-reply", "peer " + std::to_string(pi) + " received the reply " + shown + " to request " + hex(other->id.data(), other->id.size()) + ", which peer " + std::to_string(other->peer) + " had sent" + (other->orphaned ? " (its answer was deferred, then the connection was pointed at another peer)" : "")); continue; }
      if (!rq) { note(a, 5, "unsolicited-reply", "the server sent a frame with id " + hex(body.data(), idlen) + " (" + shown + "): no delivered request has that id" + (std::all_of(id.begin(), id.end(), [](uint8_t b) { return !b; }) ? " — zero id: a reply to a message that wants no answer" : "")); continue; }
      if (++rq->replies > 1) note(a, 4, "reply-twice", "request " + hex(rq->id.data(), rq->id.size()) + " got " + std::to_string(rq->replies) + " replies");
      if (!marked) note(a, 2, "reply-not-marked", "the reply to request " + hex(rq->id.data(), rq->id.size()) + " carries id bytes " + hex(body.data(), idlen) + ": the reply bit (top bit of the first byte) is not set, the peer reads it as a new request");
      rq->reply_body.assign(body.begin() + idlen, body.end());
    }
    rx.erase(rx.begin(), rx.begin() + start);
  }
  size_t first_of_peer(size_t p) const { for (size_t i = 0; i < msgs.size(); i++) if (msgs[i].peer == p) return i; return msgs.size(); }
  void settle(Anomaly &a, size_t from) {
    for (size_t i = from; i < msgs.size(); i++) {
      SMsg &s = msgs[i];
      if (con && s.kind == KReplyType) {  // a connection hands replies to the commands waiting for them, never to the event handler
        if (s.delivered) note(a, 6, "stream-delivery", "reply-type message " + std::to_string(i) + " was dispatched as an event");
        continue;
      }
      if (s.discard) {  // dispatched without handler: nothing is delivered, a request still gets its (empty) default reply
        if (s.delivered) note(a, 6, "stream-delivery", "message " + std::to_string(i) + " reached a handler although it was dispatched in the discard form");
        else if (s.kind == KRequest && !s.replies) note(a, 3, "reply-missing", "request " + hex(s.id.data(), s.id.size()) + " dispatched with mpt_connection_dispatch(con, NULL, NULL)" + (i == first_of_peer(s.peer) ? " as the first message since the connection was opened" : "") + " got no default reply");
        else if (s.kind == KRequest && s.replies == 1) c.label(s.reply_body.empty() ? "conn:discard-empty-reply" : "conn:discard-other-reply");
        continue;
      }
      if (!con && s.kind == KReplyType) {  // a reply whose id needs more than 64 bit is refused, not dispatched ("values that do not fit are refused")
        size_t lead = 0;
        std::vector<uint8_t> v = s.id;
        v[0] &= 0x7f;
        while (lead < v.size() && !v[lead]) ++lead;
        if (v.size() - lead > 8) {
          if (s.delivered) note(a, 6, "stream-delivery", "reply-type message " + std::to_string(i) + " with an id of " + std::to_string(v.size() - lead) + " significant bytes was dispatched");
          else c.label("stream:oversized-reply-id-refused");
          continue;
        }
      }
      if (s.delivered != 1) { note(a, 6, "stream-delivery", "message " + std::to_string(i) + " (" + s.payload + ") was delivered to the handler " + std::to_string(s.delivered) + " times"); continue; }
      if (s.garbled) note(a, 6, "stream-delivery", "message " + std::to_string(i) + " reached the handler with a different payload");
      if (s.kind != KRequest) continue;
      if (s.second_accepted) note(a, 4, "reply-not-refused", "request " + hex(s.id.data(), s.id.size()) + ": the second reply() in the handler returned " + std::to_string(s.r2) + " after the first returned " + std::to_string(s.r1));
      if (!s.held && !s.orphaned && s.replies == 0) note(a, 3, "reply-missing", "request " + hex(s.id.data(), s.id.size()) + " (handler: " + kActionName[s.action] + ", returned " + std::to_string(s.hret) + ", reply context " + (s.had_ctx ? "handed out" : "NULL") + ") got no reply");
      if (s.replies == 1 && s.explicit_ok) {
        std::vector<uint8_t> want;
        if (s.action == ARawReply || s.action == AReplyTwice) want.assign(rawmsg, rawmsg + sizeof rawmsg);
        else { want = {0x01, (uint8_t)(int8_t)s.code, 'd', 'o', 'n', 'e'}; }
        if (s.reply_body != want) note(a, 1, "reply-content", "explicit answer to " + hex(s.id.data(), s.id.size()) + " arrived as " + hex(s.reply_body.data(), s.reply_body.size(), 40) + ", sent " + hex(want.data(), want.size(), 40));
        c.label("stream:explicit-reply");
      } else if (s.replies == 1 && !s.held) {
        bool echo = s.reply_body.size() >= idlen && std::equal(s.payload.begin(), s.payload.end(), s.reply_body.begin() + idlen, s.reply_body.end());
        c.label(echo ? "stream:default-reply-echoes-request" : s.reply_body.size() == 2 && s.reply_body[0] == 0x01 ? "stream:default-reply-answer-header" : "stream:default-reply-other");
      }
    }
    if (unknown_delivery) note(a, 6, "stream-delivery", "the handler was called " + std::to_string(unknown_delivery) + " time(s) with a message the client never sent");
    if (a.prio) c.fail(a.tag.c_str(), "%s", a.msg.c_str());
  }
};

// deferred handles (none with a context that cannot defer): answer now or keep
static void answer_deferred(Ctx &c, StreamWorld &w) {
  for (size_t h = 0; h < w.handles.size();) {
    if (!c.flip()) { ++h; continue; }
    message r(w.rawmsg, 2);
    SMsg &s = w.msgs[w.handles[h].second];
    bool with_msg = c.flip();
    int ret = w.handles[h].first->vptr->reply(w.handles[h].first, with_msg ? &r : 0);
    c.logf("deferred reply for message %zu%s -> %d", w.handles[h].second, s.orphaned ? " (the connection has left its peer since)" : "", ret);
    if (with_msg && ret < 0) { ++h; c.label("stream:deferred-reply-rejected"); continue; }  // the handle stays for a retry or the release
    s.held = false;
    w.handles.erase(w.handles.begin() + h);
    c.label(s.orphaned ? "conn:late-deferred-reply" : "stream:deferred-reply");
  }
}

static void stream_history(Ctx &c, bool connection = false) {
  signal(SIGPIPE, SIG_IGN);
  StreamWorld w(c);
  int sfd;
  if (connection) { w.open_connection(); sfd = w.sfd; }
  else { w.open(); sfd = w.server_fd(); }
  VP_CHECK(c, sfd >= 0, "harness-socketpair", "stream input does not report its descriptor");
  unsigned defaults = 0, explicits = 0, after_default = 0;
  while (c.more() && w.msgs.size() < 100) {
    w.discard_round = false;
    if (connection) {  // new draws only here: the decoding of the stream-input cases (0xd0..) stays as it was
      // one byte: 0xe0..0xff select the round-8 operations, below that it decodes as the former weighted draws did (byte % 16)
      size_t opb = c.range(0, 255), op = 0;
      if (opb >= 0xf0) op = 4;
      else if (opb >= 0xe0) op = 5;
      else { static const unsigned wa[] = {10, 2, 1, 3}, wb[] = {5, 6, 2, 3}; const unsigned *wt = w.handles.empty() ? wa : wb; unsigned r = opb % 16; while (r >= wt[op]) r -= wt[op++]; }
      if (w.local_open && (op == 1 || op == 2 || op == 5)) w.local_finish();  // re-targeting and a new id width need an idle output
      switch (op) {
        case 4: if (!w.closed) w.local_start(); break;
        case 5: if (!w.closed) {  // everything sent under the old width reaches its peer first
          w.serve(w.sfd);
          StreamWorld::Anomaly pre;
          w.client_collect(pre);
          if (pre.prio) c.fail(pre.tag.c_str(), "%s", pre.msg.c_str());
          w.change_idlen();
        } break;
        case 1: w.leave_peer(true); break;
        case 2: if (!w.closed) w.leave_peer(false); break;
        case 3: w.discard_round = true; c.label("conn:discard-round"); break;
        default: break;
      }
      if (w.closed) { if (c.flip()) w.connect_peer(); else { answer_deferred(c, w); continue; } }
    }
    size_t from = w.msgs.size(), k = c.range(1, 4);
    c.logf("-- round: %zu message(s)%s", k, w.discard_round ? ", dispatched in the discard form" : "");
    for (size_t j = 0; j < k && w.msgs.size() < 100; j++) {
      SMsg s;
      size_t idx = w.msgs.size();
      s.kind = (int)c.weighted({6, 3, 1});
      s.id.assign(w.idlen, 0);
      if (s.kind != KOneWay) {
        s.id = c.bytes(w.idlen);
        if (w.idlen > 8) {  // wide ids are tokens: random bytes, or a single non-zero byte far from the end (new draw, wide ids only)
          size_t style = c.pick(3);
          if (style) { uint8_t b = s.id[0] | 1; s.id.assign(w.idlen, 0); s.id[style == 1 ? 0 : c.range(0, w.idlen - 2)] = b; c.label("stream:sparse-token"); }
          c.label("stream:wide-id");
        }
        s.id[w.idlen - 1] = (uint8_t)(idx + 1);
        s.id[0] &= 0x7f;
        if (s.kind == KReplyType) s.id[0] |= 0x80;
      }
      char head[8];
      snprintf(head, sizeof head, "m%03zu;", idx);
      s.payload = head;
      for (size_t n = c.near({0, 1, 30}, 60); n; n--) s.payload += (char)('a' + c.pick(26));
      s.action = (int)c.weighted({4, 2, 4, 2, 2, 2});
      s.hret = s.action == AFail ? -(int)c.range(1, 5) : c.chance(40) ? -(int)c.range(1, 5) : 0;
      s.code = (int)c.range(0, 6) - 3;
      s.defer_then_reply = c.flip();
      s.peer = w.peers.size() - 1;
      s.discard = w.discard_round;
      c.logf("client sends %s id %s payload '%s'   handler: %s, returns %d", s.kind == KRequest ? "request" : s.kind == KOneWay ? "one-way message" : "reply-type message", hex(s.id.data(), w.idlen).c_str(), s.payload.c_str(), kActionName[s.action], s.hret);
      w.msgs.push_back(s);
      w.client_send(w.msgs.back());
      c.label(s.kind == KRequest ? "stream:request" : s.kind == KOneWay ? "stream:one-way" : "stream:reply-type");
    }
    w.serve(connection ? w.sfd : sfd);
    if (w.local_open) {  // nothing may have been answered wrongly so far; finish the outgoing message, then the requests get their turn
      StreamWorld::Anomaly early;
      w.client_collect(early);
      if (early.prio >= 4) c.fail(early.tag.c_str(), "%s", early.msg.c_str());
      w.local_finish();
      w.dispatch_pending = true;
      w.serve(w.sfd);
      c.label("conn:round-behind-outgoing-message");
    }
    StreamWorld::Anomaly a;
    w.client_collect(a);
    w.settle(a, from);
    for (size_t i = from; i < w.msgs.size(); i++) {
      if (defaults) ++after_default;
      if (w.msgs[i].kind != KRequest) continue;
      if (w.msgs[i].explicit_ok) ++explicits; else if (!w.msgs[i].held) ++defaults;
    }
    answer_deferred(c, w);
  }
  if (w.local_open) w.local_finish();
  // release what is left and look once more: nothing but the replies of the deferred requests may arrive
  while (!w.handles.empty()) { w.handles.back().first->vptr->reply(w.handles.back().first, 0); w.msgs[w.handles.back().second].held = false; w.handles.pop_back(); }
  w.serve(connection ? w.sfd : sfd);
  StreamWorld::Anomaly a;
  w.client_collect(a);
  w.settle(a, 0);
  if (defaults) c.label("stream:default-reply");
  if ((defaults && after_default) || (defaults && explicits)) c.nontrivial();
}

// ------------------------------------------------------------------ (e) the reply transport itself: mpt_stream_reply
// A stream with a fixed output area (mpt_stream_memory) and a COBS encoder is a transport that rejects what does not
// fit. History: replies of drawn sizes, application messages (mpt_stream_push, possibly left unfinished while a reply
// is attempted). O: the finished part of the area decodes to exactly the accepted replies and finished application
// messages, in order; a rejected reply leaves no frame; a reply that fits (encoded size + margin <= free space) and
// does not interrupt an unfinished application message is accepted — also after earlier rejections ("a send the
// transport rejected may be retried").
static void transport_history(Ctx &c) {
  size_t cap = std::max<size_t>(c.near({24, 48, 64, 128, 256}, 400), 12);
  size_t idlen = c.range(1, 8);
  bool inl = c.chance(80);
  ref::Dialect d = inl ? ref::CobsR : ref::Cobs;
  uint8_t *area = (uint8_t *)malloc(cap);
  struct Free { void *p; ~Free() { free(p); } } fr{area};
  memset(area, 0xAA, cap);
  CObj<mpt::stream> srm;
  srm->_rd._state.data.msg = -1;
  struct iovec out = {area, cap};
  int mode = mpt_stream_memory(srm, 0, &out);
  VP_CHECK(c, mode >= 0, "create-refused", "mpt_stream_memory returned %d", mode);
  srm->_wd._enc = mpt_message_encoder(inl ? MPT_ENUM(EncodingCobsInline) : MPT_ENUM(EncodingCobs));
  c.logf("reply transport: memory stream with %zu byte output area, %s, id length %zu", cap, inl ? "COBS/R" : "COBS", idlen);
  std::vector<std::vector<uint8_t>> want;  // finished messages, in order
  std::vector<uint8_t> app;                // unfinished application message
  bool app_open = false;
  unsigned rejected = 0, accepted_after_reject = 0, serial = 0;
  auto check_area = [&](const char *when) {
    size_t done = srm->_wd._state.done;
    VP_CHECK(c, done <= cap, "transport-frames", "%s: %zu finished bytes in an area of %zu", when, done, cap);
    std::vector<std::vector<uint8_t>> got;
    size_t start = 0;
    for (size_t i = 0; i < done; i++) {
      if (area[i]) continue;
      std::vector<uint8_t> body;
      ref::Verdict v = ref::decode(d, area + start, i - start, body);
      VP_CHECK(c, v == ref::WellFormed, "transport-frames", "%s: the output holds a malformed frame %s", when, hex(area + start, i - start, 40).c_str());
      got.push_back(body);
      start = i + 1;
    }
    // closed blocks of a still unfinished application message count as finished bytes too (a full COBS block of 254 data bytes
    // is closed without a delimiter): only without an open message must the finished bytes end in a delimiter
    VP_CHECK(c, start == done || app_open, "transport-frames", "%s: %zu finished bytes do not end in a delimiter", when, done);
    VP_CHECK(c, got.size() == want.size(), "transport-frames", "%s: the output holds %zu finished messages, %zu were accepted", when, got.size(), want.size());
    for (size_t i = 0; i < got.size(); i++)
      VP_CHECK(c, got[i] == want[i], "transport-frames", "%s: message %zu in the output is %s, accepted was %s", when, i, hex(got[i].data(), got[i].size(), 40).c_str(), hex(want[i].data(), want[i].size(), 40).c_str());
  };
  while (c.more() && serial < 60) {
    size_t used = srm->_wd._state.done + srm->_wd._state.scratch;
    size_t room = cap > used ? cap - used : 0;
    switch (c.weighted({8, 2, 2})) {
      case 0: {  // reply
        std::vector<uint8_t> id = c.bytes(idlen);
        id[0] |= 0x80;
        id[idlen - 1] = (uint8_t)(++serial);
        size_t n = c.flip() ? c.range(0, 12) : c.near({room / 2, room, cap}, cap + 40);
        std::vector<uint8_t> body(n);
        for (size_t i = 0; i < n; i++) body[i] = c.chance(40) ? 0 : (uint8_t)('a' + (i + serial) % 26);
        // message in 1..3 non-empty parts (an empty part makes mpt_stream_append end the frame: not this property)
        size_t cut1 = n > 1 ? c.range(1, n) : n, cut2 = n - cut1 > 1 ? c.range(cut1 + 1, n) : n;
        struct iovec cont[2] = {{body.data() + cut1, cut2 - cut1}, {body.data() + cut2, n - cut2}};
        message m(body.data(), cut1);
        m.cont = cont;
        m.clen = cut1 == n ? 0 : cut2 == n ? 1 : 2;
        bool nomsg = !n;
        int r = mpt_stream_reply(srm, idlen, id.data(), nomsg ? 0 : &m);
        size_t enc = idlen + n + (idlen + n) / 254 + 3;
        c.logf("mpt_stream_reply(id %s, %zu byte message) with %zu free bytes%s -> %d", hex(id.data(), idlen).c_str(), n, room, app_open ? ", application message open" : "", r);
        if (r >= 0) {
          VP_CHECK(c, !app_open, "reply-interleaved", "mpt_stream_reply accepted a reply in the middle of an unfinished outgoing message");
          std::vector<uint8_t> f = id;
          f.insert(f.end(), body.begin(), body.end());
          want.push_back(f);
          c.label("transport:accepted");
          if (rejected) { ++accepted_after_reject; c.label("transport:accepted-after-rejection"); }
        } else {
          bool must = !app_open && enc + 8 <= room;
          VP_CHECK(c, !must, "reply-retry-refused", "mpt_stream_reply returned %d for a reply of %zu bytes (encoded <= %zu) with %zu bytes free and no message in progress, after %u rejected repl%s", r, idlen + n, enc, room, rejected, rejected == 1 ? "y" : "ies");
          ++rejected;
          c.label(app_open ? "transport:rejected-message-open" : "transport:rejected-no-room");
        }
        check_area("after reply");
      } break;
      case 1: {  // application pushes part of an outgoing message
        size_t n = c.range(1, 6);
        if (n + 4 > room) break;
        std::vector<uint8_t> part(n);
        for (size_t i = 0; i < n; i++) part[i] = (uint8_t)('A' + i);
        ssize_t r = mpt_stream_push(srm, n, part.data());
        c.logf("mpt_stream_push(%zu bytes) -> %zd", n, r);
        if (r > 0) { app.insert(app.end(), part.begin(), part.begin() + r); app_open = true; c.label("transport:app-part"); }
      } break;
      default: {  // application finishes its message
        if (!app_open) break;
        ssize_t r = mpt_stream_push(srm, 0, 0);
        c.logf("mpt_stream_push(end of message) -> %zd", r);
        if (r >= 0) { want.push_back(app); app.clear(); app_open = false; check_area("after application message"); }
      }
    }
  }
  check_area("at end");
  if (rejected && accepted_after_reject) c.nontrivial();
}

// ------------------------------------------------------------------ (f) the requester side: mpt_stream_sync
// Commands wait for the replies to their ids (plus a fallback with id 0); the harness peer writes reply frames.
// O: every reply frame is handed to a callback exactly once: to the command registered for its id if that command
// still waits, otherwise to the fallback; no command is called twice ("each request is answered at most once, to
// the right requester").
struct SyncWorld;
struct SyncArg { SyncWorld *w; size_t index; };
struct SyncWorld {
  struct Cmd { uintptr_t id; unsigned calls = 0; bool eol = false; std::vector<size_t> frames; };
  struct Frame { uintptr_t id; std::string payload; int result = 0; unsigned delivered = 0; std::vector<size_t> to; };
  std::vector<Cmd> cmds;  // cmds[0] = fallback
  std::vector<Frame> frames;
  std::vector<SyncArg> args;
  unsigned total_calls = 0, budget = 0, garbled = 0;
  static int cb(void *arg, void *mp) {
    SyncArg *a = (SyncArg *)arg;
    SyncWorld *w = a->w;
    Cmd &cmd = w->cmds[a->index];
    if (!mp) { cmd.eol = true; return 0; }
    ++cmd.calls;
    message m = *(message *)mp;
    char buf[96] = {0};
    size_t n = mpt_message_read(&m, sizeof buf - 1, buf);
    unsigned idx = 0;
    if (n < 5 || buf[0] != 'r' || buf[4] != ';' || sscanf(buf + 1, "%3u", &idx) != 1 || idx >= w->frames.size() || w->frames[idx].payload != std::string(buf, n)) ++w->garbled;
    else { ++w->frames[idx].delivered; w->frames[idx].to.push_back(a->index); cmd.frames.push_back(idx); }
    if (++w->total_calls > w->budget) return -1;  // bounds the loop of a requester that keeps re-reading a message
    return idx < w->frames.size() ? w->frames[idx].result : 0;  // what the reply handler makes of this reply (drawn)
  }
};
static void sync_history(Ctx &c) {
  signal(SIGPIPE, SIG_IGN);
  size_t idlen = c.range(1, 8);
  int sv[2];
  VP_CHECK(c, socketpair(AF_UNIX, SOCK_STREAM | SOCK_NONBLOCK | SOCK_CLOEXEC, 0, sv) == 0, "harness-socketpair", "socketpair failed");
  struct Fd { int fd; ~Fd() { if (fd >= 0) close(fd); } } peer{sv[1]};
  CObj<mpt::stream> srm;
  srm->_rd._state.data.msg = -1;
  struct CloseStream { mpt::stream *s; bool open; ~CloseStream() { if (open) mpt_stream_close(s); } } closer{srm, false};
  {
    CObj<mpt::socket> sock;
    sock->_id = sv[0];
    int r = mpt_stream_dopen(srm, sock, mpt::stream::RdWr | mpt::stream::Buffer);
    if (r < 0) close(sv[0]);
    VP_CHECK(c, r >= 0, "create-refused", "mpt_stream_dopen returned %d", r);
    closer.open = true;
  }
  srm->_wd._enc = mpt_message_encoder(MPT_ENUM(EncodingCobs));
  srm->_rd._dec = mpt_message_decoder(MPT_ENUM(EncodingCobs));
  SyncWorld w;
  size_t ncmd = c.range(1, 5);
  w.cmds.resize(ncmd + 1);
  w.args.resize(ncmd + 1);
  CObj<mpt::array> arr;
  struct Clear { mpt::array *a; ~Clear() { mpt_command_clear((unique_array<command> *)a); mpt_array_clone(a, 0); } } clear{arr};
  c.logf("requester: stream over a socketpair (COBS), id length %zu, fallback + %zu waiting command(s)", idlen, ncmd);
  for (size_t i = 0; i <= ncmd; i++) {
    w.cmds[i].id = i ? 10 * i + c.range(0, 7) : 0;
    w.args[i] = SyncArg{&w, i};
    int r = mpt_command_set((unique_array<command> *)arr.get(), w.cmds[i].id, SyncWorld::cb, &w.args[i]);
    VP_CHECK(c, r >= 0, "create-refused", "mpt_command_set(id %zu) returned %d", (size_t)w.cmds[i].id, r);
  }
  unsigned multi = 0;
  while (c.more() && w.frames.size() < 40) {
    size_t k = c.range(1, 3), from = w.frames.size();
    for (size_t j = 0; j < k; j++) {
      SyncWorld::Frame f;
      size_t pick = c.pick(ncmd + 2);
      f.id = pick <= ncmd && pick ? w.cmds[pick].id : 100 + c.range(0, 9);  // a waiting (or already answered) id, or one nobody waits for
      char head[8];
      snprintf(head, sizeof head, "r%03zu;", w.frames.size());
      f.payload = head;
      for (size_t n = c.range(0, 20); n; n--) f.payload += (char)('a' + c.pick(26));
      f.result = c.chance(90) ? -(int)c.range(1, 5) : (int)c.range(0, 2);  // the handler that gets this reply may reject it
      if (f.result < 0) c.label("sync:handler-rejects");
      std::vector<uint8_t> data(idlen, 0);
      data[idlen - 1] = (uint8_t)f.id;
      data[0] |= 0x80;
      data.insert(data.end(), f.payload.begin(), f.payload.end());
      std::vector<uint8_t> enc = ref::encode(ref::Cobs, data.data(), data.size());
      VP_CHECK(c, write(peer.fd, enc.data(), enc.size()) == (ssize_t)enc.size(), "harness-write", "peer write failed");
      c.logf("peer sends reply id %zu payload '%s' (its handler will return %d)", (size_t)f.id, f.payload.c_str(), f.result);
      w.frames.push_back(f);
    }
    w.budget = w.total_calls + (unsigned)k + 2;
    for (size_t call = 0; call < 4 * k + 6; call++) {
      int r = mpt_stream_sync(srm, idlen, (unique_array<command> *)arr.get(), 0);
      c.logf("  mpt_stream_sync -> %d", r);
    }
    // expected receiver of every frame so far: the command of that id at its first appearance, the fallback afterwards
    std::set<uintptr_t> answered;
    for (size_t i = 0; i < w.frames.size(); i++) {
      SyncWorld::Frame &f = w.frames[i];
      size_t target = 0;
      for (size_t q = 1; q <= ncmd; q++) if (w.cmds[q].id == f.id && !answered.count(f.id)) target = q;
      answered.insert(f.id);
      VP_CHECK(c, f.delivered <= 1, "sync-delivered-twice", "reply %zu (id %zu, '%s') was handed to a callback %u times (first to the %s, then to the %s)", i, (size_t)f.id, f.payload.c_str(), f.delivered,
               f.to[0] ? "waiting command" : "fallback", f.to[1] ? "waiting command" : "fallback");
      if (i >= from || f.delivered) VP_CHECK(c, f.delivered == 1, "sync-lost", "reply %zu (id %zu, '%s') was not handed to any callback after %zu calls of mpt_stream_sync", i, (size_t)f.id, f.payload.c_str(), 4 * k + 6);
      VP_CHECK(c, f.to[0] == target, "sync-wrong-requester", "reply %zu (id %zu) went to %s, expected %s", i, (size_t)f.id, f.to[0] ? ("the command waiting for id " + std::to_string(w.cmds[f.to[0]].id)).c_str() : "the fallback",
               target ? "the command waiting for that id" : "the fallback");
    }
    for (size_t q = 1; q <= ncmd; q++) VP_CHECK(c, w.cmds[q].calls <= 1, "sync-delivered-twice", "the command waiting for id %zu was called %u times", (size_t)w.cmds[q].id, w.cmds[q].calls);
    VP_CHECK(c, !w.garbled, "stream-delivery", "a callback received a message the peer never sent");
    if (k > 1) ++multi;
    c.label("sync:round");
  }
  if (multi) { c.nontrivial(); c.label("sync:several-replies-at-once"); }
}

static void run(Ctx &c) {
  MuteLog mute(c.verbose());
  uint8_t sel = c.u8();
  if (sel == 0xff) {  // enumerated: every id with <= 2 significant bytes x widths 0..9
    uint64_t id = c.u16();
    size_t w = c.pick(10);
    id_case(c, id, w);
    c.nontrivial();
    return;
  }
  if (sel >= 0xd0) { stream_history(c); c.label("part:c-stream-input"); return; }  // 0xd0..0xfe
  if (sel >= 0xc0) {                                                                  // 0xc0..0xcf (round 5)
    if (sel < 0xc8) { stream_history(c, true); c.label("part:d-connection"); }
    else if (sel < 0xcc) { transport_history(c); c.label("part:e-transport"); }
    else { sync_history(c); c.label("part:f-sync"); }
    return;
  }
  switch (sel % 8) {
    case 0: case 1: { size_t w = c.range(0, 9); id_case(c, draw_id(c, w), w); c.label("part:a-id"); } break;
    case 2: header_case(c); c.label("part:a-header"); break;
    default: history(c); c.label("part:b-history");
  }
}

static uint64_t enum_count(int) { return 65536ull * 10; }
static void enum_make(uint64_t idx, int, std::vector<uint8_t> &out) {
  out.clear();
  out.push_back(0xff);
  uint64_t id = idx / 10, w = idx % 10;
  out.push_back((uint8_t)(id & 0xff));
  out.push_back((uint8_t)(id >> 8));
  out.push_back((uint8_t)w);
}

static Target t = {
    "C12",
    "random: (a) id (boundaries of every width: first id needing the reply bit / the next byte, +-2; powers of 256 +-1; random 64 bit; small) x header width 0..9 through "
    "mpt_message_id2buf + mpt_message_buf2id on exact-size heap buffers, and mpt_message_buf2id on arbitrary request headers of 0..12 bytes; (b) history on one "
    "mpt_reply_deferrable context (id length near 1/2/4/5/8/9, capacity = length or length+1..4): arm (convert(TypeReplyDataPtr)+mpt_reply_set), reply(msg|NULL), mpt_context_reply, "
    "defer, deferred reply, deferred release, addref/unref of the context, cleanup in drawn order; transport result drawn per operation (27% rejected). "
    "(c) [first byte 0xd0..0xfe, 18%] mpt_stream_input(socketpair, RdWr|Write|Buffer, COBS|COBS/R, id length 1..8) served the way the notifier serves an input; harness client sends rounds of 1..4 "
    "messages (request with non-zero id / one-way with zero id / reply-type, text payload 5..65 bytes), handler per message: nothing, fail, mpt_context_reply, reply(msg), reply twice, defer; "
    "the client decodes every frame the server sends with the reference COBS codec and accounts it to a delivered request. "
    "(d) [0xc0..0xc7] the same client against a connection over a stream (state of mpt_connection_open: RdWr|Buffer, COBS; served like output_remote.c: mpt_stream_poll(events, 0) + mpt_connection_dispatch), "
    "handler may really defer; between rounds the connection may be opened to another harness peer (mpt_connection_open on a transient unix socket) or closed while deferred handles are outstanding, "
    "and a round may be dispatched in the discard form mpt_connection_dispatch(con, NULL, NULL); every peer accounts the frames it receives; (e) [0xc8..0xcb] mpt_stream_reply on a memory stream with a fixed 12..400 byte output area (replies that fit / do not fit, unfinished application messages in between), "
    "output decoded with the reference codec; (f) [0xcc..0xcf] mpt_stream_sync with a fallback + 1..5 waiting commands, peer writes 1..3 reply frames per round (waiting, answered, unknown ids). "
    "exhaustive: all ids with <= 2 significant bytes x widths 0..9. non-trivial: (a) round trip at width >= 2 or id within 2 of a reply-bit boundary or a refused 9+ byte header; "
    "(b) at least one accepted send and at least one of {defer, refused second reply, retry after rejection, default reply on release}; "
    "(c,d) a default-answered request followed by a later message, or default and explicit answers in one case; (e) a reply accepted after a rejected one; (f) a round with several replies; "
    "distinct by hash of the draw sequence.",
    run,
    {160, 600},
    false,
    true,
    {{"ids with <= 2 significant bytes x widths 0..9", enum_count, enum_make}},
    0,
    0,
};
Target &vp::target() { return t; }
