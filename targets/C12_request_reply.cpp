// C12 — each request is answered at most once, to the right requester      vp-link: core
//
// (a) mpt_message_id2buf / mpt_message_buf2id: id (width boundaries, powers of 256 +-1, random 64 bit) x header
//     width 0..9 on exact-size heap buffers. O: id2buf succeeds iff the id fits the width with the reply bit (top
//     bit of the first byte) free; the header is the big-endian id; buf2id(header) == id; a header whose value
//     needs more than 64 bit is refused.
// (b) histories on mpt_reply_deferrable(len, send, ptr): arm (convert(TypeReplyDataPtr) + mpt_reply_set, the way
//     connection_dispatch.c arms), reply, mpt_context_reply, defer, deferred reply, release of deferred handles
//     (reply(NULL)) and of context references in any order, harness transport `send` succeeding or failing.
//     O: model of the outstanding requests; the transport sees exactly the send attempts the model predicts:
//     at most one successful send per armed request, with that request's id bytes and the reply bit set, a
//     rejected send may be retried, answered/moved requests are refused, releasing the last handle of an armed,
//     attached context sends exactly one default reply (msg == NULL); arming leaves v-tables, reference count
//     and transport of the context alone; ASan/LSan silent.
#include "vp.hpp"
#include "mpt_c.hpp"

using namespace vp;
using namespace mpt;

// ------------------------------------------------------------------ C views of the interfaces
struct CMeta;
struct CMetaVptr {
  int (*convert)(CMeta *, uintptr_t, void *);
  void (*unref)(CMeta *);
  uintptr_t (*addref)(CMeta *);
  CMeta *(*clone)(const CMeta *);
};
struct CMeta { const CMetaVptr *vptr; };
struct CReply;
struct CDetached;
struct CReplyVptr {
  int (*reply)(CReply *, const message *);
  CDetached *(*defer)(CReply *);
};
struct CReply { const CReplyVptr *vptr; };
struct CDetachedVptr { int (*reply)(CDetached *, const message *); };
struct CDetached { const CDetachedVptr *vptr; };

// layout of the private context object behind the metatype handle (reply_deferrable.c); only read, and only after
// the fields that can be cross-checked from outside (send, ptr, initial count, interface addresses) matched
struct CtxMirror {
  void *send, *ptr;
  uintptr_t ref;
  const void *mt_vptr, *ctx_vptr;
  reply_data data;
};

// while the case runs the library's log lines (stderr FILE) go to /dev/null; they are still formatted
struct MuteLog {
  FILE *saved;
  explicit MuteLog(bool verbose) : saved(stderr) {
    static FILE *null = fopen("/dev/null", "w");
    if (!verbose && null) stderr = null;
  }
  ~MuteLog() { stderr = saved; }
};

// ------------------------------------------------------------------ (a) id <-> header bytes
static int sigbytes(uint64_t id) { int n = 0; while (id) { ++n; id >>= 8; } return n; }
static bool fits(uint64_t id, size_t w) { return w == 0 ? id == 0 : w >= 9 ? true : id < (1ull << (8 * w - 1)); }

static void id_case(Ctx &c, uint64_t id, size_t w) {
  c.logf("id 0x%llx (%d significant bytes), header width %zu", (unsigned long long)id, sigbytes(id), w);
  uint8_t *buf = (uint8_t *)malloc(w);
  struct Free { void *p; ~Free() { free(p); } } fr{buf};
  if (w) memset(buf, 0xAA, w);
  int r = mpt_message_id2buf(id, buf, w);
  c.logf("mpt_message_id2buf -> %d  %s", r, hex(buf, w).c_str());
  if (!fits(id, w)) {
    VP_CHECK(c, r < 0, "id2buf-accepted-unfit", "mpt_message_id2buf(0x%llx, width %zu) returned %d (header %s): the id does not fit %zu bytes with the reply bit free", (unsigned long long)id, w, r, hex(buf, w).c_str(), w);
    c.label("id:refused");
    if (w && w <= 8 && (id >> (8 * w - 1)) == 1) { c.label("id:reply-bit-boundary"); c.nontrivial(); }
    return;
  }
  VP_CHECK(c, r >= 0, "id2buf-refused", "mpt_message_id2buf(0x%llx, width %zu) returned %d: the id fits (%d significant bytes, reply bit free)", (unsigned long long)id, w, r, sigbytes(id));
  VP_CHECK(c, (size_t)r <= w, "id2buf-result", "mpt_message_id2buf(0x%llx, width %zu) returned %d", (unsigned long long)id, w, r);
  for (size_t i = 0; i < w; i++) {
    size_t shift = 8 * (w - 1 - i);
    uint8_t want = shift >= 64 ? 0 : (uint8_t)(id >> shift);
    VP_CHECK(c, buf[i] == want, "id2buf-bytes", "mpt_message_id2buf(0x%llx, width %zu) wrote %s: byte %zu is not the big-endian id", (unsigned long long)id, w, hex(buf, w).c_str(), i);
  }
  uint64_t back = 0x5a5a5a5a5a5a5a5aull;
  int q = mpt_message_buf2id(buf, w, &back);
  c.logf("mpt_message_buf2id -> %d  0x%llx", q, (unsigned long long)back);
  VP_CHECK(c, q >= 0, "buf2id-refused", "mpt_message_buf2id(%s) returned %d for the header of id 0x%llx", hex(buf, w).c_str(), q, (unsigned long long)id);
  VP_CHECK(c, back == id, "roundtrip-mismatch", "id 0x%llx written as %s (width %zu) reads back as 0x%llx (buf2id returned %d)", (unsigned long long)id, hex(buf, w).c_str(), w, (unsigned long long)back, q);
  VP_CHECK(c, q <= 8, "buf2id-result", "mpt_message_buf2id returned %d significant bytes for a 64 bit id", q);
  c.label("id:roundtrip");
  if (w >= 2) c.nontrivial();
  if (w && w <= 8 && id + 2 >= (1ull << (8 * w - 1))) { c.label("id:reply-bit-boundary"); c.nontrivial(); }
}

static uint64_t draw_id(Ctx &c, size_t w) {
  switch (c.weighted({4, 3, 2, 2, 1})) {
    case 0: {  // boundary of a width (the drawn one, mostly)
      size_t k = c.flip() ? w : c.range(0, 9);
      uint64_t b;
      switch (c.pick(3)) {
        case 0: b = k == 0 ? 0 : k >= 9 ? 0 : 1ull << (8 * k - 1); break;           // first id that needs the reply bit
        case 1: b = k >= 8 ? 0 : 1ull << (8 * k); break;                            // first id that needs k+1 bytes
        default: b = k == 0 ? 0 : k >= 9 ? 0 : (1ull << (8 * k - 1)) | (c.u64() & ((1ull << (8 * k - 1)) - 1));  // reply bit set, random rest
      }
      return b + (uint64_t)c.range(0, 4) - 2;
    }
    case 1: return (1ull << (8 * c.range(0, 7))) + (uint64_t)c.range(0, 2) - 1;    // powers of 256 +-1
    case 2: return c.u64();
    case 3: return c.u64() >> (8 * c.range(0, 7));
    default: return c.range(0, 300);
  }
}

static void header_case(Ctx &c) {  // buf2id on arbitrary request headers (reply bit clear, as every caller masks it)
  size_t w = c.range(0, 12);
  std::vector<uint8_t> h = c.bytes(w);
  size_t z = c.flip() ? c.range(0, w) : 0;  // leading zero bytes
  for (size_t i = 0; i < z; i++) h[i] = 0;
  if (w) h[0] &= 0x7f;
  uint8_t *buf = (uint8_t *)malloc(w);
  struct Free { void *p; ~Free() { free(p); } } fr{buf};
  if (w) memcpy(buf, h.data(), w);
  size_t lead = 0;
  while (lead < w && !h[lead]) ++lead;
  uint64_t back = 0x5a5a5a5a5a5a5a5aull, want = 0;
  int q = mpt_message_buf2id(buf, w, &back);
  c.logf("mpt_message_buf2id(%s) -> %d  0x%llx", hex(buf, w).c_str(), q, (unsigned long long)back);
  if (w - lead > 8) {
    VP_CHECK(c, q < 0, "buf2id-accepted-unfit", "mpt_message_buf2id(%s) returned %d (0x%llx): the value needs %zu bytes", hex(buf, w).c_str(), q, (unsigned long long)back, w - lead);
    c.label("header:refused");
    c.nontrivial();
    return;
  }
  for (size_t i = lead; i < w; i++) want = want << 8 | h[i];
  VP_CHECK(c, q >= 0, "buf2id-refused", "mpt_message_buf2id(%s) returned %d, the value has %zu significant bytes", hex(buf, w).c_str(), q, w - lead);
  VP_CHECK(c, back == want, "roundtrip-mismatch", "header %s reads as 0x%llx, expected 0x%llx", hex(buf, w).c_str(), (unsigned long long)back, (unsigned long long)want);
  VP_CHECK(c, q <= 8, "buf2id-result", "mpt_message_buf2id returned %d", q);
  c.label("header:read");
  if (w > 8) c.nontrivial();
}

// ------------------------------------------------------------------ (b) reply context histories
struct SendCall {
  void *ptr;
  uint16_t len;
  std::vector<uint8_t> id;
  const message *msg;
  int cmd, arg;  // header of the message, -1000 when there is none
  std::string text;
  int result;
};
struct Transport {
  std::vector<SendCall> calls;
  int next_result = 0;
  unsigned long magic = 0xC12C12;
};
static int transport_send(void *ptr, const reply_data *rd, const message *msg) {
  Transport *t = (Transport *)ptr;
  SendCall s;
  s.ptr = ptr;
  s.len = rd->len;
  s.id.assign(rd->val, rd->val + rd->len);  // reads exactly the armed length
  s.msg = msg;
  s.cmd = s.arg = -1000;
  if (msg && msg->base && msg->used >= 2) { s.cmd = ((const uint8_t *)msg->base)[0]; s.arg = ((const int8_t *)msg->base)[1]; }
  if (msg && msg->clen && msg->cont && msg->cont[0].iov_base) s.text.assign((const char *)msg->cont[0].iov_base, msg->cont[0].iov_len);
  s.result = t->next_result;
  t->calls.push_back(s);
  return t->next_result;
}

struct Request {
  std::vector<uint8_t> id;
  unsigned serial;
  unsigned ok = 0, attempts = 0;
};
struct Deferred {
  CDetached *h;
  Request rq;
  bool empty = false;  // handle obtained although no request was armed: may only be released, never sends
};

struct World {
  Ctx &c;
  Transport tr;
  CMeta *mt = 0;
  CReply *rc = 0;
  CtxMirror *mir = 0;  // valid only when mirror_ok
  bool mirror_ok = false;
  const void *mt_vptr = 0, *rc_vptr = 0;
  size_t max = 0, idlen = 0;
  unsigned held = 0;       // references to the context metatype owned by the harness
  bool attached = true;    // transport attached (until a context reference is dropped while others remain)
  bool armed = false, failed_once = false, unsure = false;
  Request cur;
  std::vector<Deferred> def;
  unsigned serial = 0;
  unsigned sends_ok = 0, interesting = 0;
  uint8_t msgbuf[8] = {0x01, 0, 'o', 'k', 0, 0, 0, 0};

  explicit World(Ctx &ctx) : c(ctx) {}

  size_t refs() const { return held + def.size(); }
  void snapshot_check(const char *when) {
    VP_CHECK(c, mt->vptr == mt_vptr, "context-disturbed", "%s: metatype v-table of the context changed from %p to %p", when, mt_vptr, (const void *)mt->vptr);
    VP_CHECK(c, rc->vptr == rc_vptr, "context-disturbed", "%s: reply_context v-table of the context changed from %p to %p", when, rc_vptr, (const void *)rc->vptr);
    if (mirror_ok) {
      VP_CHECK(c, mir->ref == refs(), "context-refcount", "%s: context reference count is %zu, the harness holds %u context reference(s) and %zu deferred handle(s)", when, (size_t)mir->ref, held, def.size());
      VP_CHECK(c, mir->ptr == &tr && (attached ? mir->send == (void *)transport_send : true), "context-disturbed", "%s: transport of the context changed (send %p ptr %p)", when, mir->send, mir->ptr);
    }
  }
  void set_result() {
    tr.calls.clear();
    tr.next_result = c.chance(70) ? -(int)c.range(1, 6) : (int)c.range(0, 2);
  }
  const message *draw_msg(message &m) {
    if (c.chance(90)) return 0;
    m = message(msgbuf, c.range(2, 4));
    return &m;
  }
  // exactly one send attempt for rq (or none)
  void expect_sends(size_t n, const Request *rq, const message *msg, bool check_msg, const char *op) {
    VP_CHECK(c, tr.calls.size() == n, "send-count", "%s: the transport saw %zu send attempt(s), the model expects %zu%s", op, tr.calls.size(), n, n ? "" : " (request not armed here, already answered, moved to a deferred handle, or transport detached)");
    if (!n) return;
    const SendCall &s = tr.calls[0];
    std::vector<uint8_t> want = rq->id;
    want[0] |= 0x80;
    VP_CHECK(c, s.ptr == &tr, "send-target", "%s: send called with transport pointer %p, registered %p", op, s.ptr, (void *)&tr);
    VP_CHECK(c, s.id == want, "send-id", "%s: reply carries id bytes %s, the request was armed with %s (reply bit must be set: %s)", op, hex(s.id.data(), s.id.size()).c_str(), hex(rq->id.data(), rq->id.size()).c_str(), hex(want.data(), want.size()).c_str());
    if (check_msg) VP_CHECK(c, s.msg == msg, "send-message", "%s: send got message %p, reply was called with %p", op, (const void *)s.msg, (const void *)msg);
  }

  void create() {
    idlen = c.near({1, 2, 4, 5, 8, 9}, 16);
    if (idlen < 1) idlen = 1;
    max = c.chance(80) ? idlen + c.range(1, 4) : idlen;  // datagram style: room for a socket address behind the id
    c.logf("mpt_reply_deferrable(%zu, send, transport)   id length %zu", max, idlen);
    mt = (CMeta *)mpt_reply_deferrable(max, transport_send, &tr);
    VP_CHECK(c, mt, "create-refused", "mpt_reply_deferrable(%zu) returned NULL", max);
    held = 1;
    mt_vptr = mt->vptr;
    void *p = 0;
    int r = mt->vptr->convert(mt, TypeReplyPtr, &p);
    VP_CHECK(c, r >= 0 && p, "convert-refused", "convert(TypeReplyPtr) returned %d / %p", r, p);
    rc = (CReply *)p;
    rc_vptr = rc->vptr;
    CtxMirror *m = (CtxMirror *)((char *)mt - offsetof(CtxMirror, mt_vptr));
    mirror_ok = (void *)&m->ctx_vptr == (void *)rc && m->send == (void *)transport_send && m->ptr == (void *)&tr && m->ref == 1 && m->data._max == max && m->data.len == 0;
    mir = m;
    c.label(mirror_ok ? "mirror:ok" : "mirror:mismatch");
  }

  void arm() {
    if (!held) return;
    if (armed && !failed_once) return;  // callers arm an idle context, or re-arm after their default reply was rejected
    if (armed) { c.label("rearm-after-rejected-send"); c.logf("(request %u is abandoned: re-armed after a rejected send)", cur.serial); }
    Request rq;
    rq.serial = ++serial;
    rq.id = c.bytes(idlen);
    rq.id[0] &= 0x7f;
    rq.id[idlen - 1] = (uint8_t)(rq.serial & 0x7f) | (idlen > 1 ? (rq.id[idlen - 1] & 0x80) : 0);
    if (std::all_of(rq.id.begin(), rq.id.end(), [](uint8_t b) { return !b; })) rq.id[idlen - 1] = 1;  // callers arm for non-zero ids only
    bool toolong = c.chance(10);
    reply_data *rd = 0;
    CReply *rc2 = 0;
    int r1 = mt->vptr->convert(mt, TypeReplyDataPtr, &rd);
    VP_CHECK(c, r1 >= 0 && rd, "arm-refused", "convert(TypeReplyDataPtr) returned %d / %p", r1, (void *)rd);
    int r2 = mt->vptr->convert(mt, TypeReplyPtr, &rc2);
    VP_CHECK(c, r2 >= 0 && rc2 == rc, "arm-refused", "convert(TypeReplyPtr) returned %d / %p, the context interface is %p", r2, (void *)rc2, (void *)rc);
    if (toolong) {
      std::vector<uint8_t> big(std::max<size_t>(max, sizeof(((reply_data *)0)->val)) + 1 + c.range(0, 3), 0x11);  // beyond the declared and the inline capacity
      uint8_t *p = (uint8_t *)malloc(big.size());
      memcpy(p, big.data(), big.size());
      int r = mpt_reply_set(rd, big.size(), p);
      free(p);
      c.logf("mpt_reply_set(%zu bytes > max %zu) -> %d", big.size(), max, r);
      VP_CHECK(c, r < 0, "arm-too-long-accepted", "mpt_reply_set accepted %zu id bytes for a context created for %zu", big.size(), max);
      snapshot_check("after refused arm");
      c.label("arm:too-long-refused");
      return;
    }
    uint8_t *p = (uint8_t *)malloc(idlen);
    memcpy(p, rq.id.data(), idlen);
    int r = mpt_reply_set(rd, idlen, p);
    free(p);
    c.logf("arm request %u: id %s   mpt_reply_set -> %d", rq.serial, hex(rq.id.data(), idlen).c_str(), r);
    VP_CHECK(c, r >= 0, "arm-refused", "mpt_reply_set(%zu bytes, max %zu) returned %d", idlen, max, r);
    snapshot_check("after arm");
    armed = true;
    failed_once = false;
    unsure = false;
    cur = rq;
    c.label("op:arm");
  }

  void after_ctx_send(const char *op, int ret, const message *msg, bool check_msg) {
    if (!attached) {  // nothing may reach the transport; the result of the call is not demanded
      expect_sends(0, 0, 0, false, op);
      if (armed) { unsure = true; }
      c.label("reply:detached");
      return;
    }
    if (unsure) { expect_sends(0, 0, 0, false, op); return; }
    if (!armed) {
      expect_sends(0, 0, 0, false, op);
      VP_CHECK(c, ret < 0, "reply-not-refused", "%s returned %d although no request is armed on the context (never armed, already answered, or moved to a deferred handle)", op, ret);
      c.label("reply:refused");
      ++interesting;
      return;
    }
    expect_sends(1, &cur, msg, check_msg, op);
    ++cur.attempts;
    if (tr.next_result >= 0) {
      VP_CHECK(c, ret >= 0, "reply-result", "%s returned %d although the transport accepted the reply", op, ret);
      armed = false;
      ++sends_ok;
      c.label("reply:sent");
      if (cur.attempts > 1) { c.label("reply:sent-on-retry"); ++interesting; }
    } else {
      VP_CHECK(c, ret < 0, "reply-result", "%s returned %d although the transport rejected the reply with %d", op, ret, tr.next_result);
      failed_once = true;
      c.label("reply:rejected");
    }
  }
  void reply_ctx() {
    if (!held) return;
    set_result();
    if (c.chance(60)) {
      int code = (int)c.range(0, 6) - 3;
      const char *text = c.flip() ? "text" : 0;
      int ret = text ? mpt_context_reply((reply_context *)rc, code, "%s", text) : mpt_context_reply((reply_context *)rc, code, 0);
      c.logf("mpt_context_reply(ctx, %d, %s) [transport will return %d] -> %d, %zu send(s)", code, text ? text : "NULL", tr.next_result, ret, tr.calls.size());
      after_ctx_send("mpt_context_reply", ret, 0, false);
      if (tr.calls.size() == 1) {
        const SendCall &s = tr.calls[0];
        VP_CHECK(c, s.cmd == 0x01 /* MessageAnswer */ && s.arg == code && s.text == (text ? text : ""), "send-message", "mpt_context_reply(%d, %s) sent header cmd %d arg %d text '%s'", code, text ? text : "NULL", s.cmd, s.arg, s.text.c_str());
      }
      c.label("op:context_reply");
      return;
    }
    message m;
    const message *msg = draw_msg(m);
    int ret = rc->vptr->reply(rc, msg);
    c.logf("ctx.reply(%s) [transport will return %d] -> %d, %zu send(s)", msg ? "message" : "NULL", tr.next_result, ret, tr.calls.size());
    after_ctx_send("reply() on the context", ret, msg, true);
    snapshot_check("after reply");
    c.label("op:reply");
  }
  void defer() {
    if (!held) return;
    tr.calls.clear();
    CDetached *h = rc->vptr->defer(rc);
    c.logf("ctx.defer() -> %p", (void *)h);
    expect_sends(0, 0, 0, false, "defer()");
    if (unsure) { if (h) { def.push_back(Deferred{h, cur}); armed = false; unsure = false; } return; }
    if (!armed) {  // nothing to hand over: NULL, or a handle that never reaches the transport
      if (h) { Deferred d{h, Request()}; d.empty = true; def.push_back(d); c.label("defer:handle-without-request"); }
      else c.label("defer:refused");
      return;
    }
    if (!h) { c.label("defer:refused-armed"); return; }
    def.push_back(Deferred{h, cur});
    armed = false;
    failed_once = false;
    snapshot_check("after defer");
    c.label("op:defer");
    ++interesting;
    if (def.size() >= 2) c.label("two-deferred");
  }
  void deferred_reply(size_t i, bool release) {
    Deferred d = def[i];
    if (d.empty) release = true;
    set_result();
    message m;
    const message *msg = release ? 0 : draw_msg(m);
    if (!release && !msg) { m = message(msgbuf, 2); msg = &m; }
    int ret = d.h->vptr->reply(d.h, msg);
    c.logf("deferred[%zu] (request %u).reply(%s) [transport will return %d] -> %d, %zu send(s)", i, d.rq.serial, msg ? "message" : "NULL", tr.next_result, ret, tr.calls.size());
    const char *op = release ? "release of a deferred handle (reply(NULL))" : "reply() on a deferred handle";
    if (!attached || d.empty) {
      expect_sends(0, 0, 0, false, d.empty ? "release of a handle deferred from an unarmed context" : op);
      def.erase(def.begin() + i);
      c.label("deferred:detached");
      after_release();
      return;
    }
    expect_sends(1, &d.rq, msg, true, op);
    ++def[i].rq.attempts;
    if (tr.next_result >= 0) {
      VP_CHECK(c, ret >= 0, "reply-result", "%s returned %d although the transport accepted the reply", op, ret);
      ++sends_ok;
      c.label(release ? "deferred:default-reply" : "deferred:sent");
      if (def[i].rq.attempts > 1) { c.label("deferred:sent-on-retry"); }
      ++interesting;
      def.erase(def.begin() + i);
      after_release();
      return;
    }
    if (release) {  // the handle is gone whatever the transport said
      c.label("deferred:default-reply-rejected");
      def.erase(def.begin() + i);
      after_release();
      return;
    }
    VP_CHECK(c, ret < 0, "reply-result", "%s returned %d although the transport rejected the reply with %d", op, ret, tr.next_result);
    c.label("deferred:rejected");
    ++interesting;
    if (held) snapshot_check("after rejected deferred reply");
  }
  void after_release() {
    if (held) snapshot_check("after a deferred handle was released");
    else if (!def.empty() && mirror_ok) VP_CHECK(c, mir->ref == refs(), "context-refcount", "context reference count is %zu with %zu deferred handle(s) left", (size_t)mir->ref, def.size());
  }
  void addref() {
    if (!held || held >= 3) return;
    uintptr_t n = mt->vptr->addref(mt);
    c.logf("ctx.addref() -> %zu", (size_t)n);
    VP_CHECK(c, n != 0, "addref-refused", "addref() returned 0 with %u context reference(s) and %zu deferred handle(s)", held, def.size());
    ++held;
    snapshot_check("after addref");
    c.label("op:addref");
  }
  void unref() {
    if (!held) return;
    set_result();
    bool last = refs() == 1;
    mt->vptr->unref(mt);
    c.logf("ctx.unref() [%s, transport will return %d] -> %zu send(s)", last ? "last handle" : "other handles remain", tr.next_result, tr.calls.size());
    --held;
    if (last) {
      if (attached && armed && !unsure) {
        expect_sends(1, &cur, 0, true, "release of the last handle of an armed context");
        c.label(tr.next_result >= 0 ? "unref:default-reply" : "unref:default-reply-rejected");
        if (tr.next_result >= 0) ++sends_ok;
        ++interesting;
      } else {
        expect_sends(0, 0, 0, false, "release of the last handle (nothing armed or transport detached)");
        c.label("unref:last-quiet");
      }
      armed = false;
      mt = 0; rc = 0; mirror_ok = false;
      return;
    }
    // other handles remain: the owner of the transport let go, nothing may be sent from now on
    expect_sends(0, 0, 0, false, "release of a context reference while other handles remain");
    if (attached) c.label("detached");
    if (attached && armed) c.label("detached-while-armed");
    attached = false;
    if (held) snapshot_check("after unref");
    else { mt = 0; rc = 0; }
  }
};

static void history(Ctx &c) {
  World w(c);
  w.create();
  while (c.more()) {
    switch (c.weighted({7, 7, 4, 5, 2, 2, 1})) {
      case 0: w.arm(); break;
      case 1: w.reply_ctx(); break;
      case 2: w.defer(); break;
      case 3: if (!w.def.empty()) w.deferred_reply(c.pick(w.def.size()), false); break;
      case 4: if (!w.def.empty()) w.deferred_reply(c.pick(w.def.size()), true); break;
      case 5: w.unref(); break;
      default: w.addref(); break;
    }
  }
  // release everything that is left, context first or deferred handles first
  bool ctx_first = c.flip();
  c.logf("-- cleanup (%s first)", ctx_first ? "context" : "deferred handles");
  if (ctx_first) while (w.held) w.unref();
  while (!w.def.empty()) w.deferred_reply(w.def.size() - 1, true);
  while (w.held) w.unref();
  if (w.sends_ok) c.label("case:sent");
  if (w.sends_ok && w.interesting) c.nontrivial();
}

static void run(Ctx &c) {
  MuteLog mute(c.verbose());
  uint8_t sel = c.u8();
  if (sel == 0xff) {  // enumerated: every id with <= 2 significant bytes x widths 0..9
    uint64_t id = c.u16();
    size_t w = c.pick(10);
    id_case(c, id, w);
    c.nontrivial();
    return;
  }
  switch (sel % 8) {
    case 0: case 1: { size_t w = c.range(0, 9); id_case(c, draw_id(c, w), w); c.label("part:a-id"); } break;
    case 2: header_case(c); c.label("part:a-header"); break;
    default: history(c); c.label("part:b-history");
  }
}

static uint64_t enum_count(int) { return 65536ull * 10; }
static void enum_make(uint64_t idx, int, std::vector<uint8_t> &out) {
  out.clear();
  out.push_back(0xff);
  uint64_t id = idx / 10, w = idx % 10;
  out.push_back((uint8_t)(id & 0xff));
  out.push_back((uint8_t)(id >> 8));
  out.push_back((uint8_t)w);
}

static Target t = {
    "C12",
    "random: (a) id (boundaries of every width: first id needing the reply bit / the next byte, +-2; powers of 256 +-1; random 64 bit; small) x header width 0..9 through "
    "mpt_message_id2buf + mpt_message_buf2id on exact-size heap buffers, and mpt_message_buf2id on arbitrary request headers of 0..12 bytes; (b) history on one "
    "mpt_reply_deferrable context (id length near 1/2/4/5/8/9, capacity = length or length+1..4): arm (convert(TypeReplyDataPtr)+mpt_reply_set), reply(msg|NULL), mpt_context_reply, "
    "defer, deferred reply, deferred release, addref/unref of the context, cleanup in drawn order; transport result drawn per operation (27% rejected). "
    "exhaustive: all ids with <= 2 significant bytes x widths 0..9. non-trivial: (a) round trip at width >= 2 or id within 2 of a reply-bit boundary or a refused 9+ byte header; "
    "(b) at least one accepted send and at least one of {defer, refused second reply, retry after rejection, default reply on release}; distinct by hash of the draw sequence.",
    run,
    {160, 600},
    false,
    true,
    {{"ids with <= 2 significant bytes x widths 0..9", enum_count, enum_make}},
    0,
    0,
};
Target &vp::target() { return t; }
