// C05 — managed elements in typed buffers are finalised exactly once      vp-link: core io plot cxx
//
// G: histories of create/set/insert/cut/slice/reserve/reduce/detach/clone/release over <= 3 array handles
//    whose buffers hold managed elements of ONE element kind per case:
//      tok16, tok24   harness-defined type_traits; init(ptr,src) registers a unique token in a live set
//                     (and fails on a drawn n-th call), fini(ptr) removes it and poisons the slot
//      array          mpt_array_traits(): elements are array handles on inner token buffers
//      metaref        mpt_meta_reference_traits(): elements reference counting harness metatypes
//      ident          mpt_identifier_traits(): inline and heap names
//      cfgitem        mpt_config_item_traits(): name + metatype value + optional child item array
//      command        mpt_command_traits(): handler counts its finalise calls
//    plus a C++ scenario (typed_array<T>/unique_array<T>/item_array/reference_array, buffer::trim/skip/copy/move)
//    with a counting T.
// O: after every operation: every slot in [0,used) of every buffer holds a live, intact element; no live
//    element outside the buffers (= never destroyed) and none twice (= raw bytes duplicated); fini only
//    ever saw live elements; resources behind library element types have exactly the reference count
//    the slots account for; refused operations change nothing; after the last release nothing is alive.
#include "vp.hpp"
#include "lifetrack.hpp"
#include "notify.h"  // mptio: mpt_input_reference_traits()

using namespace vp;
using namespace mpt;
using lt::HMeta;
using lt::MetaPool;
using lt::Tracker;
using lt::Viol;

// ------------------------------------------------------------------ case-global state reachable from callbacks
struct CmdRec { int made, fin; uintptr_t id; };

struct Obs {
  Viol viol;
  Tracker trk;
  MetaPool metas;
  std::vector<CmdRec> cmds;  // command kind: one record per registered handler context
  Obs() {
    trk.viol = &viol;
    metas.viol = &viol;
    cmds.reserve(40000);  // addresses of the records are handed to the library: never reallocated (<= 14 commands per operation, <= 600 operations)
  }
};
static Obs *W;

static uint32_t flags_of(CBuf *b) { return b->vptr->get_flags(b); }
static uint8_t *slot(CBuf *b, size_t i, size_t size) { return b->data() + i * size; }

// ------------------------------------------------------------------ harness defined element traits
template <int S> static int tok_init(void *p, const void *src) { return W ? W->trk.init(p, src, S) : -1; }
template <int S> static void tok_fini(void *p) { if (W) W->trk.fini(p, S); }
static const type_traits kTok16(16, tok_fini<16>, tok_init<16>), kTok16Alias(16, tok_fini<16>, tok_init<16>);
static const type_traits kTok24(24, tok_fini<24>, tok_init<24>), kTok24Alias(24, tok_fini<24>, tok_init<24>);

// ------------------------------------------------------------------ element kinds
// A value is a small integer; 0 is the default constructed element.
struct Kind {
  const char *name;
  const type_traits *traits, *alias;
  size_t size;
  std::unique_ptr<type_traits> own_alias, wide;  // wide: same finaliser and constructor, twice the element size (managed part first)
  Kind(const char *n, const type_traits *t, const type_traits *a = 0) : name(n), traits(t), alias(a), size(t->size) {
    if (!alias) { own_alias.reset(new type_traits(t->size, t->fini, t->init)); alias = own_alias.get(); }
    wide.reset(new type_traits(t->size * 2, t->fini, t->init));
  }
  virtual ~Kind() {}
  virtual uint32_t draw(Ctx &c) = 0;                    // a value that can be constructed right now
  virtual void make(void *p, uint32_t v) = 0;           // construct element with value v in raw memory (harness side)
  virtual void drop(void *p) { traits->fini(p); }       // destroy a harness owned element
  virtual uint32_t copy_of(uint32_t v) { return v; }    // value of an element copy-constructed from v
  virtual bool read(const void *p, uint32_t &v, std::string &why) = 0;
  virtual void tally_begin() {}
  virtual void tally(const void *p) {}
  virtual void tally_end(Ctx &c, const char *op) {}
  virtual void cleanup() {}                             // release what the harness itself still holds
  virtual bool extra_op(Ctx &c) { return false; }       // kind specific operation (drop a harness held reference)
  virtual bool can_fail_init() { return false; }
  virtual bool first_visit(CBuf *) { return true; }     // nested buffers: tally the elements of a buffer only once
  virtual void note_handle(CBuf *) {}                   // a harness array handle names this buffer
  virtual bool counts_buffer(CBuf *) { return false; }  // the kind checks the reference count of this buffer itself (elements name it too)
};

struct TokKind : Kind {
  TokKind(const char *n, const type_traits *t, const type_traits *a) : Kind(n, t, a) {}
  uint32_t draw(Ctx &c) override { return (uint32_t)c.range(1, 9); }
  void make(void *p, uint32_t v) override { W->trk.make(p, v, size); }
  bool read(const void *p, uint32_t &v, std::string &why) override { return W->trk.read(p, size, v, why); }
  void tally(const void *p) override {
    if (!W->trk.tally(p)) W->viol.rec("element-bytes-duplicated", "the same element (%s) occupies two slots: bytes were duplicated instead of init(dst,src)", Tracker::describe(p).c_str());
  }
  bool can_fail_init() override { return true; }
};

// array elements naming inner buffers that hold two token elements each
struct ArrayKind : Kind {
  enum { R = 3 };
  CObj<array> inner[R + 1];
  CBuf *buf[R + 1] = {0};
  uint64_t toks[R + 1][2];
  bool held[R + 1] = {false};
  long cnt[R + 1];
  // second level: buffers of array elements created by the "nest" operation, named by elements (value 100 + index)
  // and, after a descent (mpt_array_clone(handle, element of the handle's own buffer)), by handles
  struct Mid { CBuf *b; std::vector<uint32_t> vals; long elems, handles; bool visited; };
  std::vector<Mid> mids;
  int mid_index(CBuf *b) { for (int i = (int)mids.size() - 1; i >= 0; i--) if (mids[i].b == b) return i; return -1; }
  // new mid level buffer with the given element values; the caller holds the only reference
  CBuf *new_mid(const std::vector<uint32_t> &vals) {
    buffer *b = _mpt_buffer_alloc(vals.size() * size, 0);
    b->_content_traits = traits;
    for (size_t i = 0; i < vals.size(); i++) make((uint8_t *)(b + 1) + i * size, vals[i]);
    b->_used = vals.size() * size;
    mids.push_back(Mid{(CBuf *)b, vals, 0, 0, false});
    return (CBuf *)b;
  }
  bool first_visit(CBuf *b) override {
    int m = mid_index(b);
    if (m < 0) return true;
    if (mids[m].visited) return false;
    return mids[m].visited = true;
  }
  void note_handle(CBuf *b) override { int m = mid_index(b); if (m >= 0) mids[m].handles++; }
  bool counts_buffer(CBuf *b) override { return mid_index(b) >= 0; }
  ArrayKind() : Kind("array", mpt_array_traits()) {
    for (int r = 1; r <= R; r++) {
      buffer *b = _mpt_buffer_alloc(2 * 16, 0);
      b->_content_traits = &kTok16;
      uint8_t *d = (uint8_t *)(b + 1);
      for (int i = 0; i < 2; i++) { W->trk.make(d + 16 * i, 100 + r, 16); memcpy(&toks[r][i], d + 16 * i, 8); }
      b->_used = 32;
      cbuf(inner[r]) = (CBuf *)b;
      buf[r] = (CBuf *)b;
      held[r] = true;
    }
  }
  bool alive(int r) { return W->trk.live.count(toks[r][0]) && W->trk.live.count(toks[r][1]); }
  uint32_t draw(Ctx &c) override {
    uint32_t v = (uint32_t)c.range(0, R);
    return v && alive(v) ? v : 0;
  }
  void make(void *p, uint32_t v) override {
    CObj<array> src;
    cbuf(src) = v >= 100 ? mids[v - 100].b : v ? buf[v] : 0;  // a handle value naming the inner buffer; init() takes its own reference
    traits->init(p, v ? src.get() : 0);
  }
  bool read(const void *p, uint32_t &v, std::string &why) override {
    CBuf *b = *(CBuf *const *)p;
    if (!b) { v = 0; return true; }
    for (int r = 1; r <= R; r++)
      if (b == buf[r]) {
        if (!alive(r)) { why = "references inner buffer " + std::to_string(r) + " whose elements were already finalised (buffer released too early)"; return false; }
        v = r;
        return true;
      }
    int m = mid_index(b);
    if (m >= 0) {
      if (__asan_address_is_poisoned(b)) { why = "references nested buffer " + std::to_string(m) + " which was already freed"; return false; }
      v = 100 + m;
      return true;
    }
    why = "holds an unknown buffer pointer";
    return false;
  }
  void tally_begin() override {
    for (int r = 0; r <= R; r++) cnt[r] = 0;
    for (auto &m : mids) { m.elems = m.handles = 0; m.visited = false; }
  }
  void tally(const void *p) override {
    CBuf *b = *(CBuf *const *)p;
    for (int r = 1; r <= R; r++) if (b && b == buf[r]) cnt[r]++;
    int m = b ? mid_index(b) : -1;
    if (m >= 0) {
      mids[m].elems++;
      // the elements of the nested buffer hold references of their own (counted once per buffer)
      if (!__asan_address_is_poisoned(b) && first_visit(b))
        for (size_t e = 0; e < b->used / size; e++) tally(slot(b, e, size));
    }
  }
  void tally_end(Ctx &c, const char *op) override {
    for (int r = 1; r <= R; r++) {
      long expect = cnt[r] + (held[r] ? 1 : 0);
      bool live = alive(r);
      c.logf("    inner buffer %d: %ld element reference(s) + %d harness handle -> %s", r, cnt[r], held[r] ? 1 : 0, live ? "alive" : "released");
      VP_CHECK(c, live || !expect, "resource-released-early", "after %s: inner buffer %d is referenced %ld time(s) but its elements were already finalised", op, r, expect);
      VP_CHECK(c, !live || expect, "resource-not-released", "after %s: inner buffer %d has no reference left (all array elements naming it were removed) but is still alive", op, r);
      if (live) {
        W->trk.tally_token(toks[r][0]);
        W->trk.tally_token(toks[r][1]);
        bool shared = flags_of(buf[r]) & BufferShared;
        VP_CHECK(c, shared == (expect > 1), "resource-refcount", "after %s: inner buffer %d should have %ld reference(s) but reports %s", op, r, expect, shared ? "shared" : "not shared");
      }
    }
    for (size_t i = 0; i < mids.size(); i++) {
      Mid &m = mids[i];
      bool newest = mid_index(m.b) == (int)i;
      long expect = newest ? m.elems + m.handles : 0;
      bool gone = __asan_address_is_poisoned(m.b);
      c.logf("    nested buffer %zu: %ld element reference(s) + %ld handle(s) -> %s", i, m.elems, m.handles, gone ? "freed" : "alive");
      if (!newest) continue;
      VP_CHECK(c, !(gone && expect), "resource-released-early", "after %s: nested buffer %zu is referenced %ld time(s) but was already freed", op, i, expect);
      VP_CHECK(c, gone || expect, "resource-not-released", "after %s: nested buffer %zu has no reference left but is still allocated", op, i);
      if (!gone) {
        bool shared = flags_of(m.b) & BufferShared;
        VP_CHECK(c, shared == (expect > 1), "resource-refcount", "after %s: nested buffer %zu should have %ld reference(s) but reports %s", op, i, expect, shared ? "shared" : "not shared");
        uintptr_t probe = m.b->vptr->addref(m.b);  // exact count: addref returns the raised counter, the probe is taken back
        m.b->vptr->unref(m.b);
        VP_CHECK(c, probe == (uintptr_t)expect + 1, "resource-refcount", "after %s: nested buffer %zu should have %ld reference(s), an additional addref returned %lu", op, i, expect, (unsigned long)probe);
      }
    }
  }
  bool extra_op(Ctx &c) override {
    int r = (int)c.range(1, R);
    if (!held[r]) return false;
    c.logf("  harness drops its own handle on inner buffer %d", r);
    mpt_array_clone(inner[r], 0);
    held[r] = false;
    return true;
  }
  void cleanup() override {
    for (int r = 1; r <= R; r++) if (held[r]) { mpt_array_clone(inner[r], 0); held[r] = false; }
  }
};

// counting harness metatypes shared by the metaref and cfgitem kinds
struct MetaUser : Kind {
  enum { R = 3 };
  HMeta *obj[R + 1] = {0};
  bool held[R + 1] = {false};
  long cnt[R + 1];
  MetaUser(const char *n, const type_traits *t) : Kind(n, t) {
    for (int r = 1; r <= R; r++) { obj[r] = W->metas.create(); held[r] = true; }
  }
  int index(const void *mt) { for (int r = 1; r <= R; r++) if (mt == obj[r]) return r; return 0; }
  void tally_begin() override { for (int r = 0; r <= R; r++) cnt[r] = 0; }
  void tally_end(Ctx &c, const char *op) override {
    for (int r = 1; r <= R; r++) {
      long expect = cnt[r] + (held[r] ? 1 : 0);
      c.logf("    metatype #%d: %ld element reference(s) + %d harness reference, counter %lu, destructor ran %d time(s)", r, cnt[r], held[r] ? 1 : 0, (unsigned long)obj[r]->refs, obj[r]->destroyed);
      VP_CHECK(c, obj[r]->destroyed <= 1, "resource-destroyed-twice", "after %s: destructor of metatype #%d ran %d times", op, r, obj[r]->destroyed);
      VP_CHECK(c, !(obj[r]->destroyed && expect), "resource-released-early", "after %s: metatype #%d is referenced by %ld element(s)%s but was already destroyed", op, r, cnt[r], held[r] ? " and the harness" : "");
      VP_CHECK(c, (long)obj[r]->refs == expect, obj[r]->refs > (uintptr_t)expect ? "resource-not-released" : "resource-released-early",
               "after %s: metatype #%d has reference count %lu, but %ld element(s)%s reference it", op, r, (unsigned long)obj[r]->refs, cnt[r], held[r] ? " and the harness" : "");
    }
  }
  bool extra_op(Ctx &c) override {
    int r = (int)c.range(1, R);
    if (!held[r]) return false;
    c.logf("  harness drops its own reference on metatype #%d", r);
    lt::MetaPool::s_unref(obj[r]);
    held[r] = false;
    return true;
  }
  void cleanup() override {
    for (int r = 1; r <= R; r++) if (held[r]) { lt::MetaPool::s_unref(obj[r]); held[r] = false; }
  }
  uint32_t draw_obj(Ctx &c) {
    uint32_t v = (uint32_t)c.range(0, R);
    return v && !obj[v]->destroyed ? v : 0;
  }
};

struct MetaRefKind : MetaUser {
  MetaRefKind() : MetaUser("metaref", mpt_meta_reference_traits()) {}
  MetaRefKind(const char *n, const type_traits *t) : MetaUser(n, t) {}  // other reference traits with the same element layout
  uint32_t draw(Ctx &c) override { return draw_obj(c); }
  void make(void *p, uint32_t v) override {
    void *src = v ? obj[v] : 0;
    bool keep = W->metas.refuse_addref;
    W->metas.refuse_addref = false;
    traits->init(p, &src);
    W->metas.refuse_addref = keep;
  }
  bool read(const void *p, uint32_t &v, std::string &why) override {
    void *m = *(void *const *)p;
    if (!m) { v = 0; return true; }
    if (!(v = index(m))) { why = "holds an unknown metatype pointer"; return false; }
    if (obj[v]->destroyed) { why = "references metatype #" + std::to_string(v) + " which was already destroyed"; return false; }
    return true;
  }
  void tally(const void *p) override { cnt[index(*(void *const *)p)]++; }
  bool can_fail_init() override { return true; }  // through a refused addref
};

static const char *kNames[] = {"", "a", "this-name-needs-heap-2", "ccc", "yet-another-long-identifier-4", "e5", "long-long-long-long-long-long-6"};
enum { NNames = 6 };
static uint32_t name_index(const identifier *id) {
  if (!id->_len) return 0;
  if (id->_len > id->_max && !id->_base) return UINT32_MAX - 1;  // state left behind by _identifier_fini / mpt_identifier_set(0,0) of a heap name
  for (uint32_t i = 1; i <= NNames; i++)
    if (mpt_identifier_compare(id, kNames[i], -1) == 0) return i;
  return UINT32_MAX;
}

struct IdentKind : Kind {
  IdentKind() : Kind("ident", mpt_identifier_traits()) {}
  uint32_t draw(Ctx &c) override { return (uint32_t)c.range(0, NNames); }
  void make(void *p, uint32_t v) override {
    identifier *id = (identifier *)p;
    mpt_identifier_init(id, sizeof(*id));
    if (v) mpt_identifier_set(id, kNames[v], -1);
  }
  bool read(const void *p, uint32_t &v, std::string &why) override {
    const identifier *id = (const identifier *)p;
    if (id->_max != sizeof(identifier) - 4) { why = "is not an initialised identifier (_max=" + std::to_string(id->_max) + ")"; return false; }
    if ((v = name_index(id)) == UINT32_MAX - 1) { why = "holds an identifier that was already finalised (heap name released)"; return false; }
    if (v == UINT32_MAX) { why = "holds an unexpected name of length " + std::to_string(id->_len); return false; }
    return true;
  }
};

struct CfgItemKind : MetaUser {
  // value v = name index (0..NNames, 0 = unnamed) | value metatype # << 4 (0 = none) | "has an elements buffer" << 8
  // (0 is the default constructed item). Drawn items: name n with metatype #((n-1)%R+1), optionally with one child item.
  // Items without name but with a value or children are the "unused" state mpt_config_item_reserve anticipates.
  static uint32_t enc(uint32_t name, uint32_t r, bool child) { return name | (r << 4) | (child ? 256u : 0u); }
  CfgItemKind() : MetaUser("cfgitem", mpt_config_item_traits()) {}
  uint32_t draw(Ctx &c) override {
    uint32_t v = (uint32_t)c.range(0, 2 * NNames);
    if (!v) return 0;
    uint32_t base = (v - 1) % NNames + 1, r = (base - 1) % R + 1;
    if (obj[r]->destroyed) return 0;
    return enc(base, r, v > NNames);
  }
  void make(void *p, uint32_t v) override {
    config_item *it = (config_item *)p;
    traits->init(p, 0);
    if (!v) return;
    uint32_t name = v & 15, r = (v >> 4) & 15;
    HMeta *m = r ? obj[r] : 0;
    if (name) mpt_identifier_set((identifier *)&it_ident(it), kNames[name], -1);
    if (m) { ++m->refs; it_value(it) = m; }
    if (v & 256) {
      buffer *b = _mpt_buffer_alloc(sizeof(config_item), BufferNoCopy);  // like mpt_config_item_reserve
      b->_content_traits = traits;
      config_item *child = (config_item *)(b + 1);
      traits->init(child, 0);
      b->_used = sizeof(config_item);
      mpt_identifier_set(&it_ident(child), "child", -1);
      if (m) { ++m->refs; it_value(child) = m; }
      it_elements(it) = (CBuf *)b;
    }
  }
  // C view of struct config_item: { array elements; metatype *value; identifier identifier; }
  static CBuf *&it_elements(const config_item *it) { return *(CBuf **)it; }
  static void *&it_value(const config_item *it) { return *(void **)((uint8_t *)it + sizeof(void *)); }
  static identifier &it_ident(const config_item *it) { return *(identifier *)((uint8_t *)it + 2 * sizeof(void *)); }
  uint32_t copy_of(uint32_t v) override { return v & ~256u; }  // _init_config_item copies name and value, not the children
  bool read(const void *p, uint32_t &v, std::string &why) override {
    const config_item *it = (const config_item *)p;
    const identifier &id = it_ident(it);
    if (id._max != sizeof(identifier) - 4) { why = "is not an initialised config item (identifier _max=" + std::to_string(id._max) + ")"; return false; }
    uint32_t n = name_index(&id);
    if (n == UINT32_MAX - 1) { why = "holds a config item that was already finalised (heap name released)"; return false; }
    if (n == UINT32_MAX) { why = "holds an unexpected name"; return false; }
    void *m = it_value(it);
    int r = index(m);
    if (m && !r) { why = "holds an unknown value pointer"; return false; }
    if (r && obj[r]->destroyed) { why = "references metatype #" + std::to_string(r) + " which was already destroyed"; return false; }
    v = enc(n, (uint32_t)r, it_elements(it) != 0);
    return true;
  }
  void tally(const void *p) override {
    const config_item *it = (const config_item *)p;
    cnt[index(it_value(it))]++;
    if (CBuf *b = it_elements(it))
      for (size_t i = 0; i < b->used / sizeof(config_item); i++) tally(slot(b, i, sizeof(config_item)));
  }
};

static int cmd_handler(void *arg, void *ev) {
  CmdRec *r = (CmdRec *)arg;
  if (!ev) {
    if (++r->fin > 1 && W) W->viol.rec("double-fini", "command handler context #%ld finalised %d times", (long)(r - W->cmds.data()), r->fin);
  }
  return 0;
}
struct CommandKind : Kind {
  std::vector<int> seen;
  CommandKind() : Kind("command", mpt_command_traits()) { W->cmds.push_back(CmdRec{0, 0, 0}); }
  uint32_t draw(Ctx &c) override { return c.chance(40) ? 0 : 1; }  // 1: a fresh command (made unique in make())
  // every constructed command is a singular resource: its value is its serial number
  uint32_t last = 0;
  void make(void *p, uint32_t v) override {
    command *cm = (command *)p;
    memset(p, 0, sizeof(command));
    if (!v) { last = 0; return; }
    W->cmds.push_back(CmdRec{1, 0, 0});
    last = (uint32_t)W->cmds.size() - 1;
    W->cmds[last].id = last;
    cm->id = last;
    cm->cmd = (int (*)(void *, void *))cmd_handler;
    cm->arg = &W->cmds[last];
  }
  uint32_t copy_of(uint32_t) override { return 0; }  // _command_init refuses to copy a live command: default element
  bool read(const void *p, uint32_t &v, std::string &why) override {
    const command *cm = (const command *)p;
    if (!cm->cmd) { v = 0; return true; }
    if ((void *)cm->cmd != (void *)cmd_handler) { why = "holds an unknown handler"; return false; }
    CmdRec *r = (CmdRec *)cm->arg;
    if (r < W->cmds.data() || r >= W->cmds.data() + W->cmds.size()) { why = "holds an unknown handler context"; return false; }
    v = (uint32_t)(r - W->cmds.data());
    if (r->fin) { why = "holds command #" + std::to_string(v) + " whose handler was already finalised"; return false; }
    return true;
  }
  void tally_begin() override { seen.assign(W->cmds.size(), 0); }
  void tally(const void *p) override {
    const command *cm = (const command *)p;
    if (cm->cmd) { size_t i = (CmdRec *)cm->arg - W->cmds.data(); if (i < seen.size()) seen[i]++; }
  }
  void tally_end(Ctx &c, const char *op) override {
    for (size_t i = 1; i < W->cmds.size(); i++) {
      VP_CHECK(c, seen[i] <= 1, "element-bytes-duplicated", "after %s: command #%zu occupies %d slots", op, i, seen[i]);
      VP_CHECK(c, seen[i] + W->cmds[i].fin >= 1, "element-not-finalised", "after %s: command #%zu is in no buffer any more but its handler was never finalised", op, i);
      VP_CHECK(c, seen[i] + W->cmds[i].fin <= 1, "double-fini", "after %s: command #%zu was finalised although it is still an element", op, i);
    }
  }
};

// ------------------------------------------------------------------ handles and the value model
struct Handle {
  CObj<array> a;
  Kind *k = 0;                    // element kind of the buffer (0: no buffer, or raw buffer)
  const type_traits *tr = 0;      // expected _content_traits
  std::vector<uint32_t> vals;     // value semantics model
  bool relax = false;             // shared its buffer with the handle that was operated on: what it reads now is C04's business, only lifetimes are checked
  CBuf *b() { return cbuf(a); }
};

struct Sim {
  Ctx &c;
  Obs obs;
  std::unique_ptr<TokKind> tok16, tok24;
  std::unique_ptr<Kind> libkind;
  Kind *primary = 0, *other = 0;
  Handle h[3];
  bool strict = true;   // compare values with the model (no constructor failure was injected in this operation)
  bool nontrivial = false;
  bool variant = false;  // round 7 variants on their own selector slots: unservable reserve sizes, unnamed config items
  unsigned ops_ok = 0;

  Sim(Ctx &ctx) : c(ctx) {
    W = &obs;
    tok16.reset(new TokKind("tok16", &kTok16, &kTok16Alias));
    tok24.reset(new TokKind("tok24", &kTok24, &kTok24Alias));
  }
  ~Sim() {
    // after an oracle failure the library state is not trusted (the worker process is discarded): release nothing
    if (std::uncaught_exceptions()) { W = 0; return; }
    for (auto &x : h) if (x.b()) mpt_array_clone(x.a, 0);
    if (libkind) libkind->cleanup();
    libkind.reset();
    W = 0;
  }

  // ---------------------------------------------------------------- oracle
  void sync(const char *op) {
    obs.viol.raise(c, op);
    Tracker &t = obs.trk;
    t.tally_begin();
    if (libkind) libkind->tally_begin();
    CBuf *seen[3];
    int nseen = 0;
    for (int i = 0; i < 3; i++) {
      Handle &x = h[i];
      CBuf *b = x.b();
      if (!b) {
        VP_CHECK(c, x.vals.empty() || !strict || x.relax, "handle-lost-buffer", "after %s: handle %d has no buffer but the model holds %zu elements", op, i, x.vals.size());
        x.vals.clear(); x.k = 0; x.tr = 0; x.relax = false;
        continue;
      }
      bool cmp = strict && !x.relax;
      x.relax = false;
      if (!cmp) adopt(x);
      VP_CHECK(c, b->traits == x.tr, "content-traits", "after %s: handle %d: buffer has content traits %p, expected %p", op, i, (const void *)b->traits, (const void *)x.tr);
      VP_CHECK(c, b->used <= b->size, "used-beyond-size", "after %s: handle %d: used %zu > size %zu", op, i, b->used, b->size);
      int users = 0;
      for (int j = 0; j < 3; j++) if (h[j].b() == b) users++;
      bool first = true;
      for (int j = 0; j < nseen; j++) if (seen[j] == b) first = false;
      std::vector<uint32_t> got;
      if (libkind) libkind->note_handle(b);  // whatever the content type is now (mpt_array_reserve re-types a private buffer in place)
      if (x.k) {
        size_t S = x.k->size;
        bool visit = first && x.k->first_visit(b);
        VP_CHECK(c, b->used % S == 0, "partial-element", "after %s: handle %d: used %zu is not a multiple of the element size %zu", op, i, b->used, S);
        for (size_t e = 0; e < b->used / S; e++) {
          uint32_t v = 0;
          std::string why;
          bool ok = x.k->read(slot(b, e, S), v, why);
          VP_CHECK(c, ok, "dead-element-in-buffer", "after %s: handle %d (%s): slot %zu of %zu %s", op, i, x.k->name, e, b->used / S, why.c_str());
          got.push_back(v);
          if (visit) x.k->tally(slot(b, e, S));
        }
      } else {
        VP_CHECK(c, b->used == 0 || !cmp, "raw-buffer-content", "after %s: handle %d: raw buffer with %zu bytes", op, i, b->used);
      }
      if (first) seen[nseen++] = b;
      if (cmp) {
        if (got != x.vals) {
          std::string g, w;
          for (uint32_t v : got) g += std::to_string(v) + " ";
          for (uint32_t v : x.vals) w += std::to_string(v) + " ";
          c.fail("content-mismatch", "after %s: handle %d (%s) reads [ %s] but a value-semantics vector holds [ %s]", op, i, x.k ? x.k->name : "raw", g.c_str(), w.c_str());
        }
      } else {
        x.vals = got;
      }
      // reference count of the buffer itself: shared flag iff more than one handle names it
      bool shared = flags_of(b) & BufferShared;
      if (!(libkind && libkind->counts_buffer(b)))
        VP_CHECK(c, shared == (users > 1), "buffer-refcount", "after %s: handle %d: buffer is named by %d handle(s) but reports %s", op, i, users, shared ? "shared" : "not shared");
      if (c.verbose()) {
        std::string g;
        for (uint32_t v : got) g += std::to_string(v) + " ";
        c.logf("    h%d: %s buf=%d/%d [ %s] used %zu size %zu flags %x", i, x.k ? x.k->name : "raw", users, nseen, g.c_str(), b->used, b->size, flags_of(b));
      }
    }
    obs.viol.raise(c, op);
    if (libkind) libkind->tally_end(c, op);
    obs.viol.raise(c, op);
    std::string first;
    size_t lost = t.unseen(first);
    VP_CHECK(c, !lost, "element-not-finalised", "after %s: %zu live element(s) are in no buffer any more and were never finalised, e.g. %s", op, lost, first.c_str());
    strict = true;
  }

  // ---------------------------------------------------------------- helpers
  Handle &pick_handle() { Handle &x = h[c.pick(3)]; if (x.b()) relax_sharers(x); return x; }
  void relax_sharers(Handle &x) {
    for (auto &y : h) if (&y != &x && y.b() && y.b() == x.b()) y.relax = true;
  }
  // after an injected constructor failure only the lifetime invariants are demanded: take kind and values from the buffer
  void adopt(Handle &x) {
    const type_traits *t = x.b()->traits;
    x.tr = t;
    x.k = !t ? 0 : (t == primary->traits || t == primary->alias) ? primary : (t == other->traits || t == other->alias) ? other : (t == primary->wide.get() || t == other->wide.get()) ? 0 : x.k;
  }
  // draw a failing constructor call for the next library call
  void arm(Kind *k) {
    if (!k || !k->can_fail_init() || !c.chance(48)) return;
    if (k == libkind.get()) { obs.metas.refuse_addref = true; c.logf("  (addref of the harness metatypes reports failure during this call)"); return; }
    unsigned nth = (unsigned)c.range(1, 6);
    bool copy_only = c.chance(176);
    obs.trk.arm(nth, copy_only);
    c.logf("  (%s init call #%u of this operation reports failure)", copy_only ? "copy" : "any", nth);
  }
  void disarm() {
    if (obs.trk.disarm()) { strict = false; c.label("init-failure-injected"); }
    if (obs.metas.refuse_addref) {
      obs.metas.refuse_addref = false;
      if (obs.metas.n_refused != refused_before) { strict = false; c.label("addref-refusal-injected"); }
    }
    refused_before = obs.metas.n_refused;
  }
  unsigned refused_before = 0;

  size_t draw_count(Kind *k, size_t n) {
    size_t g1 = 64 / k->size, g2 = 192 / k->size;
    return c.near({0, 1, 2, n, g1, g2}, 14);
  }
  // private buffer for direct buffer operations (what unique_array::detach does)
  bool make_private(Handle &x) {
    CBuf *b = x.b();
    uint32_t f = flags_of(b);
    if (!(f & (BufferShared | BufferImmutable))) return true;  // callers consult the flags before writing into a buffer
    relax_sharers(x);
    CBuf *n = b->vptr->detach(b, b->used);
    if (!n) return false;
    cbuf(x.a) = n;
    note_detach(x, b, f & BufferShared);
    return true;
  }
  // call right after the library call, before the model is updated: a shared buffer that was replaced has been
  // copied element by element (init(dst,src)); a unique one has been moved
  void note_detach(Handle &x, CBuf *before, bool was_shared) {
    if (x.b() && x.b() != before && was_shared) {
      c.label("detach:shared-copy");
      nontrivial = true;
      if (x.k) for (auto &v : x.vals) v = x.k->copy_of(v);
    }
  }

  // ---------------------------------------------------------------- operations
  void op_create() {
    Handle &x = pick_handle();
    if (x.b()) { op_release(x); }
    Kind *k = c.chance(200) ? primary : other;
    size_t n = draw_count(k, 3);
    int flags = (int)c.weighted({12, 2, 2});
    flags = flags == 0 ? 0 : flags == 1 ? BufferNoCopy : BufferImmutable;
    size_t cap = n * k->size + (c.flip() ? 0 : c.range(0, 3) * k->size);
    c.logf("create h%d: %s x %zu, capacity request %zu, flags %x", (int)(&x - h), k->name, n, cap, flags);
    // every fourth element count asks for a memory mapped buffer first (no extra draw); _mpt_buffer_map refuses
    // on trees where its page size test is inverted, then the heap buffer is used as before
    buffer *b = (n % 4 == 3) ? _mpt_buffer_map(cap, flags) : 0;
    if (b) { c.logf("  (memory mapped buffer, size %zu)", ((CBuf *)b)->size); c.label("create:mapped"); }
    else b = _mpt_buffer_alloc(cap, flags);
    VP_CHECK(c, b, "harness", "allocation failed");
    b->_content_traits = k->traits;
    for (size_t i = 0; i < n; i++) {
      uint32_t v = k->draw(c);
      k->make((uint8_t *)(b + 1) + i * k->size, v);
      x.vals.push_back(model_val(k, v));
    }
    b->_used = n * k->size;
    cbuf(x.a) = (CBuf *)b;
    x.k = k;
    x.tr = k->traits;
    sync("create");
  }
  void op_release(Handle &x) {
    c.logf("release h%d", (int)(&x - h));
    mpt_array_clone(x.a, 0);
    x.vals.clear(); x.k = 0; x.tr = 0;
    sync("release");
  }
  uint32_t model_val(Kind *k, uint32_t drawn) { return !strcmp(k->name, "command") && drawn ? ((CommandKind *)k)->last : drawn; }

  void op_set() {
    Handle &x = pick_handle();
    int hi = (int)(&x - h);
    Kind *k = x.k ? x.k : (c.chance(200) ? primary : other);
    if (x.b() && !x.k) return;  // raw buffer: typed set is refused (covered by op_refusals)
    size_t n = x.vals.size();
    size_t cnt = c.near({0, 1, 2, n}, 8);
    long off;
    switch (c.weighted({3, 4, 3, 3, 3})) {
      case 0: off = 0; break;
      case 1: off = n ? (long)c.range(0, n - 1) : 0; break;        // front / middle
      case 2: off = (long)n; break;                                  // end
      case 3: off = (long)n + (long)c.range(1, 4); break;           // past the end: gap is default constructed
      default: off = -(long)c.range(1, n + 1); break;               // relative to the end (one too far is refused)
    }
    bool with_data = c.chance(208);
    const type_traits *tr = x.tr ? x.tr : k->traits;
    std::vector<uint8_t> src(cnt * k->size + 8);
    std::vector<uint32_t> sv;
    for (size_t i = 0; i < cnt; i++) {
      uint32_t v = with_data ? k->draw(c) : 0;
      if (with_data) { k->make(src.data() + i * k->size, v); v = model_val(k, v); }
      sv.push_back(v);
    }
    CBuf *before = x.b();
    bool was_shared = before && (flags_of(before) & BufferShared);
    long pos = off < 0 ? (long)n + off : off;
    c.logf("set h%d (%s): %zu element(s) %s at offset %ld (length %zu)", hi, k->name, cnt, with_data ? "copied from harness elements" : "default", off, n);
    arm(k);
    void *ret = mpt_array_set(x.a, tr, cnt * k->size, with_data ? src.data() : 0, off);
    disarm();
    note_detach(x, before, was_shared);
    if (with_data) for (size_t i = 0; i < cnt; i++) k->drop(src.data() + i * k->size);
    c.logf("  -> %s", ret ? "ok" : "refused");
    obs.viol.raise(c, "set");
    if (ret) {
      VP_CHECK(c, pos >= 0, "accepted-invalid", "mpt_array_set accepted offset %ld on %zu elements", off, n);
      VP_CHECK(c, x.b() && ret == x.b()->data() + pos * k->size, "set-result", "mpt_array_set returned %p, element %ld is at %p", ret, pos, x.b() ? (void *)(x.b()->data() + pos * k->size) : 0);
      if ((size_t)pos < n && cnt) { nontrivial = true; c.label("set:overwrite-inside"); }
      if ((size_t)pos + cnt < n && cnt) c.label("set:tail-kept");
      if ((size_t)pos > n) c.label("set:gap");
      if (x.vals.size() < (size_t)pos + cnt) x.vals.resize(pos + cnt, 0);
      for (size_t i = 0; i < cnt; i++) x.vals[pos + i] = with_data ? k->copy_of(sv[i]) : 0;
      x.k = k; x.tr = tr;
      ++ops_ok;
      c.label("ok:set");
    }
    sync("set");
  }

  void op_insert() {
    Handle &x = pick_handle();
    int hi = (int)(&x - h);
    if (!x.b() || !x.k) return;  // mpt_array_insert on an empty handle creates a raw buffer
    Kind *k = x.k;
    size_t n = x.vals.size();
    size_t cnt = c.weighted({1, 8, 3, 1});
    size_t pos;
    switch (c.weighted({3, 4, 4, 3})) {
      case 0: pos = 0; break;
      case 1: pos = n ? c.range(0, n - 1) : 0; break;
      case 2: pos = n; break;
      default: pos = n + c.range(1, 4); break;  // gap is default constructed by the library
    }
    CBuf *before = x.b();
    bool was_shared = flags_of(before) & BufferShared;
    c.logf("insert h%d (%s): %zu element(s) at %zu (length %zu)", hi, k->name, cnt, pos, n);
    arm(k);
    uint8_t *ret = (uint8_t *)mpt_array_insert(x.a, pos * k->size, cnt * k->size);
    disarm();
    note_detach(x, before, was_shared);
    c.logf("  -> %s", ret ? "ok" : "refused");
    obs.viol.raise(c, "insert");
    if (ret) {
      VP_CHECK(c, ret == x.b()->data() + pos * k->size, "insert-result", "mpt_array_insert returned %p, position %zu is at %p", (void *)ret, pos, (void *)(x.b()->data() + pos * k->size));
      // the inserted region is raw memory: the caller constructs the elements (mpt_config_item_reserve, mpt_command_set)
      std::vector<uint32_t> nv;
      for (size_t i = 0; i < cnt; i++) {
        uint32_t v = k->draw(c);
        k->make(ret + i * k->size, v);
        nv.push_back(model_val(k, v));
      }
      if (x.vals.size() < pos) x.vals.resize(pos, 0);
      x.vals.insert(x.vals.begin() + pos, nv.begin(), nv.end());
      if (pos < n && cnt) { c.label("insert:inside"); }
      if (pos > n) c.label("insert:gap");
      ++ops_ok;
      c.label("ok:insert");
    }
    sync("insert");
  }

  void op_cut() {
    Handle &x = pick_handle();
    int hi = (int)(&x - h);
    if (!x.b() || !x.k) return;
    Kind *k = x.k;
    if (!make_private(x)) { sync("detach before cut"); return; }
    sync("detach before cut");
    size_t n = x.vals.size();
    size_t off, cnt;
    bool truncate = c.chance(40) && !c.exclude("C05-cut-truncate");
    if (truncate) {
      cnt = 0;
      off = c.range(0, n);  // mpt_buffer_cut(buf, off, 0): "only keep data till offset"
    } else {
      cnt = n ? c.range(1, n + 1) : 1;               // one more than available must be refused
      off = c.range(0, n + 1 > cnt ? n + 1 - cnt : 0);  // one past the last valid start must be refused
      if (c.chance(24)) off = n;
    }
    c.logf("cut h%d (%s): %zu element(s) at %zu (length %zu)%s", hi, k->name, cnt, off, n, truncate ? " = truncate" : "");
    ssize_t r = mpt_buffer_cut((buffer *)x.b(), off * k->size, cnt * k->size);
    c.logf("  -> %zd", r);
    obs.viol.raise(c, "cut");
    bool valid = truncate ? off <= n : (cnt <= n && off + cnt <= n);
    if (r >= 0) {
      VP_CHECK(c, valid, "accepted-invalid", "mpt_buffer_cut(off %zu, len %zu elements) accepted on %zu elements", off, cnt, n);
      size_t end = truncate ? n : off + cnt;
      if (off < end) {
        nontrivial = true;
        c.label(end < n ? "cut:inside" : "cut:tail");
      }
      x.vals.erase(x.vals.begin() + off, x.vals.begin() + end);
      VP_CHECK(c, (size_t)r == x.vals.size() * k->size, "cut-result", "mpt_buffer_cut returned %zd, remaining data is %zu bytes", r, x.vals.size() * k->size);
      ++ops_ok;
      c.label(truncate ? "ok:cut-truncate" : "ok:cut");
    } else if (!valid) c.label("refused:cut-out-of-range");
    sync("cut");
  }

  void op_slice() {
    Handle &x = pick_handle();
    int hi = (int)(&x - h);
    if (!x.b() || !x.k) return;
    Kind *k = x.k;
    size_t n = x.vals.size();
    size_t off = c.range(0, n + 3), cnt = c.range(0, 4);
    CBuf *before = x.b();
    bool was_shared = flags_of(before) & BufferShared;
    c.logf("slice h%d (%s): %zu element(s) at %zu (length %zu)", hi, k->name, cnt, off, n);
    arm(k);
    void *ret = mpt_array_slice(x.a, off * k->size, cnt * k->size);
    disarm();
    note_detach(x, before, was_shared);
    c.logf("  -> %s", ret ? "ok" : "refused");
    obs.viol.raise(c, "slice");
    if (ret) {
      VP_CHECK(c, ret == x.b()->data() + off * k->size, "slice-result", "mpt_array_slice returned %p, element %zu is at %p", ret, off, (void *)(x.b()->data() + off * k->size));
      if (off + cnt > n) { x.vals.resize(off + cnt, 0); c.label("slice:extend"); }
      ++ops_ok;
      c.label("ok:slice");
    }
    sync("slice");
  }

  // result of an operation that may keep everything or a prefix of the old content (capacity request below the used size)
  void expect_prefix(Handle &x, const char *op, size_t keep_min) {
    CBuf *b = x.b();
    size_t S = x.k->size, now = b->used / S;
    if (now == x.vals.size()) return;
    VP_CHECK(c, now <= x.vals.size() && now >= keep_min, "content-mismatch", "after %s: %zu elements left of %zu (request covered %zu)", op, now, x.vals.size(), keep_min);
    x.vals.resize(now);
    c.label("truncating-copy");
  }

  void op_reserve() {
    Handle &x = pick_handle();
    int hi = (int)(&x - h);
    size_t n = x.vals.size();
    // same, alias, other kind, raw; variant: a type with the same finaliser but another element size
    int which = variant ? (int)c.weighted({8, 3, 3, 2, 3}) : (int)c.weighted({8, 3, 3, 2});
    Kind *k = x.k ? x.k : primary;
    const type_traits *tr;
    Kind *nk = k;
    if (!x.b()) which = which == 1 ? 0 : which;
    if (x.b() && !x.k && which == 1) which = 0;
    if (which == 4 && !x.k) which = 0;
    switch (which) {
      case 0: tr = x.tr ? x.tr : k->traits; if (x.b() && !x.k && x.tr) nk = 0; break;  // (a buffer of the opaque wide type stays what it is)
      case 4: tr = k->wide.get(); nk = 0; break;
      case 1: tr = (x.tr == k->traits) ? k->alias : k->traits; break;
      case 2: nk = (k == primary) ? other : primary; tr = nk->traits; break;
      default: nk = 0; tr = 0; break;
    }
    size_t esz = nk ? nk->size : 1;
    size_t len = c.near({0, n * esz, 64, 192}, 16 * esz);
    if (c.chance(24)) len += 1;  // not a multiple of the element size: rounded up by the library
    bool huge = variant && c.chance(80);
    if (huge) len = ((size_t)1 << (41 + c.range(0, 21))) + c.range(0, 64) * 8;  // no allocator serves this (allocator_may_return_null=1): the reserve must fail cleanly
    CBuf *before = x.b();
    uint32_t flags_before = before ? flags_of(before) : 0;
    bool was_shared = flags_before & BufferShared;
    bool compatible = x.b() && x.k && nk == x.k;  // same or alias traits: content is kept
    c.logf("reserve h%d: %zu bytes for %s%s (now %s x %zu)", hi, len, nk ? nk->name : "raw", which == 1 ? " (alias traits)" : "", x.k ? x.k->name : x.b() ? "raw" : "none", n);
    arm(compatible ? k : 0);
    buffer *ret = mpt_array_reserve(x.a, len, tr);
    disarm();
    if (compatible) note_detach(x, before, was_shared || (flags_before & BufferImmutable));  // mpt_array_reserve copies (not moves) out of an immutable buffer
    c.logf("  -> %s", ret ? "ok" : "refused");
    obs.viol.raise(c, "reserve");
    if (!ret && huge) {
      c.label(compatible ? "reserve:unservable-same-type" : "reserve:unservable-retype");
      if (was_shared) c.label("reserve:unservable-shared");
      // a refused re-typing of a private buffer may already have discarded the old elements (they were to be discarded anyway):
      // the handle then owns none; what counts is that every element is finalised exactly once
      if (!compatible && before && x.b() == before && !(flags_before & (BufferShared | BufferImmutable)) && before->used == 0 && !x.vals.empty()) {
        x.vals.clear();
        nontrivial = true;
        c.label("reserve:unservable-retype-cleared");
      }
    }
    if (ret) {
      VP_CHECK(c, !huge, "reserve-result", "mpt_array_reserve claims to have reserved %zu bytes", len);
      if (which == 4) {
        // mpt_buffer_set documents "compatible types must share finalizer and size": elements of another size cannot be kept
        c.label("reserve:same-finaliser-other-size");
        VP_CHECK(c, x.b()->used == 0, "retype-keeps-foreign-elements", "reserve for a type of element size %zu kept %zu bytes of elements of size %zu (same finaliser): they will be finalised with the wrong stride", tr->size, x.b()->used, k->size);
      }
      VP_CHECK(c, (CBuf *)ret == x.b(), "reserve-result", "mpt_array_reserve returned %p, handle holds %p", (void *)ret, (void *)x.b());
      VP_CHECK(c, x.b()->size >= len || (flags_of(x.b()) & BufferMapped), "reserve-result", "reserved %zu bytes, buffer size is %zu", len, x.b()->size);
      if (compatible) {
        // same traits: everything the request covers is kept; alias traits (same finaliser, other object) are a type change
        // for which the documentation ("change buffer content type", "clear incompatible data") promises no content
        // likewise a shared no-copy buffer is replaced by an empty one (its elements stay with the other handles)
        size_t keep = (tr == x.tr && !(was_shared && (flags_before & BufferNoCopy))) ? std::min(n, len / esz) : 0;
        x.tr = tr;
        if (strict) expect_prefix(x, "reserve", keep);
      } else {
        if (n) { nontrivial = true; c.label("reserve:type-change-clears"); }
        x.vals.clear();
        x.k = nk;
        x.tr = tr;
      }
      ++ops_ok;
      c.label("ok:reserve");
      // direction of the re-typing (labels only; every direction on shared and private buffers)
      if (before && n) c.label(compatible ? (which == 1 ? "retype:typed-to-alias" : "retype:typed-kept") : nk ? "retype:typed-to-other-finaliser" : "retype:typed-to-raw");
      else if (before && !compatible && nk && !n) c.label("retype:raw-or-empty-to-typed");
      if (before && was_shared) c.label("retype:shared-buffer");
    }
    sync("reserve");
  }

  void op_reduce() {
    Handle &x = pick_handle();
    if (!x.b()) return;
    CBuf *before = x.b();
    bool was_shared = flags_of(before) & BufferShared;
    c.logf("reduce h%d", (int)(&x - h));
    arm(x.k);
    mpt_array_reduce(x.a);
    disarm();
    note_detach(x, before, was_shared);
    c.label("ok:reduce");
    sync("reduce");
  }

  void op_detach() {
    Handle &x = pick_handle();
    if (!x.b()) return;
    CBuf *b = x.b();
    size_t esz = x.k ? x.k->size : 1, n = x.vals.size();
    size_t len = c.near({0, b->used, b->size, b->size + 1}, b->size + 200);
    bool was_shared = flags_of(b) & BufferShared;
    c.logf("detach h%d: capacity %zu (used %zu, size %zu, %s)", (int)(&x - h), len, b->used, b->size, was_shared ? "shared" : "unique");
    arm(x.k);
    CBuf *nb = b->vptr->detach(b, len);
    disarm();
    c.logf("  -> %s", !nb ? "refused" : nb == b ? "same buffer" : "new buffer");
    obs.viol.raise(c, "detach");
    if (nb) {
      cbuf(x.a) = nb;
      VP_CHECK(c, nb->size >= len || (flags_of(nb) & BufferMapped), "detach-result", "detach(%zu) returned a buffer of size %zu", len, nb->size);
      if (x.k && strict) expect_prefix(x, "detach", std::min(n, len / esz));
      note_detach(x, b, was_shared);
      if (nb != b && !was_shared) c.label("detach:moved");
      ++ops_ok;
      c.label("ok:detach");
    } else if (was_shared) c.label("refused:detach-shared");
    sync("detach");
  }

  void op_clone() {
    Handle &d = pick_handle();
    Handle &s = pick_handle();
    if (&d == &s) return;
    if (!s.b()) { if (d.b()) op_release(d); return; }  // a source handle without buffer is C04's finding (NULL dereference): release instead
    bool same_type = !d.b() || d.b()->traits == s.b()->traits;
    c.logf("clone h%d <- h%d", (int)(&d - h), (int)(&s - h));
    int r = mpt_array_clone(d.a, s.a);
    c.logf("  -> %d", r);
    obs.viol.raise(c, "clone");
    if (r >= 0) {
      VP_CHECK(c, same_type, "accepted-invalid", "mpt_array_clone replaced a buffer of a different content type");
      d.vals = s.vals; d.k = s.k; d.tr = s.tr;
      c.label("ok:clone");
    }
    sync("clone");
  }

  // arguments that must be refused without touching anything
  void op_refusals() {
    Handle &x = pick_handle();
    if (!x.b() || !x.k) return;
    Kind *k = x.k;
    size_t n = x.vals.size(), S = k->size;
    int which = (int)c.pick(6);
    CBuf *before = x.b();
    bool was_shared = flags_of(before) & BufferShared;
    switch (which) {
      case 0: {  // element size mismatch
        c.logf("refusal probe h%d: mpt_array_set with a length that is no multiple of the element size", (int)(&x - h));
        std::vector<uint8_t> junk(S + 8, 0);
        void *r = mpt_array_set(x.a, x.tr, S - 1, 0, 0);
        VP_CHECK(c, !r, "accepted-invalid", "mpt_array_set accepted a partial element");
        break;
      }
      case 1: {
        const type_traits *wrong = (k == primary ? other : primary)->traits;
        c.logf("refusal probe h%d: mpt_array_set with foreign traits", (int)(&x - h));
        void *r = mpt_array_set(x.a, wrong, 0, 0, 0);
        VP_CHECK(c, !r, "accepted-invalid", "mpt_array_set accepted elements of a different type");
        break;
      }
      case 2: {
        if (flags_of(x.b()) & (BufferShared | BufferImmutable)) return;
        c.logf("refusal probe h%d: mpt_buffer_cut at a misaligned offset", (int)(&x - h));
        if (!n) return;
        ssize_t r = mpt_buffer_cut((buffer *)x.b(), 1, S);
        VP_CHECK(c, r < 0, "accepted-invalid", "mpt_buffer_cut accepted a misaligned offset");
        break;
      }
      case 3: {
        if (flags_of(x.b()) & (BufferShared | BufferImmutable)) return;
        c.logf("refusal probe h%d: mpt_buffer_cut with a partial element length", (int)(&x - h));
        if (!n) return;
        ssize_t r = mpt_buffer_cut((buffer *)x.b(), 0, S - 1);
        VP_CHECK(c, r < 0, "accepted-invalid", "mpt_buffer_cut accepted a partial element");
        break;
      }
      case 4: {
        c.logf("refusal probe h%d: mpt_array_insert of a partial element", (int)(&x - h));
        void *r = mpt_array_insert(x.a, 0, S - 1);
        VP_CHECK(c, !r, "accepted-invalid", "mpt_array_insert accepted a partial element");
        break;
      }
      default: {
        c.logf("refusal probe h%d: mpt_array_slice at a misaligned offset", (int)(&x - h));
        void *r = mpt_array_slice(x.a, 1, S);
        VP_CHECK(c, !r, "accepted-invalid", "mpt_array_slice accepted a misaligned offset");
        break;
      }
    }
    c.label("refusal-probe");
    note_detach(x, before, was_shared);  // mpt_array_insert makes its private copy before it looks at the length
    sync("refusal probe");
  }

  // the command registry functions work in place on an array the caller owns
  void op_command() {
    Handle &x = pick_handle();
    if (x.b() && (x.k != primary || (flags_of(x.b()) & (BufferShared | BufferImmutable)))) return;
    int hi = (int)(&x - h);
    unique_array<command> *ua = reinterpret_cast<unique_array<command> *>(x.a.get());
    std::vector<size_t> used_slots;
    for (size_t i = 0; i < x.vals.size(); i++) if (x.vals[i]) used_slots.push_back(i);
    int which = (int)c.weighted({6, 3, 2, 1});
    if (which == 3) {
      if (!x.b()) return;
      c.logf("mpt_command_clear(h%d)", hi);
      mpt_command_clear(ua);
      if (!used_slots.empty()) nontrivial = true;
      x.vals.clear();
      c.label("ok:command-clear");
      sync("command clear");
      return;
    }
    if (which && used_slots.empty()) which = 0;
    if (which == 0) {
      obs.cmds.push_back(CmdRec{1, 0, 0});
      uint32_t s = (uint32_t)obs.cmds.size() - 1;
      obs.cmds[s].id = s;
      c.logf("mpt_command_set(h%d, new id %u)", hi, s);
      int r = mpt_command_set(ua, s, (int (*)(void *, void *))cmd_handler, &obs.cmds[s]);
      c.logf("  -> %d", r);
      if (r < 0) { obs.cmds[s].fin = 1; sync("command set"); return; }  // never registered: nothing to finalise
      size_t idx = 0;
      while (idx < x.vals.size() && x.vals[idx]) idx++;
      if (idx < x.vals.size()) { x.vals[idx] = s; c.label("command:reuse-empty-slot"); }
      else x.vals.push_back(s);
      if (!x.k) { x.k = primary; x.tr = primary->traits; }
      c.label("ok:command-set");
    } else {
      size_t idx = used_slots[c.pick(used_slots.size())];
      uintptr_t id = obs.cmds[x.vals[idx]].id;
      if (which == 1) {
        obs.cmds.push_back(CmdRec{1, 0, id});
        uint32_t s = (uint32_t)obs.cmds.size() - 1;
        c.logf("mpt_command_set(h%d, id %lu of slot %zu, new handler context #%u)", hi, (unsigned long)id, idx, s);
        int r = mpt_command_set(ua, id, (int (*)(void *, void *))cmd_handler, &obs.cmds[s]);
        c.logf("  -> %d", r);
        VP_CHECK(c, r == 0, "command-set-result", "replacing the handler of id %lu returned %d", (unsigned long)id, r);
        x.vals[idx] = s;
        c.label("ok:command-replace");
      } else {
        c.logf("mpt_command_set(h%d, id %lu of slot %zu, no handler) = delete", hi, (unsigned long)id, idx);
        int r = mpt_command_set(ua, id, 0, 0);
        c.logf("  -> %d", r);
        VP_CHECK(c, r == 2, "command-set-result", "deleting id %lu returned %d", (unsigned long)id, r);
        x.vals[idx] = 0;
        c.label("ok:command-delete");
      }
      nontrivial = true;
    }
    sync("command set");
  }

  // arrays of arrays: nested buffers whose only reference is an element, handles that move into such a buffer
  // (source of mpt_array_clone lives inside the buffer the destination owns), self and sibling sources
  void op_nested() {
    ArrayKind *ak = (ArrayKind *)libkind.get();
    int which = (int)c.weighted({3, 5, 7, 1, 4});
    if (which == 0) { if (ak->extra_op(c)) sync("harness reference dropped"); return; }
    Handle &x = pick_handle();
    int hi = (int)(&x - h);
    if (!x.b() || x.k != primary) return;
    size_t n = x.vals.size(), S = primary->size;
    switch (which) {
      case 1: {  // nest: a new second level buffer becomes an element of the handle's buffer and is referenced by it only
        if (ak->mids.size() >= 12) return;
        std::vector<uint32_t> mv;
        for (size_t k = c.range(0, 2); k; k--) mv.push_back(ak->draw(c));
        size_t pos = c.range(0, n);
        CBuf *before = x.b();
        bool was_shared = flags_of(before) & BufferShared;
        CBuf *mb = ak->new_mid(mv);
        uint32_t v = 100 + (uint32_t)ak->mids.size() - 1;
        c.logf("nest h%d: new nested buffer %u with %zu element(s) inserted as element %zu (length %zu)", hi, v - 100, mv.size(), pos, n);
        uint8_t *ret = (uint8_t *)mpt_array_insert(x.a, pos * S, S);
        note_detach(x, before, was_shared);
        if (ret) {
          ak->make(ret, v);
          x.vals.insert(x.vals.begin() + pos, v);
          c.label("nested:nest");
        }
        mb->vptr->unref(mb);  // the creator lets go: the element holds the only reference (or nobody, when the insert was refused)
        sync("nest");
        return;
      }
      case 2: {  // descend / sibling: the source of the assignment is an element of the buffer the destination handle names
        if (!n) return;
        size_t e = c.pick(n);
        if (c.chance(176)) for (size_t i = 0; i < n; i++) if (x.vals[(e + i) % n] >= 100) { e = (e + i) % n; break; }  // prefer an element naming a nested buffer
        uint32_t v = x.vals[e];
        bool sole = !(flags_of(x.b()) & BufferShared);
        const array *src = (const array *)slot(x.b(), e, S);
        c.logf("mpt_array_clone(h%d, element %zu of its own buffer = %s %u) (%s owner)", hi, e, v >= 100 ? "nested buffer" : v ? "inner buffer" : "empty array", v >= 100 ? v - 100 : v, sole ? "sole" : "shared");
        int r = mpt_array_clone(x.a, src);
        c.logf("  -> %d", r);
        obs.viol.raise(c, "descend");
        if (v >= 100 && x.tr != ak->mids[v - 100].b->traits) {
          VP_CHECK(c, r < 0, "accepted-invalid", "mpt_array_clone replaced a buffer by one with another content traits object (returned %d)", r);
          c.label("nested:sibling-type-refused");
        } else if (v >= 100) {
          VP_CHECK(c, r == 3 && x.b() == ak->mids[v - 100].b, "clone-result", "moving the handle into the nested buffer its own element names returned %d", r);
          x.vals = ak->mids[v - 100].vals;
          nontrivial = true;
          c.label(sole ? "nested:descend-sole-owner" : "nested:descend-shared-parent");
        } else if (v) {
          VP_CHECK(c, r < 0, "accepted-invalid", "mpt_array_clone replaced an array of arrays by a buffer of token elements (returned %d)", r);
          c.label("nested:sibling-type-refused");
        } else {
          VP_CHECK(c, r == 2 && !x.b(), "clone-result", "assigning an empty element of the own buffer returned %d", r);
          x.vals.clear(); x.k = 0; x.tr = 0;
          c.label("nested:descend-empty");
        }
        sync("descend");
        return;
      }
      case 3: {  // source and destination are the same handle
        c.logf("mpt_array_clone(h%d, h%d)", hi, hi);
        int r = mpt_array_clone(x.a, x.a);
        VP_CHECK(c, r == 0, "clone-result", "assigning a handle to itself returned %d", r);
        c.label("nested:self-clone");
        sync("self clone");
        return;
      }
      default: {  // set a range from elements of the own buffer (disjoint, inside the capacity, private buffer: nothing moves)
        if (flags_of(x.b()) & (BufferShared | BufferImmutable)) return;
        if (n < 1) return;
        size_t k = c.range(1, n > 3 ? 3 : n), from = c.range(0, n - k);
        size_t cap = x.b()->size / S;
        // target behind or in front of the source range without overlap
        size_t pos = c.flip() ? from + k + c.range(0, 2) : (from >= k ? c.range(0, from - k) : from + k);
        if (pos + k > cap || (pos < from + k && from < pos + k)) return;
        c.logf("set h%d: %zu element(s) at %zu copied from its own elements at %zu (length %zu)", hi, k, pos, from, n);
        std::vector<uint32_t> sv(x.vals.begin() + from, x.vals.begin() + from + k);
        void *ret = mpt_array_set(x.a, x.tr, k * S, slot(x.b(), from, S), (long)pos);
        c.logf("  -> %s", ret ? "ok" : "refused");
        obs.viol.raise(c, "set from own elements");
        if (ret) {
          if (x.vals.size() < pos + k) x.vals.resize(pos + k, 0);
          for (size_t i = 0; i < k; i++) x.vals[pos + i] = sv[i];
          if (pos < n) nontrivial = true;
          c.label("nested:set-from-own-elements");
        }
        sync("set from own elements");
        return;
      }
    }
  }

  // config items: lazy removal (name cleared, value / children kept) and reuse of such slots by mpt_config_item_reserve
  void op_cfg() {
    typedef CfgItemKind K;
    Handle &x = pick_handle();
    int hi = (int)(&x - h);
    if (x.b() && (x.k != primary || (flags_of(x.b()) & (BufferShared | BufferImmutable)))) return;  // both work in place on an array the caller owns
    size_t n = x.vals.size(), S = primary->size;
    if (c.flip()) {
      if (!x.b() || !n) return;
      size_t e = c.pick(n);
      config_item *it = (config_item *)slot(x.b(), e, S);
      c.logf("h%d: item %zu gives up its name (lazy removal), value and children stay", hi, e);
      mpt_identifier_set(&K::it_ident(it), 0, 0);
      if ((x.vals[e] & 15) && (x.vals[e] & ~15u)) { nontrivial = true; c.label("cfg:unnamed-with-content"); }
      x.vals[e] &= ~15u;
      sync("name cleared");
      return;
    }
    uint32_t t = (uint32_t)c.range(1, NNames);
    CObj<path> p;
    p->sep = '.';
    mpt_path_set(p, kNames[t], -1);
    c.logf("mpt_config_item_reserve(h%d, \"%s\")  (length %zu)", hi, kNames[t], n);
    config_item *ret = mpt_config_item_reserve(reinterpret_cast<unique_array<config_item> *>(x.a.get()), p);
    c.logf("  -> %s", ret ? "ok" : "refused");
    obs.viol.raise(c, "config item reserve");
    if (ret) {
      size_t idx = n, unused = n;
      for (size_t i = 0; i < n; i++) {
        if (!(x.vals[i] & 15)) { if (unused == n) unused = i; continue; }
        if ((x.vals[i] & 15) == t) { idx = i; break; }
      }
      if (idx < n) c.label("cfg:reserve-existing");
      else if (unused < n) {
        idx = unused;
        if (x.vals[idx]) { nontrivial = true; c.label("cfg:reserve-reuses-unnamed-with-content"); } else c.label("cfg:reserve-reuses-default");
        x.vals[idx] = K::enc(t, 0, (x.vals[idx] & 256) != 0);  // old value released, children removed (the buffer object may stay attached)
      } else {
        x.vals.push_back(K::enc(t, 0, false));
        c.label("cfg:reserve-appends");
      }
      if (!x.k) { x.k = primary; x.tr = primary->traits; }
      VP_CHECK(c, x.b() && (uint8_t *)ret == slot(x.b(), idx, S), "reserve-result", "mpt_config_item_reserve returned %p, item %zu is at %p", (void *)ret, idx, x.b() ? (void *)slot(x.b(), idx, S) : 0);
    }
    sync("config item reserve");
  }

  void step() {
    for (auto &x : h) x.relax = false;
    if (variant && libkind && !strcmp(libkind->name, "cfgitem") && c.chance(72)) { op_cfg(); return; }
    if (libkind && !strcmp(libkind->name, "command") && c.chance(64)) { op_command(); return; }
    if (libkind && !strcmp(libkind->name, "array") && c.chance(72)) { op_nested(); return; }
    switch (c.weighted({7, 24, 12, 14, 6, 8, 3, 9, 10, 4, 3, 3})) {
      case 0: op_create(); break;
      case 1: op_set(); break;
      case 2: op_insert(); break;
      case 3: op_cut(); break;
      case 4: op_slice(); break;
      case 5: op_reserve(); break;
      case 6: op_reduce(); break;
      case 7: op_detach(); break;
      case 8: op_clone(); break;
      case 9: { Handle &x = pick_handle(); if (x.b()) op_release(x); break; }
      case 10: op_refusals(); break;
      default:
        if (libkind && !strcmp(libkind->name, "array")) op_nested();
        else if (libkind && libkind->extra_op(c)) sync("harness reference dropped");
        break;
    }
  }

  void finish() {
    for (int i = 0; i < 3; i++) if (h[i].b()) op_release(h[i]);
    if (libkind) { libkind->cleanup(); sync("harness references dropped"); }
    VP_CHECK(c, obs.trk.live.empty(), "element-not-finalised", "%zu element(s) alive after the last release", obs.trk.live.size());
    for (auto &m : obs.metas.objs)
      VP_CHECK(c, m->destroyed == 1 && m->refs == 0, "resource-not-released", "metatype #%d: reference count %lu, destructor ran %d time(s) after everything was released", m->id, (unsigned long)m->refs, m->destroyed);
    for (size_t i = 1; i < obs.cmds.size(); i++)
      VP_CHECK(c, obs.cmds[i].fin == 1, obs.cmds[i].fin ? "double-fini" : "element-not-finalised", "command #%zu finalised %d time(s) after everything was released", i, obs.cmds[i].fin);
  }
};

static void run_c(Ctx &c, int kind, bool variant = false) {
  Sim s(c);
  s.variant = variant;
  switch (kind) {
    case 0: s.primary = s.tok16.get(); s.other = s.tok24.get(); break;
    case 1: s.primary = s.tok24.get(); s.other = s.tok16.get(); break;
    case 2: s.libkind.reset(new ArrayKind()); break;
    case 3: s.libkind.reset(new MetaRefKind()); break;
    case 4: s.libkind.reset(new IdentKind()); break;
    case 5: s.libkind.reset(new CfgItemKind()); break;
    case 12: s.libkind.reset(new MetaRefKind("inputref", mpt_input_reference_traits())); break;
    default: s.libkind.reset(new CommandKind()); break;
  }
  if (s.libkind) { s.primary = s.libkind.get(); s.other = s.tok24.get(); }
  c.logf("element kind: %s%s", s.primary->name, variant ? " (variant: unservable reserve sizes, unnamed config items)" : "");
  c.label(s.primary->name);
  if (variant) c.label("variant:unservable-sizes");
  while (c.more()) s.step();
  s.finish();
  if (s.nontrivial) c.nontrivial();
  c.count("ops-succeeded", s.ops_ok);
}

// ================================================================== C++ containers
// counting element with the layout of a 16 byte token element
struct CT {
  uint64_t token;
  uint32_t val, inv;
  CT() { if (W) W->trk.init(this, 0, 16); }
  explicit CT(uint32_t v) { if (W) W->trk.make(this, v, 16); }
  CT(const CT &o) { if (W) W->trk.init(this, &o, 16); }
  CT &operator=(const CT &o) { if (W) W->trk.assign(this, &o); return *this; }
  ~CT() { if (W) W->trk.fini(this, 16); }
};

template <class A>
struct CxxSim {
  Ctx &c;
  Obs obs;
  A *h;  // heap: left alone after an oracle failure
  std::vector<uint32_t> vals[3];
  bool relax[3] = {false, false, false};
  bool nontrivial = false;
  const char *flavour;

  CxxSim(Ctx &ctx, const char *f) : c(ctx), flavour(f) { W = &obs; h = new A[3]; }
  ~CxxSim() {
    if (std::uncaught_exceptions()) { W = 0; return; }
    delete[] h;
    W = 0;
  }
  CBuf *buf(int i) { return (CBuf *)h[i]._ref.instance(); }
  bool real(CBuf *b) { return b && b->size; }  // the static default_data placeholder has size 0
  void relax_sharers(int i) { for (int j = 0; j < 3; j++) if (j != i && real(buf(i)) && buf(j) == buf(i)) relax[j] = true; }

  void sync(const char *op) {
    obs.viol.raise(c, op);
    Tracker &t = obs.trk;
    t.tally_begin();
    CBuf *seen[3];
    int nseen = 0;
    for (int i = 0; i < 3; i++) {
      CBuf *b = buf(i);
      VP_CHECK(c, b, "handle-lost-buffer", "after %s: handle %d holds no buffer object at all", op, i);
      VP_CHECK(c, b->used <= b->size, "used-beyond-size", "after %s: handle %d: used %zu > size %zu", op, i, b->used, b->size);
      VP_CHECK(c, b->used % 16 == 0, "partial-element", "after %s: handle %d: used %zu is not a multiple of the element size", op, i, b->used);
      bool first = true;
      for (int j = 0; j < nseen; j++) if (seen[j] == b) first = false;
      std::vector<uint32_t> got;
      for (size_t e = 0; e < b->used / 16; e++) {
        uint32_t v = 0;
        std::string why;
        bool ok = t.read(slot(b, e, 16), 16, v, why);
        VP_CHECK(c, ok, "dead-element-in-buffer", "after %s: handle %d: slot %zu of %zu %s", op, i, e, b->used / 16, why.c_str());
        got.push_back(v);
        if (first && !t.tally(slot(b, e, 16))) c.fail("element-bytes-duplicated", "after %s: handle %d: slot %zu holds an element that also occupies another slot", op, i, e);
      }
      if (first) seen[nseen++] = b;
      if (!relax[i]) {
        if (got != vals[i]) {
          std::string g, w;
          for (uint32_t v : got) g += std::to_string(v) + " ";
          for (uint32_t v : vals[i]) w += std::to_string(v) + " ";
          c.fail("content-mismatch", "after %s: handle %d reads [ %s] but a value-semantics vector holds [ %s]", op, i, g.c_str(), w.c_str());
        }
      } else {
        vals[i] = got;
      }
      relax[i] = false;
      if (real(b)) {
        int users = 0;
        for (int j = 0; j < 3; j++) if (buf(j) == b) users++;
        bool shared = flags_of(b) & BufferShared;
        VP_CHECK(c, shared == (users > 1), "buffer-refcount", "after %s: handle %d: buffer is named by %d handle(s) but reports %s", op, i, users, shared ? "shared" : "not shared");
      }
      if (c.verbose()) {
        std::string g;
        for (uint32_t v : got) g += std::to_string(v) + " ";
        c.logf("    a%d: [ %s] used %zu size %zu flags %x", i, g.c_str(), b->used, b->size, flags_of(b));
      }
    }
    std::string first;
    size_t lost = t.unseen(first);
    VP_CHECK(c, !lost, "element-not-finalised", "after %s: %zu live element(s) are in no buffer any more and were never finalised, e.g. %s", op, lost, first.c_str());
  }

  long draw_pos(size_t n) {
    switch (c.weighted({3, 4, 3, 3, 3})) {
      case 0: return 0;
      case 1: return n ? (long)c.range(0, n - 1) : 0;
      case 2: return (long)n;
      case 3: return (long)n + (long)c.range(1, 3);
      default: return -(long)c.range(1, n + 1);
    }
  }
  // typed_array<T>::insert(pos, value) / unique_array<T>::insert(pos) + assignment
  bool do_insert(typed_array<CT> &a, long pos, uint32_t v) { CT tmp(v); return a.insert(pos, tmp); }
  bool do_insert(unique_array<CT> &a, long pos, uint32_t v) {
    CT *p = a.insert(pos);
    if (!p) return false;
    CT tmp(v);
    *p = tmp;
    return true;
  }
  void op_insert() {
    int i = (int)c.pick(3);
    size_t n = vals[i].size();
    long pos = draw_pos(n);
    uint32_t v = (uint32_t)c.range(1, 9);
    relax_sharers(i);
    c.logf("a%d.insert(%ld, %u)  (length %zu)", i, pos, v, n);
    bool ok = do_insert(h[i], pos, v);
    c.logf("  -> %d", ok);
    obs.viol.raise(c, "insert");
    long at = pos < 0 ? pos + (long)n : pos;
    if (ok) {
      VP_CHECK(c, at >= 0, "accepted-invalid", "insert accepted position %ld on %zu elements", pos, n);
      if (vals[i].size() < (size_t)at) vals[i].resize(at, 0);
      vals[i].insert(vals[i].begin() + at, v);
      c.label((size_t)at < n ? "cxx:insert-inside" : (size_t)at > n ? "cxx:insert-gap" : "cxx:insert-end");
    }
    sync("insert");
  }
  void op_set() {
    int i = (int)c.pick(3);
    size_t n = vals[i].size();
    long pos = draw_pos(n);
    uint32_t v = (uint32_t)c.range(1, 9);
    relax_sharers(i);
    CBuf *before = buf(i);
    bool was_shared = real(before) && (flags_of(before) & BufferShared);
    c.logf("a%d.set(%ld, %u)  (length %zu)", i, pos, v, n);
    bool ok;
    { CT tmp(v); ok = h[i].set(pos, tmp); }
    c.logf("  -> %d", ok);
    obs.viol.raise(c, "set");
    long at = pos < 0 ? pos + (long)n : pos;
    if (ok) {
      VP_CHECK(c, at >= 0 && (size_t)at < n, "accepted-invalid", "set accepted position %ld on %zu elements", pos, n);
      vals[i][at] = v;
      if (was_shared && buf(i) != before) { nontrivial = true; c.label("cxx:shared-copy"); }
      c.label("cxx:set");
    }
    sync("set");
  }
  void op_resize() {
    int i = (int)c.pick(3);
    size_t n = vals[i].size();
    long len = (long)c.near({0, 1, n, n + 1}, n + 5);
    if (c.chance(16)) len = -(long)c.range(1, 3);
    relax_sharers(i);
    c.logf("a%d.resize(%ld)  (length %zu)", i, len, n);
    bool ok = h[i].resize(len);
    c.logf("  -> %d", ok);
    obs.viol.raise(c, "resize");
    if (ok && len >= 0) {
      if ((size_t)len < n) { nontrivial = true; c.label("cxx:resize-shrink"); }
      if ((size_t)len > n) c.label("cxx:resize-grow");
      vals[i].resize(len, 0);
    }
    sync("resize");
  }
  void op_reserve() {
    int i = (int)c.pick(3);
    size_t n = vals[i].size();
    long len = (long)c.near({0, n, 4, 12}, 20);
    if (c.chance(24)) len = -(long)c.range(1, n + 1);
    relax_sharers(i);
    c.logf("a%d.reserve(%ld)  (length %zu)", i, len, n);
    bool ok = h[i].reserve(len);
    c.logf("  -> %d", ok);
    c.label("cxx:reserve");
    sync("reserve");
  }
  void op_detach() {
    int i = (int)c.pick(3);
    relax_sharers(i);
    CBuf *before = buf(i);
    bool was_shared = real(before) && (flags_of(before) & BufferShared);
    c.logf("a%d.detach()", i);
    bool ok = h[i].detach();
    c.logf("  -> %d", ok);
    if (ok && was_shared && buf(i) != before) { nontrivial = true; c.label("cxx:shared-copy"); }
    sync("detach");
  }
  void op_assign() {
    int i = (int)c.pick(3), j = (int)c.pick(3);
    c.logf("a%d = a%d", i, j);
    h[i] = h[j];
    vals[i] = vals[j];
    c.label("cxx:assign");
    sync("assign");
  }
  void op_release() {
    int i = (int)c.pick(3);
    c.logf("a%d = empty array", i);
    h[i] = A();
    vals[i].clear();
    sync("release");
  }
  // buffer member functions on a private buffer
  bool private_buffer(int i) {
    relax_sharers(i);
    if (!h[i].detach()) return false;
    CBuf *b = buf(i);
    return real(b) && !(flags_of(b) & (BufferShared | BufferImmutable));
  }
  void op_trim_skip() {
    int i = (int)c.pick(3);
    if (!private_buffer(i)) { sync("detach"); return; }
    sync("detach");
    size_t n = vals[i].size();
    size_t k = c.near({0, 1, n, n + 1}, n + 1);
    bool skip = c.flip(), odd = c.chance(16);
    size_t bytes = k * 16 + (odd ? 8 : 0);
    content<CT> *d = h[i]._ref.instance();
    c.logf("a%d: buffer::%s(%zu bytes)  (length %zu)", i, skip ? "skip" : "trim", bytes, n);
    bool ok = skip ? d->skip(bytes) : d->trim(bytes);
    c.logf("  -> %d", ok);
    obs.viol.raise(c, skip ? "skip" : "trim");
    if (ok) {
      VP_CHECK(c, !odd && k <= n, "accepted-invalid", "buffer::%s accepted %zu bytes on %zu elements", skip ? "skip" : "trim", bytes, n);
      if (skip) vals[i].erase(vals[i].begin(), vals[i].begin() + k);
      else vals[i].resize(n - k);
      if (k) { nontrivial = true; c.label(skip ? "cxx:skip" : "cxx:trim"); }
    }
    sync(skip ? "skip" : "trim");
  }
  void op_copy_move() {
    int i = (int)c.pick(3), j = (int)c.pick(3);
    if (i == j || !private_buffer(i)) { sync("detach"); return; }
    sync("detach");
    bool move = c.chance(96);
    if (move && !private_buffer(j)) { sync("detach"); return; }
    sync("detach");
    content<CT> *d = h[i]._ref.instance(), *s = h[j]._ref.instance();
    if (d == s) return;
    size_t n = vals[i].size(), m = vals[j].size();
    c.logf("a%d: buffer::%s(buffer of a%d)  (length %zu <- %zu)", i, move ? "move" : "copy", j, n, m);
    bool ok = move ? d->move(*s) : d->copy(*s);
    c.logf("  -> %d", ok);
    obs.viol.raise(c, move ? "move" : "copy");
    if (ok) {
      vals[i] = vals[j];
      if (move) vals[j].clear();
      if (n) nontrivial = true;
      c.label(move ? "cxx:buffer-move" : m < n ? "cxx:buffer-copy-shrinks" : "cxx:buffer-copy");
    }
    sync(move ? "move" : "copy");
  }
  void op_get() {
    int i = (int)c.pick(3);
    size_t n = vals[i].size();
    long pos = draw_pos(n);
    CT *p = h[i].get(pos);
    long at = pos < 0 ? pos + (long)n : pos;
    bool valid = at >= 0 && (size_t)at < n;
    VP_CHECK(c, (p != 0) == valid || relax[i], "get-result", "a%d.get(%ld) on %zu elements returned %p", i, pos, n, (void *)p);
  }
  void run() {
    c.logf("C++ containers: %s<counting T>", flavour);
    c.label(flavour);
    sync("start");
    while (c.more()) {
      for (auto &r : relax) r = false;
      switch (c.weighted({16, 10, 12, 5, 5, 8, 3, 10, 8, 2})) {
        case 0: op_insert(); break;
        case 1: op_set(); break;
        case 2: op_resize(); break;
        case 3: op_reserve(); break;
        case 4: op_detach(); break;
        case 5: op_assign(); break;
        case 6: op_release(); break;
        case 7: op_trim_skip(); break;
        case 8: op_copy_move(); break;
        default: op_get(); break;
      }
    }
    for (int i = 0; i < 3; i++) { h[i] = A(); vals[i].clear(); }
    sync("final release");
    VP_CHECK(c, obs.trk.live.empty(), "element-not-finalised", "%zu element(s) alive after the last release", obs.trk.live.size());
    if (nontrivial) c.nontrivial();
  }
};

// ---------------- reference_array<T> / item_array<T> with counted objects of several sizes
struct RState { long refs; int destroyed; int id; };
static std::map<const void *, RState> *g_robj;
template <size_t N>
struct RObj {
  uint8_t bytes[N];
  void unref() {
    auto it = g_robj->find(this);
    if (it == g_robj->end()) { if (W) W->viol.rec("fini-non-element", "unref() called on %p, which is not an object (reference slot misread)", (void *)this); return; }
    if (it->second.destroyed || !it->second.refs) { if (W) W->viol.rec("unref-after-destroy", "unref() on object #%d after its last reference was dropped", it->second.id); return; }
    if (!--it->second.refs) it->second.destroyed++;
  }
  uintptr_t addref() {
    auto it = g_robj->find(this);
    if (it == g_robj->end() || it->second.destroyed) { if (W) W->viol.rec("addref-after-destroy", "addref() on %p which is not a live object", (void *)this); return 0; }
    return ++it->second.refs;
  }
};

template <size_t N>
static void run_refarray(Ctx &c) {
  typedef RObj<N> T;
  Obs obs;
  W = &obs;
  std::map<const void *, RState> table;
  g_robj = &table;
  struct Guard { ~Guard() { W = 0; g_robj = 0; } } guard;
  enum { R = 3 };
  std::unique_ptr<T> obj[R + 1];
  bool held[R + 1] = {false};
  for (int r = 1; r <= R; r++) { obj[r].reset(new T()); table[obj[r].get()] = RState{1, 0, r}; held[r] = true; }
  reference_array<T> *h = new reference_array<T>[2];
  std::vector<int> vals[2];
  bool relax[2] = {false, false};
  char name[40];
  snprintf(name, sizeof name, "reference_array<sizeof %zu>", N);
  c.logf("C++ containers: %s", name);
  c.label(N == 4 ? "reference_array<4>" : N == 8 ? "reference_array<8>" : "reference_array<24>");
  bool nontrivial = false;
  unsigned ok_inserts = 0;
  auto index = [&](const void *p) { for (int r = 1; r <= R; r++) if (p == obj[r].get()) return r; return p ? -1 : 0; };
  auto sync = [&](const char *op) {
    obs.viol.raise(c, op);
    long cnt[R + 1] = {0};
    CBuf *seen[2];
    int nseen = 0;
    for (int i = 0; i < 2; i++) {
      CBuf *b = (CBuf *)h[i]._ref.instance();
      VP_CHECK(c, b && b->used <= b->size, "used-beyond-size", "after %s: handle %d: used beyond size", op, i);
      VP_CHECK(c, b->used % sizeof(void *) == 0, "partial-element", "after %s: handle %d: used %zu is not a multiple of the reference size", op, i, b->used);
      bool first = true;
      for (int j = 0; j < nseen; j++) if (seen[j] == b) first = false;
      std::vector<int> got;
      for (size_t e = 0; e < b->used / sizeof(void *); e++) {
        int r = index(*(void **)slot(b, e, sizeof(void *)));
        VP_CHECK(c, r >= 0, "dead-element-in-buffer", "after %s: handle %d: slot %zu holds an unknown pointer", op, i, e);
        VP_CHECK(c, !r || !table[obj[r].get()].destroyed, "dead-element-in-buffer", "after %s: handle %d: slot %zu references object #%d which was already destroyed", op, i, e, r);
        got.push_back(r);
        if (first) cnt[r]++;
      }
      if (first) seen[nseen++] = b;
      if (!relax[i]) {
        if (got != vals[i]) {
          std::string g, w;
          for (int v : got) g += std::to_string(v) + " ";
          for (int v : vals[i]) w += std::to_string(v) + " ";
          c.fail("content-mismatch", "after %s: handle %d reads [ %s] but a value-semantics vector holds [ %s]", op, i, g.c_str(), w.c_str());
        }
      } else vals[i] = got;
      relax[i] = false;
      if (c.verbose()) {
        std::string g;
        for (int v : got) g += std::to_string(v) + " ";
        c.logf("    r%d: [ %s] used %zu size %zu", i, g.c_str(), b->used, b->size);
      }
    }
    for (int r = 1; r <= R; r++) {
      RState &s = table[obj[r].get()];
      long expect = cnt[r] + (held[r] ? 1 : 0);
      c.logf("    object #%d: %ld slot(s) + %d harness reference, counter %ld, destroyed %d", r, cnt[r], held[r] ? 1 : 0, s.refs, s.destroyed);
      VP_CHECK(c, s.refs == expect, s.refs > expect ? "resource-not-released" : "resource-released-early", "after %s: object #%d has reference count %ld, but %ld slot(s)%s reference it", op, r, s.refs, cnt[r], held[r] ? " and the harness" : "");
    }
  };
  auto same = [&](int i) { int j = 1 - i; CBuf *a = (CBuf *)h[i]._ref.instance(), *b = (CBuf *)h[j]._ref.instance(); if (a == b && a->size) relax[j] = true; };
  sync("start");
  while (c.more()) {
    relax[0] = relax[1] = false;
    int i = (int)c.pick(2);
    size_t n = vals[i].size();
    switch (c.weighted({12, 6, 6, 4, 3, 3, 3})) {
      case 0: {  // insert
        long pos = (long)c.range(0, n + 2) - 1;
        int r = (int)c.range(0, R);
        if (r && !held[r]) r = 0;
        same(i);
        c.logf("r%d.insert(%ld, object #%d)  (length %zu)", i, pos, r, n);
        if (r) obj[r]->addref();  // the reference is handed over on success
        bool ok = h[i].insert(pos, r ? obj[r].get() : 0);
        c.logf("  -> %d", ok);
        if (!ok && r) obj[r]->unref();
        long at = pos < 0 ? pos + (long)n : pos;
        if (ok) {
          VP_CHECK(c, at >= 0, "accepted-invalid", "insert accepted position %ld", pos);
          if (vals[i].size() < (size_t)at) vals[i].resize(at, 0);
          vals[i].insert(vals[i].begin() + at, r);
          ++ok_inserts;
          c.label("refarray:insert");
        } else c.label("refarray:insert-refused");
        sync("insert");
        break;
      }
      case 1: {  // set
        long pos = (long)c.range(0, n + 1) - 1;
        int r = (int)c.range(0, R);
        if (r && !held[r]) r = 0;
        same(i);
        c.logf("r%d.set(%ld, object #%d)  (length %zu)", i, pos, r, n);
        if (r) obj[r]->addref();
        bool ok = h[i].set(pos, r ? obj[r].get() : 0);
        c.logf("  -> %d", ok);
        if (!ok && r) obj[r]->unref();
        long at = pos < 0 ? pos + (long)n : pos;
        if (ok) {
          VP_CHECK(c, at >= 0 && (size_t)at < n, "accepted-invalid", "set accepted position %ld on %zu", pos, n);
          if (vals[i][at]) nontrivial = true;
          vals[i][at] = r;
          c.label("refarray:set");
        }
        sync("set");
        break;
      }
      case 2: {  // resize
        long len = (long)c.range(0, n + 3);
        same(i);
        c.logf("r%d.resize(%ld)  (length %zu)", i, len, n);
        bool ok = h[i].resize(len);
        c.logf("  -> %d", ok);
        if (ok) {
          if ((size_t)len < n) { nontrivial = true; c.label("refarray:shrink"); }
          vals[i].resize(len, 0);
        }
        sync("resize");
        break;
      }
      case 3: {  // clear(ref)
        int r = (int)c.range(0, R);
        same(i);
        c.logf("r%d.clear(object #%d)", i, r);
        long k = h[i].clear(r ? obj[r].get() : 0);
        long want = 0;
        for (auto &v : vals[i]) if (v && (!r || v == r)) { v = 0; ++want; }
        VP_CHECK(c, k == want || relax[1 - i], "clear-result", "clear returned %ld, %ld references matched", k, want);
        if (want) nontrivial = true;
        sync("clear");
        break;
      }
      case 4: {  // share
        int j = 1 - i;
        c.logf("r%d = r%d", i, j);
        h[i] = h[j];
        vals[i] = vals[j];
        sync("assign");
        break;
      }
      case 5: {  // release
        c.logf("r%d = empty array", i);
        if (n) nontrivial = true;
        h[i] = reference_array<T>();
        vals[i].clear();
        c.label("refarray:release");
        sync("release");
        break;
      }
      default: {  // harness drops a reference of its own
        int r = (int)c.range(1, R);
        if (!held[r]) break;
        c.logf("harness drops its reference on object #%d", r);
        obj[r]->unref();
        held[r] = false;
        sync("harness reference dropped");
        break;
      }
    }
  }
  for (int i = 0; i < 2; i++) { h[i] = reference_array<T>(); vals[i].clear(); }
  for (int r = 1; r <= R; r++) if (held[r]) { obj[r]->unref(); held[r] = false; }
  sync("final release");
  for (int r = 1; r <= R; r++) VP_CHECK(c, table[obj[r].get()].destroyed == 1, "resource-not-released", "object #%d destroyed %d time(s) after everything was released", r, table[obj[r].get()].destroyed);
  delete[] h;
  c.count("refarray:inserts-ok", ok_inserts);
  if (nontrivial) c.nontrivial();
}

static void run_itemarray(Ctx &c, bool long_names = false) {
  typedef RObj<8> T;
  Obs obs;
  W = &obs;
  std::map<const void *, RState> table;
  g_robj = &table;
  struct Guard { ~Guard() { W = 0; g_robj = 0; } } guard;
  enum { R = 3 };
  std::unique_ptr<T> obj[R + 1];
  for (int r = 1; r <= R; r++) { obj[r].reset(new T()); table[obj[r].get()] = RState{1, 0, r}; }
  item_array<T> *h = new item_array<T>[2];
  struct V { int r; int name; bool operator==(const V &o) const { return r == o.r && name == o.name; } };
  std::vector<V> vals[2];
  bool relax[2] = {false, false};
  c.logf("C++ containers: item_array<counted object>%s", long_names ? " with names around the identifier limit" : "");
  c.label(long_names ? "item_array:long-names" : "item_array");
  bool nontrivial = false;
  auto sync = [&](const char *op) {
    obs.viol.raise(c, op);
    long cnt[R + 1] = {0};
    CBuf *seen[2];
    int nseen = 0;
    for (int i = 0; i < 2; i++) {
      CBuf *b = (CBuf *)h[i]._ref.instance();
      size_t S = sizeof(item<T>);
      VP_CHECK(c, b && b->used <= b->size && b->used % S == 0, "partial-element", "after %s: handle %d: used %zu size %zu", op, i, b ? b->used : 0, b ? b->size : 0);
      bool first = true;
      for (int j = 0; j < nseen; j++) if (seen[j] == b) first = false;
      std::vector<V> got;
      for (size_t e = 0; e < b->used / S; e++) {
        item<T> *it = (item<T> *)slot(b, e, S);
        int r = 0;
        for (int k = 1; k <= R; k++) if (it->instance() == obj[k].get()) r = k;
        VP_CHECK(c, r || !it->instance(), "dead-element-in-buffer", "after %s: handle %d: item %zu holds an unknown pointer", op, i, e);
        VP_CHECK(c, !r || !table[obj[r].get()].destroyed, "dead-element-in-buffer", "after %s: handle %d: item %zu references object #%d which was already destroyed", op, i, e, r);
        uint32_t nm = name_index(static_cast<identifier *>(it));
        if (nm == UINT32_MAX && it->_len > 40) {  // long name of the long_names scenario: identified by its length
          const char *txt = (const char *)mpt_identifier_data(it);
          bool ok = txt != 0;
          for (size_t q = 0; ok && q + 1 < it->_len; q += 997) ok = txt[q] == 'n';
          VP_CHECK(c, ok, "dead-element-in-buffer", "after %s: handle %d: item %zu has a damaged long name", op, i, e);
          got.push_back(V{r, -(int)(it->_len - 1)});
          if (first) cnt[r]++;
          continue;
        }
        VP_CHECK(c, nm <= NNames, "dead-element-in-buffer", "after %s: handle %d: item %zu has %s", op, i, e, nm == UINT32_MAX - 1 ? "an identifier that was already finalised" : "an unexpected name");
        got.push_back(V{r, (int)nm});
        if (first) cnt[r]++;
      }
      if (first) seen[nseen++] = b;
      if (!relax[i]) {
        bool eq = got.size() == vals[i].size();
        for (size_t k = 0; eq && k < got.size(); k++) eq = got[k] == vals[i][k];
        if (!eq) {
          std::string g, w;
          for (auto &v : got) g += std::to_string(v.r) + ":" + std::to_string(v.name) + " ";
          for (auto &v : vals[i]) w += std::to_string(v.r) + ":" + std::to_string(v.name) + " ";
          c.fail("content-mismatch", "after %s: handle %d reads [ %s] but a value-semantics vector holds [ %s] (object:name)", op, i, g.c_str(), w.c_str());
        }
      } else vals[i] = got;
      relax[i] = false;
      if (c.verbose()) {
        std::string g;
        for (auto &v : got) g += std::to_string(v.r) + ":" + std::to_string(v.name) + " ";
        c.logf("    i%d: [ %s] used %zu size %zu", i, g.c_str(), b->used, b->size);
      }
    }
    for (int r = 1; r <= R; r++) {
      RState &s = table[obj[r].get()];
      long expect = cnt[r] + 1;
      VP_CHECK(c, s.refs == expect, s.refs > expect ? "resource-not-released" : "resource-released-early", "after %s: object #%d has reference count %ld, but %ld item(s) and the harness reference it", op, r, s.refs, cnt[r]);
    }
  };
  auto same = [&](int i) { int j = 1 - i; CBuf *a = (CBuf *)h[i]._ref.instance(), *b = (CBuf *)h[j]._ref.instance(); if (a == b && a->size) relax[j] = true; };
  sync("start");
  while (c.more()) {
    relax[0] = relax[1] = false;
    int i = (int)c.pick(2);
    size_t n = vals[i].size();
    switch (long_names ? c.weighted({12, 5, 5, 4, 3, 3, 8}) : c.weighted({12, 5, 5, 4, 3, 3})) {
      case 6: {  // append with a name around the identifier limit: a refused append must leave the caller's reference alone
        int r = (int)c.range(0, R);
        size_t len = c.near({65534, 65535, 65536, 300}, 65600);
        if (len < 41) len += 41;  // short names belong to the other scenario
        std::string name(len, 'n');
        same(i);
        c.logf("i%d.append(object #%d, name of %zu characters)  (length %zu)", i, r, len, n);
        if (r) obj[r]->addref();
        item<T> *it = h[i].append(r ? obj[r].get() : 0, name.c_str());
        c.logf("  -> %s", it ? "ok" : "refused");
        if (!it && r) obj[r]->unref();  // what the callers in the library do (layout::graph::add_axis, layout::bind)
        if (it) { vals[i].push_back(V{r, -(int)len}); c.label("itemarray:append-long-name"); }
        else { if (r) nontrivial = true; c.label("itemarray:append-name-refused"); }
        sync("append with long name");
        break;
      }
      case 0: {  // append
        int r = (int)c.range(0, R), nm = (int)c.range(0, NNames);
        same(i);
        c.logf("i%d.append(object #%d, \"%s\")  (length %zu)", i, r, kNames[nm], n);
        if (r) obj[r]->addref();
        item<T> *it = h[i].append(r ? obj[r].get() : 0, nm ? kNames[nm] : 0);
        c.logf("  -> %s", it ? "ok" : "refused");
        if (!it && r) obj[r]->unref();
        if (it) { vals[i].push_back(V{r, nm}); c.label("itemarray:append"); }
        sync("append");
        break;
      }
      case 1: {  // resize
        long len = (long)c.range(0, n + 2);
        same(i);
        c.logf("i%d.resize(%ld)  (length %zu)", i, len, n);
        bool ok = h[i].resize(len);
        c.logf("  -> %d", ok);
        if (ok) {
          if ((size_t)len < n) { nontrivial = true; c.label("itemarray:shrink"); }
          vals[i].resize(len, V{0, 0});
        }
        sync("resize");
        break;
      }
      case 2: {  // drop the instance of one item, then compact
        same(i);
        if (n) {
          size_t k = c.range(0, n - 1);
          CBuf *b = (CBuf *)h[i]._ref.instance();
          if (!(flags_of(b) & BufferShared)) {
            c.logf("i%d: item %zu releases its object", i, k);
            ((item<T> *)slot(b, k, sizeof(item<T>)))->set_instance(0);
            vals[i][k].r = 0;
          }
        }
        CBuf *b = (CBuf *)h[i]._ref.instance();
        if (b->size && (flags_of(b) & BufferShared)) break;
        c.logf("i%d.compact()  (length %zu)", i, n);
        bool did = h[i].compact();
        c.logf("  -> %d", did);
        std::vector<V> keep;
        bool hole = false;
        for (auto &v : vals[i]) { if (v.r) keep.push_back(v); else hole = true; }
        if (did) { VP_CHECK(c, hole, "compact-result", "compact reported a change without an empty item"); vals[i] = keep; nontrivial = true; c.label("itemarray:compact"); }
        sync("compact");
        break;
      }
      case 3: {
        int j = 1 - i;
        c.logf("i%d = i%d", i, j);
        h[i] = h[j];
        vals[i] = vals[j];
        sync("assign");
        break;
      }
      case 4: {
        c.logf("i%d = empty array", i);
        if (n) nontrivial = true;
        h[i] = item_array<T>();
        vals[i].clear();
        sync("release");
        break;
      }
      default: {
        same(i);
        c.logf("i%d.detach()", i);
        h[i].detach();
        sync("detach");
        break;
      }
    }
  }
  for (int i = 0; i < 2; i++) { h[i] = item_array<T>(); vals[i].clear(); }
  sync("final release");
  delete[] h;
  if (nontrivial) c.nontrivial();
}

static void run(Ctx &c) {
  uint8_t sel = c.u8();
  // 0..6: C API with the element kind (tok16 tok24 array metaref ident cfgitem command); 7..: C++ containers
  // slots 30 and 31 (duplicates no corpus file used) were given to: item_array with names around the identifier limit, input references
  // slots 4, 7, 10, 12, 14, 16, 18 (duplicates no corpus file used): the same element kinds as round 7 variant (value 32 + kind)
  static const uint8_t map[32] = {0, 0, 0, 0, 32, 1, 1, 33, 2, 2, 34, 3, 35, 4, 36, 5, 37, 6, 38, 7, 7, 7, 7, 8, 8, 9, 9, 10, 10, 11, 13, 12};
  switch (int k = map[sel % 32]) {
    case 7: { CxxSim<typed_array<CT>> s(c, "typed_array"); s.run(); break; }
    case 8: { CxxSim<unique_array<CT>> s(c, "unique_array"); s.run(); break; }
    case 9: run_refarray<8>(c); break;
    case 10: c.flip() ? run_refarray<4>(c) : run_refarray<24>(c); break;
    case 11: run_itemarray(c); break;
    case 13: run_itemarray(c, true); break;
    default: if (k >= 32) run_c(c, k - 32, true); else run_c(c, k); break;
  }
}

static Target t = {
    "C05",
    "random: histories (one operation per 'more' draw) of create/set/insert/cut/truncate/slice/reserve/reduce/detach/clone/release and refusal probes over 3 array handles on "
    "typed buffers of one element kind per case (harness token elements of 16 or 24 bytes with drawn constructor failures; arrays of arrays, metatype references, identifiers, "
    "config items, commands through the library's own traits), positions front/middle/end/past-end and relative to the end, counts near 0/1/2/length and the 64/192 byte capacity steps, "
    "buffers shared, unique, no-copy and immutable. non-trivial: an operation removed or overwrote elements inside [0,used) or a shared buffer was copied; distinct by hash of the draw sequence.",
    run,
    {400, 1200},
    false,
    true,
    {},
    0,
    0,
};
Target &vp::target() { return t; }
