// C03 — decoders are safe and honest on arbitrary bytes            vp-link: core io
//
// G: decoder (5) x input bytes (raw | boundary alphabet | valid frames concatenated and mutated) x scratch prefix x
//    segmentation into 1..4 iovecs (separate exact-size heap blocks or slices of one block, zero-length pieces) x
//    call schedule (bytes revealed in drawn steps, resume after every return code, size queries and peeks in between).
// O: termination (engine CPU budget + bounded driver), ASan/UBSan silent, bytes at positions >= consumed position are
//    never modified, decoded window inside the consumed region, #messages <= #delimiters seen; honesty against the
//    reference decoder (engine/ref/cobs.hpp): frames that are well-formed up to the first malformed one are delivered
//    exactly, in order; a malformed frame is never turned into a message.
#include "vp.hpp"
#include "msggen.hpp"
#include "ref/cobs.hpp"
#include "mpt_c.hpp"

#define protected public
#define private public
#include "connection.h"
#include "stream.h"
#undef protected
#undef private

#include <poll.h>
#include <unistd.h>
#include <sys/socket.h>
#include <sys/un.h>

using namespace vp;
using namespace mpt;

enum { FCobs, FCobsR, FZpe, FZpeR, FCommand, NFraming };
static const char *kName[] = {"cobs", "cobs/r", "cobs/zpe", "cobs/zpe+r", "command"};
static const int kEncoding[] = {EncodingCobs, EncodingCobsInline, EncodingCobs | EncodingCompress, EncodingCobsInline | EncodingCompress, EncodingCommand};
static const uint8_t kAlpha[] = {0x00, 0x01, 0x02, 0x1F, 0x20, 0xDE, 0xDF, 0xE0, 0xE1, 0xFE, 0xFF};

struct Pieces {  // logical buffer cut into iovecs
  std::vector<uint8_t *> blocks;  // malloc'ed blocks to free
  std::vector<struct iovec> full; // full-length iovecs
  std::vector<size_t> start;      // logical start offset of each piece
  size_t total = 0;
  ~Pieces() { for (auto p : blocks) free(p); }
  uint8_t &at(size_t i) {
    size_t k = 0;
    while (k + 1 < start.size() && start[k + 1] <= i) ++k;
    while (full[k].iov_len <= i - start[k]) ++k;  // skip empty pieces
    return ((uint8_t *)full[k].iov_base)[i - start[k]];
  }
  // iovec list showing only the first `visible` logical bytes
  size_t view(size_t visible, struct iovec *out) {
    size_t n = 0;
    for (size_t k = 0; k < full.size(); k++) {
      if (start[k] > visible) break;
      out[n] = full[k];
      if (start[k] + out[n].iov_len > visible) out[n].iov_len = visible - start[k];
      ++n;
    }
    return n;
  }
};

static void build_pieces(Ctx &c, Pieces &p, const std::vector<uint8_t> &flat, int segmode, const std::vector<size_t> &cuts) {
  p.total = flat.size();
  std::vector<size_t> b{0};
  for (size_t x : cuts) b.push_back(std::min(x, flat.size()));
  b.push_back(flat.size());
  std::sort(b.begin(), b.end());
  if (segmode == 0) {  // one heap block, iovecs are slices
    uint8_t *blk = (uint8_t *)malloc(flat.size() ? flat.size() : 1);
    if (!flat.empty()) memcpy(blk, flat.data(), flat.size());
    p.blocks.push_back(blk);
    for (size_t k = 0; k + 1 < b.size(); k++) { p.full.push_back({blk + b[k], b[k + 1] - b[k]}); p.start.push_back(b[k]); }
  } else {  // every piece its own exact-size block
    for (size_t k = 0; k + 1 < b.size(); k++) {
      size_t n = b[k + 1] - b[k];
      uint8_t *blk = (uint8_t *)malloc(n ? n : 1);
      if (n) memcpy(blk, flat.data() + b[k], n);
      p.blocks.push_back(blk);
      p.full.push_back({blk, n});
      p.start.push_back(b[k]);
    }
  }
}

struct Expect {
  std::vector<std::pair<bool, std::vector<uint8_t>>> all;  // every complete frame: well-formed?, reference message
  std::vector<std::vector<uint8_t>> msgs;  // messages of the leading well-formed frames
  bool then_malformed = false;             // a complete malformed frame follows them
  size_t delimiters = 0, pairs = 0, frames = 0;
};

static Expect ref_expect(int fr, const std::vector<uint8_t> &in) {
  Expect e;
  size_t s = 0;
  bool stop = false;
  for (size_t i = 0; i < in.size(); i++) {
    if (in[i]) continue;
    ++e.delimiters;
    ++e.frames;
    {
      std::vector<uint8_t> m;
      bool ok = true;
      if (fr == FCommand) { m = {0x04, ' '}; m.insert(m.end(), in.begin() + s, in.begin() + i); }
      else ok = ref::decode((ref::Dialect)fr, in.data() + s, i - s, m) == ref::WellFormed;
      e.all.push_back({ok, m});
    }
    if (!stop) {
      if (fr == FCommand) {
        std::vector<uint8_t> m{0x04, ' '};
        m.insert(m.end(), in.begin() + s, in.begin() + i);
        e.msgs.push_back(m);
      } else {
        std::vector<uint8_t> m;
        size_t pairs = 0;
        if (ref::decode((ref::Dialect)fr, in.data() + s, i - s, m, &pairs) == ref::WellFormed) e.msgs.push_back(m);
        else { e.then_malformed = true; stop = true; }
      }
    }
    s = i + 1;
  }
  if (fr == FZpe || fr == FZpeR) for (uint8_t b : in) if (b >= 0xe0) ++e.pairs;  // upper bound on pair codes
  return e;
}

static void drive(Ctx &c, int fr, const std::vector<uint8_t> &input, size_t prefix, bool prefix_sufficient, int segmode,
                  const std::vector<size_t> &cuts, int sched) {
  data_decoder_t dec = mpt_message_decoder(kEncoding[fr]);
  VP_CHECK(c, dec, "no-decoder", "no decoder for %s", kName[fr]);
  std::vector<uint8_t> flat(prefix, 0xA5);
  flat.insert(flat.end(), input.begin(), input.end());
  const std::vector<uint8_t> orig = flat;
  Pieces p;
  build_pieces(c, p, flat, segmode, cuts);
  Expect e = ref_expect(fr, input);
  c.logf("decoder=%s prefix=%zu segmode=%d pieces=%zu sched=%d expect %zu message(s)%s", kName[fr], prefix, segmode, p.full.size(), sched,
         e.msgs.size(), e.then_malformed ? " then a malformed frame" : "");
  c.loghex("input", input.data(), input.size());

  CObj<decode_state> stobj;
  decode_state &st = *stobj;
  st.data.msg = -1;
  st.curr = prefix;
  size_t total = flat.size();
  size_t visible = sched == 0 ? total : prefix + (sched == 1 ? std::min<size_t>(1, input.size()) : c.range(0, input.size()));
  size_t hw = prefix;  // high-water mark of consumed position on successful returns
  size_t delivered = 0, budget = 6 * total + 64, idle = 0;
  bool dead = false, missing_buffer = false, honest = true;
  int last_rc = 99, codes_seen = 0, first_error = 0;
  size_t next_frame = 0;
  bool honest_after_error = false;
  size_t safety_calls = 0;
  struct iovec v[8];
  bool budget_hit = false;
  unsigned side_ops = 0;
  while (true) {
    if (!budget--) { budget_hit = true; break; }  // harness budget: the run is then inconclusive for the completeness oracle
    unsigned op = sched == 0 ? 0 : (unsigned)c.weighted({10, 1, 1});
    if (op && ++side_ops > 16) op = 0;  // size queries and peeks must not starve the decoding itself
    if (op == 1 && fr == FCommand) op = 0;  // the command decoder documents source==NULL as a reset
    if (op == 1) {  // size query: no state change
      decode_state before = st;
      int q = dec(&st, 0, c.range(1, 600));
      VP_CHECK(c, !memcmp(&before, &st, sizeof st), "size-query-changed-state", "%s: size query changed the decoder state", kName[fr]);
      VP_CHECK(c, q >= 0, "size-query-negative", "%s: size query returned %d", kName[fr], q);
      c.label("op:size-query");
      continue;
    }
    size_t nv = p.view(visible, v);
    int rc;
    if (op == 2) {  // peek at the first element only (sourcelen = 0); a refusal leaves the stream usable
      rc = dec(&st, v, 0);
      c.label("op:peek");
      c.logf("peek -> %d curr=%zu pos=%zu len=%zu msg=%zd", rc, st.curr, st.data.pos, st.data.len, (ssize_t)st.data.msg);
      honest = false;  // what a peek leaves in the state is outside the honesty oracle (DESIGN sect. 4)
    } else {
      rc = dec(&st, v, nv);
      c.logf("decode(visible=%zu of %zu, %zu iov) -> %d curr=%zu pos=%zu len=%zu msg=%zd", visible - prefix, input.size(), nv, rc, st.curr, st.data.pos,
             st.data.len, (ssize_t)st.data.msg);
    }
    if (rc != last_rc) { ++codes_seen; last_rc = rc; }
    // ---- safety invariants
    // bytes the decoder was not shown are outside the iovecs: never touched, whatever happened
    for (size_t i = visible; i < total; i++)
      VP_CHECK(c, p.at(i) == orig[i], "write-outside-iovecs", "%s: byte %zu beyond the %zu visible bytes changed from %02x to %02x (rc %d)", kName[fr], i, visible, orig[i], p.at(i), rc);
    if (rc >= 0 && !dead) {
      VP_CHECK(c, st.curr >= hw, "curr-decreased", "%s: consumed position went back from %zu to %zu (rc %d)", kName[fr], hw, st.curr, rc);
      VP_CHECK(c, st.curr <= visible, "curr-beyond-input", "%s: consumed position %zu beyond the %zu visible bytes", kName[fr], st.curr, visible);
      VP_CHECK(c, st.data.pos + st.data.len <= st.curr, "window-outside-consumed", "%s: decoded window %zu+%zu not inside consumed region [0,%zu)", kName[fr],
               st.data.pos, st.data.len, st.curr);
      hw = st.curr;
      for (size_t i = hw; i < visible; i++)
        VP_CHECK(c, p.at(i) == orig[i], "unconsumed-input-modified", "%s: byte %zu (>= consumed position %zu) changed from %02x to %02x (rc %d)", kName[fr], i, hw,
                 orig[i], p.at(i), rc);
    }
    if (op == 2) continue;
    if (dead) {
      // after an error nothing is demanded beyond safety, except that refused input is never turned into a message
      // with invented bytes: a retry (production retries: the next dispatch calls mpt_queue_recv again) may only
      // deliver the reference message of a well-formed frame that lies behind the refused one, in order
      if (rc == 1 && op != 2 && honest_after_error) {
        std::vector<uint8_t> got;
        if (st.data.msg >= 0 && st.data.pos + (size_t)st.data.msg <= total) for (size_t i = 0; i < (size_t)st.data.msg; i++) got.push_back(p.at(st.data.pos + i));
        bool found = false;
        while (next_frame < e.all.size()) {
          const auto &f = e.all[next_frame++];
          if (f.first && f.second == got) { found = true; break; }
        }
        VP_CHECK(c, found, "message-after-error", "%s: after error %d the decoder delivers %zu bytes %s, which is no reference message of a later frame of this input", kName[fr],
                 first_error, got.size(), hex(got.data(), got.size(), 24).c_str());
        c.label("resync-after-error");
      }
      if (++safety_calls >= 3) break;
      continue;
    }
    // "need more data" never leaves a message pending (mpt_queue_recv reports data.msg >= 0 as a message)
    if (rc == 0)
      VP_CHECK(c, st.data.msg < 0, "pending-message-without-delivery", "%s: decoder returns 0 (incomplete) but leaves a message of %zd bytes marked as pending", kName[fr], (ssize_t)st.data.msg);
    // ---- honesty
    if (rc == 1) {
      VP_CHECK(c, st.data.msg >= 0 && (size_t)st.data.msg <= st.data.len, "window-outside-consumed", "%s: message length %zd > decoded length %zu", kName[fr],
               (ssize_t)st.data.msg, st.data.len);
      std::vector<uint8_t> got;
      for (size_t i = 0; i < (size_t)st.data.msg; i++) got.push_back(p.at(st.data.pos + i));
      ++delivered;
      VP_CHECK(c, delivered <= e.delimiters, "more-messages-than-delimiters", "%s: %zu messages from %zu delimiters", kName[fr], delivered, e.delimiters);
      if (honest) {
        VP_CHECK(c, delivered <= e.msgs.size(), "message-from-malformed-frame", "%s: message #%zu (%zu bytes %s) delivered but the reference accepts only %zu frame(s)%s",
                 kName[fr], delivered, got.size(), hex(got.data(), got.size(), 24).c_str(), e.msgs.size(), e.then_malformed ? " before a malformed one" : "");
        const auto &want = e.msgs[delivered - 1];
        VP_CHECK(c, got == want, "message-differs-from-reference", "%s: message #%zu is %zu bytes %s, reference says %zu bytes %s", kName[fr], delivered, got.size(),
                 hex(got.data(), got.size(), 32).c_str(), want.size(), hex(want.data(), want.size(), 32).c_str());
      }
      idle = 0;
      // reset between frames (source = 0, sourcelen = 0: what connectionEncoding() does before it keeps decoding the same
      // queue): the delivered message is still pending, decoding must go on with the next frame. No draw: decided by state.
      if (sched != 0 && fr != FCommand && (delivered + st.curr) % 4 == 0) {
        int q = dec(&st, 0, 0);
        VP_CHECK(c, q == 0, "reset-result", "%s: reset call returned %d", kName[fr], q);
        c.label("op:reset-between-frames");
        c.logf("reset -> %d curr=%zu pos=%zu len=%zu msg=%zd", q, st.curr, st.data.pos, st.data.len, (ssize_t)st.data.msg);
      }
      continue;
    }
    if (rc == 0) {
      if (visible < total) {
        visible += sched == 1 ? 1 : c.range(1, total - visible);
        idle = 0;
        continue;
      }
      if (++idle >= 2) break;  // everything visible and the decoder keeps asking for more: end of stream
      continue;
    }
    // error return: the stream is dead, only safety is demanded from here on
    if (rc == MissingBuffer) { missing_buffer = true; c.label("rc:MissingBuffer"); }
    else if (rc == MissingData) c.label("rc:MissingData");
    else if (rc == BadValue) c.label("rc:BadValue");
    else c.label("rc:other-error");
    dead = true;
    first_error = rc;
    next_frame = delivered + 1;  // frames behind the refused one
    honest_after_error = honest;
  }
  // ---- completeness of honest delivery: all leading well-formed frames must have come out
  if (budget_hit) { c.label("harness-budget-hit"); return; }
  if (honest && !missing_buffer && !dead)
    VP_CHECK(c, delivered == e.msgs.size() || e.then_malformed, "well-formed-frame-not-delivered", "%s: %zu of %zu well-formed frames delivered, decoder then asks for more", kName[fr],
             delivered, e.msgs.size());
  if (honest && dead && !missing_buffer)
    VP_CHECK(c, delivered == e.msgs.size() && (e.then_malformed || fr == FCommand), "error-on-well-formed-frame", "%s: error %d after %zu of %zu well-formed frames%s", kName[fr],
             last_rc, delivered, e.msgs.size(), e.then_malformed ? "" : " and no malformed frame in the input");
  if (honest && missing_buffer && prefix_sufficient && fr != FCommand)
    VP_CHECK(c, false, "missing-buffer-with-requested-scratch", "%s: MissingBuffer although the scratch area has the size the decoder asked for (%zu)", kName[fr], prefix);
  if (e.then_malformed) c.label("input:malformed-frame");
  if (e.msgs.size() >= 2) c.label("input:multi-frame");
  if (delivered) c.label("delivered");
  bool big = false;
  for (auto &m : e.msgs) if (m.size() > (fr >= FZpe ? 222u : 254u)) big = true;
  if (codes_seen >= 2 || (delivered && big)) c.nontrivial();
}

static size_t scratch_for(Ctx &c, int fr, const std::vector<uint8_t> &input, bool &sufficient) {
  sufficient = false;
  if (fr == FCommand) return c.weighted({6, 1}) ? c.range(0, 4) : 2 + c.range(0, 16);
  Expect e = ref_expect(fr, input);
  switch (c.weighted({3, 3, 2})) {
    case 0: return (fr >= FZpe ? e.pairs : 0) + 16 * (e.frames + 1) * (fr >= FZpe ? 1 : c.pick(2));
    case 1: {  // what the decoder asks for
      data_decoder_t dec = mpt_message_decoder(kEncoding[fr]);
      CObj<decode_state> st;
      st->data.msg = -1;
      int q = dec(st, 0, input.size() ? input.size() : 1);
      sufficient = true;
      return (q > 0 ? q : 0) + 16 * (e.frames + 1);
    }
    default: return c.range(0, 8);  // possibly too small for ZPE: MissingBuffer is then legitimate
  }
}

// input bytes: raw | boundary alphabet | reference-encoded frames with mutations
static std::vector<uint8_t> gen_input(Ctx &c, int fr) {
  std::vector<uint8_t> in;
  switch (c.weighted({3, 2, 5})) {
    case 0: {  // raw bytes
      size_t n = c.near({0, 1, 2, 255, 256}, 700);
      in = c.bytes(n);
      c.label("gen:raw");
      break; }
    case 1: {  // boundary alphabet
      size_t n = c.range(0, 40);
      for (size_t i = 0; i < n; i++) in.push_back(kAlpha[c.pick(sizeof kAlpha)]);
      c.label("gen:alphabet");
      break; }
    default: {  // valid frames, concatenated, optionally mutated
      size_t nf = c.range(1, 4);
      for (size_t k = 0; k < nf; k++) {
        std::vector<uint8_t> m = msggen::message(c, c.flip() ? 60 : 600, fr == FCommand);
        std::vector<uint8_t> f;
        if (fr == FCommand) { f = m; f.push_back(0); }
        else f = ref::encode((ref::Dialect)fr, m.data(), m.size());
        in.insert(in.end(), f.begin(), f.end());
      }
      c.label("gen:frames");
      size_t nmut = c.weighted({5, 3, 2});
      for (size_t k = 0; k < nmut && !in.empty(); k++) {
        size_t at = c.range(0, in.size() - 1);
        switch (c.pick(5)) {
          case 0: in[at] = c.u8(); break;
          case 1: in[at] = 0; break;
          case 2: in.insert(in.begin() + at, kAlpha[c.pick(sizeof kAlpha)]); break;
          case 3: in.erase(in.begin() + at); break;
          default: in.resize(at); break;
        }
        c.label("gen:mutated");
      }
      break; }
  }
  return in;
}

// ---- queue level: the same decoders behind mpt_queue_recv / mpt_queue_peek / mpt_queue_shift (anchors of C03)
struct DQ {
  CObj<decode_queue> q;
  ~DQ() { free(q->base); }
};

static void run_queue(Ctx &c, int fr) {
  data_decoder_t dec = mpt_message_decoder(kEncoding[fr]);
  VP_CHECK(c, dec, "no-decoder", "no decoder for %s", kName[fr]);
  std::vector<uint8_t> input = gen_input(c, fr);
  Expect e = ref_expect(fr, input);
  DQ d;
  decode_queue *q = d.q;
  q->_dec = dec;
  q->_state.data.msg = -1;
  c.label("scenario:queue");
  c.logf("queue level: decoder=%s expect %zu message(s)%s", kName[fr], e.msgs.size(), e.then_malformed ? " then a malformed frame" : "");
  c.loghex("input", input.data(), input.size());
  size_t sent = 0, delivered = 0, delims_in = 0, next_frame = 0;
  bool dead = false;
  int first_error = 0;
  size_t budget = 10 * input.size() + 80, quiet = 0, mb_retries = 0;
  bool budget_hit = false;
  auto deliver = [&](size_t k) {
    if (k > input.size() - sent) k = input.size() - sent;
    if (!k) return;
    size_t left = mpt_queue_prepare(q, k);
    VP_CHECK(c, left >= k, "prepare-refused", "mpt_queue_prepare(%zu) returned %zu", k, left);
    int r = mpt_qpush(q, k, input.data() + sent);
    VP_CHECK(c, r >= 0, "qpush-refused", "mpt_qpush(%zu) = %d after prepare", k, r);
    for (size_t i = 0; i < k; i++) if (!input[sent + i]) ++delims_in;
    sent += k;
    c.logf("  deliver %zu byte(s), %zu of %zu in", k, sent, input.size());
  };
  auto read_pending = [&](std::vector<uint8_t> &got) {
    message m;
    struct iovec vec;
    memset(&m, 0, sizeof m);
    int g = mpt_message_get(q, q->_state.data.pos, q->_state.data.msg, &m, &vec);
    VP_CHECK(c, g >= 0, "message-get", "%s: mpt_message_get(pos %zu, len %zd) = %d on a queue of %zu bytes", kName[fr], q->_state.data.pos, (ssize_t)q->_state.data.msg, g, q->len);
    got.resize(q->_state.data.msg);
    size_t n = mpt_message_read(&m, got.size(), got.data());
    VP_CHECK(c, n == got.size(), "message-get", "%s: message of %zu bytes reads %zu", kName[fr], got.size(), n);
  };
  auto recv = [&]() -> int {
    size_t before = q->len;
    int r = mpt_queue_recv(q);
    c.logf("  mpt_queue_recv = %d (queue %zu/%zu, curr %zu pos %zu len %zu msg %zd)", r, q->len, q->max, q->_state.curr, q->_state.data.pos, q->_state.data.len, (ssize_t)q->_state.data.msg);
    VP_CHECK(c, q->len <= q->max && (q->off < q->max || !q->max), "queue-invariant", "%s: len %zu max %zu off %zu after recv", kName[fr], q->len, q->max, q->off);
    if (r == 1) {
      VP_CHECK(c, q->_state.data.msg >= 0 && q->_state.data.pos + (size_t)q->_state.data.msg <= q->len, "window-outside-consumed", "%s: message window %zu+%zd outside the %zu queued bytes",
               kName[fr], q->_state.data.pos, (ssize_t)q->_state.data.msg, q->len);
      std::vector<uint8_t> got;
      read_pending(got);
      if (!dead) {
        ++delivered;
        VP_CHECK(c, delivered <= delims_in, "more-messages-than-delimiters", "%s: %zu messages from %zu delimiters", kName[fr], delivered, delims_in);
        VP_CHECK(c, delivered <= e.msgs.size(), "message-from-malformed-frame", "%s: message #%zu (%zu bytes %s) delivered but the reference accepts only %zu frame(s)%s", kName[fr],
                 delivered, got.size(), hex(got.data(), got.size(), 24).c_str(), e.msgs.size(), e.then_malformed ? " before a malformed one" : "");
        const auto &want = e.msgs[delivered - 1];
        VP_CHECK(c, got == want, "message-differs-from-reference", "%s: message #%zu is %zu bytes %s, reference says %zu bytes %s", kName[fr], delivered, got.size(),
                 hex(got.data(), got.size(), 32).c_str(), want.size(), hex(want.data(), want.size(), 32).c_str());
      } else {
        bool found = false;
        while (next_frame < e.all.size()) {
          const auto &f = e.all[next_frame++];
          if (f.first && f.second == got) { found = true; break; }
        }
        VP_CHECK(c, found, "message-after-error", "%s: after error %d the queue delivers %zu bytes %s, which is no reference message of a later frame of this input", kName[fr], first_error,
                 got.size(), hex(got.data(), got.size(), 24).c_str());
        c.label("resync-after-error");
      }
      quiet = 0;
      return r;
    }
    if (r == 0) VP_CHECK(c, q->_state.data.msg < 0, "pending-message-without-delivery", "%s: mpt_queue_recv returns 0 but a message of %zd bytes is marked pending", kName[fr], (ssize_t)q->_state.data.msg);
    if (r == MissingBuffer) {
      // decoder needs work area: production (stream dispatch) enlarges a full queue and tries again
      c.label("recv:MissingBuffer");
      if (++mb_retries <= input.size() + 8) { size_t left = mpt_queue_prepare(q, 64); VP_CHECK(c, left >= 64, "prepare-refused", "mpt_queue_prepare(64) returned %zu", left); }
      return r;
    }
    if (r < 0 && !(r == MissingData && !before)) {
      if (!dead) { dead = true; first_error = r; next_frame = delivered + 1; c.label(r == BadValue ? "recv:BadValue" : r == MissingData ? "recv:MissingData" : "recv:other-error"); }
    }
    return r;
  };
  while (true) {
    if (!budget--) { budget_hit = true; break; }
    switch (c.weighted({5, 6, 2})) {
      case 0: deliver(c.flip() ? 1 : c.range(1, 40)); break;
      case 1: recv(); break;
      default: {
        uint8_t buf[64];
        ssize_t p = mpt_queue_peek(q, c.range(0, sizeof buf), buf);
        c.logf("  mpt_queue_peek = %zd (curr %zu pos %zu len %zu)", p, q->_state.curr, q->_state.data.pos, q->_state.data.len);
        c.label("op:peek");
        break; }
    }
    if (sent >= input.size() && !c.more()) break;
  }
  if (budget_hit) { c.label("harness-budget-hit"); return; }
  // drain: everything delivered, receive until the queue stays quiet
  deliver(input.size());
  size_t rounds = 0;
  while (quiet < 3 && rounds++ < 4 * input.size() + 64) {
    int r = recv();
    if (r == 1) continue;
    if (r == MissingBuffer && mb_retries <= input.size() + 8) continue;
    ++quiet;
  }
  if (!dead && mb_retries <= input.size() + 8)
    VP_CHECK(c, delivered == e.msgs.size() || e.then_malformed, "well-formed-frame-not-delivered", "%s: all %zu bytes are in the queue, %zu of %zu well-formed frames delivered, mpt_queue_recv keeps returning 0",
             kName[fr], input.size(), delivered, e.msgs.size());
  if (dead && first_error != MissingBuffer)
    VP_CHECK(c, delivered == e.msgs.size() && (e.then_malformed || fr == FCommand), "error-on-well-formed-frame", "%s: error %d after %zu of %zu well-formed frames%s", kName[fr], first_error, delivered,
             e.msgs.size(), e.then_malformed ? "" : " and no malformed frame in the input");
  if (delivered >= 2 || (delivered && dead)) c.nontrivial();
}


// ------------------------------------------------------------------ connection level: framing switched on a live stream
// A connection over a stream (mpt_connection_open on a unix socket, id length 0 = one-way delivery) receives rounds of
// reference-encoded frames from a harness peer; between rounds, when every frame sent so far has been delivered, the
// "encoding" property of the connection is set to another framing (connectionEncoding in mptio/connection) and the
// peer continues in that framing. The read queue still holds the consumed bytes of the earlier rounds at that moment.
// Oracle: every round delivers exactly the messages of the frames sent in it, in order (reference decoder).
struct EncConv;
struct EncConvVptr { int (*convert)(EncConv *, mpt::type_t, void *); };
struct EncConv { const EncConvVptr *vptr; uint8_t code; };
static int enc_convert(EncConv *e, mpt::type_t t, void *dest) {
  if (t != 'y') return BadType;
  if (dest) *(uint8_t *)dest = e->code;
  return 'y';
}
struct SwitchRecv { std::vector<std::vector<uint8_t>> msgs; };
static int switch_handler(void *arg, event *ev) {
  SwitchRecv *r = (SwitchRecv *)arg;
  if (!ev || !ev->msg) return 0;
  message m = *ev->msg;
  std::vector<uint8_t> got;
  uint8_t buf[256];
  size_t n;
  while ((n = mpt_message_read(&m, sizeof buf, buf))) got.insert(got.end(), buf, buf + n);
  r->msgs.push_back(got);
  return 0;
}
static void run_switch(Ctx &c) {
  static FILE *null = fopen("/dev/null", "w");
  struct Mute { FILE *saved; Mute(bool v) : saved(stderr) { if (!v && null) stderr = null; } ~Mute() { stderr = saved; } } mute(c.verbose());
  c.label("scenario:connection-switch");
  static unsigned counter = 0;
  char path[96];
  snprintf(path, sizeof path, "/tmp/vp-C03-%d-%u", (int)getpid(), ++counter);
  struct World {
    CObj<connection> con;
    int lfd = -1, pfd = -1;
    const char *path;
    bool open = false;
    ~World() { if (open) mpt_connection_fini(con); if (pfd >= 0) close(pfd); if (lfd >= 0) close(lfd); unlink(path); }
  } w;
  w.path = path;
  w.con->out.sock._id = -1;
  struct sockaddr_un a;
  memset(&a, 0, sizeof a);
  a.sun_family = AF_UNIX;
  strcpy(a.sun_path, path);
  unlink(path);
  w.lfd = ::socket(AF_UNIX, SOCK_STREAM | SOCK_CLOEXEC, 0);
  VP_CHECK(c, w.lfd >= 0 && bind(w.lfd, (struct sockaddr *)&a, sizeof a) == 0 && listen(w.lfd, 1) == 0, "harness-socket", "cannot listen on %s", path);
  std::string target = std::string("Unix:") + path;
  int r = mpt_connection_open(w.con, target.c_str(), 0);
  w.open = true;
  VP_CHECK(c, r >= 0, "harness-socket", "mpt_connection_open returned %d", r);
  w.pfd = accept4(w.lfd, 0, 0, SOCK_CLOEXEC);
  VP_CHECK(c, w.pfd >= 0, "harness-socket", "accept failed");
  mpt::stream *srm = (mpt::stream *)cbuf(w.con->out.buf);
  VP_CHECK(c, srm && w.con->out.sock._id < 0, "harness-socket", "mpt_connection_open(stream target) left no stream behind");
  int sfd = _mpt_stream_fread(&srm->_info);
  int fr = FCobs;  // state of mpt_connection_open
  size_t rounds = c.range(1, 4), switched = 0, after_switch = 0;
  c.logf("connection over a stream (COBS, id length 0), %zu round(s)", rounds);
  for (size_t round = 0; round < rounds; round++) {
    int drawn = round ? (int)c.pick(NFraming) : 0;
    if (round) {
      int to = drawn;
      // Once the connection runs the command framing no further switch is exercised: on the unchanged tree a switch away
      // from "command" re-reads queued bytes (DESIGN 11.6, not triaged), so the scenario stays with COBS-family origins.
      static const EncConvVptr vt = {enc_convert};
      EncConv cv{&vt, (uint8_t)kEncoding[to]};
      int s = mpt_connection_set(w.con, "encoding", (mpt::convertable *)&cv);
      c.logf("mpt_connection_set(con, \"encoding\", %s) = %d (was %s; read queue: %zu byte(s), curr %zu)", kName[to], s, kName[fr], srm->_rd.len, srm->_rd._state.curr);
      VP_CHECK(c, s >= 0, "encoding-switch-refused", "every message delivered, nothing in progress: mpt_connection_set(\"encoding\", %s) = %d", kName[to], s);
      if (to != fr) { ++switched; c.label((std::string("switch:") + kName[fr] + ">" + kName[to]).c_str()); }
      fr = to;
    }
    std::vector<std::vector<uint8_t>> want;
    std::vector<uint8_t> wire;
    size_t nmsg = c.range(1, 3);
    for (size_t k = 0; k < nmsg; k++) {
      size_t len = c.range(1, c.weighted({6, 1}) ? 300 : 24);
      std::vector<uint8_t> body;
      for (size_t i = 0; i < len; i++) {
        uint8_t b = fr == FCommand ? (uint8_t)c.range(1, 255) : (c.weighted({3, 1}) ? (uint8_t)c.range(1, 255) : 0);
        body.push_back(b);
      }
      if (fr == FCommand) {
        std::vector<uint8_t> m{0x04, ' '};
        m.insert(m.end(), body.begin(), body.end());
        want.push_back(m);
        wire.insert(wire.end(), body.begin(), body.end());
        wire.push_back(0);
      } else {
        std::vector<uint8_t> f = ref::encode((ref::Dialect)fr, body.data(), body.size());
        want.push_back(body);
        wire.insert(wire.end(), f.begin(), f.end());
      }
    }
    c.loghex("  peer writes", wire.data(), wire.size());
    size_t off = 0;
    SwitchRecv got;
    // written in drawn pieces, the connection served after each piece
    while (true) {
      if (off < wire.size()) {
        size_t k = c.flip() ? wire.size() - off : c.range(1, wire.size() - off);
        ssize_t wr = write(w.pfd, wire.data() + off, k);
        VP_CHECK(c, wr == (ssize_t)k, "harness-socket", "write of %zu bytes to the peer socket returned %zd", k, wr);
        off += k;
      }
      for (int guard = 0; guard < 64; guard++) {
        struct pollfd pf = {sfd, POLLIN, 0};
        if (poll(&pf, 1, 0) <= 0 || !(pf.revents & POLLIN)) break;
        int p = mpt_stream_poll(srm, POLLIN, 0);
        c.logf("  mpt_stream_poll(POLLIN, 0) -> %d", p);
        if (p < 0) break;
        for (int g2 = 0; g2 < 64; g2++) {
          int d = mpt_connection_dispatch(w.con, switch_handler, &got);
          c.logf("  mpt_connection_dispatch -> 0x%x (%zu message(s) so far)", d, got.msgs.size());
          if (d < 0 || !(d & 0x10000 /* Retry */)) break;
        }
      }
      if (off >= wire.size()) break;
    }
    for (size_t i = 0; i < got.msgs.size() && i < want.size(); i++)
      VP_CHECK(c, got.msgs[i] == want[i], "connection-message-differs", "round %zu (%s%s): message #%zu is %zu bytes %s, the peer sent %zu bytes %s", round, kName[fr],
               switched ? ", after an encoding switch" : "", i + 1, got.msgs[i].size(), hex(got.msgs[i].data(), got.msgs[i].size(), 32).c_str(), want[i].size(),
               hex(want[i].data(), want[i].size(), 32).c_str());
    VP_CHECK(c, got.msgs.size() == want.size(), "connection-message-count", "round %zu (%s%s): %zu message(s) delivered, the peer sent %zu frame(s)", round, kName[fr],
             switched ? ", after an encoding switch" : "", got.msgs.size(), want.size());
    if (switched) ++after_switch;
  }
  if (switched && after_switch) c.nontrivial();
}

static void run(Ctx &c) {
  uint8_t sel = c.u8();
  if (sel == 0xff) {  // enumerated: string over the boundary alphabet x decoder x schedule {whole, byte-wise, two cuts}
    int fr = c.pick(NFraming);
    int mode = c.pick(3);
    size_t n = c.pick(7);
    std::vector<uint8_t> in;
    for (size_t i = 0; i < n; i++) in.push_back(kAlpha[c.pick(sizeof kAlpha)]);
    size_t prefix = fr == FCommand ? 2 : (fr >= FZpe ? 2 * n + 16 : 16);
    std::vector<size_t> cuts;
    if (mode == 2) { cuts.push_back(prefix + n / 3); cuts.push_back(prefix + (2 * n) / 3); }
    drive(c, fr, in, prefix, false, mode == 2 ? 1 : 0, cuts, mode == 1 ? 1 : 0);
    c.nontrivial();
    return;
  }
  if (sel >= 0xdc && sel < 0xe0) { run_switch(c); return; }  // 4 in 256: encoding switch on a live connection
  int fr = sel % NFraming;
  c.label(kName[fr]);
  if (sel >= 0xe0 && sel < 0xff) { run_queue(c, fr); return; }  // one case in eight: the queue level
  std::vector<uint8_t> in = gen_input(c, fr);
  bool sufficient = false;
  size_t prefix = scratch_for(c, fr, in, sufficient);
  int segmode = c.flip();
  std::vector<size_t> cuts;
  size_t ncut = c.weighted({4, 3, 2, 1});
  for (size_t k = 0; k < ncut; k++) cuts.push_back(c.flip() ? c.range(0, prefix + in.size()) : (cuts.empty() ? prefix : cuts.back()));
  int sched = c.weighted({3, 2, 5});
  if (ncut) c.label("iovecs>1");
  drive(c, fr, in, prefix, sufficient, segmode, cuts, sched);
}

static uint64_t pow11(int n) { uint64_t r = 1; while (n--) r *= 11; return r; }
static int enum_len(int tier) { return tier ? 6 : 5; }
static uint64_t enum_count(int tier) {
  uint64_t s = 0;
  for (int n = 0; n <= enum_len(tier); n++) s += pow11(n);
  return s * NFraming * 3;
}
static void enum_make(uint64_t idx, int tier, std::vector<uint8_t> &out) {
  out.clear();
  out.push_back(0xff);
  out.push_back(idx % NFraming); idx /= NFraming;
  out.push_back(idx % 3); idx /= 3;
  int n = 0;
  while (idx >= pow11(n)) { idx -= pow11(n); ++n; }
  out.push_back((uint8_t)n);
  for (int i = 0; i < n; i++) { out.push_back(idx % 11); idx /= 11; }
  (void)tier;
}

static Target t = {
    "C03",
    "random: decoder (5) x input (raw bytes | boundary alphabet | 1-4 reference-encoded frames with 0-2 byte mutations/truncation) x scratch prefix "
    "(estimate | size the decoder asks for | 0..8) x 1-4 iovecs (slices of one block or separate exact-size heap blocks, zero-length pieces) x schedule "
    "(whole | byte-wise | drawn steps with size queries and peeks interleaved); 1 case in 8 at queue level: the same inputs pushed in drawn pieces into a decode_queue and read with "
    "mpt_queue_recv / mpt_queue_peek / mpt_message_get, growth on MissingBuffer, retries after errors; 4 in 256 at connection level: a stream connection (mpt_connection_open on a unix socket) "
    "receives rounds of 1-3 reference-encoded frames in drawn write pieces and has its \"encoding\" property switched between rounds (5 x 5 framings) while the read queue "
    "holds consumed bytes, each round must deliver exactly the messages sent in it. oracle: safety invariants after every call, delivered messages == reference decoder on the "
    "leading well-formed frames, after an error only reference messages of later frames, no pending message on 'incomplete'. exhaustive: all strings of length <= 5 (quick) / <= 6 (thorough) over "
    "{00,01,02,1F,20,DE,DF,E0,E1,FE,FF} x 5 decoders x {whole, byte-wise, three separate blocks}. non-trivial: the decoder returned at least two "
    "different codes during the case or delivered a message longer than one block (all enumerated cases count); distinct by hash of the draw sequence.",
    run,
    {2500, 6000},
    false,
    true,
    {{"strings over boundary alphabet x decoders x schedules", enum_count, enum_make}},
    0,
    0,
};
Target &vp::target() { return t; }
