// C01 — message framing round-trip for every codec            vp-link: core cxx
//
// G: framing x message (run structured) x push splits x output-capacity growth schedule, through
//    (a) the encoder function on an exact-size heap window, (b) mpt_array_push on an encode_array,
//    (c) the C++ encode_array: messages handed over as fragment lists (push(const message &)) or in pieces,
//        finished bytes taken out in drawn portions (data()/shift(n)) and the rest moved to the front (shift()).
// O: library decoder(frame) == message; frame has exactly one zero (the delimiter, last byte);
//    reference decoder agrees; encoder accounting (consumed == pushed, done+scratch <= capacity).
#include "vp.hpp"
#include "msggen.hpp"
#include "ref/cobs.hpp"

#include "mpt_c.hpp"

using namespace vp;
using namespace mpt;

enum { FCobs, FCobsR, FZpe, FZpeR, FCommand, NFraming };
static const char *kName[] = {"cobs", "cobs/r", "cobs/zpe", "cobs/zpe+r", "command"};
static const int kEncoding[] = {MPT_ENUM(EncodingCobs), MPT_ENUM(EncodingCobsInline), MPT_ENUM(EncodingCobs) | MPT_ENUM(EncodingCompress),
                                MPT_ENUM(EncodingCobsInline) | MPT_ENUM(EncodingCompress), MPT_ENUM(EncodingCommand)};

struct Window {  // exact-size heap block, so that ASan sees one byte too many
  uint8_t *p = 0;
  size_t cap = 0;
  ~Window() { free(p); }
  void grow(size_t ncap) {
    uint8_t *n = (uint8_t *)malloc(ncap ? ncap : 1);
    memset(n, 0xAA, ncap ? ncap : 1);
    if (cap) memcpy(n, p, cap);
    free(p);
    p = n;
    cap = ncap;
  }
};

static std::vector<size_t> splits(Ctx &c, size_t len) {
  std::vector<size_t> s;
  size_t left = len;
  int mode = (int)c.weighted({3, 2, 2});  // whole / few big / many small
  while (left) {
    size_t n;
    if (mode == 0) n = left;
    else if (mode == 1) n = c.near({1, 30, 31, 222, 223, 253, 254, 255}, left);
    else n = c.range(1, 9);
    if (n < 1) n = 1;
    if (n > left) n = left;
    s.push_back(n);
    left -= n;
  }
  return s;
}

// ---- (a) direct encoder with a capacity growth schedule
static std::vector<uint8_t> encode_direct(Ctx &c, int fr, const std::vector<uint8_t> &msg, bool &retried) {
  MPT_TYPE(data_encoder) enc = mpt_message_encoder(kEncoding[fr]);
  VP_CHECK(c, enc, "no-encoder", "mpt_message_encoder(%d) is NULL", kEncoding[fr]);
  CObj<encode_state> stobj; encode_state &st = *stobj;
  Window w;
  w.grow(c.range(0, 8));
  size_t inc_style = c.pick(3);
  auto grow = [&]() {
    size_t inc = inc_style == 0 ? 1 : inc_style == 1 ? c.range(1, 40) : c.range(1, 300);
    VP_CHECK(c, w.cap <= 3 * msg.size() + 64, "encoder-no-progress", "%s: encoder still asks for space with capacity %zu for a %zu byte message (done %zu scratch %zu)", kName[fr], w.cap, msg.size(), st.done, st.scratch);
    w.grow(w.cap + inc);
    retried = true;
    c.label("encoder:grow");
  };
  std::vector<size_t> sp = splits(c, msg.size());
  if (sp.size() > 1) c.label("encoder:split-push");
  size_t off = 0, guard = 0;
  for (size_t n : sp) {
    while (n) {
      VP_CHECK(c, ++guard < 200000, "encoder-no-progress", "%s: encoder loops without progress", kName[fr]);
      struct iovec dst = {w.p, w.cap}, src = {(void *)(msg.data() + off), n};
      size_t before = st.done + st.scratch;
      ssize_t r = enc(&st, &dst, &src);
      VP_CHECK(c, st.done + st.scratch <= w.cap, "encoder-accounting", "%s: done %zu + scratch %zu > capacity %zu", kName[fr], st.done, st.scratch, w.cap);
      if (r == MPT_ERROR(MissingBuffer)) { grow(); continue; }
      VP_CHECK(c, r >= 0, "encoder-refused", "%s: push of %zu bytes at offset %zu refused with %zd (cap %zu, done %zu, scratch %zu)", kName[fr], n, off, r, w.cap, st.done, st.scratch);
      VP_CHECK(c, (size_t)r <= n, "encoder-accounting", "%s: consumed %zd of %zu", kName[fr], r, n);
      if (!r) {
        VP_CHECK(c, st.done + st.scratch == before || w.cap, "encoder-accounting", "state changed on empty push");
        grow();
        continue;
      }
      off += r;
      n -= r;
    }
  }
  while (true) {
    VP_CHECK(c, ++guard < 200000, "encoder-no-progress", "%s: terminate loops", kName[fr]);
    struct iovec dst = {w.p, w.cap};
    ssize_t r = enc(&st, &dst, 0);
    VP_CHECK(c, st.done + st.scratch <= w.cap, "encoder-accounting", "%s: after terminate done %zu + scratch %zu > capacity %zu", kName[fr], st.done, st.scratch, w.cap);
    if (r == MPT_ERROR(MissingBuffer)) { grow(); continue; }
    VP_CHECK(c, r >= 0, "encoder-refused", "%s: terminate refused with %zd", kName[fr], r);
    break;
  }
  VP_CHECK(c, st.scratch == 0, "encoder-accounting", "%s: scratch %zu after terminate", kName[fr], st.scratch);
  return std::vector<uint8_t>(w.p, w.p + st.done);
}

// ---- (b) mpt_array_push, possibly behind earlier frames
static std::vector<uint8_t> encode_via_array(Ctx &c, int fr, const std::vector<uint8_t> &msg, size_t nprev) {
  CObj<encode_array> arrobj; encode_array &arr = *arrobj;
  arr._enc = mpt_message_encoder(kEncoding[fr]);
  struct Fini { encode_array *a; ~Fini() { mpt_encode_array_fini(a); } } fini{&arr};
  size_t prevdone = 0;
  for (size_t k = 0; k <= nprev; k++) {
    std::vector<uint8_t> other;
    const std::vector<uint8_t> *m = &msg;
    if (k < nprev) { other = msggen::message(c, 40, fr == FCommand); m = &other; }
    size_t off = 0;
    for (size_t n : splits(c, m->size())) {
      ssize_t r = mpt_array_push(&arr, n, m->data() + off);
      VP_CHECK(c, r == (ssize_t)n, "push-refused", "%s: mpt_array_push(%zu) returned %zd", kName[fr], n, r);
      off += n;
    }
    ssize_t r = mpt_array_push(&arr, 0, 0);
    VP_CHECK(c, r >= 0, "push-refused", "%s: terminating push returned %zd", kName[fr], r);
    VP_CHECK(c, arr._state.scratch == 0 && arr._state.done > prevdone, "encoder-accounting", "%s: done %zu scratch %zu after terminate (was %zu)", kName[fr], arr._state.done, arr._state.scratch, prevdone);
    if (k < nprev) prevdone = arr._state.done;
  }
  CBuf *b = cbuf(arr._d);
  VP_CHECK(c, b && b->used >= arr._state.done, "encoder-accounting", "buffer used < done");
  const uint8_t *base = b->data();
  // the frame of interest is the last one: starts after the previous delimiter
  return std::vector<uint8_t>(base + prevdone, base + arr._state.done);
}

static void check_frame(Ctx &c, int fr, const std::vector<uint8_t> &frame, const std::vector<uint8_t> &msg) {
  c.loghex("frame", frame.data(), frame.size());
  VP_CHECK(c, !frame.empty() && frame.back() == 0, "frame-delimiter", "%s: frame does not end in the delimiter", kName[fr]);
  for (size_t i = 0; i + 1 < frame.size(); i++)
    VP_CHECK(c, frame[i] != 0, "frame-inner-zero", "%s: zero byte at %zu inside frame of %zu bytes", kName[fr], i, frame.size());
  if (fr == FCommand) {
    VP_CHECK(c, frame.size() == msg.size() + 1 && !memcmp(frame.data(), msg.data(), msg.size()), "frame-content", "command frame differs from text");
    return;
  }
  std::vector<uint8_t> out;
  ref::Verdict v = ref::decode((ref::Dialect)fr, frame.data(), frame.size() - 1, out);
  VP_CHECK(c, v == ref::WellFormed && out == msg, "ref-decode-mismatch", "%s: reference decoder gives %zu bytes %s for message of %zu bytes %s", kName[fr],
           out.size(), hex(out.data(), out.size(), 24).c_str(), msg.size(), hex(msg.data(), msg.size(), 24).c_str());
}

// decode with the library decoder, in place behind a scratch prefix, fed in segments
static void decode_lib(Ctx &c, int fr, const std::vector<uint8_t> &frame, const std::vector<uint8_t> &msg) {
  MPT_TYPE(data_decoder) dec = mpt_message_decoder(kEncoding[fr]);
  VP_CHECK(c, dec, "no-decoder", "no decoder");
  CObj<decode_state> stobj; decode_state &st = *stobj; st.data.msg = -1;
  size_t pairs = 0;
  if (fr != FCommand) { std::vector<uint8_t> tmp; ref::decode((ref::Dialect)fr, frame.data(), frame.size() - 1, tmp, &pairs); }
  size_t prefix;
  size_t need = fr == FCommand ? 2 : (fr >= FZpe ? pairs + 16 : 0);
  switch (c.pick(3)) {
    case 0: prefix = need; break;
    case 1: prefix = need + c.range(0, 17); break;
    default: { int q = dec(&st, 0, frame.size()); prefix = q > 0 ? q : need; if (prefix < need) prefix = need; }
  }
  if (fr == FCommand) { memset(&st, 0, sizeof st); st.data.msg = -1; }
  Window w;
  w.grow(prefix + frame.size());
  memcpy(w.p + prefix, frame.data(), frame.size());
  st.curr = prefix;
  size_t visible = c.flip() ? frame.size() : c.range(0, frame.size());
  int rc = 0, calls = 0;
  while (true) {
    VP_CHECK(c, ++calls < 100000, "decoder-no-progress", "decoder loops");
    struct iovec v[3];
    size_t total = prefix + visible, nv = 1;
    size_t cut = c.flip() ? c.range(0, total) : total;
    v[0].iov_base = w.p; v[0].iov_len = cut;
    if (cut < total) { v[1].iov_base = w.p + cut; v[1].iov_len = total - cut; nv = 2; c.label("decoder:two-iovecs"); }
    rc = dec(&st, v, nv);
    if (rc == 1) break;
    VP_CHECK(c, rc == 0, "decode-refused", "%s: decoder returned %d with %zu of %zu frame bytes visible (prefix %zu)", kName[fr], rc, visible, frame.size(), prefix);
    VP_CHECK(c, visible < frame.size(), "decode-stall", "%s: decoder wants more data although the whole frame (%zu bytes) is visible", kName[fr], frame.size());
    visible += c.range(1, frame.size() - visible);
    c.label("decoder:segmented");
  }
  VP_CHECK(c, st.data.msg >= 0 && st.data.pos + st.data.msg <= prefix + frame.size(), "decode-window", "message window %zu+%zd outside buffer", st.data.pos, st.data.msg);
  std::vector<uint8_t> got(w.p + st.data.pos, w.p + st.data.pos + st.data.msg), want;
  if (fr == FCommand) { want.push_back(0x04 /* MessageCommand */); want.push_back(' '); }
  want.insert(want.end(), msg.begin(), msg.end());
  VP_CHECK(c, got == want, "roundtrip-mismatch", "%s: decoded %zu bytes %s, expected %zu bytes %s", kName[fr], got.size(), hex(got.data(), got.size(), 24).c_str(),
           want.size(), hex(want.data(), want.size(), 24).c_str());
  VP_CHECK(c, st.curr == prefix + frame.size(), "decode-consumed", "%s: consumed up to %zu, frame ends at %zu", kName[fr], st.curr, prefix + frame.size());
}

// ---- (c) C++ encode_array: a few messages, each handed over as a fragment list or in pieces, while the finished
// bytes are taken out in drawn portions; everything taken out, in order, must be the frames of the messages
static void run_cxx(Ctx &c, int fr) {
  c.logf("framing=%s entry=c++ encode_array", kName[fr]);
  c.label(kName[fr]);
  c.label("entry:cxx-encode_array");
  encode_array arr(mpt_message_encoder(kEncoding[fr]));
  std::vector<uint8_t> wire;      // bytes taken out so far
  std::vector<uint8_t> finished;  // wire + what data() showed at the last look: finished bytes never change
  std::vector<std::vector<uint8_t>> sent;
  bool nt = false;
  auto look = [&](const char *after) {
    span<const uint8_t> d = arr.data();
    VP_CHECK(c, d.size() == arr._state.done, "cxx-data", "after %s: data() has %zu bytes, %zu are finished", after, (size_t)d.size(), arr._state.done);
    CBuf *b = cbuf(arr._d);
    size_t used = b ? b->used : 0;
    VP_CHECK(c, arr._state.done + arr._state.scratch <= used, "encoder-accounting", "after %s: done %zu + scratch %zu > used %zu", after, arr._state.done, arr._state.scratch, used);
    std::vector<uint8_t> now = wire;
    if (d.size()) now.insert(now.end(), d.begin(), d.end());
    VP_CHECK(c, now.size() >= finished.size() && !memcmp(now.data(), finished.data(), finished.size()), "cxx-finished-changed",
             "after %s: finished bytes changed: had %zu bytes %s, now %zu bytes %s", after, finished.size(), hex(finished.data(), finished.size(), 32).c_str(), now.size(),
             hex(now.data(), now.size(), 32).c_str());
    finished = now;
  };
  auto side = [&]() {  // drawn operation between pushes
    switch (c.weighted({4, 3, 2, 1})) {
      case 0: break;
      case 1: {  // take finished bytes out
        span<const uint8_t> d = arr.data();
        size_t done = arr._state.done;
        size_t k = c.flip() ? done : c.range(0, done);
        if (!k) break;
        wire.insert(wire.end(), d.begin(), d.begin() + k);
        bool ok = arr.shift(k);
        c.logf("  shift(%zu) of %zu finished = %d", k, done, (int)ok);
        VP_CHECK(c, ok && arr._state.done == done - k, "cxx-shift", "shift(%zu) with %zu finished bytes returned %d, %zu finished left", k, done, (int)ok, arr._state.done);
        c.label(k < done ? "cxx:take-part" : "cxx:take-all");
        look("shift(n)");
        break; }
      case 2: {  // move the live part to the front
        CBuf *b = cbuf(arr._d);
        size_t used = b ? b->used : 0, live = arr._state.done + arr._state.scratch;
        bool ok = arr.shift(0);
        c.logf("  shift() with %zu used, %zu live = %d", used, live, (int)ok);
        VP_CHECK(c, ok == (used > live), "cxx-compact", "shift() with %zu bytes in the array, %zu of them live, returned %d", used, live, (int)ok);
        b = cbuf(arr._d);
        VP_CHECK(c, !ok || (b && b->used == live), "cxx-compact", "after shift() the array holds %zu bytes, %zu are live", b ? b->used : 0, live);
        if (ok) { c.label("cxx:compact"); if (live) nt = true; }
        look("shift()");
        break; }
      default: {  // more than is finished cannot be taken
        size_t done = arr._state.done;
        bool ok = arr.shift(done + c.range(1, 9));
        VP_CHECK(c, !ok && arr._state.done == done, "cxx-shift", "shift beyond the %zu finished bytes returned %d, %zu finished now", done, (int)ok, arr._state.done);
        look("refused shift");
      }
    }
  };
  size_t nmsg = c.range(1, 4);
  for (size_t k = 0; k < nmsg; k++) {
    std::vector<uint8_t> msg = msggen::message(c, k ? 300 : 700, fr == FCommand);
    c.loghex("message", msg.data(), msg.size());
    std::vector<size_t> sp = splits(c, msg.size());
    size_t off = 0, i = 0;
    // a message that is started and then discarded (push(1, NULL): "delete the unfinished message") leaves the finished
    // frames alone and the next message starts cleanly. Decided by the message itself, no draw.
    if (fr != FCommand && msg.size() >= 2 && msg.size() % 5 == 2) {
      size_t before = arr._state.done, glen = std::min<size_t>(msg.size() - 1, 300), first = glen / 2 ? glen / 2 : 1;
      ssize_t r = arr.push(first, msg.data());
      VP_CHECK(c, r == (ssize_t)first, "push-refused", "%s: encode_array::push(%zu) returned %zd", kName[fr], first, r);
      if (glen > first) { r = arr.push(glen - first, msg.data() + first); VP_CHECK(c, r == (ssize_t)(glen - first), "push-refused", "%s: encode_array::push(%zu) returned %zd", kName[fr], glen - first, r); }
      // (closed blocks of the unfinished message count as finished until the discard takes them back: no look() here)
      r = arr.push(1, 0);
      c.logf("  discard of %zu unfinished bytes = %zd", glen, r);
      VP_CHECK(c, r >= 0 && arr._state.scratch == 0 && arr._state.done == before, "cxx-discard", "%s: discarding an unfinished message of %zu bytes returned %zd, finished bytes %zu -> %zu, open %zu",
               kName[fr], glen, r, before, arr._state.done, arr._state.scratch);
      look("discard");
      c.label("cxx:discard-unfinished");
      nt = true;
    }
    size_t pieces = c.weighted({2, 1, 1}) == 0 ? 0 : c.range(0, sp.size());  // leading splits pushed one by one, the rest as one fragmented message
    for (; i < pieces; i++) {
      ssize_t r = arr.push(sp[i], msg.data() + off);
      VP_CHECK(c, r == (ssize_t)sp[i], "push-refused", "%s: encode_array::push(%zu) returned %zd", kName[fr], sp[i], r);
      off += sp[i];
      look("push(len, data)");
      side();
    }
    if (i < sp.size()) {
      std::vector<struct iovec> vec;
      message m(msg.data() + off, sp[i]);
      if (c.chance(64)) { m.used = 0; vec.push_back({(void *)(msg.data() + off), sp[i]}); }  // empty head part
      off += sp[i];
      for (++i; i < sp.size(); i++) {
        if (c.chance(50)) vec.push_back({(void *)(msg.data() + off), 0});
        vec.push_back({(void *)(msg.data() + off), sp[i]});
        off += sp[i];
      }
      if (c.chance(50)) vec.push_back({(void *)(msg.data() + off), 0});
      m.cont = vec.data();
      m.clen = vec.size();
      c.logf("  push(message: %zu bytes + %zu further parts)", m.used, m.clen);
      bool ok = arr.push(m);
      VP_CHECK(c, ok, "push-refused", "%s: encode_array::push(message of %zu parts) refused", kName[fr], vec.size() + 1);
      c.label(vec.empty() ? "cxx:message-one-part" : "cxx:message-fragments");
      if (!vec.empty()) nt = true;
      look("push(message)");
      side();
    }
    ssize_t r = arr.push(0, 0);
    VP_CHECK(c, r >= 0 && arr._state.scratch == 0, "push-refused", "%s: terminating push returned %zd, scratch %zu", kName[fr], r, arr._state.scratch);
    look("terminate");
    sent.push_back(msg);
    side();
    if (c.flip()) side();
  }
  // take the rest and compare frame by frame
  { span<const uint8_t> d = arr.data(); if (d.size()) wire.insert(wire.end(), d.begin(), d.end()); }
  VP_CHECK(c, wire == finished, "cxx-finished-changed", "bytes taken out (%zu) differ from the finished bytes seen (%zu)", wire.size(), finished.size());
  size_t pos = 0;
  for (size_t k = 0; k < sent.size(); k++) {
    size_t end = pos;
    while (end < wire.size() && wire[end]) ++end;
    VP_CHECK(c, end < wire.size(), "frame-delimiter", "%s: no delimiter for message %zu of %zu in %zu wire bytes", kName[fr], k + 1, sent.size(), wire.size());
    std::vector<uint8_t> frame(wire.begin() + pos, wire.begin() + end + 1);
    check_frame(c, fr, frame, sent[k]);
    decode_lib(c, fr, frame, sent[k]);
    pos = end + 1;
  }
  VP_CHECK(c, pos == wire.size(), "cxx-extra-bytes", "%s: %zu bytes behind the last of %zu frames", kName[fr], wire.size() - pos, sent.size());
  if (sent.size() > 1) c.label("cxx:several-messages");
  if (nt) c.nontrivial();
}

static void classify(Ctx &c, int fr, const std::vector<uint8_t> &msg, bool retried) {
  bool nt = retried;
  size_t maxd = (fr >= FZpe && fr != FCommand) ? 222 : 254, run = 0;
  bool boundary = false, pair = false;
  for (size_t i = 0; i < msg.size(); i++) {
    if (msg[i]) { if (++run >= maxd) boundary = true; }
    else { if (i + 1 < msg.size() && !msg[i + 1]) pair = true; run = 0; }
  }
  if (boundary) { c.label("msg:block-boundary"); nt = true; }
  if (pair) { c.label("msg:zero-pair"); nt = true; }
  if (!msg.empty() && msg.back() > run + 1 && run > 0) { c.label("msg:inline-tail-candidate"); nt = true; }
  if (msg.empty()) c.label("msg:empty");
  if (nt) c.nontrivial();
}

static void run_struct(Ctx &c, int fr, int entry, const std::vector<uint8_t> &msg) {
  c.logf("framing=%s entry=%s", kName[fr], entry ? "array_push" : "encoder");
  c.loghex("message", msg.data(), msg.size());
  c.label(kName[fr]);
  bool retried = false;
  std::vector<uint8_t> frame;
  if (entry == 0) frame = encode_direct(c, fr, msg, retried);
  else { size_t nprev = c.pick(3); frame = encode_via_array(c, fr, msg, nprev); if (nprev) c.label("array:behind-frames"); c.label("entry:array_push"); }
  check_frame(c, fr, frame, msg);
  decode_lib(c, fr, frame, msg);
  classify(c, fr, msg, retried);
}

// frame produced by the bundled Python client (tools/c01_pyclient.py writes these cases)
static void run_pyframe(Ctx &c, int fr) {
  size_t n = c.u16();
  std::vector<uint8_t> msg = c.bytes(n), frame;
  while (!c.exhausted()) frame.push_back(c.u8());
  c.logf("python client frame (mpt.py %s)", fr == FCommand ? "encode_command" : "encode_cobs");
  c.loghex("message", msg.data(), msg.size());
  c.label("python-client");
  VP_CHECK(c, !frame.empty(), "python-client-no-frame", "the client wrote nothing for a message of %zu bytes", msg.size());
  check_frame(c, fr, frame, msg);
  decode_lib(c, fr, frame, msg);
  if (fr == FCommand) { c.label("python-client:command"); if (msg.size() > 1) c.nontrivial(); return; }
  size_t run = 0;
  for (uint8_t b : msg) { if (b) { if (++run >= 254) { c.nontrivial(); c.label("msg:block-boundary"); break; } } else run = 0; }
}

static void run(Ctx &c) {
  uint8_t sel = c.u8();
  if (sel == 0xfe && external_mode()) { run_pyframe(c, FCobs); return; }
  if (sel == 0xfd && external_mode()) { run_pyframe(c, FCommand); return; }
  if (sel == 0xff) {  // enumerated sub-space: message of length <= 4 over the boundary alphabet
    static const uint8_t A[] = {0x00, 0x01, 0x02, 0xDE, 0xDF, 0xE0, 0xE1, 0xFE, 0xFF};
    int fr = c.pick(NFraming);
    size_t n = c.pick(5);
    std::vector<uint8_t> msg;
    for (size_t i = 0; i < n; i++) msg.push_back(A[c.pick(9)]);
    if (fr == FCommand) for (auto &b : msg) if (!b) b = 1;
    run_struct(c, fr, (int)c.pick(2), msg);
    c.nontrivial();
    return;
  }
  int fr = sel % NFraming;
  if (sel >= 0xd0) { run_cxx(c, fr); return; }
  int entry = (sel / NFraming) % 2;
  size_t maxlen = c.flip() ? 700 : 2200;
  std::vector<uint8_t> msg = msggen::message(c, maxlen, fr == FCommand);
  run_struct(c, fr, entry, msg);
}

// exhaustive: 5 framings x messages len<=4 over 9 symbols x entry x split/capacity modes {0,1,2}x{0,1}
static uint64_t enum_count(int) { return 5ull * (1 + 9 + 81 + 729 + 6561) * 2 * 3 * 2; }
static void enum_make(uint64_t idx, int, std::vector<uint8_t> &out) {
  out.clear();
  out.push_back(0xff);
  uint64_t capmode = idx % 2; idx /= 2;
  uint64_t split = idx % 3; idx /= 3;
  uint64_t entry = idx % 2; idx /= 2;
  uint64_t fr = idx % 5; idx /= 5;
  size_t n = 0;
  uint64_t span = 1;
  while (idx >= span) { idx -= span; span *= 9; ++n; }
  out.push_back((uint8_t)fr);
  out.push_back((uint8_t)n);
  for (size_t i = 0; i < n; i++) { out.push_back(idx % 9); idx /= 9; }
  out.push_back((uint8_t)entry);
  if (entry == 0) {
    out.push_back(capmode ? 0 : 2);  // initial capacity
    out.push_back(0);                // inc_style 0 => +1 per grow
  } else {
    out.push_back(0);                // no previous frames
  }
  // split mode byte for weighted({3,2,2}): 0..2 whole, 3..4 boundary, 5..6 small
  out.push_back(split == 0 ? 0 : split == 1 ? 3 : 5);
  for (int i = 0; i < 24; i++) out.push_back(capmode ? 1 : 0);
}

static Target t = {
    "C01",
    "random: framing (5) x entry point (encoder fn on exact-size window with drawn growth schedule | mpt_array_push behind 0-2 earlier frames | "
    "C++ encode_array: 1-4 messages handed over in pieces and/or as a fragmented message incl. empty parts, with finished bytes taken out in drawn portions by data()/shift(n), "
    "the live part moved to the front by shift(), over-long shifts refused, unfinished messages discarded by push(1, NULL); all bytes taken out must be the frames in order) x "
    "run-structured message (non-zero runs near 30/31/222/223/254/255, zero runs, bytes >= 0xDE) x push splits; decode in place behind a scratch prefix, "
    "segmented and over 1-2 iovecs. exhaustive: all messages of length <= 4 over {00,01,02,DE,DF,E0,E1,FE,FF} x 5 framings x 2 entries x 3 split modes x 2 capacity modes. "
    "non-trivial: message crosses a block boundary, has a zero pair, ends in a tail-inline candidate, or the encoder had to be retried after MissingBuffer "
    "(all enumerated cases count), or a C++ case with a fragmented message or a compaction with live bytes; distinct by hash of the draw sequence.",
    run,
    {3000, 9000},
    false,
    true,
    {{"len<=4 boundary alphabet x framings x schedules", enum_count, enum_make}},
    0,
    0,
};
Target &vp::target() { return t; }
