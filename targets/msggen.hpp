// message generator shared by the codec targets (C01, C02, C03): messages are built from runs so that
// block boundaries (254/255, 222/223), zero pairs after short blocks (<=30 data bytes) and tail-inline
// candidates occur often.
#pragma once
#include "vp.hpp"
#include <vector>

namespace msggen {
inline std::vector<uint8_t> message(vp::Ctx &c, size_t maxlen, bool zero_free) {
  std::vector<uint8_t> m;
  // number of runs drawn up front: the message must not eat all case bytes, later draws (splits, schedules) need some
  size_t nruns = c.weighted({2, 3, 3, 3, 2, 2, 1, 1, 1});
  if (nruns == 8) nruns = c.range(8, 24);
  while (m.size() < maxlen && nruns--) {
    size_t kind = c.weighted({4, 3, 2, 2, 1});
    switch (kind) {
      case 0: {  // non-zero run, boundary lengths
        size_t n = c.near({1, 30, 31, 32, 222, 223, 224, 253, 254, 255, 256, 445, 446, 508, 509}, 600);
        uint8_t base = c.u8();
        bool ramp = c.flip();
        for (size_t i = 0; i < n && m.size() < maxlen; i++) { uint8_t b = ramp ? (uint8_t)(base + i) : base; m.push_back(b ? b : 1); }
        break; }
      case 1: {  // zero run
        if (zero_free) { m.push_back(c.u8() | 1); break; }
        size_t n = c.range(1, 5);
        for (size_t i = 0; i < n && m.size() < maxlen; i++) m.push_back(0);
        break; }
      case 2: {  // high bytes (>= 0xE0) run: matters for ZPE codes and tail inline
        size_t n = c.range(1, 6);
        for (size_t i = 0; i < n && m.size() < maxlen; i++) m.push_back((uint8_t)(0xde + c.range(0, 0x21)));
        break; }
      case 3: {  // arbitrary bytes
        size_t n = c.range(1, 12);
        for (size_t i = 0; i < n && m.size() < maxlen; i++) { uint8_t b = c.u8(); m.push_back(zero_free && !b ? 1 : b); }
        break; }
      default: {  // single byte relative to small codes
        uint8_t b = (uint8_t)c.range(0, 40);
        m.push_back(zero_free && !b ? 1 : b);
        break; }
    }
  }
  if (m.size() > maxlen) m.resize(maxlen);
  return m;
}
}  // namespace msggen
