// C17 — fragmented messages read like contiguous ones        vp-link: core
//
// G: byte string <= 300 (text-like: words, white space, quotes, separators, comments, NULs | small alphabet |
//    arbitrary) x a composition of its length into <= 6 fragments (zero-length fragments included), every fragment
//    in its own exact-size heap block, or the one/two parts mpt_message_get() yields for a (wrapped) queue
//    x operation arguments.
// O: metamorphic — the operation on the fragmented message/iovec list gives the same result as on the single
//    exact-size block holding the concatenation; plus an independent flat reference for read, length, memchr,
//    memrchr, memstr, memrstr, memfcn, memrfcn, memcpy, mpt_message_append and mpt_message_get.
#include "vp.hpp"
#include "mpt_c.hpp"

#include <cctype>
#include <cerrno>
#include <functional>

using namespace vp;
using namespace mpt;

typedef std::string Bytes;

// ---- fragment lists: every fragment and the iovec array itself are exact-size heap blocks
struct Frags {
  std::vector<uint8_t *> blk;
  std::vector<size_t> len;
  struct iovec *iov = 0;
  Frags() {}
  Frags(const Frags &) = delete;
  Frags &operator=(const Frags &) = delete;
  void build(const Bytes &text, const std::vector<size_t> &lens, int fill = -1) {
    size_t off = 0;
    for (size_t l : lens) {
      uint8_t *p = (uint8_t *)malloc(l);
      if (fill >= 0) memset(p, fill, l);
      else memcpy(p, text.data() + off, l);
      blk.push_back(p);
      len.push_back(l);
      off += l;
    }
    iov = (struct iovec *)malloc(lens.size() * sizeof(*iov));
    for (size_t i = 0; i < lens.size(); i++) { iov[i].iov_base = blk[i]; iov[i].iov_len = len[i]; }
  }
  ~Frags() {
    for (uint8_t *p : blk) free(p);
    free(iov);
  }
  size_t count() const { return blk.size(); }
  message msg() const {
    message m;
    if (!count()) return m;
    m.base = blk[0];
    m.used = len[0];
    m.clen = count() - 1;
    m.cont = m.clen ? iov + 1 : 0;
    return m;
  }
  Bytes flat() const {
    Bytes s;
    for (size_t i = 0; i < count(); i++) s.append((const char *)blk[i], len[i]);
    return s;
  }
};

static Bytes flatten(const message &m) {
  Bytes s((const char *)m.base, m.used);
  for (size_t i = 0; i < m.clen; i++) s.append((const char *)m.cont[i].iov_base, m.cont[i].iov_len);
  return s;
}
// exact-size iovec array describing a message
struct IovList {
  struct iovec *v;
  size_t n;
  IovList(const message &m) {
    n = 1 + m.clen;
    v = (struct iovec *)malloc(n * sizeof(*v));
    v[0].iov_base = (void *)m.base;
    v[0].iov_len = m.used;
    for (size_t i = 0; i < m.clen; i++) v[i + 1] = m.cont[i];
  }
  ~IovList() { free(v); }
};

static std::string show(const Bytes &b, size_t max = 40) {
  std::string s = "\"";
  for (size_t i = 0; i < b.size() && i < max; i++) {
    unsigned char ch = b[i];
    char t[8];
    if (ch == '\\' || ch == '"') { s += '\\'; s += (char)ch; }
    else if (ch >= 0x20 && ch < 0x7f) s += (char)ch;
    else { snprintf(t, sizeof t, "\\x%02x", ch); s += t; }
  }
  s += b.size() > max ? "\"..." : "\"";
  return s;
}

// ---- the case: text, its fragmented form and its contiguous form
struct Case {
  Ctx &c;
  Bytes text;
  std::vector<size_t> lens;      // fragment lengths of the fragmented form
  Frags heap;                    // heap fragments (source "heap")
  // queue source
  uint8_t *qbuf = 0;
  queue qu;
  struct iovec qvec;
  bool from_queue = false;
  message fmsg;                  // the fragmented message
  Frags one;                     // contiguous form
  message omsg;
  size_t first_len = 0;          // length of the leading fragments up to and including the first non-empty one
  unsigned nonempty = 0;
  bool nt = false;
  Case(Ctx &ctx) : c(ctx) {}
  ~Case() { free(qbuf); }
  void finish() {
    one.build(text, {text.size()});
    omsg = one.msg();
    std::vector<size_t> l;
    l.push_back(fmsg.used);
    for (size_t i = 0; i < fmsg.clen; i++) l.push_back(fmsg.cont[i].iov_len);
    lens = l;
    nonempty = 0;
    first_len = 0;
    for (size_t x : l) { if (x) { if (!nonempty) first_len = x; ++nonempty; } }
  }
  // position (or extent end) beyond the first non-empty fragment: the answer depends on the continuation
  void reached(size_t pos) { if (nonempty >= 2 && pos >= first_len) nt = true; }
};

static void logcase(Case &k) {
  Ctx &c = k.c;
  if (!c.verbose()) return;
  std::string s;
  for (size_t x : k.lens) { char b[16]; snprintf(b, sizeof b, "%s%zu", s.empty() ? "" : "+", x); s += b; }
  c.logf("text (%zu bytes) %s", k.text.size(), show(k.text, 300).c_str());
  c.logf("fragments %s%s", s.c_str(), k.from_queue ? "  (parts of a queue, via mpt_message_get)" : "");
}

// ---- generators
static Bytes gen_text(Ctx &c) {
  size_t n;
  switch (c.weighted({5, 4, 2})) {
    case 0: n = c.range(0, 12); break;
    case 1: n = c.range(0, 80); break;
    default: n = c.range(0, 300); break;
  }
  Bytes s;
  unsigned mode = (unsigned)c.weighted({6, 3, 2});
  if (mode == 2) {
    for (size_t i = 0; i < n; i++) s.push_back((char)c.u8());
    c.label("text:arbitrary");
    return s;
  }
  if (mode == 1) {
    static const char pool[] = "a \"\n,#'\\\t\0=b";
    char al[4];
    size_t na = c.range(1, 4);
    for (size_t i = 0; i < na; i++) al[i] = pool[c.pick(sizeof(pool) - 1)];
    for (size_t i = 0; i < n; i++) s.push_back(al[c.pick(na)]);
    c.label("text:small-alphabet");
    return s;
  }
  c.label("text:words");
  while (s.size() < n) {
    switch (c.weighted({8, 8, 3, 3, 1, 1, 1, 1})) {
      case 0: { size_t l = c.range(1, 6); for (size_t i = 0; i < l; i++) s.push_back("abcxyz019_"[c.pick(10)]); break; }
      case 1: { size_t l = c.weighted({6, 2, 1}) + 1; for (size_t i = 0; i < l; i++) s.push_back(" \t\n\r\v\f  "[c.pick(8)]); break; }
      case 2: {
        char q = c.flip() ? '"' : '\'';
        s.push_back(q);
        size_t l = c.range(0, 8);
        for (size_t i = 0; i < l; i++) s.push_back("ab c\t\\\"'d "[c.pick(10)]);
        if (c.weighted({5, 1}) == 0) s.push_back(q);
        break;
      }
      case 3: s.push_back(",:=/;"[c.pick(5)]); break;
      case 4: s.push_back('#'); break;
      case 5: s.push_back('\0'); break;
      case 6: s.push_back('\\'); break;
      default: s.push_back((char)(0x80 | c.u8())); break;
    }
  }
  s.resize(n);
  return s;
}
static std::vector<size_t> gen_composition(Ctx &c, size_t n, size_t maxparts) {
  static const unsigned w6[] = {1, 4, 4, 2, 1, 1};
  size_t k = 1;
  {
    unsigned tot = 0;
    for (size_t i = 0; i < maxparts; i++) tot += w6[i];
    unsigned r = (unsigned)c.range(0, tot - 1);
    for (size_t i = 0; i < maxparts; i++) { if (r < w6[i]) { k = i + 1; break; } r -= w6[i]; }
  }
  std::vector<size_t> cuts;
  for (size_t i = 1; i < k; i++) {
    size_t p;
    switch (c.weighted({6, 1, 1, 1})) {
      case 0: p = c.range(0, n); break;
      case 1: p = 0; break;
      case 2: p = n; break;
      default: p = cuts.empty() ? c.range(0, n) : cuts.back(); break;
    }
    cuts.push_back(p);
  }
  std::sort(cuts.begin(), cuts.end());
  std::vector<size_t> lens;
  size_t prev = 0;
  for (size_t p : cuts) { lens.push_back(p - prev); prev = p; }
  lens.push_back(n - prev);
  return lens;
}

// ---- references
static ssize_t ref_first(const Bytes &t, const std::function<bool(unsigned char)> &p) {
  for (size_t i = 0; i < t.size(); i++) if (p((unsigned char)t[i])) return (ssize_t)i;
  return -1;
}
static ssize_t ref_last(const Bytes &t, const std::function<bool(unsigned char)> &p) {
  for (size_t i = t.size(); i-- > 0;) if (p((unsigned char)t[i])) return (ssize_t)i;
  return -1;
}

#define CK VP_CHECK

// a search result: same on both forms; equal to the reference position, or negative when there is none
static void check_search(Case &k, const char *what, ssize_t rf, ssize_t ro, ssize_t ref, bool have_ref) {
  Ctx &c = k.c;
  c.logf("%s: fragmented %zd, contiguous %zd%s", what, rf, ro, have_ref ? "" : " (no independent reference)");
  CK(c, rf == ro, "search-differs", "%s: %zd on the fragments, %zd on the contiguous string", what, rf, ro);
  if (have_ref) {
    if (ref >= 0) CK(c, ro == ref, "search-reference", "%s: %zd on the contiguous string, reference position %zd", what, ro, ref);
    else CK(c, ro < 0, "search-reference", "%s: %zd on the contiguous string, reference finds nothing", what, ro);
  }
  if (rf >= 0) k.reached((size_t)rf);
}

// ---- callbacks for memfcn
struct Pred { int kind; int arg; };
static bool pred_eval(const Pred &p, int ch) {
  switch (p.kind) {
    case 0: return isspace(ch);
    case 1: return !isspace(ch);
    case 2: return ch == p.arg;
    case 3: return (ch & p.arg) != 0;
    case 4: return isdigit(ch);
    default: return ch > p.arg;
  }
}
static int pred_cb(int ch, void *par) { return pred_eval(*(const Pred *)par, ch) ? 1 : 0; }

// ---- operations on the iovec form
// the token is an int like the one of memchr(3): the reference is libc memchr/memrchr on the contiguous string with the same argument
static void memchr_once(Case &k, int tok, bool rev) {
  IovList f(k.fmsg), o(k.omsg);
  char what[48];
  snprintf(what, sizeof what, "%s(%d = 0x%02x)", rev ? "memrchr" : "memchr", tok, (unsigned)tok & 0xff);
  ssize_t rf = rev ? mpt_memrchr(f.v, f.n, tok) : mpt_memchr(f.v, f.n, tok);
  ssize_t ro = rev ? mpt_memrchr(o.v, o.n, tok) : mpt_memchr(o.v, o.n, tok);
  const char *t = k.text.data();
  const void *r = k.text.empty() ? 0 : rev ? memrchr(t, tok, k.text.size()) : memchr(t, tok, k.text.size());
  check_search(k, what, rf, ro, r ? (const char *)r - t : -1, true);
}
static void op_memchr(Case &k, int tok, bool rev) {
  unsigned char b = (unsigned char)tok;
  memchr_once(k, b, rev);
  if (b >= 0x80) {  // the same byte as a caller holding it in a plain (signed) char passes it
    memchr_once(k, (int)(signed char)b, rev);
    k.c.label(rev ? "memrchr:sign-extended-token" : "memchr:sign-extended-token");
  }
  k.c.label(rev ? "op:memrchr" : "op:memchr");
}
static void op_memstr(Case &k, const Bytes &set, bool rev) {
  IovList f(k.fmsg), o(k.omsg);
  uint8_t *m = (uint8_t *)malloc(set.size());
  memcpy(m, set.data(), set.size());
  std::string what = std::string(rev ? "memrstr(" : "memstr(") + show(set) + ")";
  ssize_t rf = rev ? mpt_memrstr(f.v, f.n, m, set.size()) : mpt_memstr(f.v, f.n, m, set.size());
  ssize_t ro = rev ? mpt_memrstr(o.v, o.n, m, set.size()) : mpt_memstr(o.v, o.n, m, set.size());
  free(m);
  auto p = [&set](unsigned char x) { return set.find((char)x) != Bytes::npos; };
  // an empty match set is answered with 0 by design (source: "if (!mlen) return 0"): no reference for it
  check_search(k, what.c_str(), rf, ro, rev ? ref_last(k.text, p) : ref_first(k.text, p), !set.empty());
  k.c.label(rev ? "op:memrstr" : "op:memstr");
}
static void op_memfcn(Case &k, Pred pr, bool rev) {
  IovList f(k.fmsg), o(k.omsg);
  char what[48];
  snprintf(what, sizeof what, "%s(pred %d/%d)", rev ? "memrfcn" : "memfcn", pr.kind, pr.arg);
  ssize_t rf = rev ? mpt_memrfcn(f.v, f.n, pred_cb, &pr) : mpt_memfcn(f.v, f.n, pred_cb, &pr);
  ssize_t ro = rev ? mpt_memrfcn(o.v, o.n, pred_cb, &pr) : mpt_memfcn(o.v, o.n, pred_cb, &pr);
  auto p = [&pr](unsigned char x) { return pred_eval(pr, x); };
  check_search(k, what, rf, ro, rev ? ref_last(k.text, p) : ref_first(k.text, p), true);
  k.c.label(rev ? "op:memrfcn" : "op:memfcn");
}
static void op_memtok(Case &k, const char *tok, const char *com, const char *esc) {
  IovList f(k.fmsg), o(k.omsg);
  std::string what = std::string("memtok(tok=") + (tok ? show(tok) : "NULL") + ", com=" + (com ? show(com) : "NULL") + ", esc=" + (esc ? show(esc) : "NULL") + ")";
  ssize_t ro = mpt_memtok(o.v, o.n, tok, com, esc);
  ssize_t rf = mpt_memtok(f.v, f.n, tok, com, esc);
  check_search(k, what.c_str(), rf, ro, 0, false);
  k.c.label("op:memtok");
  if (ro >= 0) k.c.label("memtok:found");
}

// ---- memcpy between fragment lists
static void op_memcpy(Case &k, ssize_t len, const std::vector<size_t> &dlens) {
  Ctx &c = k.c;
  size_t S = k.text.size(), D = 0;
  for (size_t x : dlens) D += x;
  IovList f(k.fmsg), o(k.omsg);
  Frags df, d1;
  df.build(Bytes(), dlens, 0xAA);
  d1.build(Bytes(), {D}, 0xAA);
  ssize_t rf = mpt_memcpy(len, f.v, f.n, df.iov, df.count());
  ssize_t ro = mpt_memcpy(len, o.v, o.n, d1.iov, d1.count());
  ssize_t ref;
  if (len > 0) ref = (size_t)len > S ? -1 : (size_t)len > D ? -2 : len;
  else if (len < 0) ref = (ssize_t)std::min(S, D);
  else ref = 0;
  std::string ds;
  for (size_t x : dlens) { char b[16]; snprintf(b, sizeof b, "%s%zu", ds.empty() ? "" : "+", x); ds += b; }
  c.logf("memcpy(len %zd, source %zu bytes, target %s = %zu bytes): fragmented %zd, contiguous %zd, reference %zd", len, S, ds.c_str(), D, rf, ro, ref);
  CK(c, rf == ro, "memcpy-differs", "memcpy(%zd): %zd between fragment lists, %zd between contiguous blocks (source %zu, target %zu bytes)", len, rf, ro, S, D);
  // the error codes for a too short source/target are not documented: only the refusal itself is demanded
  CK(c, ref < 0 ? ro < 0 : ro == ref, "memcpy-reference", "memcpy(%zd): returned %zd, reference %zd (source %zu, target %zu bytes)", len, ro, ref, S, D);
  Bytes want(D, (char)0xAA);
  if (ref > 0) memcpy(&want[0], k.text.data(), ref);
  Bytes gf = df.flat(), go = d1.flat();
  CK(c, gf == go, "memcpy-differs", "memcpy(%zd): target content differs, fragments %s, contiguous %s", len, show(gf).c_str(), show(go).c_str());
  CK(c, go == want, "memcpy-reference", "memcpy(%zd): target %s, expected %s", len, show(go).c_str(), show(want).c_str());
  c.label("op:memcpy");
  if (ref > 0) {
    c.label("memcpy:copied");
    size_t dn = 0, dfirst = 0;
    for (size_t x : dlens) if (x) { if (!dn) dfirst = x; ++dn; }
    k.reached((size_t)ref - 1);
    if (dn >= 2 && (size_t)ref > dfirst) k.nt = true;
  } else if (ref < 0) c.label("memcpy:refused");
}

// ---- operations on the message form
static void op_length(Case &k) {
  size_t lf = mpt_message_length(&k.fmsg), lo = mpt_message_length(&k.omsg);
  k.c.logf("length: fragmented %zu, contiguous %zu", lf, lo);
  CK(k.c, lf == lo, "length-differs", "mpt_message_length: %zu on the fragments, %zu on the contiguous string", lf, lo);
  CK(k.c, lo == k.text.size(), "length-reference", "mpt_message_length: %zu, text has %zu bytes", lo, k.text.size());
  k.c.label("op:length");
  if (k.nonempty >= 2) k.nt = true;
}
// both cursors describe the same remaining bytes
static void same_rest(Case &k, const message &mf, const message &mo, size_t pos, const char *after, bool have_ref) {
  Ctx &c = k.c;
  Bytes rf = flatten(mf), ro = flatten(mo);
  CK(c, rf == ro, "rest-differs", "after %s: fragmented message has %zu bytes left %s, contiguous has %zu bytes left %s", after, rf.size(), show(rf).c_str(), ro.size(), show(ro).c_str());
  if (have_ref) CK(c, ro == k.text.substr(pos), "rest-reference", "after %s: %zu bytes left %s, expected %zu bytes", after, ro.size(), show(ro).c_str(), k.text.size() - pos);
  size_t lf = mpt_message_length(&mf);
  CK(c, lf == rf.size(), "length-differs", "after %s: mpt_message_length %zu, cursor holds %zu bytes", after, lf, rf.size());
}
static size_t read_both(Case &k, message &mf, message &mo, size_t len, bool with_dest, size_t pos, bool have_ref) {
  Ctx &c = k.c;
  uint8_t *df = 0, *d1 = 0;
  if (with_dest) {
    df = (uint8_t *)malloc(len); d1 = (uint8_t *)malloc(len);
    memset(df, 0xAA, len); memset(d1, 0xAA, len);
  }
  size_t rf = mpt_message_read(&mf, len, df), ro = mpt_message_read(&mo, len, d1);
  Bytes gf((const char *)df, with_dest ? len : 0), go((const char *)d1, with_dest ? len : 0);
  free(df); free(d1);
  c.logf("read(%zu%s) at %zu: fragmented %zu, contiguous %zu", len, with_dest ? "" : ", no target", pos, rf, ro);
  CK(c, rf == ro, "read-differs", "mpt_message_read(%zu) at %zu: %zu from the fragments, %zu from the contiguous string", len, pos, rf, ro);
  CK(c, gf == go, "read-differs", "mpt_message_read(%zu) at %zu: data %s from the fragments, %s from the contiguous string", len, pos, show(gf).c_str(), show(go).c_str());
  if (have_ref) {
    size_t want = std::min(len, k.text.size() - pos);
    CK(c, ro == want, "read-reference", "mpt_message_read(%zu) at %zu of %zu: returned %zu", len, pos, k.text.size(), ro);
    if (with_dest) {
      Bytes w(len, (char)0xAA);
      memcpy(&w[0], k.text.data() + pos, want);
      CK(c, go == w, "read-reference", "mpt_message_read(%zu) at %zu: data %s, expected %s", len, pos, show(go).c_str(), show(w).c_str());
    }
  }
  if (ro) k.reached(pos + ro - 1);
  return ro;
}
static size_t draw_readlen(Case &k, size_t pos) {
  Ctx &c = k.c;
  size_t left = k.text.size() - pos;
  switch (c.weighted({5, 3, 1, 1, 1})) {
    case 0: {  // up to a fragment border +-1
      std::vector<size_t> b;
      size_t acc = 0;
      for (size_t x : k.lens) { acc += x; if (acc > pos) b.push_back(acc - pos); }
      if (b.empty()) return c.range(0, 2);
      size_t v = b[c.pick(b.size())], d = c.range(0, 2);
      return v + d >= 1 ? v + d - 1 : 0;
    }
    case 1: return c.range(0, left + 2);
    case 2: return 0;
    case 3: return left;
    default: return left + c.range(1, 1000);
  }
}
static void op_read(Case &k) {
  Ctx &c = k.c;
  message mf = k.fmsg, mo = k.omsg;
  size_t pos = 0;
  c.label("op:read");
  for (unsigned step = 0; step < 12; step++) {
    size_t len = draw_readlen(k, pos);
    pos += read_both(k, mf, mo, len, c.weighted({3, 1}) == 0, pos, true);
    same_rest(k, mf, mo, pos, "read", true);
    if (pos >= k.text.size() && step && !c.flip()) break;
  }
}
// the loop of mpt_array_message()/mpt_message_property(): next argument, read it, skip the separator
static void op_argv(Case &k, int sep) {
  Ctx &c = k.c;
  message mf = k.fmsg, mo = k.omsg;
  c.label("op:argv");
  for (unsigned step = 0; step < 40; step++) {
    size_t before = flatten(mo).size();
    ssize_t ro = mpt_message_argv(&mo, sep);
    ssize_t rf = mpt_message_argv(&mf, sep);
    c.logf("argv(sep 0x%02x) with %zu bytes left: fragmented %zd, contiguous %zd", (unsigned)sep & 0xff, before, rf, ro);
    CK(c, rf == ro, "argv-differs", "mpt_message_argv(0x%02x) with %zu bytes left: %zd on the fragments, %zd on the contiguous string", (unsigned)sep & 0xff, before, rf, ro);
    same_rest(k, mf, mo, 0, "argv", false);
    if (ro < 0) break;
    c.label("argv:argument");
    size_t start = k.text.size() - flatten(mo).size();
    if (ro > 0) {
      k.reached(start + ro - 1);
      size_t got = read_both(k, mf, mo, (size_t)ro, true, start, false);
      CK(c, got == (size_t)ro, "argv-length", "mpt_message_argv(0x%02x) returned %zd but only %zu bytes can be read", (unsigned)sep & 0xff, ro, got);
    }
    read_both(k, mf, mo, 1, false, start + ro, false);
    same_rest(k, mf, mo, 0, "argument read", false);
    if (!ro && sep) break;  // as mpt_array_message does
  }
}
static Bytes array_bytes(array *a) {
  CBuf *b = cbuf(a);
  return b ? Bytes((const char *)b->data(), b->used) : Bytes();
}
static void op_append(Case &k, const Bytes &prefix) {
  Ctx &c = k.c;
  CObj<array> af, ao;
  struct Fini { array *a; ~Fini() { mpt_array_clone(a, 0); } } f1{af}, f2{ao};
  if (!prefix.empty()) {
    CK(c, mpt_array_append(af, prefix.size(), prefix.data()) && mpt_array_append(ao, prefix.size(), prefix.data()), "harness", "mpt_array_append failed");
  }
  int ro = mpt_message_append(ao, &k.omsg);
  int rf = mpt_message_append(af, &k.fmsg);
  Bytes gf = array_bytes(af), go = array_bytes(ao);
  c.logf("append behind %zu bytes: fragmented %d (%zu bytes), contiguous %d (%zu bytes)", prefix.size(), rf, gf.size(), ro, go.size());
  CK(c, rf == ro, "append-differs", "mpt_message_append: %d for the fragments, %d for the contiguous string", rf, ro);
  CK(c, ro >= 0, "append-refused", "mpt_message_append of %zu bytes returned %d", k.text.size(), ro);
  CK(c, gf == go, "append-differs", "mpt_message_append: array holds %zu bytes %s from the fragments, %zu bytes %s from the contiguous string", gf.size(), show(gf).c_str(), go.size(), show(go).c_str());
  CK(c, go == prefix + k.text, "append-reference", "mpt_message_append: array holds %zu bytes %s, expected %zu", go.size(), show(go).c_str(), prefix.size() + k.text.size());
  c.label("op:append");
  if (k.nonempty >= 2) k.nt = true;
}
// ---- append to an array that cannot grow: a caller-supplied buffer of fixed capacity behind the public buffer
//      interface (get_flags, unref, addref, detach); detach refuses anything beyond the capacity
static uint32_t fx_flags(const CBuf *) { return 0; }
static void fx_unref(CBuf *) {}
static uintptr_t fx_addref(CBuf *) { return 1; }
static CBuf *fx_detach(CBuf *b, size_t len) {
  if (len > b->size) { errno = ENOMEM; return 0; }
  return b;
}
static const CBufVptr kFixedVptr = {fx_flags, fx_unref, fx_addref, fx_detach};
struct FixedBuf {
  CBuf *b;
  FixedBuf(size_t cap) {
    b = (CBuf *)malloc(sizeof(CBuf) + cap);  // exact size: writing behind the capacity is an ASan report
    b->vptr = &kFixedVptr; b->traits = 0; b->size = cap; b->used = 0;
    memset(b->data(), 0xCC, cap);
  }
  ~FixedBuf() { free(b); }
  Bytes content() const { return Bytes((const char *)b->data(), b->used); }
};
static void op_append_bounded(Case &k, const Bytes &prefix, size_t cap) {
  Ctx &c = k.c;
  FixedBuf bf(cap), bo(cap);
  CObj<array> af, ao;
  cbuf(af) = bf.b;
  cbuf(ao) = bo.b;
  if (!prefix.empty()) {
    CK(c, mpt_array_append(af, prefix.size(), prefix.data()) && mpt_array_append(ao, prefix.size(), prefix.data()), "harness", "prefix of %zu bytes does not fit capacity %zu", prefix.size(), cap);
  }
  int ro = mpt_message_append(ao, &k.omsg);
  int rf = mpt_message_append(af, &k.fmsg);
  CK(c, cbuf(af) == bf.b && cbuf(ao) == bo.b, "append-buffer-replaced", "mpt_message_append replaced the fixed buffer of the array");
  Bytes gf = bf.content(), go = bo.content();
  cbuf(af) = 0;
  cbuf(ao) = 0;
  bool fits = prefix.size() + k.text.size() <= cap;
  c.logf("append to fixed capacity %zu behind %zu bytes (%s): fragmented %d (%zu bytes), contiguous %d (%zu bytes)", cap, prefix.size(), fits ? "fits" : "does not fit", rf, gf.size(), ro, go.size());
  CK(c, rf == ro, "append-differs", "mpt_message_append into capacity %zu: %d for the fragments, %d for the contiguous string", cap, rf, ro);
  CK(c, gf == go, "append-differs", "mpt_message_append into capacity %zu (returned %d): array holds %zu bytes %s after the fragments, %zu bytes %s after the contiguous string", cap, rf, gf.size(),
     show(gf).c_str(), go.size(), show(go).c_str());
  if (fits) {
    CK(c, ro >= 0, "append-refused", "mpt_message_append of %zu bytes behind %zu into capacity %zu returned %d", k.text.size(), prefix.size(), cap, ro);
    CK(c, go == prefix + k.text, "append-reference", "mpt_message_append: array holds %zu bytes %s, expected %zu", go.size(), show(go).c_str(), prefix.size() + k.text.size());
    c.label("append-bounded:fits");
  } else {
    // the array cannot hold the message: the call must fail and "reset array state" (source comment), i.e. leave the content as it was
    CK(c, ro < 0, "append-overfull", "mpt_message_append of %zu bytes behind %zu into capacity %zu returned %d", k.text.size(), prefix.size(), cap, ro);
    CK(c, go == prefix, "append-failed-changed", "failed mpt_message_append left %zu bytes %s in the array, it held %zu before", go.size(), show(go).c_str(), prefix.size());
    CK(c, gf == prefix, "append-failed-changed", "failed mpt_message_append of the fragments left %zu bytes %s in the array, it held %zu before", gf.size(), show(gf).c_str(), prefix.size());
    c.label("append-bounded:refused");
    if (k.nonempty >= 2 && cap - prefix.size() >= k.first_len) { c.label("append-bounded:fails-behind-first-fragment"); k.nt = true; }
  }
  c.label("op:append-bounded");
}
// ---- append to target arrays in different states: empty, raw with content, raw and shared with a second handle, typed
//      content (elements stored with mpt_array_set() and basic type traits). Differential on two identical targets.
enum { TgtEmpty, TgtRaw, TgtShared, TgtTyped, NTgt };
static const char *kTgt[] = {"empty", "raw", "shared", "typed"};
struct ArrState {
  int ret = 0;
  bool has_buf = false;
  size_t used = 0;
  const void *traits = 0;
  Bytes bytes;
  void take(array *a) {
    CBuf *b = cbuf(a);
    has_buf = b != 0;
    used = b ? b->used : 0;
    traits = b ? (const void *)b->traits : 0;
    bytes = b ? Bytes((const char *)b->data(), b->used) : Bytes();
  }
  bool same_array(const ArrState &o) const { return has_buf == o.has_buf && used == o.used && traits == o.traits && bytes == o.bytes; }
};
struct Target2 {  // one target array, optionally with a second handle on the same buffer
  CObj<array> arr, other;
  ~Target2() { mpt_array_clone(arr, 0); mpt_array_clone(other, 0); }
};
static void make_target(Ctx &c, Target2 &t, int state, const Bytes &prefix, int type, const Bytes &elements) {
  switch (state) {
    case TgtEmpty: break;
    case TgtRaw: case TgtShared:
      CK(c, mpt_array_append(t.arr, prefix.size(), prefix.data()) != 0, "harness", "mpt_array_append failed");
      if (state == TgtShared) CK(c, mpt_array_clone(t.other, t.arr) >= 0 && cbuf(t.other) == cbuf(t.arr), "harness", "mpt_array_clone did not share the buffer");
      break;
    default: {
      const type_traits *tr = mpt_type_traits(type);
      CK(c, tr && tr->size && elements.size() % tr->size == 0, "harness", "no basic type traits for '%c'", type);
      CK(c, mpt_array_set(t.arr, tr, elements.size(), elements.data(), 0) != 0, "harness", "mpt_array_set failed");
      CK(c, cbuf(t.arr) && cbuf(t.arr)->traits == tr, "harness", "array content is not typed after mpt_array_set");
      break;
    }
  }
}
static void op_append_state(Case &k, int state, const Bytes &prefix, int type, const Bytes &elements) {
  Ctx &c = k.c;
  Target2 tf, to;
  make_target(c, tf, state, prefix, type, elements);
  make_target(c, to, state, prefix, type, elements);
  ArrState bf, bo, af, ao, of_before, oo_before, of_after, oo_after;
  bf.take(tf.arr); bo.take(to.arr);
  of_before.take(tf.other); oo_before.take(to.other);
  CK(c, bf.same_array(bo), "harness", "the two targets differ before the append");
  ao.ret = mpt_message_append(to.arr, &k.omsg);
  af.ret = mpt_message_append(tf.arr, &k.fmsg);
  ao.take(to.arr); af.take(tf.arr);
  of_after.take(tf.other); oo_after.take(to.other);
  c.logf("append to %s target (%zu bytes%s): fragmented %d -> %zu bytes %s, contiguous %d -> %zu bytes %s", kTgt[state], bo.used, state == TgtTyped ? " of typed elements" : "", af.ret, af.used,
         af.traits ? "typed" : "raw", ao.ret, ao.used, ao.traits ? "typed" : "raw");
  CK(c, af.ret == ao.ret, "append-differs", "mpt_message_append to a %s target: %d for the fragments, %d for the contiguous string", kTgt[state], af.ret, ao.ret);
  CK(c, af.same_array(ao), "append-differs", "mpt_message_append to a %s target (returned %d): array has %zu bytes %s content %s after the fragments, %zu bytes %s content %s after the contiguous string",
     kTgt[state], af.ret, af.used, af.traits ? "typed" : "raw", show(af.bytes).c_str(), ao.used, ao.traits ? "typed" : "raw", show(ao.bytes).c_str());
  // absolute rules on the contiguous run: refusal leaves the target as it was, success appends the text to raw content
  if (ao.ret < 0) {
    CK(c, ao.same_array(bo), "append-failed-changed", "refused mpt_message_append changed the %s target: %zu -> %zu bytes", kTgt[state], bo.used, ao.used);
    CK(c, af.same_array(bf), "append-failed-changed", "refused mpt_message_append of the fragments changed the %s target: %zu -> %zu bytes, %s -> %s content", kTgt[state], bf.used, af.used,
       bf.traits ? "typed" : "raw", af.traits ? "typed" : "raw");
    c.label("append-state:refused");
  } else if (state != TgtTyped) {
    CK(c, ao.bytes == bo.bytes + k.text && !ao.traits, "append-reference", "mpt_message_append to a %s target: array holds %zu bytes %s, expected %zu", kTgt[state], ao.used, show(ao.bytes).c_str(),
       bo.used + k.text.size());
  } else {
    // typed content takes no raw bytes: an accepted append can only be the empty one
    CK(c, ao.same_array(bo) && af.same_array(bf), "append-typed-changed", "mpt_message_append (returned %d) changed typed array content: %zu -> %zu bytes, %s content", ao.ret, bo.used, ao.used, ao.traits ? "typed" : "raw");
  }
  // a second handle on the former buffer keeps reading its bytes
  CK(c, of_after.same_array(of_before) && oo_after.same_array(oo_before), "append-other-handle", "mpt_message_append changed what another handle of the %s buffer reads: %zu -> %zu / %zu -> %zu bytes", kTgt[state],
     of_before.used, of_after.used, oo_before.used, oo_after.used);
  c.label((std::string("append-state:") + kTgt[state]).c_str());
  c.label("op:append-state");
  if (k.nonempty >= 2) k.nt = true;
}
static void op_array_message(Case &k, int sep) {
  Ctx &c = k.c;
  CObj<array> af, ao;
  struct Fini { array *a; ~Fini() { mpt_array_clone(a, 0); } } f1{af}, f2{ao};
  int ro = mpt_array_message(ao, &k.omsg, sep);
  int rf = mpt_array_message(af, &k.fmsg, sep);
  Bytes gf = array_bytes(af), go = array_bytes(ao);
  c.logf("array_message(sep 0x%02x): fragmented %d args %s, contiguous %d args %s", (unsigned)sep & 0xff, rf, show(gf).c_str(), ro, show(go).c_str());
  CK(c, rf == ro, "array-message-differs", "mpt_array_message(0x%02x): %d arguments from the fragments, %d from the contiguous string", (unsigned)sep & 0xff, rf, ro);
  CK(c, gf == go, "array-message-differs", "mpt_array_message(0x%02x): arguments %s from the fragments, %s from the contiguous string", (unsigned)sep & 0xff, show(gf).c_str(), show(go).c_str());
  c.label("op:array_message");
  if (ro > 0) c.label("array_message:arguments");
  if (k.nonempty >= 2 && ro > 0) k.nt = true;
}

// ---- mpt_array_message where the message lies inside the buffer the target array owns (re-splitting a stored command in
//      place): compared with the same bytes copied elsewhere and split into a fresh target
static void op_array_message_alias(Case &k, bool from_args, int sep1, int sep2, const std::vector<std::pair<size_t, size_t>> &ranges) {
  Ctx &c = k.c;
  CObj<array> store, ref;
  struct Fini { array *a; ~Fini() { mpt_array_clone(a, 0); } } f1{store}, f2{ref};
  // step 1: the stored bytes: arguments of the text (result of an earlier mpt_array_message) or the raw text.
  //         The reference target is prepared the same way (what a target of another content type does with the new
  //         arguments is not the question here), it only does not own the bytes of the message.
  for (array *a : {(array *)store, (array *)ref}) {
    if (from_args) {
      int n1 = mpt_array_message(a, &k.omsg, sep1);
      CK(c, n1 >= 0, "harness", "first mpt_array_message returned %d", n1);
    } else if (!k.text.empty()) {
      CK(c, mpt_array_append(a, k.text.size(), k.text.data()) != 0, "harness", "mpt_array_append failed");
    }
  }
  CK(c, array_bytes(store) == array_bytes(ref), "harness", "the two targets differ before the call");
  CBuf *b = cbuf(store);
  size_t slen = b ? b->used : 0;
  const uint8_t *sd = b ? b->data() : 0;
  // step 2: fragments inside the stored bytes
  std::vector<struct iovec> v;
  Bytes flat;
  std::string rs;
  for (auto r : ranges) {
    size_t off = slen ? r.first % (slen + 1) : 0, len = slen - off ? r.second % (slen - off + 1) : 0;
    struct iovec e;
    e.iov_base = (void *)(sd + off); e.iov_len = len;
    v.push_back(e);
    if (len) flat.append((const char *)sd + off, len);
    char t[32]; snprintf(t, sizeof t, "%s[%zu,+%zu)", rs.empty() ? "" : " ", off, len); rs += t;
  }
  if (!b) return;  // nothing stored (empty text): no buffer to point into
  struct iovec *cont = (struct iovec *)malloc((v.size() - 1) * sizeof(*cont));
  for (size_t i = 1; i < v.size(); i++) cont[i - 1] = v[i];
  struct FreeCont { void *p; ~FreeCont() { free(p); } } fc{cont};
  message m;
  m.base = v[0].iov_base; m.used = v[0].iov_len; m.clen = v.size() - 1; m.cont = m.clen ? cont : 0;
  Frags one;
  one.build(flat, {flat.size()});
  message om = one.msg();
  int nr = mpt_array_message(ref, &om, sep2);
  Bytes gr = array_bytes(ref);
  int ns = mpt_array_message(store, &m, sep2);  // the arguments replace the bytes they are read from
  Bytes gs = array_bytes(store);
  c.logf("array_message(sep 0x%02x) of fragments %s inside the target's own %zu stored bytes (%s): %d args %s; same bytes from a copy into an equal target: %d args %s", (unsigned)sep2 & 0xff, rs.c_str(), slen,
         from_args ? "arguments of the text" : "raw text", ns, show(gs).c_str(), nr, show(gr).c_str());
  CK(c, ns == nr, "array-message-differs", "mpt_array_message(0x%02x) of fragments inside the target's own buffer: %d arguments, %d from a copy of the same bytes", (unsigned)sep2 & 0xff, ns, nr);
  CK(c, gs == gr, "array-message-differs", "mpt_array_message(0x%02x) of fragments inside the target's own buffer: arguments %s, %s from a copy of the same bytes", (unsigned)sep2 & 0xff, show(gs).c_str(), show(gr).c_str());
  c.label("op:array_message-alias");
  if (nr > 0) c.label("array_message-alias:arguments");
  if (v.size() >= 2 && nr > 0) k.nt = true;
}

// ---- sources of the fragmented form
static void source_heap(Case &k, const std::vector<size_t> &lens) {
  k.heap.build(k.text, lens);
  k.fmsg = k.heap.msg();
  k.finish();
}
// the message is the range [pre, pre + |text|) of a queue whose content may wrap around the end of its buffer
static void source_queue(Case &k, size_t pre, size_t post, size_t slack, size_t off) {
  Ctx &c = k.c;
  size_t n = k.text.size(), qlen = pre + n + post, max_ = qlen + slack;
  if (!max_) max_ = 1;
  off %= max_;
  k.qbuf = (uint8_t *)malloc(max_);
  memset(k.qbuf, 0xEE, max_);
  for (size_t i = 0; i < n; i++) k.qbuf[(off + pre + i) % max_] = (uint8_t)k.text[i];
  k.qu.base = k.qbuf; k.qu.len = qlen; k.qu.max = max_; k.qu.off = off;
  k.from_queue = true;
  k.qvec.iov_base = 0; k.qvec.iov_len = 0;
  message m;
  int r = mpt_message_get(&k.qu, pre, n, &m, &k.qvec);
  c.logf("queue max %zu off %zu len %zu; mpt_message_get(off %zu, take %zu) = %d", max_, off, qlen, pre, n, r);
  CK(c, r >= 0, "get-refused", "mpt_message_get(off %zu, take %zu) on a queue of %zu bytes returned %d", pre, n, qlen, r);
  CK(c, m.clen <= 1, "get-parts", "mpt_message_get returned %d, message has %zu continuation parts for one spare iovec", r, m.clen);
  if (!m.clen) m.cont = 0;
  Bytes got = flatten(m);
  CK(c, got == k.text, "get-reference", "mpt_message_get(off %zu, take %zu): message is %zu bytes %s, queue holds %s there", pre, n, got.size(), show(got).c_str(), show(k.text).c_str());
  // ranges that do not fit must be refused
  message m2;
  struct iovec v2;
  size_t bad_off = qlen + 1 + c.range(0, 3), bad_take = qlen - pre + 1 + c.range(0, 3);
  int r1 = mpt_message_get(&k.qu, bad_off, 0, &m2, &v2), r2 = mpt_message_get(&k.qu, pre, bad_take, &m2, &v2);
  CK(c, r1 < 0, "get-range", "mpt_message_get(off %zu) on a queue of %zu bytes returned %d", bad_off, qlen, r1);
  CK(c, r2 < 0, "get-range", "mpt_message_get(off %zu, take %zu) on a queue of %zu bytes returned %d", pre, bad_take, qlen, r2);
  k.fmsg = m;
  k.finish();
  c.label(m.clen ? "queue:wrapped-message" : "queue:contiguous-message");
}

// ---- mpt_message_get over arbitrary ranges of a queue, with and without the spare iovec, into a message the caller
//      already uses: success -> the message reads exactly that range of the queue; refusal -> the caller's message
//      is what it was (it must keep reading like the contiguous string)
struct QueueFix {
  uint8_t *buf = 0;
  queue qu;
  Bytes content;
  ~QueueFix() { free(buf); }
  void build(const Bytes &data, size_t slack, size_t off) {
    content = data;
    size_t max_ = data.size() + slack;
    if (!max_) max_ = 1;
    off %= max_;
    buf = (uint8_t *)malloc(max_);  // exact size: a part reaching behind the ring storage is an ASan report
    memset(buf, 0xEE, max_);
    for (size_t i = 0; i < data.size(); i++) buf[(off + i) % max_] = (uint8_t)data[i];
    qu.base = buf; qu.len = data.size(); qu.max = max_; qu.off = off;
  }
  bool wrapped() const { return qu.max - qu.off < qu.len; }
};
static void get_once(Case &k, QueueFix &q, size_t o, size_t t, bool with_vec) {
  Ctx &c = k.c;
  size_t qlen = q.content.size();
  bool valid = o <= qlen && t <= qlen - o;
  bool crossing = valid && t && (q.qu.off + o) % q.qu.max + t > q.qu.max;
  message m = k.fmsg;  // the message the caller holds: the generated fragment list
  const message before = m;
  struct iovec vec;
  vec.iov_base = (void *)&vec; vec.iov_len = 0x5a5a;
  int r = mpt_message_get(&q.qu, o, t, &m, with_vec ? &vec : 0);
  c.logf("mpt_message_get(queue max %zu off %zu len %zu; off %zu, take %zu, %s) = %d%s", q.qu.max, q.qu.off, qlen, o, t, with_vec ? "vec" : "no vec", r,
         !valid ? " (outside)" : crossing ? " (range crosses the wrap)" : "");
  if (r < 0) {
    CK(c, m.used == before.used && m.base == before.base && m.cont == before.cont && m.clen == before.clen, "get-refused-changed",
       "refused mpt_message_get (%d) changed the caller's message: used %zu->%zu, base %s, cont %s, clen %zu->%zu", r, before.used, m.used, m.base == before.base ? "same" : "CHANGED",
       m.cont == before.cont ? "same" : "CHANGED", before.clen, m.clen);
    CK(c, flatten(m) == k.text, "get-refused-changed", "after a refused mpt_message_get the caller's message no longer reads like the text");
    CK(c, !(valid && with_vec), "get-refused", "mpt_message_get(off %zu, take %zu) with a spare iovec on a queue of %zu bytes returned %d", o, t, qlen, r);
    c.label(!valid ? "get:refused-range" : with_vec || !crossing ? "get:refused-other" : "get:refused-no-vec");
    if (k.nonempty >= 2) k.nt = true;
    return;
  }
  CK(c, valid, "get-range", "mpt_message_get(off %zu, take %zu) on a queue of %zu bytes returned %d", o, t, qlen, r);
  CK(c, m.clen <= (with_vec ? 1u : 0u), "get-parts", "mpt_message_get returned %d, message has %zu continuation parts %s", r, m.clen, with_vec ? "for one spare iovec" : "without a spare iovec");
  if (m.clen) CK(c, m.cont == &vec, "get-parts", "continuation of the message is not the supplied iovec");
  else m.cont = 0;
  Bytes want = q.content.substr(o, t), got = flatten(m);
  CK(c, got == want, "get-reference", "mpt_message_get(off %zu, take %zu): message is %zu bytes %s, queue holds %s there", o, t, got.size(), show(got).c_str(), show(want).c_str());
  // and it reads like that contiguous range through the library, too
  message tmp = m;
  Bytes buf(t + 1, (char)0xAA);
  size_t rd = mpt_message_read(&tmp, t + 1, &buf[0]);
  CK(c, rd == t && !memcmp(buf.data(), want.data(), t) && (uint8_t)buf[t] == 0xAA, "get-reference", "message from mpt_message_get(off %zu, take %zu) reads %zu bytes %s", o, t, rd, show(buf.substr(0, rd)).c_str());
  c.label(m.clen ? "get:ok-two-parts" : "get:ok-one-part");
  if (m.clen) k.nt = true;
}
static Bytes filler(size_t n, char first) {
  Bytes s;
  for (size_t i = 0; i < n; i++) s.push_back((char)(first + i % 26));
  return s;
}
static void op_get(Case &k) {
  Ctx &c = k.c;
  QueueFix q;
  size_t pre = c.weighted({1, 1}) ? c.range(1, 12) : 0, post = c.weighted({1, 1}) ? c.range(1, 12) : 0, slack = c.weighted({1, 1}) ? c.range(1, 8) : 0;
  Bytes data = filler(pre, 'A') + k.text + filler(post, 'a');
  q.build(data, slack, c.range(0, data.size() + slack));
  size_t qlen = data.size(), first = q.qu.max - q.qu.off;  // bytes up to the end of the ring storage
  c.label(q.wrapped() ? "get:queue-wrapped" : "get:queue-contiguous");
  unsigned calls = 0;
  do {
    size_t o, t;
    switch (c.weighted({3, 3, 2, 1, 1})) {
      case 0: o = c.range(0, qlen); t = c.range(0, qlen - o); break;
      case 1:  // across the wrap when there is one
        if (q.wrapped() && first) { o = c.range(0, first - 1); t = first - o + c.range(0, qlen - first); }
        else { o = c.range(0, qlen); t = qlen - o; }
        break;
      case 2: o = pre; t = k.text.size(); break;
      case 3: o = qlen + c.range(1, 4); t = c.range(0, 2); break;
      default: o = c.range(0, qlen); t = qlen - o + c.range(1, 4); break;
    }
    get_once(k, q, o, t, c.weighted({2, 1}) == 0);
  } while (++calls < 4 && c.more());
  c.label("op:get");
}

static Bytes draw_set(Ctx &c, const Bytes &text, size_t maxn) {
  size_t n = c.range(0, maxn);
  Bytes s;
  for (size_t i = 0; i < n; i++) {
    if (!text.empty() && c.weighted({3, 1}) == 0) s.push_back(text[c.pick(text.size())]);
    else s.push_back((char)c.u8());
  }
  return s;
}
static int draw_byte(Ctx &c, const Bytes &text) {
  if (!text.empty() && c.weighted({3, 1}) == 0) return (unsigned char)text[c.pick(text.size())];
  return c.u8();
}
static int draw_sep(Ctx &c, const Bytes &text) {
  static const int s[] = {0, ' ', ' ', ',', '=', ':', '/', '\n', '\t', 'a', '"', 0x7f};
  switch (c.weighted({6, 2, 1})) {
    case 0: return s[c.pick(sizeof s / sizeof *s)];
    case 1: return draw_byte(c, text);
    default: return c.u8();
  }
}
// NUL-free C strings for the memtok sets, kept in exact-size blocks
struct CStr {
  char *p = 0;
  void set(const Bytes &b) { p = (char *)malloc(b.size() + 1); memcpy(p, b.data(), b.size()); p[b.size()] = 0; }
  ~CStr() { free(p); }
};
static Bytes draw_tokset(Ctx &c, const char *typical) {
  Bytes s;
  if (c.weighted({3, 1}) == 0) return typical;
  size_t n = c.range(0, 3);
  for (size_t i = 0; i < n; i++) { char ch = " \t\n#'\"\\a,;="[c.pick(11)]; s.push_back(ch); }
  return s;
}

static void op_many_parts(Case &k, int mode, size_t run_at, size_t run_len, size_t run2_at, size_t run2_len, int sep);
enum { OpRead, OpLength, OpMemchr, OpMemstr, OpMemfcn, OpMemtok, OpMemcpy, OpAppend, OpArgv, OpArrayMessage, OpAppendBounded, OpGet, OpAppendState, OpArrayMessageAlias, OpManyParts, NOp };

static void one_op(Case &k, int op) {
  Ctx &c = k.c;
  switch (op) {
    case OpRead: op_read(k); break;
    case OpLength: op_length(k); break;
    case OpMemchr: op_memchr(k, draw_byte(c, k.text), c.flip()); break;
    case OpMemstr: op_memstr(k, draw_set(c, k.text, 4), c.flip()); break;
    case OpMemfcn: {
      Pred p;
      p.kind = (int)c.pick(6);
      p.arg = draw_byte(c, k.text);
      op_memfcn(k, p, c.flip());
      break;
    }
    case OpMemtok: {
      CStr tok, com, esc;
      if (c.weighted({1, 3})) tok.set(draw_tokset(c, " \t\n\r\v"));
      if (c.weighted({1, 1})) com.set(draw_tokset(c, "#"));
      if (c.weighted({1, 2})) esc.set(draw_tokset(c, "'\""));
      op_memtok(k, tok.p, com.p, esc.p);
      break;
    }
    case OpMemcpy: {
      size_t S = k.text.size(), D;
      switch (c.weighted({3, 2, 1})) {
        case 0: { size_t d = c.range(0, 2); D = S + d >= 1 ? S + d - 1 : 0; break; }
        case 1: D = c.range(0, S + 10); break;
        default: D = 0; break;
      }
      std::vector<size_t> dl = gen_composition(c, D, 4);
      ssize_t len;
      size_t m = std::min(S, D);
      switch (c.weighted({3, 3, 1, 1, 1, 1, 1})) {
        case 0: len = -1; break;
        case 1: len = (ssize_t)m; break;
        case 2: len = m ? (ssize_t)m - 1 : 0; break;
        case 3: len = (ssize_t)S + 1; break;
        case 4: len = (ssize_t)D + 1; break;
        case 5: len = 0; break;
        default: len = (ssize_t)c.range(0, std::max(S, D) + 2); break;
      }
      op_memcpy(k, len, dl);
      break;
    }
    case OpAppend: op_append(k, c.flip() ? Bytes() : Bytes(c.range(1, 40), 'p')); break;
    case OpArgv: op_argv(k, draw_sep(c, k.text)); break;
    case OpArrayMessage: op_array_message(k, draw_sep(c, k.text)); break;
    case OpAppendBounded: {
      size_t p = c.weighted({1, 2}) ? c.range(1, 8) : 0, n = k.text.size(), room;
      switch (c.weighted({4, 3, 1, 1})) {
        case 0: {  // up to a fragment border -1/0/+1: the append fails at that fragment
          size_t acc = 0, d = c.range(0, 2);
          std::vector<size_t> b;
          for (size_t x : k.lens) { acc += x; b.push_back(acc); }
          room = b[c.pick(b.size())];
          room = room + d >= 1 ? room + d - 1 : 0;
          break;
        }
        case 1: room = c.range(0, n); break;
        case 2: room = n; break;
        default: room = n + c.range(1, 8); break;
      }
      op_append_bounded(k, Bytes(p, 'p'), p + room);
      break;
    }
    case OpGet: op_get(k); break;
    case OpAppendState: {
      int state = (int)c.weighted({1, 2, 3, 4});
      Bytes prefix(c.range(1, 24), 'p'), elements;
      static const char types[] = {'d', 'i', 'c', 'x', 'f'};
      int type = types[c.pick(sizeof types)];
      if (state == TgtTyped) {
        const type_traits *tr = mpt_type_traits(type);
        size_t es = tr && tr->size ? tr->size : 1, ne = c.range(1, 4);
        for (size_t i = 0; i < es * ne; i++) elements.push_back((char)(0x30 + i % 64));
      }
      op_append_state(k, state, prefix, type, elements);
      break;
    }
    case OpArrayMessageAlias: {
      bool from_args = c.weighted({1, 2}) != 0;
      int sep1 = draw_sep(c, k.text), sep2 = draw_sep(c, k.text);
      size_t nr = c.range(1, 3);
      std::vector<std::pair<size_t, size_t>> ranges;
      for (size_t i = 0; i < nr; i++) { size_t off = c.range(0, 320), len = c.range(0, 320); ranges.push_back({off, len}); }
      op_array_message_alias(k, from_args, sep1, sep2, ranges);
      break;
    }
    case OpManyParts: {
      int mode = (int)c.weighted({2, 2, 3});
      size_t n = k.text.size();
      size_t at = c.range(0, n), len = c.weighted({1, 3}) ? c.range(60, 200) : c.range(0, 70);
      size_t at2 = c.range(0, n), len2 = c.weighted({2, 1}) ? c.range(0, 100) : 0;
      int sep = c.weighted({1, 2}) ? ' ' : draw_sep(c, k.text);
      op_many_parts(k, mode, at, len, at2, len2, sep);
      break;
    }
  }
}

// ---- fragmentations with very many parts (1-byte pieces, long runs of empty parts inside an argument) for the operations
//      that look at several parts at once (argv, array_message, memtok): a second fragmented form of the same text
static void op_many_parts(Case &k, int mode, size_t run_at, size_t run_len, size_t run2_at, size_t run2_len, int sep) {
  Ctx &c = k.c;
  size_t n = k.text.size();
  std::vector<size_t> lens;
  auto empties = [&](size_t cnt) { for (size_t i = 0; i < cnt; i++) lens.push_back(0); };
  if (mode == 0) {  // the case's own composition with the runs of empty parts cut in
    std::vector<size_t> cuts;
    size_t acc = 0;
    for (size_t x : k.lens) { acc += x; cuts.push_back(acc); }
    size_t prev = 0;
    std::vector<std::pair<size_t, size_t>> runs = {{std::min(run_at, n), run_len}, {std::min(run2_at, n), run2_len}};
    std::sort(runs.begin(), runs.end());
    size_t ri = 0;
    for (size_t cpos : cuts) {
      while (ri < runs.size() && runs[ri].first <= cpos) { lens.push_back(runs[ri].first - prev); prev = runs[ri].first; empties(runs[ri].second); ++ri; }
      lens.push_back(cpos - prev); prev = cpos;
    }
  } else {  // 1-byte pieces, optionally with the runs
    for (size_t i = 0; i <= n; i++) {
      if (mode == 2 && i == std::min(run_at, n)) empties(run_len);
      if (mode == 2 && i == std::min(run2_at, n)) empties(run2_len);
      if (i < n) lens.push_back(1);
    }
    if (lens.empty()) lens.push_back(0);
  }
  Case m(c);
  m.text = k.text;
  m.heap.build(m.text, lens);
  m.fmsg = m.heap.msg();
  m.finish();
  c.logf("many parts: %zu parts (%u non-empty), mode %d, empty runs %zu@%zu %zu@%zu", lens.size(), m.nonempty, mode, run_len, run_at, run2_len, run2_at);
  CK(c, flatten(m.fmsg) == k.text, "harness", "many-part construction broken");
  op_argv(m, sep);
  op_array_message(m, sep);
  op_memtok(m, " \t\n\r\v", 0, "'\"");
  op_memtok(m, 0, "#", 0);
  c.label("op:many-parts");
  c.count("many-parts:parts", lens.size());
  if (lens.size() > 64) c.label("many-parts:>64");
  if (m.nt) k.nt = true;
}

static void run_enum(Ctx &c);

static void run(Ctx &c) {
  uint8_t sel = c.u8();
  if (sel == 0xff) { run_enum(c); return; }
  Case k(c);
  k.text = gen_text(c);
  if (sel % 4 == 3) {
    size_t pre = c.weighted({1, 2}) ? c.range(0, 20) : 0, post = c.weighted({1, 1}) ? c.range(0, 20) : 0, slack = c.weighted({1, 2}) ? c.range(0, 16) : 0;
    source_queue(k, pre, post, slack, c.range(0, pre + k.text.size() + post + slack));
  } else {
    source_heap(k, gen_composition(c, k.text.size(), 6));
  }
  logcase(k);
  c.count("fragments:non-empty", k.nonempty);
  if (k.lens.size() > k.nonempty) c.label("fragments:with-empty");
  // sanity of the harness: both forms hold the text
  CK(c, flatten(k.fmsg) == k.text && flatten(k.omsg) == k.text, "harness", "fragment construction broken");
  unsigned ops = 0;
  do {
    one_op(k, (int)c.weighted({4, 1, 2, 2, 2, 4, 3, 2, 5, 3, 3, 3, 3, 2, 2}));  // new operations are added at the end: existing case bytes keep their meaning
  } while (++ops < 8 && c.more());
  if (k.nt) c.nontrivial();
}

// ---- exhaustive: strings of length <= 5 (quick) / 6 (thorough) over {'a', ' ', '"', '\n'} x all compositions into <= 3 fragments,
//      each with a fixed battery of operations
static const char kAlpha[4] = {'a', ' ', '"', '\n'};
static uint64_t comps(uint64_t n) { return 1 + (n + 1) + (n + 1) * (n + 2) / 2; }
static uint64_t enum_count(int tier) {
  uint64_t tot = 0, p = 1;
  for (uint64_t n = 0; n <= (tier ? 6u : 5u); n++) { tot += p * comps(n); p *= 4; }
  return tot;
}
static void enum_make(uint64_t idx, int, std::vector<uint8_t> &out) {
  out.clear();
  out.push_back(0xff);
  uint64_t n = 0, p = 1;
  while (idx >= p * comps(n)) { idx -= p * comps(n); p *= 4; ++n; }
  uint64_t ci = idx % comps(n), si = idx / comps(n);
  out.push_back((uint8_t)n);
  for (uint64_t i = 0; i < n; i++) { out.push_back(si % 4); si /= 4; }
  // composition: 1 part | 2 parts cut a | 3 parts cuts a <= b
  // (draws are range(lo,hi): the byte holds value - lo)
  if (ci == 0) { out.push_back(0); return; }
  ci -= 1;
  if (ci < n + 1) { out.push_back(1); out.push_back((uint8_t)ci); return; }
  ci -= n + 1;
  out.push_back(2);
  for (uint64_t a = 0; a <= n; a++) {
    if (ci < n + 1 - a) { out.push_back((uint8_t)a); out.push_back((uint8_t)ci); return; }
    ci -= n + 1 - a;
  }
}
static void run_enum(Ctx &c) {
  Case k(c);
  size_t n = c.range(0, 6);
  for (size_t i = 0; i < n; i++) k.text.push_back(kAlpha[c.pick(4)]);
  size_t parts = c.range(1, 3);
  std::vector<size_t> lens;
  if (parts == 1) lens = {n};
  else if (parts == 2) { size_t a = c.range(0, n); lens = {a, n - a}; }
  else { size_t a = c.range(0, n), b = c.range(a, n); lens = {a, b - a, n - b}; }
  source_heap(k, lens);
  logcase(k);
  op_length(k);
  for (char ch : kAlpha) { op_memchr(k, ch, false); op_memchr(k, ch, true); }
  op_memstr(k, " \n", false); op_memstr(k, " \n", true); op_memstr(k, "\"a", false);
  for (int kind = 0; kind < 2; kind++) { Pred p = {kind, 0}; op_memfcn(k, p, false); op_memfcn(k, p, true); }
  op_memtok(k, " \n", 0, "\"");
  op_memtok(k, " ", 0, 0);
  op_memtok(k, 0, 0, "\"");
  op_memtok(k, 0, "a", 0);
  op_memtok(k, "\n", "a", "\"");
  for (int sep : {(int)' ', (int)'a', 0, (int)'\n'}) { op_argv(k, sep); op_array_message(k, sep); }
  // re-split stored arguments in place: first half + second half of what the space split stored, and the raw text cut in two
  if (n) {
    op_array_message_alias(k, true, ' ', '\n', {{0, (n + 1) / 2}, {(n + 1) / 2, 320}});
    op_array_message_alias(k, false, 0, ' ', {{0, n / 2}, {n / 2, 320}});
  }
  op_append(k, Bytes());
  op_append(k, "pp");
  op_append_state(k, TgtShared, "pp", 0, Bytes());
  op_append_state(k, TgtTyped, Bytes(), 'd', Bytes(16, '1'));
  op_append_state(k, TgtTyped, Bytes(), 'c', Bytes(3, '1'));
  // fixed-capacity arrays: every capacity from "nothing fits" to "just fits", with and without content before
  for (size_t room = 0; room <= n; room++) { op_append_bounded(k, Bytes(), room); op_append_bounded(k, "pp", 2 + room); }
  // very many parts: once per string, 1-byte pieces with 70 empty parts behind every position in turn
  if (lens.size() == 1 && n >= 2) {
    for (size_t at = 0; at <= n; at++) { op_many_parts(k, 2, at, 70, 0, 0, ' '); }
    op_many_parts(k, 2, 1, 40, n - 1, 40, '\n');
  }
  // queue ranges: independent of the composition, so only once per string (with the uncut form as the caller's message)
  if (lens.size() == 1) {
    for (size_t slack : {(size_t)0, (size_t)2})
      for (size_t off = 0; off < n + slack || !off; off++) {
        QueueFix q;
        q.build(k.text, slack, off);
        for (size_t o = 0; o <= n + 1; o++)
          for (size_t t = 0; o + t <= n + 2; t++) { get_once(k, q, o, t, true); get_once(k, q, o, t, false); }
      }
  }
  op_memcpy(k, -1, {n / 2, n - n / 2});
  op_memcpy(k, (ssize_t)n, {0, 1, n});
  // reads: every split of the text into two reads, then one byte at a time
  for (size_t a = 0; a <= n + 1; a++) {
    message mf = k.fmsg, mo = k.omsg;
    size_t pos = read_both(k, mf, mo, a, true, 0, true);
    same_rest(k, mf, mo, pos, "read", true);
    pos += read_both(k, mf, mo, n + 1, true, pos, true);
    same_rest(k, mf, mo, pos, "read", true);
  }
  c.nontrivial();
}

static Target t = {
    "C17",
    "random: text <= 300 bytes (words/white space/quotes/separators/comments/NULs | 1-4 symbol alphabet | arbitrary) x composition into <= 6 fragments with empty fragments, each fragment an "
    "exact-size heap block, or the parts mpt_message_get() yields for a range of a (wrapped) queue; 1-8 operations out of read schedules (lengths at fragment borders +-1), length, "
    "memchr/memrchr, memstr/memrstr, memfcn/memrfcn, memtok(tok,com,esc), memcpy into a <= 4 fragment target, mpt_message_append (growing array | two identical targets that are empty / raw / raw and shared with a second handle / typed elements | array on a fixed-capacity buffer that refuses to grow, capacity at fragment borders +-1), the argv/read/skip loop, mpt_array_message (also with the message fragments lying inside the target array's own buffer), mpt_message_get over ranges of a second (wrapped) queue with and without the spare iovec into the message the caller holds (refusal must leave it unchanged); very-many-part forms of the same text (1-byte pieces, runs of 60-200 empty parts) for argv/array_message/memtok; every result compared "
    "with the same call on the contiguous copy and with a flat reference where one exists. exhaustive: all strings of length <= 5 (thorough: 6) over {a, space, quote, newline} x all compositions "
    "into <= 3 fragments x a fixed battery of all operations. non-trivial: >= 2 non-empty fragments and the answer position / consumed extent lies behind the first non-empty fragment "
    "(enumerated cases all count); distinct by hash of the draw sequence.",
    run,
    {900, 1500},
    false,
    true,
    {{"strings over 4 symbols x compositions into <= 3 fragments x operation battery", enum_count, enum_make}},
    0,
    0,
};
Target &vp::target() { return t; }
