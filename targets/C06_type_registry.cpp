// C06 — type registry hands out unique, stable, correctly described types      vp-link: core io
//
// G: history of mpt_type_basic_add(size) / mpt_type_add(traits) / mpt_type_interface_add(name|NULL) /
//    mpt_type_metatype_add(name|NULL) (single, in bulk across the 30-entry chunk boundaries, or until the
//    range is exhausted and beyond) interleaved with lookups by id (mpt_type_traits, mpt_interface_traits,
//    mpt_metatype_traits), by name (mpt_named_traits: full / length-limited) and by alias description
//    (mpt_alias_typeid "name : rest"), and full scans of all ids 0..0x1100.
// O: a model registry (see Model): ids unique, in the range of their kind, sequential; every earlier id keeps
//    resolving to the same descriptor, name, size; duplicates within a kind and names shorter than 4 are
//    refused; exhaustion is an error that changes nothing; mpt_type_traits(id) agrees with the model for all
//    ids (NULL where nothing is registered); built-in ids report sizeof of their C type (table from types.h).
//    Metatype names take precedence over interface names (documented at mpt_named_traits) and the four
//    short names log/iter/out/meta are resolved before the lookup (full-name lookups only).
// One forked child per case: the registry is process-global and append-only.
#include "vp.hpp"
#include "mpt_c.hpp"

#include <cstdio>
#include <deque>

using namespace vp;
using namespace mpt;

enum Kind { KBasic, KGeneric, KIface, KMeta, NKind };
static const char *kKind[] = {"basic", "generic", "interface", "metatype"};
static const uintptr_t kBase[] = {_TypeDynamicBase, _TypeValueAdd, _TypeInterfaceAdd, _TypeMetaPtrBase + 1};
static const uintptr_t kLast[] = {_TypeDynamicMax, _TypeValueMax, _TypeInterfaceMax, _TypeMetaPtrMax};
static size_t capacity(int k) { return kLast[k] - kBase[k] + 1; }  // 64, 1792, 48, 1791

// ---------------------------------------------------------------- built-in table (from types.h)
struct Builtin { uintptr_t id; size_t size; const char *what; bool lenient; };
static std::vector<Builtin> builtin_table() {
  std::vector<Builtin> t = {
      {TypeUnixSocket, sizeof(int), "TypeUnixSocket (int)", false},
      {TypeFilePtr, sizeof(FILE *), "TypeFilePtr (FILE *)", false},
      {TypeAddressPtr, sizeof(void *), "TypeAddressPtr (pointer)", false},
      {TypeReplyDataPtr, sizeof(reply_data *), "TypeReplyDataPtr (reply_data *)", false},
      {TypeNodePtr, sizeof(node *), "TypeNodePtr (node *)", false},
      {TypeBufferPtr, sizeof(void *), "TypeBufferPtr (buffer *)", false},
      {TypeValFmt, sizeof(value_format), "TypeValFmt (value_format)", false},
      {TypeValue, sizeof(value), "TypeValue (value)", false},
      {TypeProperty, sizeof(property), "TypeProperty (property)", false},
      {TypeIdentifier, sizeof(identifier), "TypeIdentifier (identifier)", false},
      {TypeMetaRef, sizeof(metatype *), "TypeMetaRef (metatype reference)", false},
      {TypeArray, sizeof(mpt::array), "TypeArray (array)", false},
      {TypeCommand, sizeof(command), "TypeCommand (command)", false},
      {TypeMetaPtr, sizeof(metatype *), "TypeMetaPtr (metatype *)", false},
  };
  static const struct { char id; size_t size; const char *what; } scalars[] = {
      {'c', sizeof(char), "'c' char"},       {'b', sizeof(int8_t), "'b' int8_t"},     {'y', sizeof(uint8_t), "'y' uint8_t"},
      {'n', sizeof(int16_t), "'n' int16_t"}, {'q', sizeof(uint16_t), "'q' uint16_t"}, {'i', sizeof(int32_t), "'i' int32_t"},
      {'u', sizeof(uint32_t), "'u' uint32_t"}, {'x', sizeof(int64_t), "'x' int64_t"}, {'t', sizeof(uint64_t), "'t' uint64_t"},
      {'f', sizeof(float), "'f' float"},     {'d', sizeof(double), "'d' double"},     {'e', sizeof(long double), "'e' long double"},
      {'s', sizeof(const char *), "'s' const char *"},
  };
  for (auto &s : scalars) {
    t.push_back({(uintptr_t)s.id, s.size, s.what, false});
    t.push_back({(uintptr_t)MPT_type_toVector(s.id), sizeof(struct iovec), "vector of scalar (struct iovec)", false});
  }
  // generic vector '@' and the 'l' format alias have no entry in the registry tables of this tree and no caller
  // asks the registry for them: NULL is accepted, a descriptor must have the right size
  t.push_back({TypeVector, sizeof(struct iovec), "TypeVector '@' (struct iovec)", true});
  t.push_back({'l', sizeof(long), "'l' long", true});
  return t;
}
static const struct { uintptr_t id; const char *name; } kCoreIface[] = {
    {TypeConvertablePtr, "convertable"}, {TypeLoggerPtr, "logger"}, {TypeReplyPtr, "reply"},       {TypeOutputPtr, "output"}, {TypeObjectPtr, "object"},
    {TypeConfigPtr, "config"},           {TypeIteratorPtr, "iterator"}, {TypeCollectionPtr, "collection"}, {TypeSolverPtr, "solver"},
};
static const struct { const char *alias, *name; } kAlias[] = {{"log", "logger"}, {"iter", "iterator"}, {"out", "output"}, {"meta", "metatype"}};

// ---------------------------------------------------------------- model
struct Entry {
  uintptr_t id;
  bool named;
  std::string name;
  const named_traits *nt;   // descriptor handed out at registration (named kinds)
  const type_traits *tt;    // traits the id must resolve to
  size_t size;
  int (*init)(void *, const void *);
  void (*fini)(void *);
};
struct Model {
  std::vector<Entry> e[NKind];
  bool exhausted[NKind] = {false, false, false, false};
  std::set<uintptr_t> ids;
  std::map<std::string, size_t> by_name[NKind];
  unsigned lookups_deep = 0;
};

extern "C" int __lsan_do_recoverable_leak_check(void) __attribute__((weak));
namespace mpt { extern "C" const named_traits *mpt_input_type_traits(void); }  // mptio/notify.h: the library's own get-or-register helper
static int h_init(void *, const void *) { return 0; }
static void h_fini(void *) {}
static std::deque<type_traits> &harness_traits() { static std::deque<type_traits> d; return d; }

struct HeapStr {  // exact-size heap copy: the registry must not read past it nor keep it
  char *p;
  HeapStr(const std::string &s, bool terminate) : p((char *)malloc(s.size() + (terminate ? 1 : 0) + (s.empty() && !terminate ? 1 : 0))) {
    memcpy(p, s.data(), s.size());
    if (terminate) p[s.size()] = 0;
  }
  ~HeapStr() { memset(p, '#', 1); free(p); }
};

struct Reg {
  Ctx &c;
  Model m;
  unsigned counter = 0;
  long inject_base = -1;  // >= 0 while an injected step runs: vp::alloc_failures() at its start
  bool injected_failure() const { return inject_base >= 0 && alloc_failures() > inject_base; }
  explicit Reg(Ctx &ctx) : c(ctx) {}

  // ---- name model
  const Entry *find_kind(int k, const std::string &n) const {
    auto it = m.by_name[k].find(n);
    return it == m.by_name[k].end() ? 0 : &m.e[k][it->second];
  }
  // what a name must resolve to: {id, descriptor or NULL when built in}
  bool model_lookup(std::string n, bool full, uintptr_t &id, const named_traits *&nt) const {
    nt = 0;
    if (n.empty()) return false;
    if (full) for (auto &a : kAlias) if (n == a.alias) { n = a.name; break; }
    if (n == "metatype") { id = TypeMetaPtr; return true; }
    if (const Entry *x = find_kind(KMeta, n)) { id = x->id; nt = x->nt; return true; }
    for (auto &b : kCoreIface) if (n == b.name) { id = b.id; return true; }
    if (const Entry *x = find_kind(KIface, n)) { id = x->id; nt = x->nt; return true; }
    return false;
  }
  bool name_taken(int k, const std::string &n) const {
    if (k == KMeta && n == "metatype") return true;
    if (k == KIface) for (auto &b : kCoreIface) if (n == b.name) return true;
    return find_kind(k, n) != 0;
  }

  // ---- checks of one registered entry
  void verify(int k, size_t i, const char *when) {
    const Entry &x = m.e[k][i];
    const type_traits *tt = mpt_type_traits(x.id);
    VP_CHECK(c, tt == x.tt, "entry-unstable", "%s: %s id 0x%zx resolves to traits %p, registered with %p", when, kKind[k], (size_t)x.id, (const void *)tt, (const void *)x.tt);
    VP_CHECK(c, tt->size == x.size && tt->init == x.init && tt->fini == x.fini, "entry-description", "%s: %s id 0x%zx describes size %zu init %p fini %p, registered size %zu init %p fini %p", when,
             kKind[k], (size_t)x.id, tt->size, (void *)tt->init, (void *)tt->fini, x.size, (void *)x.init, (void *)x.fini);
    if (k == KIface || k == KMeta) {
      const named_traits *nt = k == KIface ? mpt_interface_traits(x.id) : mpt_metatype_traits(x.id);
      VP_CHECK(c, nt == x.nt, "entry-unstable", "%s: %s id 0x%zx resolves to descriptor %p, registered as %p", when, kKind[k], (size_t)x.id, (const void *)nt, (const void *)x.nt);
      VP_CHECK(c, nt->type == x.id && &nt->traits == x.tt, "entry-description", "%s: %s descriptor of id 0x%zx holds type 0x%zx", when, kKind[k], (size_t)x.id, (size_t)nt->type);
      if (x.named) VP_CHECK(c, nt->name && x.name == nt->name, "entry-name", "%s: %s id 0x%zx is named '%s', registered as '%s'", when, kKind[k], (size_t)x.id, nt->name ? nt->name : "(null)", x.name.c_str());
      else VP_CHECK(c, !nt->name, "entry-name", "%s: unnamed %s id 0x%zx now has name '%s'", when, kKind[k], (size_t)x.id, nt->name);
    }
    if (i >= 30 || m.exhausted[k]) ++m.lookups_deep;
  }
  // all earlier entries (small registries) or first/last/chunk edges of every kind (large ones)
  void verify_all(const char *when, bool full) {
    for (int k = 0; k < NKind; k++) {
      size_t n = m.e[k].size();
      if (full || n <= 96) { for (size_t i = 0; i < n; i++) verify(k, i, when); continue; }
      for (size_t i = 0; i < n; i++) {
        size_t r = i % 30;
        if (i < 2 || i + 3 > n || r == 0 || r == 29 || (r == 15 && (i / 30) % 8 == (n / 30) % 8)) verify(k, i, when);
      }
    }
  }

  // ---- registration
  std::string draw_name(bool &is_null) {
    is_null = false;
    // one byte: 0xec..0xff select names with bytes >= 0x80 (UTF-8 text; round 8), below that it decodes as weighted({2,8,4,3,3}) did (byte % 20)
    size_t nb = c.range(0, 255), style = 0;
    if (nb >= 0xec) {
      static const char *const parts[] = {"\xc3\xa4", "\xe2\x82\xac", "a", "b", "\xff"};
      std::string u8;
      size_t n = c.range(1, 4);
      for (size_t i = 0; i < n; i++) u8 += parts[c.pick(5)];
      if (c.flip()) u8 = parts[c.pick(2)] + u8;  // first byte >= 0x80
      c.label("name:high-bytes");
      return u8;
    }
    { static const unsigned w[] = {2, 8, 4, 3, 3}; unsigned r = nb % 20; while (r >= w[style]) r -= w[style++]; }
    switch (style) {
      case 0: is_null = true; return "";
      case 1: { size_t n = c.range(0, 6); std::string s; for (size_t i = 0; i < n; i++) s += (char)('a' + c.pick(2)); return s; }
      case 2: return c.choose<const char *>({"log", "iter", "out", "meta", "logger", "iterator", "output", "metatype"});
      case 3: return c.choose<const char *>({"convertable", "reply", "object", "config", "collection", "solver", "mpt.input", "basic"});
      default: { char b[16]; snprintf(b, sizeof b, "%c%03u", (char)('p' + c.pick(2)), ++counter); return std::string(b).substr(0, c.range(2, 4)); }
    }
  }
  void after_success(int k, Entry x) {
    VP_CHECK(c, x.id >= kBase[k] && x.id <= kLast[k], "id-range", "%s registration returned id 0x%zx outside 0x%zx..0x%zx", kKind[k], (size_t)x.id, (size_t)kBase[k], (size_t)kLast[k]);
    VP_CHECK(c, m.ids.insert(x.id).second, "id-duplicate", "%s registration returned id 0x%zx a second time", kKind[k], (size_t)x.id);
    VP_CHECK(c, x.id == kBase[k] + m.e[k].size(), "id-not-sequential", "%s registration %zu returned id 0x%zx, expected 0x%zx", kKind[k], m.e[k].size(), (size_t)x.id, (size_t)(kBase[k] + m.e[k].size()));
    if (x.named) m.by_name[k][x.name] = m.e[k].size();
    m.e[k].push_back(x);
    c.count(k == KBasic ? "reg:basic" : k == KGeneric ? "reg:generic" : k == KIface ? "reg:interface" : "reg:metatype", 1);
  }
  void refused(int k, const char *why) {
    if (m.e[k].size() >= capacity(k)) { m.exhausted[k] = true; c.label("exhausted"); c.label(k == KBasic ? "exhausted:basic" : k == KGeneric ? "exhausted:generic" : k == KIface ? "exhausted:interface" : "exhausted:metatype"); }
    c.logf("   -> refused (%s)", why);
  }
  // returns true when an entry was added
  bool add_basic(size_t size) {
    c.logf("mpt_type_basic_add(%zu)   [%zu registered]", size, m.e[KBasic].size());
    int id = mpt_type_basic_add(size);
    if (m.e[KBasic].size() >= capacity(KBasic)) {
      VP_CHECK(c, id < 0, "exhaustion-accepted", "mpt_type_basic_add returned 0x%x with all %zu ids in use", id, capacity(KBasic));
      refused(KBasic, "range exhausted");
      return false;
    }
    if (id <= 0 && injected_failure()) { c.logf("   -> %d (allocation failed)", id); c.label("inject:refused"); return false; }
    VP_CHECK(c, id > 0, "registration-refused", "mpt_type_basic_add(%zu) returned %d with %zu of %zu ids in use", size, id, m.e[KBasic].size(), capacity(KBasic));
    const type_traits *tt = mpt_type_traits(id);
    VP_CHECK(c, tt, "entry-unstable", "new basic id 0x%x has no traits", id);
    after_success(KBasic, Entry{(uintptr_t)id, false, "", 0, tt, size ? size : sizeof(void *), 0, 0});
    c.logf("   -> 0x%x", id);
    return true;
  }
  bool add_generic(size_t size, int flavour) {
    harness_traits().emplace_back(size, (flavour & 1) ? h_fini : 0, (flavour & 2) ? h_init : 0);
    const type_traits *tt = &harness_traits().back();
    c.logf("mpt_type_add({size %zu, init %s, fini %s})   [%zu registered]", size, tt->init ? "yes" : "no", tt->fini ? "yes" : "no", m.e[KGeneric].size());
    int id = mpt_type_add(tt);
    if (m.e[KGeneric].size() >= capacity(KGeneric)) {
      VP_CHECK(c, id < 0, "exhaustion-accepted", "mpt_type_add returned 0x%x with all %zu ids in use", id, capacity(KGeneric));
      refused(KGeneric, "range exhausted");
      return false;
    }
    if (!size && id < 0) { refused(KGeneric, "size 0"); c.label("refused:size0"); return false; }
    if (id <= 0 && injected_failure()) { c.logf("   -> %d (allocation failed)", id); c.label("inject:refused"); return false; }
    VP_CHECK(c, id > 0, "registration-refused", "mpt_type_add(size %zu) returned %d with %zu of %zu ids in use", size, id, m.e[KGeneric].size(), capacity(KGeneric));
    after_success(KGeneric, Entry{(uintptr_t)id, false, "", 0, tt, size, tt->init, tt->fini});
    c.logf("   -> 0x%x", id);
    return true;
  }
  bool add_named(int k, bool is_null, const std::string &name) {
    c.logf("%s(%s%s%s)   [%zu registered]", k == KIface ? "mpt_type_interface_add" : "mpt_type_metatype_add", is_null ? "NULL" : "\"", is_null ? "" : name.c_str(), is_null ? "" : "\"", m.e[k].size());
    const named_traits *nt;
    {
      HeapStr s(name, true);
      nt = k == KIface ? mpt_type_interface_add(is_null ? 0 : s.p) : mpt_type_metatype_add(is_null ? 0 : s.p);
    }
    const char *fn = k == KIface ? "mpt_type_interface_add" : "mpt_type_metatype_add";
    if (!is_null && name.size() < 4) {
      VP_CHECK(c, !nt, "short-name-accepted", "%s(\"%s\") accepted a name of %zu characters as id 0x%zx", fn, name.c_str(), name.size(), nt ? (size_t)nt->type : 0);
      refused(k, "name too short"); c.label("refused:short");
      return false;
    }
    if (!is_null && name_taken(k, name)) {
      VP_CHECK(c, !nt, "duplicate-accepted", "%s(\"%s\") accepted a name already registered for this kind as id 0x%zx", fn, name.c_str(), nt ? (size_t)nt->type : 0);
      refused(k, "duplicate name"); c.label("refused:duplicate");
      return false;
    }
    if (m.e[k].size() >= capacity(k)) {
      VP_CHECK(c, !nt, "exhaustion-accepted", "%s returned id 0x%zx with all %zu ids in use", fn, nt ? (size_t)nt->type : 0, capacity(k));
      refused(k, "range exhausted");
      return false;
    }
    if (!nt && injected_failure()) { c.logf("   -> NULL (allocation failed)"); c.label("inject:refused"); return false; }
    VP_CHECK(c, nt, "registration-refused", "%s(%s) refused with %zu of %zu ids in use", fn, is_null ? "NULL" : name.c_str(), m.e[k].size(), capacity(k));
    const type_traits *tt = &nt->traits;
    VP_CHECK(c, tt, "entry-description", "%s: descriptor without traits", fn);
    VP_CHECK(c, tt->size == sizeof(void *) && !tt->init && !tt->fini, "entry-description", "%s: new id 0x%zx (a pointer type) describes size %zu init %p fini %p", fn, (size_t)nt->type, tt->size, (void *)tt->init, (void *)tt->fini);
    after_success(k, Entry{nt->type, !is_null, name, nt, tt, tt->size, tt->init, tt->fini});
    if (!is_null) for (auto &a : kAlias) if (name == a.alias) c.label("registered-name-is-alias");
    if (!is_null && k == KIface && (name == "metatype" || find_kind(KMeta, name))) c.label("iface-name-shadowed-by-meta");
    if (!is_null && k == KMeta) { for (auto &b : kCoreIface) if (name == b.name) c.label("meta-name-shadows-iface"); if (find_kind(KIface, name)) c.label("meta-name-shadows-iface"); }
    c.logf("   -> 0x%zx", (size_t)nt->type);
    return true;
  }
  bool add_bulk_one(int k, bool with_names) {
    char b[16];
    snprintf(b, sizeof b, "%c%04u", "bgim"[k], ++counter);
    switch (k) {
      case KBasic: return add_basic(1 + counter % 40);
      case KGeneric: return add_generic(1 + counter % 40, counter % 4);
      default: return add_named(k, !with_names, b);
    }
  }

  // ---- lookups
  void lookup_id(uintptr_t id) {
    const type_traits *tt = mpt_type_traits(id);
    c.logf("mpt_type_traits(0x%zx) -> %p", (size_t)id, (const void *)tt);
    expect_id(id, tt, "lookup");
    if (id >= _TypeInterfaceBase && id <= _TypeInterfaceMax) {
      const named_traits *nt = mpt_interface_traits(id);
      uintptr_t pos = id - _TypeInterfaceBase;
      if (pos < sizeof kCoreIface / sizeof *kCoreIface) VP_CHECK(c, nt && nt->type == id && nt->name && !strcmp(nt->name, kCoreIface[pos].name), "builtin-name", "mpt_interface_traits(0x%zx): name '%s' type 0x%zx, expected '%s'", (size_t)id, nt && nt->name ? nt->name : "(null)", nt ? (size_t)nt->type : 0, kCoreIface[pos].name);
      else if (id < _TypeInterfaceAdd || id - _TypeInterfaceAdd >= m.e[KIface].size()) VP_CHECK(c, !nt, "unregistered-resolves", "mpt_interface_traits(0x%zx) returns a descriptor for an id nobody registered", (size_t)id);
    }
    if (id >= _TypeMetaPtrBase && id <= _TypeMetaPtrMax) {
      const named_traits *nt = mpt_metatype_traits(id);
      if (id == TypeMetaPtr) VP_CHECK(c, nt && nt->type == id && nt->name && !strcmp(nt->name, "metatype"), "builtin-name", "mpt_metatype_traits(0x100): name '%s'", nt && nt->name ? nt->name : "(null)");
      else if (id - kBase[KMeta] >= m.e[KMeta].size()) VP_CHECK(c, !nt, "unregistered-resolves", "mpt_metatype_traits(0x%zx) returns a descriptor for an id nobody registered", (size_t)id);
    }
    // the named lookups refuse ids of other kinds
    if (id < _TypeInterfaceBase || id > _TypeInterfaceMax) VP_CHECK(c, !mpt_interface_traits(id), "unregistered-resolves", "mpt_interface_traits(0x%zx) accepts an id outside the interface range", (size_t)id);
    if (id < _TypeMetaPtrBase || id > _TypeMetaPtrMax) VP_CHECK(c, !mpt_metatype_traits(id), "unregistered-resolves", "mpt_metatype_traits(0x%zx) accepts an id outside the metatype range", (size_t)id);
  }
  // model of mpt_type_traits for every id
  void expect_id(uintptr_t id, const type_traits *tt, const char *when) {
    static const std::vector<Builtin> table = builtin_table();
    for (int k = 0; k < NKind; k++) {
      if (id < kBase[k] || id > kLast[k]) continue;
      size_t i = id - kBase[k];
      if (i < m.e[k].size()) {
        const Entry &x = m.e[k][i];
        VP_CHECK(c, tt == x.tt, "entry-unstable", "%s: %s id 0x%zx resolves to traits %p, registered with %p", when, kKind[k], (size_t)id, (const void *)tt, (const void *)x.tt);
        VP_CHECK(c, tt->size == x.size && tt->init == x.init && tt->fini == x.fini, "entry-description", "%s: %s id 0x%zx describes size %zu, registered with %zu", when, kKind[k], (size_t)id, tt->size, x.size);
        if (i >= 30 || m.exhausted[k]) ++m.lookups_deep;
      } else {
        VP_CHECK(c, !tt, "unregistered-resolves", "%s: mpt_type_traits(0x%zx) returns traits (size %zu) for a %s id nobody registered (%zu registered)", when, (size_t)id, tt ? tt->size : 0, kKind[k], m.e[k].size());
        if (m.exhausted[k]) ++m.lookups_deep;
      }
      return;
    }
    for (auto &b : table) {
      if (b.id != id) continue;
      if (b.lenient && !tt) return;
      VP_CHECK(c, tt, "builtin-missing", "%s: mpt_type_traits(0x%zx) is NULL for built-in %s", when, (size_t)id, b.what);
      VP_CHECK(c, tt->size == b.size, "builtin-size", "%s: built-in id 0x%zx %s reports size %zu (0x%zx), sizeof is %zu", when, (size_t)id, b.what, tt->size, tt->size, b.size);
      return;
    }
    for (auto &b : kCoreIface) {
      if (b.id != id) continue;
      VP_CHECK(c, tt, "builtin-missing", "%s: mpt_type_traits(0x%zx) is NULL for built-in interface '%s'", when, (size_t)id, b.name);
      VP_CHECK(c, tt->size == sizeof(void *), "builtin-size", "%s: built-in interface 0x%zx '%s' reports size %zu (0x%zx), an interface pointer has %zu", when, (size_t)id, b.name, tt->size, tt->size, sizeof(void *));
      VP_CHECK(c, !tt->init && !tt->fini, "builtin-behaviour", "%s: built-in interface pointer 0x%zx '%s' describes init %p fini %p (plain pointers have neither)", when, (size_t)id, b.name, (void *)tt->init, (void *)tt->fini);
      return;
    }
    VP_CHECK(c, !tt, "unregistered-resolves", "%s: mpt_type_traits(0x%zx) returns traits (size %zu) for an id that is neither built in nor registered", when, (size_t)id, tt ? tt->size : 0);
  }
  void full_scan(const char *when) {
    c.logf("scan mpt_type_traits(0..0x1100) %s", when);
    std::vector<std::pair<const type_traits *, uintptr_t>> all;
    for (uintptr_t id = 0; id <= 0x1100; id++) {
      const type_traits *tt = mpt_type_traits(id);
      expect_id(id, tt, when);
      if (tt) all.push_back({tt, id});
    }
    distinct(all, when);
    c.label("full-scan");
  }
  // The library takes the address of a description as the identity of a content type (mpt_array_set & co. compare
  // `traits != buf->_content_traits`): two ids must never resolve to one description object. On the unchanged tree
  // every id 0..0x1100 that resolves at all has a description of its own (no legitimate sharing was found: core,
  // scalar and vector ids are elements of three arrays, 0x800..0x803 four statics, every interface/metatype/basic
  // entry carries its own copy); the only way to share one is registering the same traits object twice with
  // mpt_type_add(), which this harness never does.
  void distinct(std::vector<std::pair<const type_traits *, uintptr_t>> &all, const char *when) {
    std::sort(all.begin(), all.end());
    for (size_t i = 1; i < all.size(); i++)
      VP_CHECK(c, all[i].first != all[i - 1].first, "description-shared", "%s: ids 0x%zx and 0x%zx resolve to the same description object %p: they are one content type for typed arrays", when, (size_t)all[i - 1].second, (size_t)all[i].second, (const void *)all[i].first);
  }
  void distinct_known(const char *when) {  // built-in table, built-in interfaces and everything registered
    static const std::vector<Builtin> table = builtin_table();
    std::vector<std::pair<const type_traits *, uintptr_t>> all;
    auto add = [&](uintptr_t id) { if (const type_traits *tt = mpt_type_traits(id)) all.push_back({tt, id}); };
    for (auto &b : table) add(b.id);
    for (auto &b : kCoreIface) add(b.id);
    for (int k = 0; k < NKind; k++) for (auto &x : m.e[k]) add(x.id);
    distinct(all, when);
  }
  // behavioural side of the same statement: an array typed with id A refuses content declared with another id B
  // One library call with the k-th library allocation from now on failing (k = 1..3). The call must report failure
  // (NULL / error) or succeed completely, and must not crash; afterwards (failure disarmed) everything registered and
  // every built-in id resolves as before and the same call behaves as the model says.
  void injected_step(const char *when) {
    long k = (long)c.range(1, 3);
    size_t what = c.pick(12);
    inject_base = alloc_failures();
    alloc_fail_after(k);
    struct Disarm { Reg *r; ~Disarm() { alloc_fail_after(0); r->inject_base = -1; } } disarm{this};
    c.logf("-- injected step %s: allocation %ld of the next call fails", when, k);
    uintptr_t id = 0;
    std::string name;
    bool added = false;
    switch (what) {
      case 0: case 1: case 2: case 3: case 4: case 5: {  // lookup by id: a built-in table or the registry may have to be built now
        static const uintptr_t first[] = {TypeValue, 'd', 'D', TypeLoggerPtr, TypeMetaPtr, _TypeValueAdd};
        id = c.flip() ? first[what] : draw_id();
        const type_traits *tt = mpt_type_traits(id);
        c.logf("mpt_type_traits(0x%zx) -> %p%s", (size_t)id, (const void *)tt, injected_failure() ? " (allocation failed)" : "");
        if (tt || !injected_failure()) expect_id(id, tt, "injected lookup");
        c.label("inject:lookup-id");
      } break;
      case 6: {
        name = lookup_name_draw();
        HeapStr hs(name, true);
        const named_traits *nt = mpt_named_traits(hs.p, -1);
        uintptr_t want = 0; const named_traits *wnt = 0;
        bool found = model_lookup(name, true, want, wnt);
        c.logf("mpt_named_traits(\"%s\", -1) -> %s%s", name.c_str(), nt ? "found" : "NULL", injected_failure() ? " (allocation failed)" : "");
        if (nt || !injected_failure()) check_named(nt, found, want, wnt, "mpt_named_traits(injected)", name);
        c.label("inject:lookup-name");
      } break;
      case 7: {
        name = lookup_name_draw();
        HeapStr hs(name + " : x", true);
        int r = mpt_alias_typeid(hs.p, 0);
        uintptr_t want = 0; const named_traits *wnt = 0;
        bool found = model_lookup(name, false, want, wnt);
        c.logf("mpt_alias_typeid(\"%s : x\") -> %d%s", name.c_str(), r, injected_failure() ? " (allocation failed)" : "");
        if (r >= 0 || !injected_failure()) VP_CHECK(c, found ? (r > 0 && (uintptr_t)r == want) : r < 0, "alias-lookup", "mpt_alias_typeid(\"%s : x\") returns %d under allocation pressure, model: %s 0x%zx", name.c_str(), r, found ? "id" : "unknown", (size_t)want);
        c.label("inject:alias");
      } break;
      case 8: added = add_basic(c.near({0, 8, 256}, 1000)); c.label("inject:basic_add"); break;
      case 9: added = add_generic(c.near({1, 8, 24}, 1000), (int)c.pick(4)); c.label("inject:type_add"); break;
      default: { bool nul; name = draw_name(nul); added = add_named(what == 10 ? KIface : KMeta, nul, name); c.label(what == 10 ? "inject:interface_add" : "inject:metatype_add"); }
    }
    bool failed = injected_failure();
    alloc_fail_after(0);
    inject_base = -1;
    if (failed) c.label("inject:allocation-failed");
    (void)added;
    // the world after the step
    verify_all("after injected step", false);
    builtin_check("after injected step");
    if (what <= 5) lookup_id(id);
    if (failed && c.flip()) full_scan("after injected failure");
  }
  // The library's own get-or-register helper for its input metatype (mptio/input_traits.c), possibly after the process
  // registered an interface and/or a metatype of the same name. It must hand out a METATYPE entry of its own named
  // "mpt.input" (next sequential id, distinct from everything registered before) or NULL (metatype name taken / range
  // full), and the same answer on every call; its static cache starts empty in every (forked) case.
  const named_traits *helper_result = 0;
  bool helper_called = false;
  void library_helper() {
    if (c.flip()) { add_named(KIface, false, "mpt.input"); verify_all("after registration", false); }
    if (c.chance(64)) { add_named(KMeta, false, "mpt.input"); verify_all("after registration", false); }
    bool taken = name_taken(KMeta, "mpt.input"), full = m.e[KMeta].size() >= capacity(KMeta);
    const named_traits *a = mpt_input_type_traits(), *b = mpt_input_type_traits();
    c.logf("mpt_input_type_traits() -> %p, again -> %p%s", (const void *)a, (const void *)b, helper_called ? " (called before in this case)" : "");
    VP_CHECK(c, a == b, "helper-unstable", "mpt_input_type_traits() returned %p, then %p", (const void *)a, (const void *)b);
    c.label(a ? "helper:entry" : "helper:null");
    if (helper_called && helper_result) { VP_CHECK(c, a == helper_result, "helper-unstable", "mpt_input_type_traits() returned %p earlier in this case, now %p", (const void *)helper_result, (const void *)a); return; }
    helper_called = true;
    if (!a) {
      VP_CHECK(c, taken || full, "helper-refused", "mpt_input_type_traits() is NULL although no metatype is named \"mpt.input\" and %zu of %zu metatype ids are in use", m.e[KMeta].size(), capacity(KMeta));
      return;
    }
    if (helper_result) return;
    for (int k = 0; k < NKind; k++) for (auto &x : m.e[k])
      VP_CHECK(c, x.id != a->type && x.nt != a && x.tt != &a->traits, "helper-shares-entry", "mpt_input_type_traits() returned id 0x%zx '%s': that is the %s entry registered earlier by the process (id 0x%zx), not an input metatype of its own", (size_t)a->type, a->name ? a->name : "(null)", kKind[k], (size_t)x.id);
    VP_CHECK(c, a->type >= kBase[KMeta] && a->type <= kLast[KMeta], "helper-wrong-kind", "mpt_input_type_traits() returned id 0x%zx, outside the metatype range", (size_t)a->type);
    VP_CHECK(c, a->name && !strcmp(a->name, "mpt.input"), "helper-wrong-kind", "mpt_input_type_traits() returned an entry named '%s'", a->name ? a->name : "(null)");
    VP_CHECK(c, !taken && !full, "duplicate-accepted", "mpt_input_type_traits() registered a second metatype named \"mpt.input\" (id 0x%zx)", (size_t)a->type);
    helper_result = a;
    const type_traits *tt = &a->traits;
    after_success(KMeta, Entry{a->type, true, "mpt.input", a, tt, tt->size, tt->init, tt->fini});
    verify_all("after library helper", false);
  }
  uintptr_t draw_typed_id() {
    size_t pool = c.weighted({4, 3, 3, 2, 1, 1});
    switch (pool) {
      case 0: return kCoreIface[c.pick(sizeof kCoreIface / sizeof *kCoreIface)].id;
      case 1: if (!m.e[KIface].empty()) return m.e[KIface][c.pick(m.e[KIface].size())].id; return kCoreIface[c.pick(9)].id;
      case 2: if (!m.e[KMeta].empty() && c.flip()) return m.e[KMeta][c.pick(m.e[KMeta].size())].id; return TypeMetaPtr;
      case 3: if (!m.e[KGeneric].empty()) return m.e[KGeneric][c.pick(m.e[KGeneric].size())].id; return TypeIdentifier;
      case 4: if (!m.e[KBasic].empty()) return m.e[KBasic][c.pick(m.e[KBasic].size())].id; return 'd';
      default: return c.choose<uintptr_t>({'c', 'i', 'x', 'd', 's', 'I', 'D', TypeValue, TypeNodePtr, TypeBufferPtr});
    }
  }
  void probe_pair(uintptr_t a, uintptr_t b) {
    const type_traits *ta = mpt_type_traits(a), *tb = mpt_type_traits(b);
    if (a == b || !ta || !tb || !ta->size || !tb->size || ta->size > 4096 || tb->size > 4096) { c.label("probe:skipped"); return; }
    // identifier/array/... need constructed elements: only plain-copy types and the harness' own (no-op) init/fini are stored
    auto plain = [&](const type_traits *t) { return (!t->init || t->init == h_init) && (!t->fini || t->fini == h_fini); };
    if (!plain(ta) || !plain(tb)) { c.label("probe:skipped"); return; }
    std::vector<uint8_t> zero(std::max(ta->size, tb->size), 0);
    CObj<mpt::array> arr;
    struct Release { mpt::array *a; ~Release() { mpt_array_clone(a, 0); } } rel{arr};
    void *first = mpt_array_set(arr, ta, ta->size, zero.data(), 0);
    c.logf("typed array of id 0x%zx: element declared as 0x%zx", (size_t)a, (size_t)b);
    if (!first) { c.label("probe:create-refused"); return; }
    void *other = mpt_array_set(arr, tb, tb->size, zero.data(), 1);
    VP_CHECK(c, !other, "type-confusion", "an array whose content type is id 0x%zx accepted an element declared as id 0x%zx (descriptions %p / %p)", (size_t)a, (size_t)b, (const void *)ta, (const void *)tb);
    void *same = mpt_array_set(arr, ta, ta->size, zero.data(), 1);
    c.label(same ? "probe:pair" : "probe:same-type-refused");
  }
  void check_named(const named_traits *nt, bool found, uintptr_t id, const named_traits *want, const char *call, const std::string &shown) {
    if (!found) { VP_CHECK(c, !nt, "name-lookup", "%s '%s' finds id 0x%zx '%s', the model has no such name", call, shown.c_str(), nt ? (size_t)nt->type : 0, nt && nt->name ? nt->name : "(null)"); c.label("name-lookup:miss"); return; }
    VP_CHECK(c, nt, "name-lookup", "%s '%s' finds nothing, registered as id 0x%zx", call, shown.c_str(), (size_t)id);
    VP_CHECK(c, nt->type == id && (!want || nt == want), "name-lookup", "%s '%s' finds id 0x%zx '%s' (%p), expected id 0x%zx (%p)", call, shown.c_str(), (size_t)nt->type, nt->name ? nt->name : "(null)", (const void *)nt, (size_t)id, (const void *)want);
    c.label("name-lookup:hit");
    if (id >= _TypeInterfaceAdd && id != TypeMetaPtr) { c.label("name-lookup:hit-registered"); note_deep(id); }
  }
  void note_deep(uintptr_t id) {
    for (int k = KIface; k <= KMeta; k++) if (id >= kBase[k] && id <= kLast[k] && (id - kBase[k] >= 30 || m.exhausted[k])) ++m.lookups_deep;
  }
  std::string lookup_name_draw() {
    size_t tot = m.e[KIface].size() + m.e[KMeta].size();
    if (tot && c.chance(120)) {
      size_t i = c.flip() ? (c.flip() ? tot - 1 - c.pick(std::min<size_t>(tot, 3)) : c.pick(tot)) : c.pick(tot);
      const Entry &x = i < m.e[KIface].size() ? m.e[KIface][i] : m.e[KMeta][i - m.e[KIface].size()];
      if (x.named) return x.name;
    }
    bool dummy;
    return draw_name(dummy);
  }
  void lookup_name() {
    std::string n = lookup_name_draw();
    uintptr_t id = 0; const named_traits *want = 0;
    switch (c.weighted({3, 3, 2, 3})) {
      case 0: {  // full name
        HeapStr s(n, true);
        const named_traits *nt = mpt_named_traits(s.p, -1);
        c.logf("mpt_named_traits(\"%s\", -1) -> %s", n.c_str(), nt ? "found" : "NULL");
        check_named(nt, model_lookup(n, true, id, want), id, want, "mpt_named_traits(full)", n);
      } break;
      case 1: {  // length-limited: the buffer continues with other characters (no terminator inside the exact-size block)
        std::string tail = c.flip() ? "" : std::string(c.range(1, 3), c.flip() ? 'a' : ':');
        HeapStr s(n + tail, !n.empty() ? false : true);
        const named_traits *nt = mpt_named_traits(s.p, (int)n.size());
        c.logf("mpt_named_traits(\"%s%s\", %zu) -> %s", n.c_str(), tail.c_str(), n.size(), nt ? "found" : "NULL");
        check_named(nt, model_lookup(n, false, id, want), id, want, "mpt_named_traits(len)", n);
      } break;
      case 2: {  // prefix of a name must not match the longer name
        if (n.size() < 2) { c.label("name-lookup:skipped"); break; }
        size_t cut = c.range(1, n.size() - 1);
        HeapStr s(n, true);
        const named_traits *nt = mpt_named_traits(s.p, (int)cut);
        c.logf("mpt_named_traits(\"%s\", %zu) -> %s", n.c_str(), cut, nt ? "found" : "NULL");
        check_named(nt, model_lookup(n.substr(0, cut), false, id, want), id, want, "mpt_named_traits(prefix)", n.substr(0, cut));
      } break;
      default: {  // alias description "name : rest"
        static const char *seps[] = {"", ":", " :", "  : ", ":  ", "\t:\t"};
        size_t si = c.pick(6);
        std::string rest = si ? c.choose<const char *>({"", "x", "sym bol", "a:b"}) : "";
        std::string desc = n + seps[si] + rest;
        HeapStr s(desc, true);
        const char *end = (const char *)-1;
        bool want_end = c.flip();
        int r = mpt_alias_typeid(s.p, want_end ? &end : 0);
        c.logf("mpt_alias_typeid(\"%s\") -> %d", desc.c_str(), r);
        bool found = model_lookup(n, si == 0, id, want);
        if (si == 0 && n.find(':') != std::string::npos) break;
        if (!found) { VP_CHECK(c, r < 0, "alias-lookup", "mpt_alias_typeid(\"%s\") returns 0x%x, the model has no name '%s'", desc.c_str(), r, n.c_str()); c.label("alias-lookup:miss"); break; }
        VP_CHECK(c, r > 0 && (uintptr_t)r == id, "alias-lookup", "mpt_alias_typeid(\"%s\") returns %d, '%s' is registered as 0x%zx", desc.c_str(), r, n.c_str(), (size_t)id);
        if (want_end) {
          VP_CHECK(c, end >= s.p && end <= s.p + desc.size(), "alias-lookup", "mpt_alias_typeid(\"%s\"): end pointer outside the description", desc.c_str());
          VP_CHECK(c, rest == end || (si == 0 && !*end), "alias-lookup", "mpt_alias_typeid(\"%s\"): remaining description is '%s', expected '%s'", desc.c_str(), end, rest.c_str());
        }
        c.label("alias-lookup:hit");
        if (id >= _TypeInterfaceAdd && id != TypeMetaPtr) note_deep(id);
      }
    }
  }
  uintptr_t draw_id() {
    switch (c.weighted({4, 3, 2, 2})) {
      case 0: {  // a registered id or the first free one of a kind
        int k = (int)c.pick(NKind);
        size_t n = m.e[k].size();
        size_t i = c.flip() ? n - std::min<size_t>(n, c.pick(3)) : c.range(0, n);
        return kBase[k] + i;
      }
      case 1: return c.choose<uintptr_t>({0, 1, 4, 8, 9, 0xb, 0x18, 0x1a, 0x1f, 0x20, 0x3f, 0x40, 0x53, 0x58, 0x59, 0x5a, 0x5b, 0x60, 0x63, 0x65, 0x6c, 0x73, 0x7a, 0x7b, 0x7f, 0x80, 0x81, 0x88, 0x89, 0x8f, 0x90, 0xbf, 0xc0, 0xff,
                                         0x100, 0x101, 0x7ff, 0x800, 0x801, 0x802, 0x803, 0x804, 0x8ff, 0x900, 0xfff, 0x1000, 0x1001, 0x1100});
      case 2: return c.range(0, 0x1100);
      default: { int k = (int)c.pick(NKind); return kBase[k] + 30 * c.range(0, 3) + c.range(0, 2) - 1; }
    }
  }
  void builtin_check(const char *when) {
    static const std::vector<Builtin> table = builtin_table();
    c.logf("built-in table check %s", when);
    for (auto &b : table) expect_id(b.id, mpt_type_traits(b.id), when);
    for (auto &b : kCoreIface) lookup_id(b.id);
    lookup_id(TypeMetaPtr);
    // integer ids by size and the transport format codes agree with the registered sizes
    for (size_t n = 0; n <= 17; n++) {
      for (int u = 0; u < 2; u++) {
        char t = u ? mpt_type_uint(n) : mpt_type_int(n);
        if (!t) continue;
        const type_traits *tt = mpt_type_traits((uint8_t)t);
        VP_CHECK(c, tt && tt->size == n, "builtin-size", "%s(%zu) names type '%c' which reports size %zu", u ? "mpt_type_uint" : "mpt_type_int", n, t, tt ? tt->size : 0);
      }
    }
    for (int fmt = 0; fmt < 256; fmt++) {
      int t = mpt_msgvalfmt_typeid((uint8_t)fmt);
      if (t <= 0) continue;
      const type_traits *tt = mpt_type_traits(t);
      VP_CHECK(c, tt && tt->size == mpt_msgvalfmt_size((uint8_t)fmt), "builtin-size", "mpt_msgvalfmt_typeid(0x%02x) names type '%c' (size %zu) for a value of %zu bytes", fmt, t, tt ? tt->size : 0, mpt_msgvalfmt_size((uint8_t)fmt));
      int code = mpt_msgvalfmt_code(t);
      if (code >= 0) VP_CHECK(c, mpt_msgvalfmt_typeid((uint8_t)code) == t, "builtin-size", "format code 0x%02x of type '%c' maps back to %d", code, t, mpt_msgvalfmt_typeid((uint8_t)code));
    }
    c.label("builtin-check");
  }

  void exhaust(int k, bool with_names, size_t beyond) {
    c.logf("-- exhaust %s range (%zu registered, capacity %zu), then %zu more", kKind[k], m.e[k].size(), capacity(k), beyond);
    bool big = capacity(k) > 100;
    while (m.e[k].size() < capacity(k)) {
      add_bulk_one(k, with_names);
      size_t n = m.e[k].size();
      if (!big || n % 30 <= 1 || n + 2 >= capacity(k)) verify_all("after registration", false);
      else { verify(k, n - 1, "after registration"); verify(k, (size_t)((n * 2654435761ull) >> 7) % n, "after registration"); }
    }
    for (size_t i = 0; i < beyond; i++) {
      VP_CHECK(c, !add_bulk_one(k, with_names), "exhaustion-accepted", "registration beyond capacity accepted");
      verify_all("after refused registration", i == 0);
    }
  }
};

static void history(Ctx &c, Reg &r) {
  if (c.flip()) r.builtin_check("at start");
  while (c.more()) {
    bool added = false, refused = false;
    size_t opbyte = c.range(0, 255), op = 0;
    if (opbyte >= 0xdc && opbyte < 0xe0) op = 11;  // the library's own get-or-register helper (last job)
    else if (opbyte >= 0xe0 && opbyte < 0xf0) op = 10;  // injected allocation failure (last round)
    else if (opbyte >= 0xf0) op = 9;  // new in round 7; below 0xf0 the byte decodes exactly as weighted({4,4,6,6,7,8,3,1,2}) did
    else { static const unsigned w[] = {4, 4, 6, 6, 7, 8, 3, 1, 2}; unsigned r = opbyte % 41; while (r >= w[op]) r -= w[op++]; }
    switch (op) {
      case 0: added = r.add_basic(c.near({0, 1, 8, 255, 256, 65535, 65536}, 100000)); refused = !added; break;
      case 1: added = r.add_generic(c.chance(16) ? 0 : c.near({1, 8, 24, 256, 65536}, 100000), (int)c.pick(4)); refused = !added; break;
      case 2: { bool nul; std::string n = r.draw_name(nul); added = r.add_named(KIface, nul, n); refused = !added; } break;
      case 3: { bool nul; std::string n = r.draw_name(nul); added = r.add_named(KMeta, nul, n); refused = !added; } break;
      case 4: r.lookup_id(r.draw_id()); break;
      case 5: r.lookup_name(); break;
      case 6: {  // bulk registration across chunk boundaries
        int k = (int)c.pick(NKind);
        size_t n = c.near({28, 30, 31, 60, 61}, 70);
        bool names = c.flip();
        c.logf("-- bulk: %zu x %s", n, kKind[k]);
        for (size_t i = 0; i < n; i++) { bool ok = r.add_bulk_one(k, names); r.verify_all(ok ? "after registration" : "after refused registration", false); }
        c.label("bulk");
      } break;
      case 7: r.full_scan("in history"); break;
      case 9: { uintptr_t a = r.draw_typed_id(), b = r.draw_typed_id(); r.probe_pair(a, b); } break;
      case 10: r.injected_step("in history"); break;
      case 11: r.library_helper(); break;
      default: {  // small ranges run dry
        int k = c.flip() ? KBasic : KIface;
        r.exhaust(k, c.flip(), c.range(1, 3));
      }
    }
    if (added) r.verify_all("after registration", false);
    if (refused) r.verify_all("after refused registration", false);
  }
  r.builtin_check("at end");
  r.verify_all("at end", true);
  if (c.flip()) r.full_scan("at end");
  r.distinct_known("at end");
  r.probe_pair(TypeLoggerPtr, TypeIteratorPtr);
  { uintptr_t a = r.draw_typed_id(), b = r.draw_typed_id(); r.probe_pair(a, b); }
  for (int k = KIface; k <= KMeta; k++) if (r.m.e[k].size() >= 2) r.probe_pair(r.m.e[k].front().id, r.m.e[k].back().id);
  if (!r.m.e[KIface].empty()) r.probe_pair(r.m.e[KIface].back().id, TypeConvertablePtr);
  if (!r.m.e[KMeta].empty()) r.probe_pair(TypeMetaPtr, r.m.e[KMeta].back().id);
  if (r.m.e[KGeneric].size() >= 2) r.probe_pair(r.m.e[KGeneric].front().id, r.m.e[KGeneric].back().id);
}

static void run(Ctx &c) {
  Reg r(c);
  uint8_t sel = c.u8();
  if (sel == 0xff) {  // enumerated: scan of all ids after empty / one of each kind / full registry
    size_t mode = c.pick(3);
    bool names = c.flip();
    c.logf("enumerated: full scan after %s", mode == 0 ? "nothing" : mode == 1 ? "one of each kind" : "full registry");
    if (mode == 1) for (int k = 0; k < NKind; k++) r.add_bulk_one(k, names);
    if (mode == 2) for (int k = 0; k < NKind; k++) r.exhaust(k, names, 1);
    r.full_scan("enumerated");
    r.builtin_check("enumerated");
    r.verify_all("enumerated", true);
    r.full_scan("enumerated, second pass");
    r.probe_pair(TypeLoggerPtr, TypeIteratorPtr);
    for (int k = KGeneric; k <= KMeta; k++) if (r.m.e[k].size() >= 2) r.probe_pair(r.m.e[k].front().id, r.m.e[k].back().id);
    c.nontrivial();
    return;
  }
  if (sel >= 0xe8 && sel < 0xf8) { r.injected_step("as first library call of the process"); c.label("inject:first-call"); }
  if (sel >= 0xf8) {  // one big range to exhaustion and beyond, with lookups behind it
    int k = c.flip() ? KGeneric : KMeta;
    bool names = c.flip();
    size_t pre = c.range(0, 3);
    for (size_t i = 0; i < pre; i++) { bool nul; std::string n = r.draw_name(nul); r.add_named(k == KMeta ? KMeta : KIface, nul, n); }
    r.exhaust(k, names, c.range(1, 3));
    c.label("exhaust-large");
  }
  history(c, r);
  for (int k = 0; k < NKind; k++) if (r.m.e[k].size() > 30) c.label(k == KBasic ? ">30:basic" : k == KGeneric ? ">30:generic" : k == KIface ? ">30:interface" : ">30:metatype");
  if (r.m.lookups_deep) { c.nontrivial(); c.label("deep-lookup"); }
  if (alloc_failures() > 0) {
    c.nontrivial();
    if (__lsan_do_recoverable_leak_check && __lsan_do_recoverable_leak_check()) c.fail("leak-after-failed-allocation", "LeakSanitizer reports unreachable memory after a registry call whose allocation failed");
  }
}

static uint64_t enum_count(int) { return 6; }
static void enum_make(uint64_t idx, int, std::vector<uint8_t> &out) {
  out.clear();
  out.push_back(0xff);
  out.push_back((uint8_t)(idx % 3));
  out.push_back((uint8_t)(idx / 3));
}

static Target t = {
    "C06",
    "random: history of basic/generic/interface/metatype registrations (sizes near 0/1/8/256/65536; names over {a,b}^0..6, the built-in names and the aliases log/iter/out/meta, "
    "NULL; single, bulk of ~30/~60 across the chunk boundary, small ranges run dry, 1/32 of the cases run the generic or metatype range to exhaustion and beyond) interleaved with "
    "lookups by id (registered, first free, boundaries of every range), by name (full, length-limited, prefix) and by alias description, full scans of ids 0..0x1100; "
    "one forked process per case. exhaustive: scan of all ids 0..0x1100 after {nothing, one of each kind, every range full} x {named, unnamed}. "
    "non-trivial: an entry/lookup was checked behind the first 30-entry chunk of its kind or after that kind was exhausted; distinct by hash of the draw sequence.",
    run,
    {600, 2500},
    true,
    false,
    {{"full id scan after empty / one of each / full registry", enum_count, enum_make}},
    0,
    0,
};
Target &vp::target() { return t; }
