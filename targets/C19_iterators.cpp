// C19 — Value generators follow the iterator protocol and their formulas            vp-link: core plot
//
// G: a value source built from (a) a description for mpt_iterator_create (lin / fact / range / value list,
//    spacing and spelling variants, dubious and malformed variants, mutations), (b) the direct constructors
//    mpt_iterator_linear / _boundary / _values / _poly / _profile, (c) the text argument iterator
//    mpt_iterator_string, (d) the buffer argument iterators mpt_meta_buffer / mpt_meta_arguments;
//    then a drawn interleaving of value / advance / value+advance / reset / clone / mpt_iterator_consume /
//    "documented loop" calls over the source and its clones, closed by a full walk, reset and second walk.
//    (e) mpt_values_linear / mpt_values_bound on strided targets.
// O: reference model of the protocol (see observe_*): bounds on the element count that every return value
//    must be consistent with, the closed form of each element (stated tolerance), and bit-identical replay
//    of every element seen before (after reset, in clones).
#include "vp.hpp"
#include "mpt_plot_c.hpp"

#include <cfloat>
#include <cstdarg>
#include <functional>

using namespace vp;
using namespace capi;
using mpt::mpt_array_append;
using mpt::mpt_array_clone;
using mpt::mpt_iterator_boundary;
using mpt::mpt_iterator_consume;
using mpt::mpt_iterator_create;
using mpt::mpt_iterator_linear;
using mpt::mpt_iterator_poly;
using mpt::mpt_iterator_profile;
using mpt::mpt_iterator_string;
using mpt::mpt_iterator_values;
using mpt::mpt_meta_arguments;
using mpt::mpt_meta_buffer;
using mpt::mpt_type_traits;
using mpt::mpt_value_convert;
using mpt::mpt_values_bound;
using mpt::mpt_values_linear;
using mpt::mpt_values_prepare;

static const double kEps = DBL_EPSILON;
static const long double kDenorm = 4.9406564584124654e-324L;
static const uint64_t kSentinel = 0x7ff8dead0000beefull;

static uint64_t bits(double x) { uint64_t u; memcpy(&u, &x, 8); return u; }
static double from_bits(uint64_t u) { double x; memcpy(&x, &u, 8); return x; }

enum Reader { RDouble, RText, RSegment, RKey };
enum Accept { MustAccept, MayRefuse, MustRefuse };

struct Expect {
  bool known;       // closed form available for this element
  long double v;    // expected value (NaN: the element must be NaN)
  long double tol;  // absolute tolerance
};

struct Model {
  Reader reader = RDouble;
  uint64_t n_lo = 0, n_hi = UINT64_MAX;  // bounds on the number of elements; every observation must fit, and tightens them
  std::function<Expect(uint64_t)> at;    // closed form (may be empty)
  std::vector<std::string> words;        // RText: the words of the text
  std::vector<std::string> seg;          // RSegment: expected bytes per element
  std::vector<bool> seg_term;            //           element is zero terminated (string) or the open tail (character vector)
  std::map<uint64_t, uint64_t> seen;     // position -> bit pattern of the element when it was first read
  std::map<uint64_t, std::string> seen_key;  // RKey: position -> keyword when it was first read
  std::vector<std::string> keys;         // RKey: keywords the text denotes (empty: unknown)
  bool tail_bad = false;                 // explicit list: the text behind the last element is not a number
  bool lenient = false;                  // denotation unknown (dubious / mutated description): an error return ends the checks
  Accept accept = MustAccept;
  Accept accept_cap = MustAccept;        // spelling variants: never more than MayRefuse
  std::string what;
};

struct Live {
  mpt::metatype *mt;
  mpt::iterator *it;
  uint64_t pos;     // index (in the sequence the original source denotes) of the current element
  uint64_t base;    // index reset() returns to: 0, or for a clone of the text argument iterator the position it was cloned at
                    // (mpt_iterator_string clones are built from the remaining text only)
  bool dead;        // error state reached in a lenient model: only memory safety is checked from here on
  bool fresh_read;  // RText: the current element was converted since the last move (element ends are set by conversion)
  int id;
  // RKey: keyword string handed out by the last conversion on this iterator. parseConvertElement(), advance() and reset()
  // of the same iterator put the saved character back (they end its validity); nothing else may touch it — in
  // particular clone() of this iterator, which restores the character only while it copies the text.
  const char *held = 0;
  std::string held_text;
};

struct Session {
  std::vector<mpt::metatype *> owned;
  std::vector<mpt::array *> arrays;
  std::vector<void *> heap;
  ~Session() {
    for (mpt::metatype *mt : owned) meta_unref(mt);
    for (mpt::array *a : arrays) { mpt_array_clone(a, 0); free(a); }
    for (void *p : heap) free(p);
  }
  mpt::array *new_array() {
    mpt::array *a = (mpt::array *)calloc(1, sizeof(mpt::array) < sizeof(void *) ? sizeof(void *) : sizeof(mpt::array));
    arrays.push_back(a);
    return a;
  }
};

// ------------------------------------------------------------------------------------------------ model
static void observe_present(Ctx &c, Model &M, const Live &l, double x, bool have_value) {
  uint64_t p = l.pos;
  VP_CHECK(c, p < M.n_hi, "value-past-end", "%s #%d: an element (%.17g) is delivered at position %llu although the source has at most %llu elements", M.what.c_str(), l.id, x,
           (unsigned long long)p, (unsigned long long)M.n_hi);
  if (M.n_lo < p + 1) M.n_lo = p + 1;
  if (!have_value) return;
  auto s = M.seen.find(p);
  if (s == M.seen.end()) M.seen[p] = bits(x);
  else {
    double first = from_bits(s->second);
    VP_CHECK(c, s->second == bits(x) || (first != first && x != x), "replay-mismatch", "%s #%d: element %llu reads %.17g, it was %.17g when first read", M.what.c_str(), l.id,
             (unsigned long long)p, x, first);
  }
  if (M.at) {
    Expect e = M.at(p);
    if (!e.known) return;
    if (e.v != e.v) {
      VP_CHECK(c, x != x, "value-mismatch", "%s #%d: element %llu is %.17g, expected NaN", M.what.c_str(), l.id, (unsigned long long)p, x);
    } else if (std::isinf((double)e.v) || std::fabs((double)e.v) > DBL_MAX) {
      VP_CHECK(c, x == (double)e.v, "value-mismatch", "%s #%d: element %llu is %.17g, expected %.17Lg", M.what.c_str(), l.id, (unsigned long long)p, x, e.v);
    } else {
      long double err = x > e.v ? (long double)x - e.v : e.v - (long double)x;
      VP_CHECK(c, x == x && err <= e.tol, "value-mismatch", "%s #%d: element %llu is %.17g, the closed form gives %.17Lg (error %.3Lg, tolerance %.3Lg)", M.what.c_str(), l.id,
               (unsigned long long)p, x, e.v, err, e.tol);
    }
  }
}
static void observe_absent(Ctx &c, Model &M, const Live &l, const char *how) {
  uint64_t p = l.pos;
  VP_CHECK(c, p >= M.n_lo, "value-missing", "%s #%d: %s at position %llu although the source has at least %llu elements", M.what.c_str(), l.id, how, (unsigned long long)p,
           (unsigned long long)M.n_lo);
  if (M.n_hi > p) M.n_hi = p;
}

// Text argument iterator: the element that was just read as double is read once more with another target type, one it fits
// or one it does not fit (300 as uint8, 1e300 as float). Only types whose conversion either refuses the word or consumes
// exactly the characters the double conversion consumed are used (integer types for plain decimal integers, float for the
// rest), so whatever the answer, the iterator has to serve the same elements afterwards — which the model checks with the
// calls that follow (the word is deliberately not read as double again here). No draw of its own: the choice is taken from
// the hash of the draws so far, committed inputs keep their decoding.
static void probe_text(Ctx &c, Model &M, Live &l, const mpt::value *v) {
  uint64_t p = l.pos;
  if (p >= M.words.size()) return;
  unsigned h = (unsigned)(c.hash() >> 9);
  if (!(h & 3)) return;  // one read in four stays a plain read
  const std::string &w = M.words[p];
  size_t i = (w[0] == '+' || w[0] == '-') ? 1 : 0;
  bool integer = i < w.size() && (w[i] != '0' || i + 1 == w.size());
  for (size_t k = i; k < w.size(); k++) if (w[k] < '0' || w[k] > '9') integer = false;
  char type = integer ? "ynqiuf"[(h >> 2) % 6] : 'f';
  double val = M.at(p).v;
  union { uint8_t y; int16_t n; uint16_t q; int32_t i; uint32_t u; float f; unsigned char raw[16]; } t;
  memset(&t, 0xA5, sizeof t);
  int rc = mpt_value_convert(v, (uintptr_t)type, &t);
  c.logf("  #%d   again as '%c': %d", l.id, type, rc);
  if (rc < 0) { c.label("text:probe-refused"); return; }
  c.label("text:probe-accepted");
  bool fits = false, same = true;
  switch (type) {
    case 'y': fits = val >= 0 && val <= 255; same = t.y == val; break;
    case 'n': fits = val >= -32768 && val <= 32767; same = t.n == val; break;
    case 'q': fits = val >= 0 && val <= 65535; same = t.q == val; break;
    case 'i': fits = val >= -2147483648.0 && val <= 2147483647.0; same = t.i == val; break;
    case 'u': fits = val >= 0 && val <= 4294967295.0; same = t.u == val; break;
    default: fits = std::fabs(val) <= FLT_MAX && (val == 0 || std::fabs(val) >= FLT_MIN); same = t.f == (float)val; break;
  }
  // what an accepted conversion of a number that does not fit stores is C07's business
  if (fits) VP_CHECK(c, same, "probe-value", "%s #%d: element %llu \"%s\" read as '%c' is accepted (%d) but stores a different number", M.what.c_str(), l.id, (unsigned long long)p, w.c_str(), type, rc);
}

// read the current element: value() and conversion to double / comparison of the text segment
static void op_value(Ctx &c, Model &M, Live &l) {
  const mpt::value *v = iter_value(l.it);
  if (l.dead) { c.logf("  #%d value() -> %s (error state, unchecked)", l.id, v ? "element" : "NULL"); return; }
  if (!v) {
    c.logf("  #%d value() @%llu -> NULL", l.id, (unsigned long long)l.pos);
    observe_absent(c, M, l, "value() is NULL");
    return;
  }
  if (M.reader == RSegment) {
    uint64_t p = l.pos;
    observe_present(c, M, l, 0, false);
    VP_CHECK(c, p < M.seg.size(), "value-past-end", "%s #%d: element at position %llu of %zu", M.what.c_str(), l.id, (unsigned long long)p, M.seg.size());
    const std::string &want = M.seg[p];
    if (v->_type == 's') {
      const char *s = *(const char *const *)v->_addr;
      VP_CHECK(c, s, "segment-mismatch", "%s #%d: element %llu is a NULL string", M.what.c_str(), l.id, (unsigned long long)p);
      size_t n = strnlen(s, want.size() + 1);
      c.logf("  #%d value() @%llu -> string \"%.*s\"", l.id, (unsigned long long)p, (int)std::min<size_t>(n, 60), s);
      VP_CHECK(c, M.seg_term[p] && n == want.size() && !memcmp(s, want.data(), n), "segment-mismatch", "%s #%d: element %llu is the string \"%.*s\", expected %s\"%s\"", M.what.c_str(), l.id,
               (unsigned long long)p, (int)std::min<size_t>(n, 60), s, M.seg_term[p] ? "" : "unterminated ", want.c_str());
    } else if (v->_type == 'C') {
      const struct iovec *vec = (const struct iovec *)v->_addr;
      size_t wl = want.size() + (M.seg_term[p] ? 1 : 0);
      c.logf("  #%d value() @%llu -> char vector of %zu", l.id, (unsigned long long)p, vec->iov_len);
      VP_CHECK(c, vec->iov_base && vec->iov_len == wl && !memcmp(vec->iov_base, want.data(), want.size()), "segment-mismatch", "%s #%d: element %llu is a vector of %zu bytes, expected \"%s\" (%zu)",
               M.what.c_str(), l.id, (unsigned long long)p, vec->iov_len, want.c_str(), wl);
    } else {
      c.fail("segment-mismatch", "%s #%d: element %llu has type %d", M.what.c_str(), l.id, (unsigned long long)p, (int)v->_type);
    }
    return;
  }
  if (M.reader == RKey) {
    // keyword conversion of the text element; the string is only valid until the next call, so it is copied at once
    uint64_t p = l.pos;
    const char *key = 0;
    l.held = 0;
    int rc = mpt_value_convert(v, 'k', &key);
    l.fresh_read = true;
    std::string got = rc >= 0 && key ? std::string(key, strnlen(key, 200)) : std::string();
    c.logf("  #%d value() @%llu -> convert('k') = %d, \"%s\"", l.id, (unsigned long long)p, rc, got.c_str());
    if (rc < 0 || !key) { observe_absent(c, M, l, "keyword conversion of the element reports an error"); return; }
    l.held = key;
    l.held_text = got;
    observe_present(c, M, l, 0, false);
    auto sk = M.seen_key.find(p);
    if (sk == M.seen_key.end()) M.seen_key[p] = got;
    else VP_CHECK(c, sk->second == got, "replay-mismatch", "%s #%d: element %llu reads \"%s\", it was \"%s\" when first read", M.what.c_str(), l.id, (unsigned long long)p, got.c_str(), sk->second.c_str());
    if (p < M.keys.size()) VP_CHECK(c, got == M.keys[p], "key-mismatch", "%s #%d: element %llu is the keyword \"%s\", the text denotes \"%s\"", M.what.c_str(), l.id, (unsigned long long)p, got.c_str(), M.keys[p].c_str());
    return;
  }
  double x = from_bits(kSentinel);
  int rc = mpt_value_convert(v, 'd', &x);
  c.logf("  #%d value() @%llu -> type %d, convert('d') = %d, %.17g", l.id, (unsigned long long)l.pos, (int)v->_type, rc, x);
  if (M.reader == RText) {
    l.fresh_read = true;
    if (rc < 0) { observe_absent(c, M, l, "conversion of the element reports an error"); return; }
    VP_CHECK(c, bits(x) != kSentinel, "value-past-end", "%s #%d: reading at position %llu neither delivers a value nor reports (value() non-NULL, mpt_value_convert = %d, target untouched)",
             M.what.c_str(), l.id, (unsigned long long)l.pos, rc);
    observe_present(c, M, l, x, true);
    probe_text(c, M, l, v);
    return;
  }
  if (rc < 0 && M.lenient) { l.dead = true; return; }
  VP_CHECK(c, rc >= 0 && bits(x) != kSentinel, "value-convert", "%s #%d: element at %llu (type %d) does not convert to double: %d", M.what.c_str(), l.id, (unsigned long long)l.pos, (int)v->_type, rc);
  observe_present(c, M, l, x, true);
}

// returns the result of advance()
static int op_advance(Ctx &c, Model &M, Live &l) {
  if ((M.reader == RText || M.reader == RKey) && !l.fresh_read && !l.dead) op_value(c, M, l);
  uint64_t p = l.pos;
  l.held = 0;
  int r = iter_advance(l.it);
  c.logf("  #%d advance() @%llu -> %d", l.id, (unsigned long long)p, r);
  l.fresh_read = false;
  if (l.dead) return r;
  if (r > 0) {
    VP_CHECK(c, p + 2 <= M.n_hi, "advance-past-end", "%s #%d: advance() at position %llu announces a further element (%d), the source has at most %llu", M.what.c_str(), l.id,
             (unsigned long long)p, r, (unsigned long long)M.n_hi);
    if (M.n_lo < p + 2) M.n_lo = p + 2;
    l.pos = p + 1;
  } else if (r == 0) {
    VP_CHECK(c, M.n_lo < p + 2, "advance-early-end", "%s #%d: advance() at position %llu reports the end, the source has at least %llu elements", M.what.c_str(), l.id, (unsigned long long)p,
             (unsigned long long)M.n_lo);
    if (M.n_hi > p + 1) M.n_hi = p + 1;
    l.pos = p + 1;
  } else {
    if (M.n_lo >= p + 1) {  // an element is current
      if (M.lenient || (M.tail_bad && M.n_lo == p + 1)) { l.dead = true; c.label("state:error-after-bad-token"); return r; }
      c.fail("advance-error", "%s #%d: advance() at position %llu fails with %d, the source has at least %llu elements", M.what.c_str(), l.id, (unsigned long long)p, r,
             (unsigned long long)M.n_lo);
    }
    // lenient model: the error may be "past the end" or a bad token behind an element that was not read yet (the list
    // iterator then presents the rejected number as current value): only memory safety is checked from here on
    if (M.lenient) { l.dead = true; return r; }
    if (M.n_hi > p) M.n_hi = p;
  }
  return r;
}
static void op_reset(Ctx &c, Model &M, Live &l) {
  l.held = 0;
  int r = iter_reset(l.it);
  c.logf("  #%d reset() -> %d", l.id, r);
  if (l.dead) return;
  if (r < 0 && M.lenient) { l.dead = true; return; }
  VP_CHECK(c, r >= 0, "reset-failed", "%s #%d: reset() = %d", M.what.c_str(), l.id, r);
  l.pos = l.base;
  l.fresh_read = false;
}
static void op_consume(Ctx &c, Model &M, Live &l) {
  double x = from_bits(kSentinel);
  uint64_t p = l.pos;
  int r = mpt_iterator_consume(l.it, 'd', &x);
  c.logf("  #%d mpt_iterator_consume('d') @%llu -> %d, %.17g", l.id, (unsigned long long)p, r, x);
  if (l.dead) return;
  if (r >= 0) {
    VP_CHECK(c, bits(x) != kSentinel, "consume-no-data", "%s #%d: mpt_iterator_consume at %llu returns %d without storing a value", M.what.c_str(), l.id, (unsigned long long)p, r);
    // the library's own consumers (mpt_fpoint_set, mpt_range_set, the iterator constructors) read a result of 0 as
    // "the source had no element": an element that was consumed must be reported with a positive result
    VP_CHECK(c, r > 0, "consume-reports-no-element", "%s #%d: mpt_iterator_consume at %llu stored %.17g but returns 0 (= no element for its callers)", M.what.c_str(), l.id, (unsigned long long)p, x);
    observe_present(c, M, l, x, true);
    l.pos = p + 1;
  } else {
    if (M.lenient) { l.dead = true; return; }  // the failure may stem from the conversion or from the advance: state unknown
    VP_CHECK(c, p >= M.n_lo, "consume-error", "%s #%d: mpt_iterator_consume at %llu fails with %d, the source has at least %llu elements", M.what.c_str(), l.id, (unsigned long long)p, r,
             (unsigned long long)M.n_lo);
    if (M.n_hi > p) M.n_hi = p;
    VP_CHECK(c, bits(x) == kSentinel, "consume-wrote-on-error", "%s #%d: failed consume stored %.17g", M.what.c_str(), l.id, x);
  }
}
// the documented loop: read, advance, stop when advance reports no further element
static bool op_walk(Ctx &c, Model &M, Live &l, int &budget, int maxsteps) {
  for (int i = 0; i < maxsteps && budget > 0; i++) {
    op_value(c, M, l);
    int r = op_advance(c, M, l);
    budget -= 2;
    if (r <= 0 || l.dead) return true;
  }
  return false;
}

static void drive(Ctx &c, Session &S, Model &M, mpt::metatype *mt, mpt::iterator *given = 0) {
  mpt::iterator *it = given ? given : meta_iterator(mt);
  VP_CHECK(c, it, "no-iterator", "%s: the metatype does not convert to an iterator", M.what.c_str());
  std::vector<Live> L;
  L.push_back(Live{mt, it, 0, 0, false, false, 0});
  int budget = 160, nextid = 1;
  bool ended = false, replayed = false;
  while (budget > 0 && c.more()) {
    size_t li = c.pick(L.size());
    switch (c.weighted({6, 6, 5, 2, 3, 2, 2})) {
      case 0: op_value(c, M, L[li]); --budget; break;
      case 1: if (op_advance(c, M, L[li]) <= 0) ended = true; --budget; break;
      case 2: op_value(c, M, L[li]); if (op_advance(c, M, L[li]) <= 0) ended = true; budget -= 2; break;
      case 3: op_reset(c, M, L[li]); --budget; c.label("op:reset"); if (!M.seen.empty()) replayed = true; break;
      case 4: {
        if (L.size() >= 4 || !L[li].mt) break;  // (the vararg iterator is no metatype: nothing to clone)
        mpt::metatype *m2 = meta_clone(L[li].mt);
        --budget;
        c.logf("  #%d clone() @%llu -> %s", L[li].id, (unsigned long long)L[li].pos, m2 ? "new source" : "NULL");
        if (L[li].held) {
          const Live &src = L[li];
          size_t hl = strnlen(src.held, src.held_text.size() + 1);
          VP_CHECK(c, hl == src.held_text.size() && !memcmp(src.held, src.held_text.data(), hl), "held-string-changed",
                   "%s #%d: the keyword \"%s\" handed out by the last conversion reads \"%.*s\" after clone()", M.what.c_str(), src.id, src.held_text.c_str(), (int)std::min<size_t>(hl, 80), src.held);
          c.label("keys:held-string-checked-after-clone");
        }
        if (!m2) { c.label("op:clone-refused"); break; }
        S.owned.push_back(m2);
        mpt::iterator *i2 = meta_iterator(m2);
        VP_CHECK(c, i2, "no-iterator", "%s: the clone does not convert to an iterator", M.what.c_str());
        Live nl = L[li];
        nl.mt = m2; nl.it = i2; nl.id = nextid++; nl.fresh_read = false; nl.held = 0;
        if (M.reader == RText || M.reader == RKey) nl.base = nl.pos;
        L.push_back(nl);
        c.label("op:clone");
        if (L[li].pos) c.label("op:clone-mid-sequence");
        replayed = true;
        break;
      }
      case 5:
        if (M.reader != RDouble || M.tail_bad) break;
        op_consume(c, M, L[li]); --budget; c.label("op:consume");
        break;
      default: if (op_walk(c, M, L[li], budget, 24)) ended = true; break;
    }
  }
  // closing: every source is walked to its end; the original is then reset and walked again
  for (size_t i = 0; i < L.size(); i++) {
    int b = 140;
    if (op_walk(c, M, L[i], b, 64)) ended = true;
    if (i == 0 && !L[0].dead) {
      op_reset(c, M, L[0]);
      if (!M.seen.empty()) replayed = true;
      b = 140;
      op_walk(c, M, L[0], b, 64);
      // past the end: both calls must report (and not fault) however often they are made
      if (M.n_lo == M.n_hi) {
        op_value(c, M, L[0]);
        op_advance(c, M, L[0]);
        op_value(c, M, L[0]);
        op_advance(c, M, L[0]);
      }
    }
  }
  if (M.n_lo == M.n_hi) c.label("count:resolved");
  if (M.n_lo == 0 && M.n_hi == 0) c.label("count:empty");
  if (ended && replayed && M.n_lo > 0) c.nontrivial();
}

// ------------------------------------------------------------------------------------------------ numbers and text
struct Num {
  std::string text;
  double val;
  int kind;  // 0 nice, 1 extreme finite, 2 non-finite
};
static Num mknum(const std::string &t, int kind) { return Num{t, strtod(t.c_str(), 0), kind}; }
static Num draw_num(Ctx &c, unsigned extreme_weight = 1, unsigned nonfinite_weight = 1) {
  static const char *kNice[] = {"0", "1", "-1", "2", "10", "0.5", "0.1", "-0.25", "3.75", "100", "1e3", "1e-3", "-7", "0.3", "2.5", ".5", "5.", "+4", "1E2", "0.001", "-0.1", "8", "1.5", "0.2"};
  static const char *kExtreme[] = {"1e300", "-1e300", "1e-300", "4e307", "-4e307", "2.2250738585072014e-308", "1e-310", "4.9e-324", "1.7976931348623157e308", "-1.7976931348623157e308", "0x1p-3", "0x1.8p1", "1e22", "123456789012345678"};
  static const char *kNonFinite[] = {"inf", "-inf", "nan", "INF", "infinity", "-nan"};
  switch (c.weighted({10, 6, extreme_weight, nonfinite_weight})) {
    case 0: return mknum(kNice[c.pick(sizeof kNice / sizeof *kNice)], 0);
    case 1: {
      char buf[64];
      unsigned ip = (unsigned)c.range(0, 9999), fp = (unsigned)c.range(0, 999);
      int ex = (int)c.range(0, 12) - 6;
      int form = (int)c.pick(4);
      const char *sg = c.chance(64) ? "-" : "";
      if (form == 0) snprintf(buf, sizeof buf, "%s%u", sg, ip);
      else if (form == 1) snprintf(buf, sizeof buf, "%s%u.%03u", sg, ip, fp);
      else if (form == 2) snprintf(buf, sizeof buf, "%s%u.%ue%d", sg, ip % 10, fp, ex);
      else snprintf(buf, sizeof buf, "%s0.%03u", sg, fp);
      return mknum(buf, 0);
    }
    case 2: return mknum(kExtreme[c.pick(sizeof kExtreme / sizeof *kExtreme)], 1);
    default: return mknum(kNonFinite[c.pick(sizeof kNonFinite / sizeof *kNonFinite)], 2);
  }
}
static bool formula_ok(double x) { return x == 0 || (std::fabs(x) >= 1e-300 && std::fabs(x) <= DBL_MAX / 4); }

static std::string sp01(Ctx &c) { return c.chance(96) ? " " : ""; }                                          // at most one blank (mpt_string_nextvis positions)
static std::string spany(Ctx &c) { static const char *S[] = {"", " ", "  ", "\t", " \t "}; return S[c.weighted({6, 6, 2, 1, 1})]; }  // strtod/strtoumax positions
static std::string sepany(Ctx &c) { static const char *S[] = {" ", "  ", "\t", "\n", "   "}; return S[c.weighted({10, 3, 2, 1, 1})]; }

static std::string count_text(Ctx &c, uint64_t &N) {
  static const uint64_t kBig[] = {100000, 4294967294ull, 4294967295ull, 4294967296ull, 65535, 1000000};
  if (c.chance(16)) N = kBig[c.pick(6)];
  else N = c.near({0, 1, 2, 3, 10}, 40);
  return std::to_string(N);
}
// spelling variant of a type word; anything but the lower-case spelling may be refused (but must not lie)
static std::string casevar(Ctx &c, const char *w, Model &M) {
  std::string s = w;
  switch (c.weighted({10, 2, 2})) {
    case 1: for (auto &ch : s) ch = (char)toupper(ch); M.accept_cap = MayRefuse; c.label("text:case-variant"); break;
    case 2: s[0] = (char)toupper(s[0]); M.accept_cap = MayRefuse; c.label("text:case-variant"); break;
    default: break;
  }
  return s;
}

// ------------------------------------------------------------------------------------------------ descriptions for mpt_iterator_create
static Expect linear_at(double a, double b, uint64_t steps, uint64_t k) {
  long double e = steps ? (long double)a + (long double)k * ((long double)b - a) / steps : a;
  long double tol = 4 * kEps * ((long double)std::fabs(a) + std::fabs(b)) + 4 * (k + 1) * kDenorm;
  return Expect{true, e, tol};
}

static std::string desc_lin(Ctx &c, Model &M) {
  static const char *W[] = {"lin", "linear"};
  uint64_t N;
  std::string word = casevar(c, W[c.pick(2)], M), cnt = count_text(c, N);
  bool with_range = !c.chance(48);
  Num a = draw_num(c), b = draw_num(c);
  std::string t = spany(c) + word + sp01(c) + "(" + spany(c) + cnt;
  if (with_range) t += sp01(c) + ":" + spany(c) + a.text + sepany(c) + b.text;
  else { a = mknum("0", 0); b = mknum("1", 0); }
  t += sp01(c) + ")";
  M.what = "create \"" + t + "\"";
  M.n_lo = M.n_hi = N + 1;
  M.accept = (N >= 1 && N <= 4294967294ull) ? MustAccept : MayRefuse;
  if (N > 4294967295ull) M.accept = MustRefuse;  // count does not fit the 32 bit element counter
  if (a.kind < 2 && b.kind < 2 && formula_ok(a.val) && formula_ok(b.val)) {
    double av = a.val, bv = b.val;
    M.at = [av, bv, N](uint64_t k) { return linear_at(av, bv, N, k); };
    c.label("lin:formula");
  } else c.label("lin:extreme-bounds");
  return t;
}

static std::string desc_fact(Ctx &c, Model &M) {
  static const char *W[] = {"fact", "factor", "fac"};
  uint64_t N;
  std::string word = casevar(c, W[c.pick(3)], M), cnt = count_text(c, N);
  int form = (int)c.weighted({2, 3, 4, 4, 2});  // (N) (N:b) (N:b:f) (N:b:f:i) (N:b::i)
  Num b = draw_num(c), f = draw_num(c), i = draw_num(c);
  if (c.chance(200)) {  // keep the products in range most of the time
    static const char *F[] = {"2", "0.5", "10", "1.5", "0.1", "3", "1", "1.01"};
    f = mknum(F[c.pick(8)], 0);
  }
  double base = 10, fact = 10, init = 0;
  std::string t = spany(c) + word + sp01(c) + "(" + spany(c) + cnt;
  bool dubious = false;
  if (form >= 1) { t += sp01(c) + ":" + spany(c) + b.text; base = b.val; fact = base; if (b.kind == 2) dubious = true; }
  if (form == 2 || form == 3) { t += sp01(c) + ":" + spany(c) + f.text; fact = f.val; if (f.kind == 2) dubious = true; }
  if (form == 3) { t += sp01(c) + ":" + spany(c) + i.text; init = i.val; }
  if (form == 4) { t += sp01(c) + "::" + spany(c) + i.text; init = i.val; }
  t += sp01(c) + ")";
  M.what = "create \"" + t + "\"";
  M.n_lo = M.n_hi = N + 1;
  M.accept = MustAccept;
  if (!(fact >= DBL_MIN)) M.accept = MayRefuse;  // documented: the factor has to be positive
  if (N >= 4294967295ull) M.accept = N > 4294967295ull ? MustRefuse : MayRefuse;
  if (dubious) M.accept = MayRefuse;
  bool finite = b.kind < 2 && f.kind < 2 && i.kind < 2 && std::isfinite(base) && std::isfinite(fact) && std::isfinite(init);
  if (finite) {
    M.at = [base, fact, init](uint64_t k) {
      if (!k) return Expect{true, init, 0};
      long double e = (long double)base * powl((long double)fact, (long double)(k - 1));
      // the library multiplies step by step: all intermediate products (monotone between base and e) have to stay
      // normal numbers for the k*eps bound to hold
      if (!(fabsl(e) <= 1e290L) || (e != 0 && fabsl(e) < 1e-290L)) return Expect{false, 0, 0};
      if (base != 0 && !(std::fabs(base) >= 1e-290 && std::fabs(base) <= 1e290)) return Expect{false, 0, 0};
      return Expect{true, e, (long double)(2 * (k + 2)) * kEps * fabsl(e)};
    };
    c.label("fact:formula");
  }
  return t;
}

static std::string desc_range(Ctx &c, Model &M) {
  std::string word = casevar(c, "range", M);
  Num a = draw_num(c, 1, 2), b = draw_num(c, 1, 2), s = draw_num(c, 1, 1);
  bool with_step = c.chance(176);
  if (c.chance(200) && a.kind == 0) {  // b = a + m * step for a small m: the end of the range is reached within the walk
    static const char *S[] = {"0.1", "0.25", "1", "0.5", "2", "0.3", "1e-3", "7"};
    s = mknum(S[c.pick(8)], 0);
    double m = (double)c.range(1, 12) + (c.flip() ? 0.5 : 0);
    char buf[64];
    snprintf(buf, sizeof buf, "%.17g", a.val + m * s.val);
    b = mknum(buf, 0);
  }
  std::string t = spany(c) + word + sp01(c) + "(" + spany(c) + a.text + sepany(c) + b.text;
  if (with_step) t += sp01(c) + ":" + spany(c) + s.text;
  t += sp01(c) + ")";
  M.what = "create \"" + t + "\"";
  double diff = b.val - a.val, step = with_step ? s.val : diff / 10;
  bool finite = std::isfinite(a.val) && std::isfinite(b.val) && std::isfinite(step) && std::isfinite(diff);
  if (!finite || !(diff > 0) || !(step > 0) || step > diff || step < diff * 2e-6) {
    // empty, reversed, non-finite range or a step outside the documented window: refusal expected, nothing denoted
    M.accept = MayRefuse;
    M.lenient = true;
    c.label(finite ? "range:dubious" : "range:non-finite");
    return t;
  }
  long double q = (long double)diff / step;
  M.n_lo = (uint64_t)floorl(q * (1 - 4e-16L)) + 1;
  M.n_hi = (uint64_t)floorl(q * (1 + 4e-16L)) + 1;
  M.accept = MustAccept;
  if (formula_ok(a.val) && formula_ok(b.val) && formula_ok(step)) {
    double av = a.val;
    M.at = [av, step](uint64_t k) {
      long double e = (long double)av + (long double)k * step;
      return Expect{true, e, 2 * kEps * (fabsl((long double)av) + fabsl((long double)k * step)) + 4 * kDenorm};
    };
    c.label("range:formula");
  }
  if (M.n_lo != M.n_hi) c.label("range:count-rounding-ambiguous");
  return t;
}

// explicit list; `direct`: passed to mpt_iterator_values (the first token may then start with a letter)
static std::string desc_values(Ctx &c, Model &M, bool direct) {
  size_t n = c.near({1, 2, 3}, 14);
  if (!n) n = 1;
  std::string t = spany(c);
  std::vector<double> vals;
  bool bad = false;
  for (size_t k = 0; k < n; k++) {
    Num x = draw_num(c, 2, (k || direct) ? 1 : 0);
    if (x.val != x.val) {
      // the list iterator documents NaN as bad value
      if (!k) { x = mknum("1", 0); }
      else { t += sepany(c) + x.text; bad = true; c.label("values:nan-token"); break; }
    }
    if (k && c.chance(6)) {
      static const char *B[] = {"abc", ",2", "--3", "x1", "e5", ")", "(1"};  // strtod converts no prefix of these
      t += sepany(c) + B[c.pick(7)];
      bad = true;
      c.label("values:bad-token");
      break;
    }
    if (k) t += sepany(c);
    t += x.text;
    vals.push_back(x.val);
  }
  if (!bad && c.chance(64)) t += sepany(c);
  M.what = std::string(direct ? "values \"" : "create \"") + t + "\"";
  M.n_lo = M.n_hi = vals.size();
  M.tail_bad = bad;
  M.accept = MustAccept;
  M.at = [vals](uint64_t k) { return k < vals.size() ? Expect{true, vals[k], 0} : Expect{false, 0, 0}; };
  c.label("values:list");
  return t;
}

static std::string mutate(Ctx &c, std::string t) {
  static const char kAlpha[] = "():0123456789 .e-+xlinfactrge,;\t";
  int edits = (int)c.range(1, 3);
  for (int i = 0; i < edits; i++) {
    size_t pos = t.empty() ? 0 : c.pick(t.size() + 1);
    switch (c.pick(3)) {
      case 0: if (pos < t.size()) t.erase(pos, 1); break;
      case 1: t.insert(pos, 1, kAlpha[c.pick(sizeof kAlpha - 1)]); break;
      default: if (pos < t.size()) t[pos] = kAlpha[c.pick(sizeof kAlpha - 1)]; break;
    }
  }
  return t;
}

// clearly malformed descriptions: every reading of the grammar refuses them
static std::string desc_malformed(Ctx &c) {
  static const char *K[] = {"lin",          "lin 3",       "lin(3",         "lin(3 : 1)",   "lin(: 0 1)",    "lin(3 : a b)",   "xyz(3)",      "lin(x)",      "fact",         "fact(3",
                            "fact(3:2:",    "fact(:2)",    "fact(3:x)",     "range",        "range(",        "range(1)",       "range(0 1",   "range(a b)",  "(3)",          ")",
                            "linearly(3)",  "lin[3]",      "fact(3;2)",     "range(0 1 : x)", "lin(3 : 0 1",  "abcdefghijklmnopqrstuvwxyzabcdefghij(3)", "lin()",  "fact()",  "range()",  "lin(-)",
                            ":", "lin:3", "factor 3 2", "x", "e", "-", "+", "."};
  return K[c.pick(sizeof K / sizeof *K)];
}

// ------------------------------------------------------------------------------------------------ sources
static void check_created(Ctx &c, Model &M, mpt::metatype *mt) {
  if (M.accept == MustAccept) M.accept = M.accept_cap;
  c.logf("%s -> %s", M.what.c_str(), mt ? "source" : "NULL");
  if (!mt) {
    VP_CHECK(c, M.accept != MustAccept, "wellformed-refused", "%s is refused", M.what.c_str());
    c.label(M.accept == MustRefuse ? "create:malformed-refused" : "create:dubious-refused");
    if (M.accept == MustRefuse) c.nontrivial();
    return;
  }
  VP_CHECK(c, M.accept != MustRefuse, "malformed-accepted", "%s is accepted", M.what.c_str());
  c.label(M.accept == MustAccept ? "create:accepted" : "create:dubious-accepted");
}

static void run_create(Ctx &c) {
  Session S;
  Model M;
  std::string text;
  bool null_text = false;
  switch (c.weighted({8, 8, 8, 8, 5, 3, 1})) {
    case 0: text = desc_lin(c, M); c.label("kind:lin"); break;
    case 1: text = desc_fact(c, M); c.label("kind:fact"); break;
    case 2: text = desc_range(c, M); c.label("kind:range"); break;
    case 3: text = desc_values(c, M, false); c.label("kind:values"); break;
    case 4: {
      Model tmp;
      switch (c.pick(4)) {
        case 0: text = desc_lin(c, tmp); break;
        case 1: text = desc_fact(c, tmp); break;
        case 2: text = desc_range(c, tmp); break;
        default: text = desc_values(c, tmp, false); break;
      }
      text = mutate(c, text);
      M.what = "create (mutated) \"" + text + "\"";
      M.accept = MayRefuse;
      M.lenient = true;
      c.label("kind:mutated");
      break;
    }
    case 5:
      text = desc_malformed(c);
      M.what = "create (malformed) \"" + text + "\"";
      M.accept = MustRefuse;
      M.lenient = true;
      c.label("kind:malformed");
      break;
    default:
      null_text = c.flip();
      text = null_text ? "" : std::string(c.pick(3), ' ');
      M.what = null_text ? "create NULL" : "create \"" + text + "\"";
      M.accept = MayRefuse;  // library default (range 0..1 step 0.1): nothing is denoted by the text
      M.lenient = true;
      c.label("kind:default");
      break;
  }
  // exact-size heap copy of the text: a read behind the terminator is seen by ASan
  char *heap = (char *)malloc(text.size() + 1);
  memcpy(heap, text.c_str(), text.size() + 1);
  S.heap.push_back(heap);
  c.logf("%s ...", M.what.c_str());
  mpt::metatype *mt = mpt_iterator_create(null_text ? 0 : heap);
  check_created(c, M, mt);
  if (!mt) return;
  S.owned.push_back(mt);
  drive(c, S, M, mt);
}

static double draw_double(Ctx &c, bool &nice) {
  Num x = draw_num(c, 2, 2);
  nice = x.kind < 2 && formula_ok(x.val);
  return x.val;
}

static mpt::array *double_array(Ctx &c, Session &S, std::vector<double> &grid, size_t maxlen, bool allow_none) {
  mpt::array *a = S.new_array();
  size_t m = c.near({0, 1, 2, 3}, maxlen);
  if (!m && allow_none && c.flip()) { c.label("grid:no-buffer"); return a; }
  double *d = mpt_values_prepare(reinterpret_cast<mpt::typed_array<double> *>(a), (long)m);
  VP_CHECK(c, d, "harness", "mpt_values_prepare(%zu) failed", m);
  for (size_t i = 0; i < m; i++) {
    Num x = draw_num(c, 0, 0);
    d[i] = x.val;
    grid.push_back(x.val);
  }
  return a;
}

static Expect poly_at(const std::vector<double> &cf, const std::vector<double> &sh, double x) {
  size_t nc = cf.size();
  if (!nc) return Expect{true, x, 0};
  long double sum = 0, mag = 0;
  for (size_t j = 0; j < nc; j++) {
    long double t = (long double)x + sh[j], p = cf[j];
    for (size_t k = j + 1; k < nc; k++) p *= t;
    sum += p;
    mag += fabsl(p);
  }
  return Expect{true, sum, 8 * (nc + 2) * kEps * mag + 4 * kDenorm};
}

static std::string poly_text(Ctx &c, std::vector<double> &cf, std::vector<double> &sh) {
  size_t nc = c.range(1, 5);
  std::string t;
  for (size_t j = 0; j < nc; j++) {
    Num x = draw_num(c, 0, 0);
    t += (j ? sepany(c) : spany(c)) + x.text;
    cf.push_back(x.val);
  }
  sh.assign(nc, 0);
  if (nc > 1 && c.flip()) {
    size_t ns = c.range(0, nc - 1);
    t += sp01(c) + ":";
    for (size_t j = 0; j < ns; j++) {
      Num x = draw_num(c, 0, 0);
      t += sepany(c) + x.text;
      sh[j] = x.val;
    }
  }
  return t;
}

static void run_direct(Ctx &c) {
  Session S;
  Model M;
  mpt::metatype *mt = 0;
  char buf[256];
  switch (c.weighted({6, 6, 5, 5, 6})) {
    case 0: {  // mpt_iterator_linear(len, start, end)
      uint32_t len = c.chance(12) ? (uint32_t)c.choose<uint64_t>({65536, 4294967295ull, 1000000}) : (uint32_t)c.near({0, 1, 2, 3, 5}, 40);
      bool na, nb;
      double a = draw_double(c, na), b = draw_double(c, nb);
      snprintf(buf, sizeof buf, "mpt_iterator_linear(%u, %.17g, %.17g)", len, a, b);
      M.what = buf;
      M.n_lo = M.n_hi = len;
      M.accept = len >= 2 ? MustAccept : MayRefuse;
      if (na && nb) M.at = [a, b, len](uint64_t k) { return linear_at(a, b, len - 1, k); };
      c.logf("%s ...", M.what.c_str());
      mt = mpt_iterator_linear(len, a, b);
      c.label("kind:linear-direct");
      break;
    }
    case 1: {  // mpt_iterator_boundary(len, left, inter, right)
      uint32_t len = c.chance(12) ? (uint32_t)c.choose<uint64_t>({65536, 4294967295ull}) : (uint32_t)c.near({0, 1, 2, 3, 5}, 40);
      bool n1, n2, n3;
      double l = draw_double(c, n1), i = draw_double(c, n2), r = draw_double(c, n3);
      snprintf(buf, sizeof buf, "mpt_iterator_boundary(%u, %.17g, %.17g, %.17g)", len, l, i, r);
      M.what = buf;
      M.n_lo = M.n_hi = len;
      M.accept = len >= 2 ? MustAccept : MayRefuse;
      M.at = [l, i, r, len](uint64_t k) { return Expect{true, k == 0 ? l : (k + 1 == len ? r : i), 0}; };
      c.logf("%s ...", M.what.c_str());
      mt = mpt_iterator_boundary(len, l, i, r);
      c.label("kind:boundary");
      break;
    }
    case 2: {  // mpt_iterator_values(text)
      std::string text = desc_values(c, M, true);
      char *heap = (char *)malloc(text.size() + 1);
      memcpy(heap, text.c_str(), text.size() + 1);
      S.heap.push_back(heap);
      c.logf("%s ...", M.what.c_str());
      mt = mpt_iterator_values(heap);
      c.label("kind:values-direct");
      break;
    }
    case 3: {  // mpt_iterator_poly(desc, grid)
      std::vector<double> grid, cf, sh;
      mpt::array *a = double_array(c, S, grid, 12, true);
      bool has_buf = cbuf(a) != 0;
      std::string text;
      int mode = (int)c.weighted({8, 2, 1});
      if (mode == 0) text = poly_text(c, cf, sh);
      else if (mode == 2) text = "x 1 2";
      char *heap = 0;
      if (mode != 1) {
        heap = (char *)malloc(text.size() + 1);
        memcpy(heap, text.c_str(), text.size() + 1);
        S.heap.push_back(heap);
      }
      M.what = std::string("mpt_iterator_poly(") + (heap ? "\"" + text + "\"" : "NULL") + ", grid of " + (has_buf ? std::to_string(grid.size()) : "none") + ")";
      M.n_lo = M.n_hi = has_buf ? grid.size() : 4294967295ull;
      M.accept = mode == 2 ? MustRefuse : MustAccept;
      M.at = [grid, cf, sh, has_buf](uint64_t k) { return poly_at(cf, sh, has_buf ? (k < grid.size() ? grid[k] : 0) : (double)k); };
      c.logf("%s ...", M.what.c_str());
      mt = mpt_iterator_poly(heap, reinterpret_cast<const mpt::typed_array<double> *>(a));
      c.label("kind:poly");
      break;
    }
    default: {  // mpt_iterator_profile(grid, desc)
      std::vector<double> grid, cf, sh;
      mpt::array *a = double_array(c, S, grid, 12, false);
      size_t len = grid.size();
      std::string text = spany(c);
      int form = (int)c.weighted({4, 4, 4, 1});
      Num x = draw_num(c, 0, 0), y = draw_num(c, 0, 0), z = draw_num(c, 0, 0);
      M.n_lo = M.n_hi = len;
      if (form == 0) {
        text += casevar(c, c.flip() ? "lin" : "linear", M);
        text += c.flip() ? " " : (c.flip() ? ":" : " : ");
        text += x.text + sepany(c) + y.text;
        double av = x.val, bv = y.val;
        M.at = [av, bv, len](uint64_t k) { return linear_at(av, bv, len - 1, k); };
        M.accept = len >= 2 ? MustAccept : MayRefuse;
      } else if (form == 1) {
        text += casevar(c, c.flip() ? "bound" : "boundary", M);
        text += c.flip() ? " " : (c.flip() ? ":" : " : ");
        text += x.text + sepany(c) + y.text + sepany(c) + z.text;
        double l = x.val, i = y.val, r = z.val;
        M.at = [l, i, r, len](uint64_t k) { return Expect{true, k == 0 ? l : (k + 1 == len ? r : i), 0}; };
        M.accept = len >= 2 ? MustAccept : MayRefuse;
      } else if (form == 2) {
        text += casevar(c, "poly", M);
        text += c.flip() ? " " : (c.flip() ? ":" : " : ");
        text += poly_text(c, cf, sh);
        M.at = [grid, cf, sh](uint64_t k) { return poly_at(cf, sh, k < grid.size() ? grid[k] : 0); };
        M.accept = len ? MustAccept : MayRefuse;
      } else {
        static const char *K[] = {"", "foo 1 2", "lin", "lin 1", "bound 1 2", "linearx 1 2", "polyx 1", "1 2 3"};
        text = K[c.pick(8)];
        M.accept = MustRefuse;
        M.lenient = true;
      }
      if (!len) M.accept = M.accept == MustRefuse ? MustRefuse : MayRefuse;
      char *heap = (char *)malloc(text.size() + 1);
      memcpy(heap, text.c_str(), text.size() + 1);
      S.heap.push_back(heap);
      M.what = "mpt_iterator_profile(grid of " + std::to_string(len) + ", \"" + text + "\")";
      c.logf("%s ...", M.what.c_str());
      mt = mpt_iterator_profile(reinterpret_cast<const mpt::typed_array<double> *>(a), heap);
      c.label("kind:profile");
      break;
    }
  }
  check_created(c, M, mt);
  if (!mt) return;
  S.owned.push_back(mt);
  drive(c, S, M, mt);
}

// ------------------------------------------------------------------------------------------------ text / buffer argument iterators
static void run_text(Ctx &c) {
  Session S;
  Model M;
  M.reader = RText;
  size_t n = c.near({0, 1, 2, 3}, 10);
  std::string t;
  std::vector<double> vals;
  bool null_text = !n && c.flip();
  for (size_t k = 0; k < n; k++) {
    Num x = draw_num(c, 1, 0);
    if (x.text[0] == '0' && x.text.size() > 1 && (x.text[1] == 'x')) x = mknum("16", 0);
    t += (k ? (c.chance(40) ? "  " : " ") : (c.chance(24) ? " " : "")) + x.text;
    vals.push_back(x.val);
    M.words.push_back(x.text);
  }
  const char *sep = c.flip() ? 0 : " ";
  char *heap = (char *)malloc(t.size() + 1);
  memcpy(heap, t.c_str(), t.size() + 1);
  S.heap.push_back(heap);
  M.what = null_text ? "mpt_iterator_string(NULL)" : "mpt_iterator_string(\"" + t + "\")";
  M.n_lo = M.n_hi = vals.size();
  M.at = [vals](uint64_t k) { return k < vals.size() ? Expect{true, vals[k], 0} : Expect{false, 0, 0}; };
  c.logf("%s ...", M.what.c_str());
  mpt::metatype *mt = mpt_iterator_string(null_text ? 0 : heap, sep);
  c.label("kind:text-arguments");
  check_created(c, M, mt);
  if (!mt) return;
  S.owned.push_back(mt);
  drive(c, S, M, mt);
}

// text argument iterator read as keywords ('k'), with a generated separator argument (NULL = default " ,;/:", "" = white
// space only, custom sets) and texts that contain the default separator characters. Oracle: self consistency of the source,
// its clones (taken at drawn positions, before and after the current element was read) and replays after reset — every
// element has to read the same keyword wherever it is read — and the element count has to be consistent.
static void run_text_keys(Ctx &c) {
  Session S;
  Model M;
  M.reader = RKey;
  static const char *kWord[] = {"alpha", "beta", "x1", "k", "long-word", "3.5", "a=b", "Z"};
  static const char *kJoin[] = {" ", ",", ";", "/", ":", ", ", " ,", "|", "  ", " : "};
  static const char *kSep[] = {0, "", ",", ";:", " ", " ,", "|", ":/;, "};
  size_t n = c.range(0, 6);
  std::string t;
  for (size_t k = 0; k < n; k++) {
    if (k) t += kJoin[c.weighted({8, 4, 2, 2, 2, 2, 1, 1, 1, 1})];
    t += kWord[c.pick(8)];
  }
  size_t si = c.pick(8);
  const char *sep = kSep[si];
  char *heap = (char *)malloc(t.size() + 1);
  memcpy(heap, t.c_str(), t.size() + 1);
  S.heap.push_back(heap);
  M.what = "mpt_iterator_string(\"" + t + "\", " + (sep ? "\"" + std::string(sep) + "\"" : std::string("NULL")) + ") as keywords";
  c.logf("%s ...", M.what.c_str());
  mpt::metatype *mt = mpt_iterator_string(heap, sep);
  c.label("kind:text-keywords");
  c.label(!sep ? "keys:default-separators" : !*sep ? "keys:empty-separator-set" : "keys:custom-separators");
  if (t.find_first_of(",;/:") != std::string::npos) c.label("keys:text-has-default-separator-chars");
  check_created(c, M, mt);
  if (!mt) return;
  S.owned.push_back(mt);
  // type query of the source itself (no target address), the idiom every conversion function of the library supports
  int q = meta_convert(mt, 's', 0);
  c.logf("  convert('s', no target) -> %d", q);
  drive(c, S, M, mt);
}

static void run_buffer(Ctx &c) {
  Session S;
  Model M;
  M.reader = RSegment;
  bool args = c.flip();
  size_t n = c.near({0, 1, 2, 3}, 8);
  std::string raw;
  std::vector<std::string> segs;
  std::vector<bool> term;
  static const char *W[] = {"", "a", "set", "1.5", "hello world", "x=3", "-", "0", "long-argument-text-0123456789"};
  for (size_t k = 0; k < n; k++) {
    std::string w = W[c.pick(9)];
    bool open = (k + 1 == n) && c.chance(64) && !w.empty();
    raw += w;
    if (!open) raw.push_back('\0');
    segs.push_back(w);
    term.push_back(!open);
  }
  mpt::array *a = S.new_array();
  bool no_array = !n && c.chance(64);
  if (!raw.empty()) {
    VP_CHECK(c, mpt_array_append(a, raw.size(), raw.data()), "harness", "mpt_array_append failed");
    cbuf(a)->traits = mpt_type_traits('c');  // as mpt_array_message() does
  }
  size_t skip = args && !segs.empty() ? 1 : 0;  // the first segment is the command itself
  M.seg.assign(segs.begin() + skip, segs.end());
  M.seg_term.assign(term.begin() + skip, term.end());
  M.n_lo = M.n_hi = M.seg.size();
  M.what = std::string(args ? "mpt_meta_arguments" : "mpt_meta_buffer") + "(" + std::to_string(n) + " segments, " + std::to_string(raw.size()) + " bytes)";
  if (c.verbose()) c.loghex("buffer", raw.data(), raw.size());
  mpt::metatype *mt = args ? mpt_meta_arguments(no_array ? 0 : a) : mpt_meta_buffer(no_array ? 0 : a);
  c.label(args ? "kind:buffer-arguments" : "kind:buffer");
  check_created(c, M, mt);
  if (!mt) return;
  S.owned.push_back(mt);
  drive(c, S, M, mt);
}

// ------------------------------------------------------------------------------------------------ mpt_values_linear / mpt_values_bound
static void run_fill(Ctx &c) {
  long points = (long)c.near({0, 1, 2, 3}, 24);
  long ld = (long)c.range(1, 4);
  bool n1, n2, n3;
  double a = draw_double(c, n1), b = draw_double(c, n2), m = draw_double(c, n3);
  bool bound = c.flip();
  size_t total = points > 0 ? (size_t)((points - 1) * ld + 1) : 0;
  double *t = (double *)malloc(total ? total * sizeof(double) : 1);
  for (size_t i = 0; i < total; i++) t[i] = from_bits(kSentinel);
  struct Free { double *p; ~Free() { free(p); } } fr{t};
  if (bound) mpt_values_bound(points, t, ld, a, m, b);
  else mpt_values_linear(points, t, ld, a, b);
  c.logf("%s(points=%ld, ld=%ld, %.17g, %.17g, %.17g)", bound ? "mpt_values_bound" : "mpt_values_linear", points, ld, a, m, b);
  for (size_t i = 0; i < total; i++) {
    if (i % ld) {
      VP_CHECK(c, bits(t[i]) == kSentinel, "fill-stride", "position %zu between the strided elements was written (%.17g)", i, t[i]);
      continue;
    }
    uint64_t k = i / ld;
    double x = t[i];
    VP_CHECK(c, bits(x) != kSentinel, "fill-missing", "element %llu of %ld was not written", (unsigned long long)k, points);
    if (bound) {
      if (points < 2) continue;  // single point: documented as the mean of the three values
      double e = k == 0 ? a : (k + 1 == (uint64_t)points ? b : m);
      VP_CHECK(c, bits(x) == bits(e) || (x != x && e != e), "fill-value", "bound element %llu is %.17g, expected %.17g", (unsigned long long)k, x, e);
    } else if (n1 && n2 && points >= 2) {
      Expect e = linear_at(a, b, (uint64_t)points - 1, k);
      long double err = x > e.v ? x - e.v : e.v - x;
      VP_CHECK(c, x == x && err <= e.tol, "fill-value", "linear element %llu of %ld is %.17g, closed form %.17Lg", (unsigned long long)k, points, x, e.v);
    }
  }
  c.label(bound ? "kind:values_bound" : "kind:values_linear");
  if (points >= 3 && ld > 1) c.nontrivial();
}

// ------------------------------------------------------------------------------------------------ generator names
// Names derived systematically from the documented ones: as is, case variants, every proper prefix, one-letter insertions
// (anywhere, incl. appended), one-letter substitutions, one-character deletions, a non-letter inside, no name at all; then the
// separator the parser allows or not, then a fixed well-formed body of the family. Reference reading of the text (from the
// unchanged sources): the name is the leading run of letters.
//  mpt_iterator_create: accepted iff the name is linear|lin, factor|fact|fac, range in any case, followed by at most one
//    white-space character and "(": everything else has to be refused (more white space: may be refused, see report).
//  mpt_iterator_profile: the first 3 / 5 / 4 letters select lin / bound / poly in any case; for lin and bound the rest of the
//    name has to be a (case sensitive) leading part of "ear" / "ary" (so "line", "bounda" are spellings the code accepts: modelled,
//    reported as observation); then white space and/or one ':' have to follow.
static std::string derive_name(Ctx &c, const std::string &base) {
  std::string n = base;
  static const char kLetters[] = "abcdefghijklmnopqrstuvwxyzLINEARFCTOGBUDYP";
  switch (c.weighted({3, 3, 6, 5, 4, 3, 1, 1})) {
    case 0: c.label("name:as-documented"); break;
    case 1: for (auto &ch : n) if (c.flip()) ch = (char)toupper(ch); c.label("name:case-variant"); break;
    case 2: n = n.substr(0, c.range(1, n.size() - 1)); c.label("name:proper-prefix"); break;
    case 3: n.insert(c.pick(n.size() + 1), 1, kLetters[c.pick(sizeof kLetters - 1)]); c.label("name:letter-inserted"); break;
    case 4: { size_t i = c.pick(n.size()); char r = kLetters[c.pick(26)]; if (r == n[i]) r = r == 'z' ? 'a' : r + 1; n[i] = r; c.label("name:letter-substituted"); break; }
    case 5: n.erase(c.pick(n.size()), 1); c.label("name:letter-deleted"); break;
    case 6: n.insert(c.pick(n.size() + 1), 1, "1_-. "[c.pick(5)]); c.label("name:non-letter-inside"); break;
    default: n.clear(); c.label("name:none"); break;
  }
  return n;
}
static std::string lower(std::string t) { for (auto &ch : t) ch = (char)tolower(ch); return t; }
static size_t letters(const std::string &t) { size_t i = 0; while (i < t.size() && isalpha((unsigned char)t[i])) ++i; return i; }

static void run_names(Ctx &c) {
  Session S;
  Model M;
  mpt::metatype *mt = 0;
  if (c.flip()) {  // mpt_iterator_create
    static const char *kBase[] = {"linear", "lin", "factor", "fact", "fac", "range"};
    std::string base = kBase[c.pick(6)], name = derive_name(c, base);
    static const char *kGap[] = {"", " ", "\t", "  ", " \t"};
    size_t gap = c.weighted({8, 4, 1, 1, 1});
    int fam = base[0] == 'l' ? 0 : base[0] == 'f' ? 1 : 2;
    static const char *kBody[] = {"(4 : 0 2)", "(3:2:3)", "(0 1 : 0.25)"};
    std::string text = name + kGap[gap] + kBody[fam];
    // reference reading (leading white space is skipped; without a name the text is an explicit value list)
    size_t lead = 0;
    while (lead < text.size() && isspace((unsigned char)text[lead])) ++lead;
    size_t nl = letters(text.substr(lead));
    std::string word = lower(text.substr(lead, nl)), rest = text.substr(lead + nl);
    char *numend = 0;
    bool list = !nl && (strtod(text.c_str() + lead, &numend), numend != text.c_str() + lead);
    bool known = word == "linear" || word == "lin" || word == "factor" || word == "fact" || word == "fac" || word == "range";
    size_t ws = 0;
    while (ws < rest.size() && isspace((unsigned char)rest[ws])) ++ws;
    bool paren = ws < rest.size() && rest[ws] == '(';
    M.what = "create \"" + text + "\"";
    if (known && paren && ws <= 1) M.accept = MustAccept;
    else if (known && paren) { M.accept = MayRefuse; c.label("name:more-than-one-blank"); }
    else if (list) { M.accept = MayRefuse; c.label("name:text-is-a-value-list"); }
    else M.accept = MustRefuse;
    if (known && paren) {
      int f = word[0] == 'l' ? 0 : word[0] == 'f' ? 1 : 2;  // (== fam: one edit never turns one family into another)
      if (f == 0) { M.n_lo = M.n_hi = 5; M.at = [](uint64_t k) { return linear_at(0, 2, 4, k); }; }
      else if (f == 1) { M.n_lo = M.n_hi = 4; M.at = [](uint64_t k) { static const double v[] = {0, 2, 6, 18}; return Expect{k < 4, k < 4 ? v[k] : 0, 1e-12}; }; }
      else { M.n_lo = M.n_hi = 5; M.at = [](uint64_t k) { return Expect{true, 0.25L * k, 1e-12}; }; }
    } else M.lenient = true;
    char *heap = (char *)malloc(text.size() + 1);
    memcpy(heap, text.c_str(), text.size() + 1);
    S.heap.push_back(heap);
    c.logf("%s ...", M.what.c_str());
    mt = mpt_iterator_create(heap);
    c.label("kind:create-names");
  } else {  // mpt_iterator_profile
    static const char *kBase[] = {"lin", "linear", "bound", "boundary", "poly", "line", "bounda"};
    std::string base = kBase[c.pick(7)], name = derive_name(c, base);
    static const char *kSep[] = {" ", ":", " : ", "  ", "", "\t"};
    size_t sep = c.weighted({8, 3, 3, 1, 1, 1});
    int fam = base[0] == 'l' ? 0 : base[0] == 'b' ? 1 : 2;
    static const char *kBody[] = {"0 2", "1 5 9", "1 0"};
    std::string text = name + kSep[sep] + kBody[fam];
    size_t len = c.range(2, 6);
    std::vector<double> grid;
    mpt::array *a = S.new_array();
    double *d = mpt_values_prepare(reinterpret_cast<mpt::typed_array<double> *>(a), (long)len);
    VP_CHECK(c, d, "harness", "mpt_values_prepare(%zu) failed", len);
    for (size_t i = 0; i < len; i++) grid.push_back(d[i] = 1.5 * (double)i - 2);
    // reference reading
    size_t lead = 0;
    while (lead < text.size() && isspace((unsigned char)text[lead])) ++lead;
    size_t nl = letters(text.substr(lead));
    std::string word = text.substr(lead, nl), low = lower(word), rest = text.substr(lead + nl);
    auto tail_ok = [&](size_t head, const char *tail) {
      std::string t = word.substr(head);
      return t.size() <= strlen(tail) && !strncmp(t.c_str(), tail, t.size());
    };
    int f = -1;
    if (low.compare(0, 3, "lin") == 0 && nl >= 3 && tail_ok(3, "ear")) f = 0;
    else if (low.compare(0, 5, "bound") == 0 && nl >= 5 && tail_ok(5, "ary")) f = 1;
    else if (low == "poly") f = 2;
    bool sepok = !rest.empty() && (isspace((unsigned char)rest[0]) || rest[0] == ':');
    // what follows the separator (white space, at most one ':', white space) has to be the body this case was built with
    size_t bp = 0;
    while (bp < rest.size() && isspace((unsigned char)rest[bp])) ++bp;
    if (bp < rest.size() && rest[bp] == ':') ++bp;
    while (bp < rest.size() && isspace((unsigned char)rest[bp])) ++bp;
    bool body = rest.substr(bp) == kBody[fam];
    bool quirk = f >= 0 && f < 2 && !sepok && !rest.empty() && (word.size() == (f ? 8u : 6u));  // "linear0 2": full name directly followed by the values
    M.what = "mpt_iterator_profile(grid of " + std::to_string(len) + ", \"" + text + "\")";
    M.n_lo = M.n_hi = len;
    bool strict = false;
    if (f >= 0 && f == fam && sepok && body) { M.accept = MustAccept; strict = true; }
    else if (f >= 0 && (quirk || (sepok && !body))) { M.accept = MayRefuse; c.label("name:body-changed-by-the-edit"); }
    else M.accept = MustRefuse;
    if (low.compare(0, 4, "file") == 0) M.accept = MayRefuse;  // (not reachable by one edit; the file profile is not covered)
    if (!strict) { M.lenient = true; M.n_lo = 0; M.n_hi = UINT64_MAX; }
    else if (f == 0) M.at = [len](uint64_t k) { return linear_at(0, 2, len - 1, k); };
    else if (f == 1) M.at = [len](uint64_t k) { return Expect{true, k == 0 ? 1.0 : (k + 1 == len ? 9.0 : 5.0), 0}; };
    else if (f == 2) M.at = [grid](uint64_t k) { return Expect{k < grid.size(), k < grid.size() ? grid[k] : 0, 1e-12}; };
    if (f >= 0 && word != low && lower(base) == low) c.label("name:profile-mixed-case-accepted-form");
    char *heap = (char *)malloc(text.size() + 1);
    memcpy(heap, text.c_str(), text.size() + 1);
    S.heap.push_back(heap);
    c.logf("%s ...", M.what.c_str());
    mt = mpt_iterator_profile(reinterpret_cast<const mpt::typed_array<double> *>(a), heap);
    c.label("kind:profile-names");
  }
  check_created(c, M, mt);
  if (!mt) return;
  S.owned.push_back(mt);
  drive(c, S, M, mt);
}

// ------------------------------------------------------------------------------------------------ vararg argument iterator
// mpt_process_vararg(fmt, va_list, proc, ctx) (behind mpt_object_set(obj, name, fmt, ...)): the iterator over the arguments
// only lives while `proc` runs, so the interleaving is driven from inside the callback; an oracle failure is kept and raised
// after the library call has returned (no exception crosses library frames).
struct VaArg { char type; double d; int32_t i; uint32_t u; };
struct VaCtx { Ctx *c; Session *S; Model *M; bool called, failed; Fail fail; };
static int va_proc(void *ptr, mpt::iterator *it) {
  VaCtx *x = (VaCtx *)ptr;
  x->called = true;
  try { drive(*x->c, *x->S, *x->M, 0, it); }
  catch (const Fail &f) { x->failed = true; x->fail = f; }
  return 0;
}
static int va_call(const char *fmt, VaCtx *x, ...) {
  va_list ap;
  va_start(ap, x);
  int r = mpt::mpt_process_vararg(fmt, ap, va_proc, x);
  va_end(ap);
  return r;
}
template <typename... A>
static int va_expand(const char *fmt, VaCtx *x, const std::vector<VaArg> &args, A... a) {
  if constexpr (sizeof...(A) < 5) {
    if (sizeof...(A) < args.size()) {
      const VaArg &g = args[sizeof...(A)];
      switch (g.type) {
        case 'i': return va_expand(fmt, x, args, a..., g.i);
        case 'u': return va_expand(fmt, x, args, a..., g.u);
        default: return va_expand(fmt, x, args, a..., g.d);
      }
    }
  }
  return va_call(fmt, x, a...);
}
static void run_vararg(Ctx &c) {
  Session S;
  Model M;
  size_t n = c.near({1, 2, 3}, 5);
  std::vector<VaArg> args;
  std::vector<double> vals;
  std::string fmt;
  for (size_t k = 0; k < n; k++) {
    VaArg g = {"dfiu"[c.pick(4)], 0, 0, 0};
    Num x = draw_num(c, 0, 0);
    double v = x.val;
    switch (g.type) {
      case 'i': g.i = (int32_t)c.range(0, 2000) - 1000; v = g.i; break;
      case 'u': g.u = (uint32_t)c.near({0, 1, 65535, 2147483647}, 4000000000ull); v = g.u; break;
      case 'f': g.d = (double)(float)x.val; v = g.d; break;
      default: g.d = x.val; break;
    }
    args.push_back(g);
    vals.push_back(v);
    fmt.push_back(g.type);
  }
  bool null_fmt = !n;
  M.what = null_fmt ? "mpt_process_vararg(NULL)" : "mpt_process_vararg(\"" + fmt + "\")";
  M.n_lo = M.n_hi = n;
  M.at = [vals](uint64_t k) { return k < vals.size() ? Expect{true, vals[k], 0} : Expect{false, 0, 0}; };
  c.logf("%s ...", M.what.c_str());
  c.label("kind:vararg-arguments");
  VaCtx x = {&c, &S, &M, false, false, Fail()};
  int r = va_expand(null_fmt ? 0 : fmt.c_str(), &x, args);
  if (x.failed) throw x.fail;
  VP_CHECK(c, r >= 0 && x.called, "wellformed-refused", "%s returns %d%s", M.what.c_str(), r, x.called ? "" : " without calling the handler");
}

// ------------------------------------------------------------------------------------------------ C++ template source
// mpt::source<T>(values, len, step) (mptcore/types.h, header only): explicit value list walked from the first element with a
// positive step, from the last one with a negative step. Index model: pos0 = step < 0 ? len - 1 : 0, element k is
// values[pos0 + k * step] while that index is inside [0, len). The object is a C++ class; its v-table starts with
// value / advance / reset like the C interface, so the same driver is used (no metatype: nothing to clone).
template <typename T>
static void run_source_as(Ctx &c, const char *tname, size_t len, int step, const std::vector<double> &raw) {
  Session S;
  Model M;
  std::vector<T> data;
  for (size_t k = 0; k < len; k++) data.push_back((T)raw[k]);
  // exact-size heap copy: an index outside [0, len) that is dereferenced is an ASan error
  T *heap = (T *)malloc(len ? len * sizeof(T) : 1);
  if (len) memcpy(heap, data.data(), len * sizeof(T));
  S.heap.push_back(heap);
  std::vector<double> vals;
  for (long pos = step < 0 ? (long)len - 1 : 0; pos >= 0 && pos < (long)len; pos += step) vals.push_back((double)data[pos]);
  char buf[96];
  snprintf(buf, sizeof buf, "mpt::source<%s>(%zu values, step %d)", tname, len, step);
  M.what = buf;
  M.n_lo = M.n_hi = vals.size();
  M.at = [vals](uint64_t k) { return k < vals.size() ? Expect{true, vals[k], 0} : Expect{false, 0, 0}; };
  c.logf("%s: denotes %zu elements", M.what.c_str(), vals.size());
  mpt::source<T> src(heap, (long)len, step);
  c.label("kind:cxx-source");
  c.label(step < 0 ? "source:negative-step" : "source:positive-step");
  if ((size_t)(step < 0 ? -step : step) > len) c.label("source:step>length");
  drive(c, S, M, 0, static_cast<mpt::iterator *>(&src));
}
static void run_source(Ctx &c) {
  size_t len = c.range(0, 8);
  static const int kSteps[] = {1, -1, 2, -2, 3, -3, 5, -5, 9, -9, 7, -7, 4, -4, 100, -100};
  int step = kSteps[c.pick(16)];
  std::vector<double> raw;
  for (size_t k = 0; k < len; k++) raw.push_back((double)(10 + 7 * k + c.range(0, 6)));  // distinct, fit every element type used
  switch (c.pick(4)) {
    case 0: return run_source_as<double>(c, "double", len, step, raw);
    case 1: return run_source_as<int>(c, "int", len, step, raw);
    case 2: return run_source_as<float>(c, "float", len, step, raw);
    default: return run_source_as<uint16_t>(c, "uint16_t", len, step, raw);
  }
}

static void run(Ctx &c) {
  uint8_t sel = c.u8();
  if (sel >= 248) return run_vararg(c);
  if (sel >= 244) return run_source(c);
  if (sel < 110) return run_create(c);
  if (sel < 190) return run_direct(c);
  if (sel < 215) return run_text(c);
  if (sel >= 232 && sel < 240) return run_names(c);
  if (sel >= 226 && sel < 232) return run_text_keys(c);
  if (sel < 240) return run_buffer(c);
  run_fill(c);
}

// exhaustive: every name one edit away from a documented one (proper prefixes, one letter inserted anywhere from a..z and
// the capitals of the names, one letter substituted by a..z, one character deleted, the name itself, no name) for the 6
// names of mpt_iterator_create and 7 spellings of mpt_iterator_profile, each with the two most common separators
static const std::vector<std::vector<uint8_t> > &name_cases() {
  static std::vector<std::vector<uint8_t> > all;
  if (!all.empty()) return all;
  static const char *kCreate[] = {"linear", "lin", "factor", "fact", "fac", "range"};
  static const char *kProfile[] = {"lin", "linear", "bound", "boundary", "poly", "line", "bounda"};
  for (int api = 0; api < 2; api++) {
    size_t nb = api ? 7 : 6;
    for (size_t b = 0; b < nb; b++) {
      size_t n = strlen(api ? kProfile[b] : kCreate[b]);
      std::vector<std::vector<uint8_t> > edits;
      edits.push_back({0});                                                                    // as documented
      edits.push_back({25});                                                                   // no name
      for (size_t k = 1; k < n; k++) edits.push_back({6, (uint8_t)(k - 1)});                     // proper prefix of length k
      for (size_t pos = 0; pos <= n; pos++) for (uint8_t l = 0; l < 42; l++) edits.push_back({12, (uint8_t)pos, l});
      for (size_t pos = 0; pos < n; pos++) for (uint8_t l = 0; l < 26; l++) edits.push_back({17, (uint8_t)pos, l});
      for (size_t pos = 0; pos < n; pos++) edits.push_back({21, (uint8_t)pos});
      for (const std::vector<uint8_t> &e : edits)
        for (uint8_t sep : {(uint8_t)0, (uint8_t)8}) {
          std::vector<uint8_t> v = {232, (uint8_t)(api ? 0 : 1), (uint8_t)b};
          v.insert(v.end(), e.begin(), e.end());
          v.push_back(sep);
          if (api) v.push_back(1);  // grid of 3 values
          all.push_back(v);
        }
    }
  }
  return all;
}
static uint64_t names_count(int) { return name_cases().size(); }
static void names_make(uint64_t idx, int, std::vector<uint8_t> &out) { out = name_cases()[idx]; }

static Target t = {
    "C19",
    "random: source = mpt_iterator_create(description from the grammar lin|linear / fact|factor|fac / range / value list with spacing, case and number-format variants; "
    "dubious (zero count, 2^32 count, non-finite or reversed bounds, factor <= 0), mutated (1-3 character edits) and malformed descriptions) | mpt_iterator_linear | "
    "mpt_iterator_boundary | mpt_iterator_values | mpt_iterator_poly | mpt_iterator_profile over a drawn grid | mpt_iterator_string | mpt_meta_buffer | mpt_meta_arguments | the vararg argument iterator of mpt_process_vararg (1-5 arguments of type d/f/i/u, driven inside the handler) | the C++ template mpt::source<T> "
    "(T double/int/float/uint16_t, 0..8 values, step +-1..9 and +-100); "
    "counts 0,1,2,3,.. and 2^32-1, bounds incl. 1e300, denormals, inf, nan; then a drawn interleaving (<= 160 calls) of value / advance / value+advance / reset / clone / "
    "mpt_iterator_consume / documented loop over the source and up to 3 clones (text argument iterator: three reads in four are followed by a second read of the same element "
    "with another target type, fitting or not, before the advance), closed by walk-to-end, reset, second walk and two reads/advances past the end; "
    "mpt_iterator_string read as keywords with generated separator argument (NULL, empty, custom sets) on texts containing , ; / : | ; "
    "mpt_values_linear / mpt_values_bound on strided targets; generator names derived from the documented ones by one edit (random incl. case variants, blanks, non-letters; "
    "exhaustive for prefixes / insertions / substitutions / deletions), accepted iff documented. non-trivial: a source with at least one element was walked to its end and elements were replayed after a reset or "
    "in a clone, a malformed description was refused, or a strided fill of >= 3 points was checked; distinct by hash of the draw sequence.",
    run,
    {600, 1200},
    false,
    true,
    {{"generator names one edit away from the documented ones (prefixes, insertions, substitutions, deletions) x 2 separators, mpt_iterator_create and mpt_iterator_profile", names_count, names_make}},
    0,
    0,
};
Target &vp::target() { return t; }
