// C-API view of the mptplot layout header (see mpt_c.hpp) plus C views of the two interfaces the
// layout setters talk to. In C the interfaces are { const vtable *_vptr; } with the functions in
// declaration order; the C++ classes have the same layout by design of the library.
#pragma once
#include "mpt_c.hpp"

#define protected public
#define private public
#include "collection.h"
#include "values.h"
#include "layout.h"
#undef protected
#undef private

// MPT_INTERFACE_VPTR(convertable) / MPT_INTERFACE(convertable) as C sees them
struct CConv;
struct CConvVptr {
  int (*convert)(CConv *, mpt::type_t, void *);
};
struct CConv {
  const CConvVptr *vptr;
  mpt::convertable *iface() { return reinterpret_cast<mpt::convertable *>(this); }
};

// MPT_INTERFACE_VPTR(object) / MPT_INTERFACE(object) as C sees them
struct CObject;
struct CObjectVptr {
  int (*property)(const CObject *, mpt::property *);
  int (*set_property)(CObject *, const char *, mpt::convertable *);
};
struct CObject {
  const CObjectVptr *vptr;
  mpt::object *iface() { return reinterpret_cast<mpt::object *>(this); }
};

// MPT_INTERFACE_VPTR(metatype) / MPT_INTERFACE_VPTR(iterator) as C sees them
struct CMeta;
struct CMetaVptr {
  CConvVptr convertable;
  void (*unref)(CMeta *);
  uintptr_t (*addref)(CMeta *);
  CMeta *(*clone)(const CMeta *);
};
struct CMeta {
  const CMetaVptr *vptr;
  CConv *conv() { return reinterpret_cast<CConv *>(this); }
};
struct CIter;
struct CIterVptr {
  const mpt::value *(*value)(CIter *);
  int (*advance)(CIter *);
  int (*reset)(CIter *);
};
struct CIter {
  const CIterVptr *vptr;
  mpt::iterator *iface() { return reinterpret_cast<mpt::iterator *>(this); }
};
