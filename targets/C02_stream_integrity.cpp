// C02 — message stream integrity under arbitrary segmentation            vp-link: core io cxx
//
// G: history over {push(chunk), end-message, flush(k), deliver(k), receive, peek, grow-sender, grow-receiver}
//    on an encode_queue / decode_queue pair driven the way mptio/stream drives them (stream_push / stream_flush /
//    stream_poll / stream_dispatch), 4 COBS framings, both queues start with a drawn capacity and wrap offset.
//    Second scenario: two real mpt_stream objects over socketpairs, the harness re-cuts the byte stream in the middle.
// O: reference model = list of sent messages + wire bytes. Every delivered message is the next sent one, byte for
//    byte; never more messages than complete frames delivered; every frame on the wire decodes (reference decoder)
//    to the message that was sent; a complete delivered frame becomes available within a bounded number of
//    receive/grow steps; at the end all messages were received; queue/codec offset invariants after every step.
#include "vp.hpp"
#include "msggen.hpp"
#include "ref/cobs.hpp"

#include "mpt_c.hpp"

#define protected public
#define private public
#include "stream.h"
#undef protected
#undef private

#include <errno.h>
#include <fcntl.h>
#include <poll.h>
#include <sys/ioctl.h>
#include <sys/socket.h>
#include <unistd.h>

using namespace vp;
using namespace mpt;

// NFraming counts the COBS dialects (selector arithmetic of the committed corpus depends on it); the command framing
// (zero-terminated text, mpt_encode_string / mpt_decode_command) was appended later and has selector ranges of its own
enum { FCobs, FCobsR, FZpe, FZpeR, NFraming, FCommand = NFraming };
static const char *kName[] = {"cobs", "cobs/r", "cobs/zpe", "cobs/zpe+r", "command"};
static const int kEncoding[] = {MPT_ENUM(EncodingCobs), MPT_ENUM(EncodingCobsInline), MPT_ENUM(EncodingCobs) | MPT_ENUM(EncodingCompress),
                                MPT_ENUM(EncodingCobsInline) | MPT_ENUM(EncodingCompress), MPT_ENUM(EncodingCommand)};
static const char *kZpeStall = "C02-zpe-recv-stall";

static bool is_zpe(int fr) { return fr == FZpe || fr == FZpeR; }

// structure of a message taken from a queue (mpt_message_get of the unchanged code): one part when the bytes are contiguous in the
// storage, otherwise exactly one continuation at the storage base; no empty parts (except the single part of an empty message).
// Returns 0 or a description; never throws (used inside the dispatch callback).
static const char *message_structure(const message &m, const queue *q, size_t total, bool have_total) {
  const uint8_t *base = (const uint8_t *)q->base, *end = base + q->max;
  if (m.clen > 1) return "more than one continuation";
  const uint8_t *p = (const uint8_t *)m.base;
  if (!m.clen) {
    if (have_total && m.used != total) return "single part does not hold the whole message";
    if (m.used && (p < base || p + m.used > end)) return "part outside the queue storage";
    return 0;
  }
  if (!m.cont) return "continuation count 1 without continuation";
  if (!m.used) return "empty first part in front of a continuation";
  if (!m.cont->iov_len) return "zero-length continuation (the message does not cross the end of the storage)";
  if (p < base || p + m.used != end) return "first part of a two-part message does not end at the end of the storage";
  if ((const uint8_t *)m.cont->iov_base != base) return "continuation does not start at the storage base";
  if (have_total && m.used + m.cont->iov_len != total) return "parts do not add up to the message length";
  return 0;
}
// what the receiver hands over for a sent message: the command decoder puts a message header in front of the text
static std::vector<uint8_t> expect_recv(int fr, const std::vector<uint8_t> &m) {
  std::vector<uint8_t> w;
  if (fr == FCommand) { w.push_back(0x04 /* MessageCommand */); w.push_back(' '); }
  w.insert(w.end(), m.begin(), m.end());
  return w;
}
// is the frame body (bytes before the delimiter) the encoding of the message?
static bool frame_is(int fr, const uint8_t *f, size_t n, const std::vector<uint8_t> &want, std::string &how) {
  if (fr == FCommand) {  // the text itself
    if (n == want.size() && !memcmp(f, want.data(), n)) return true;
    size_t d = 0;
    while (d < n && d < want.size() && f[d] == want[d]) ++d;
    how = "differs from the text at byte " + std::to_string(d);
    return false;
  }
  std::vector<uint8_t> out;
  ref::Verdict v = ref::decode((ref::Dialect)fr, f, n, out);
  if (v == ref::WellFormed && out == want) return true;
  how = v == ref::WellFormed ? "decodes to " + std::to_string(out.size()) + " bytes " + hex(out.data(), out.size(), 24) : std::string("is malformed");
  return false;
}

// ---- COBS/ZPE in-place decoding needs slack: every zero-pair code (0xE0+k) decodes to one byte more than it
// consumed. The only slack the queue layer can rely on inside a message is the surplus of the blocks decoded before
// (a 0xDF block decodes to one byte less than it consumed). A frame whose pair code arrives with no surplus is the
// shape of the recorded finding C02-zpe-recv-stall.
static bool zpe_frame_deficit(const uint8_t *f, size_t n) {
  size_t i = 0, surplus = 0;
  while (i < n && f[i]) {
    unsigned code = f[i++];
    size_t nd;
    if (code >= 0xe0) {
      if (!surplus) return true;
      --surplus;
      nd = code - 0xe0;
    } else {
      nd = code - 1;
      if (code == 0xdf) ++surplus;
    }
    while (nd && i < n && f[i]) { ++i; --nd; }
  }
  return false;
}
// message level (greedy encoding; push splits can only remove pair codes): break every zero pair that would be
// pair-encoded without surplus. Returns the number of changed bytes.
static size_t zpe_message_fix(std::vector<uint8_t> &m, bool apply) {
  size_t surplus = 0, fixed = 0;
  unsigned code = 1;
  for (size_t i = 0; i < m.size(); i++) {
    if (m[i]) {
      if (++code == 0xdf) { ++surplus; code = 1; }
      continue;
    }
    if (code > 1 && code < 32 && i + 1 < m.size() && !m[i + 1]) {
      if (surplus) { --surplus; ++i; }
      else { ++fixed; if (apply) m[i + 1] = 1; else ++i; }
    }
    code = 1;
  }
  return fixed;
}

static size_t draw_capacity(Ctx &c) {
  switch (c.weighted({1, 4, 3, 2})) {
    case 0: return 0;  // the state every stream starts with: no storage at all
    case 1: return c.range(8, 40);
    case 2: { size_t v = c.near({8, 16, 32, 64, 128, 256}, 512); return v < 8 ? 8 : v; }
    default: return c.range(8, 512);
  }
}

// create the start offset with the queue operations production uses (append + remove from the front)
static void preroll(Ctx &c, queue *q, size_t cap, size_t x, const char *who) {
  q->base = cap ? malloc(cap) : 0;
  q->max = cap;
  q->len = q->off = 0;
  if (cap) memset(q->base, 0xAA, cap);
  if (!cap || !x || x >= cap) { c.logf("%s queue: capacity %zu offset 0", who, cap); return; }
  std::vector<uint8_t> dummy(cap, 0x5a);
  int r1 = mpt_qpush(q, x + 1, dummy.data());
  int r2 = mpt_queue_crop(q, 0, x);
  int r3 = mpt_qpush(q, cap - 1, dummy.data());
  int r4 = mpt_queue_crop(q, 0, q->len);
  c.logf("%s queue: capacity %zu, pre-roll for offset %zu (%d %d %d %d) -> off %zu len %zu", who, cap, x, r1, r2, r3, r4, q->off, q->len);
  VP_CHECK(c, q->len == 0 && q->max == cap, "preroll", "%s queue not empty after pushing and removing the same number of bytes: len %zu max %zu", who, q->len, q->max);
  if (q->off) c.label(q->off == x ? "start-offset" : "start-offset-other");
}

static bool wrapped(const queue *q) { return q->max && q->off + q->len > q->max; }

// ================================================================ queue scenario
struct H {
  Ctx &c;
  int fr;
  CObj<encode_queue> sq;
  CObj<decode_queue> rq;
  int pfd[2];
  std::vector<std::vector<uint8_t>> sent;  // finished messages
  std::vector<uint8_t> cur, todo;          // bytes of the open message accepted so far / still to push
  size_t todo_off = 0;
  bool open = false;
  std::vector<uint8_t> wire;               // every flushed byte
  size_t delivered = 0;                    // prefix of wire inside the receiver
  size_t wire_frames = 0, wire_frame_start = 0, wire_seen = 0;
  size_t delivered_frames = 0, nrecv = 0;
  int sgrow_style;
  bool cut_inside = false, partial_wrap_or_grow = false;
  size_t n_missing_buffer = 0;
  bool drained_mid = false;
  bool retry_full = true;
  bool cxx = false;       // drive the queues through the member functions of mpt++/queue.cpp (encode_queue::push/trim/done, decode_queue::advance/...)
  bool lim_mode = false;  // deliveries may use mpt_queue_load with an explicit read limit
  size_t piped = 0;       // wire bytes behind `delivered` that are waiting on the descriptor
  size_t open_queued = 0;  // command framing: bytes of the open message that are still in the sender queue

  H(Ctx &ctx, int framing) : c(ctx), fr(framing) {
    pfd[0] = pfd[1] = -1;
    sq->_enc = mpt_message_encoder(kEncoding[fr]);
    rq->_dec = mpt_message_decoder(kEncoding[fr]);
    rq->_state.data.msg = -1;
    sgrow_style = 0;
  }
  ~H() {
    free(sq->base);
    free(rq->base);
    if (pfd[0] >= 0) close(pfd[0]);
    if (pfd[1] >= 0) close(pfd[1]);
  }
  queue *sd() { return sq.get(); }
  queue *rd() { return rq.get(); }

  // ---------- invariants
  void inv_queue(const queue *q, const char *who) {
    VP_CHECK(c, q->len <= q->max, "queue-invariant", "%s queue: len %zu > max %zu (off %zu)", who, q->len, q->max, q->off);
    VP_CHECK(c, q->max ? q->off < q->max : q->off == 0, "queue-invariant", "%s queue: off %zu, max %zu (len %zu)", who, q->off, q->max, q->len);
    VP_CHECK(c, !q->max == !q->base, "queue-invariant", "%s queue: base %p with max %zu", who, q->base, q->max);
  }
  void inv_sender(const char *after) {
    inv_queue(sd(), "sender");
    VP_CHECK(c, sq->_state.done + sq->_state.scratch == sq->len, "encoder-accounting", "after %s: done %zu + scratch %zu != queue length %zu", after, sq->_state.done,
             sq->_state.scratch, sq->len);
  }
  void inv_receiver(const char *after) {
    inv_queue(rd(), "receiver");
    const decode_state &st = rq->_state;
    VP_CHECK(c, st.curr <= rq->len, "decoder-offsets", "after %s: curr %zu beyond queue length %zu (pos %zu len %zu msg %zd)", after, st.curr, rq->len, st.data.pos, st.data.len, st.data.msg);
    VP_CHECK(c, st.data.pos + st.data.len <= st.curr || (!st.curr && !st.data.len), "decoder-offsets", "after %s: decoded window %zu+%zu beyond curr %zu (queue length %zu)", after, st.data.pos,
             st.data.len, st.curr, rq->len);
    VP_CHECK(c, st.data.msg < 0 || (size_t)st.data.msg <= st.data.len, "decoder-offsets", "after %s: message length %zd > decoded length %zu", after, st.data.msg, st.data.len);
  }
  void logq(const char *what) {
    if (!c.verbose()) return;
    c.logf("    %s | S off %zu len %zu max %zu done %zu scratch %zu | R off %zu len %zu max %zu curr %zu pos %zu dlen %zu msg %zd ctx %#lx", what, sq->off, sq->len, sq->max, sq->_state.done,
           sq->_state.scratch, rq->off, rq->len, rq->max, rq->_state.curr, rq->_state.data.pos, rq->_state.data.len, rq->_state.data.msg, (unsigned long)rq->_state._ctx);
  }
  bool partially_decoded() { return rq->_state.data.msg < 0 && (rq->_state.data.len || rq->_state._ctx); }

  // ---------- sender side: what mpt_stream_push does
  void grow_sender(size_t add, const char *why) {
    size_t before = sq->max, want = (sq->max - sq->len) + add;
    size_t left = mpt_queue_prepare(sd(), want);
    c.logf("  mpt_queue_prepare(sender, %zu) [%s] -> %zu free, capacity %zu -> %zu", want, why, left, before, sq->max);
    VP_CHECK(c, left >= want, "prepare-refused", "mpt_queue_prepare(sender, %zu) returned %zu", want, left);
    c.label("sender:grow");
    inv_sender("prepare");
  }
  void on_sender_full() {
    switch (sgrow_style) {
      case 0: {  // stream_push: mpt_queue_prepare(&stream->_wd.data, 256)
        size_t left = mpt_queue_prepare(sd(), 256);
        c.logf("  mpt_queue_prepare(sender, 256) -> %zu free, capacity %zu", left, sq->max);
        VP_CHECK(c, left >= 256, "prepare-refused", "mpt_queue_prepare(sender, 256) returned %zu", left);
        c.label("sender:grow");
        inv_sender("prepare");
        break; }
      case 1: grow_sender(c.range(1, 24), "small step"); break;
      default:  // a fixed-size user: flush what is finished, grow only when nothing is
        if (sq->_state.done) flush(sq->_state.done, "full");
        else grow_sender(c.range(1, 24), "nothing to flush");
    }
  }
  // n > 0: data, n == 0: terminate the message
  void push(const uint8_t *p, size_t n) {
    size_t total = 0, guard = 0;
    while (true) {
      VP_CHECK(c, ++guard <= 16 * n + 600, "push-no-progress", "%s: mpt_queue_push makes no progress: %zu of %zu bytes after %zu calls (capacity %zu, len %zu)", kName[fr], total, n, guard, sq->max,
               sq->len);
      if (wrapped(sd())) c.label("sender:push-on-wrapped");
      if (!sq->off) c.label("push:aligned");  // the branch of mpt_queue_push this call will take
      else if (sq->_state.done >= sq->max - sq->off) c.label("push:upper-part");
      else if (sq->max - sq->off - sq->_state.done >= sq->_state.scratch) c.label("push:lower-part");
      else c.label("push:out-of-band");
      size_t low_room = sq->off && sq->_state.done < sq->max - sq->off ? sq->max - sq->off - sq->_state.done : 0;
      if (fr == FCommand) {
        if (wrapped(sd())) c.label("command:push-on-wrapped");
        if (!sq->off) c.label("command:push:aligned");
        else if (sq->_state.done >= sq->max - sq->off) c.label("command:push:upper-part");
        else if (n - total > low_room) c.label(n ? "command:push:lower-part-overflowing" : "command:push:lower-part");  // first call fills the lower part, second call needed
        else c.label("command:push:lower-part");
      }
      ssize_t r = cxx ? sq->push(n - total, n ? p + total : 0) : mpt_queue_push(sq, n - total, n ? p + total : 0);
      c.logf("  %s(%zu%s) = %zd", cxx ? "encode_queue::push" : "mpt_queue_push", n - total, n ? "" : ", terminate", r);
      logq("   ");
      inv_sender("push");
      if (r >= 0) {
        if (!n) return;
        VP_CHECK(c, (size_t)r <= n - total, "push-accounting", "%s: mpt_queue_push consumed %zd of %zu bytes", kName[fr], r, n - total);
        cur.insert(cur.end(), p + total, p + total + r);
        open_queued += r;
        total += r;
        if (total == n) return;
        c.label("sender:partial-push");
        continue;
      }
      VP_CHECK(c, r == MPT_ERROR(MissingBuffer), "push-refused", "%s: mpt_queue_push(%zu) refused with %zd (capacity %zu, off %zu, len %zu, done %zu, scratch %zu)", kName[fr], n - total, r, sq->max,
               sq->off, sq->len, sq->_state.done, sq->_state.scratch);
      on_sender_full();
    }
  }
  void start_message() {
    size_t maxlen = c.choose<size_t>({0, 3, 6, 24, 24, 120, 300, 300, 700});
    todo = msggen::message(c, maxlen, fr == FCommand);
    if (is_zpe(fr) && zpe_message_fix(todo, false) && c.exclude(kZpeStall)) zpe_message_fix(todo, true);
    todo_off = 0;
    cur.clear();
    open = true;
    c.logf("message #%zu, %zu bytes", sent.size(), todo.size());
    c.loghex("  content", todo.data(), todo.size());
  }
  void op_push() {
    if (!open) start_message();
    size_t left = todo.size() - todo_off;
    if (!left) { op_end(); return; }
    size_t n;
    switch (c.weighted({3, 3, 2})) {
      case 0: n = left; break;
      case 1: n = c.range(1, 9); break;
      default: n = c.near({1, 30, 31, 222, 223, 253, 254, 255}, left);
    }
    if (n < 1) n = 1;
    if (n > left) n = left;
    c.logf("push %zu bytes of message #%zu", n, sent.size());
    push(todo.data() + todo_off, n);
    todo_off += n;
  }
  void op_end() {
    if (!open) start_message();
    if (todo_off < todo.size()) {
      c.logf("push remaining %zu bytes of message #%zu", todo.size() - todo_off, sent.size());
      push(todo.data() + todo_off, todo.size() - todo_off);
      todo_off = todo.size();
    }
    c.logf("end message #%zu", sent.size());
    size_t before = wire.size() + sq->_state.done;  // finished bytes, flushed or not
    push(0, 0);
    VP_CHECK(c, sq->_state.scratch == 0 && wire.size() + sq->_state.done > before, "encoder-accounting", "%s: finished bytes %zu -> %zu, scratch %zu after terminating a message", kName[fr], before,
             wire.size() + sq->_state.done, sq->_state.scratch);
    VP_CHECK(c, cur == todo, "harness", "model lost bytes");
    sent.push_back(cur);
    open = false;
    open_queued = 0;
  }
  // what mpt_stream_flush does with a descriptor that accepts k bytes
  void flush(size_t k, const char *why) {
    VP_CHECK(c, k <= sq->_state.done, "harness", "flush beyond done");
    if (!k) return;
    size_t low = 0;
    uint8_t *first = (uint8_t *)mpt_queue_data(sd(), &low);
    VP_CHECK(c, first, "queue-invariant", "mpt_queue_data(sender) is NULL with %zu finished bytes", sq->_state.done);
    size_t n0 = k < low ? k : low;
    wire.insert(wire.end(), first, first + n0);
    if (k > n0) { wire.insert(wire.end(), (uint8_t *)sq->base, (uint8_t *)sq->base + (k - n0)); c.label("sender:flush-two-segments"); }
    if (open && open_queued && fr == FCommand) {  // the string encoder counts text as finished at once: a drain can take part of the open message
      size_t finished = sq->_state.done - open_queued;  // bytes of earlier, terminated messages still queued
      if (k > finished) {
        open_queued -= k - finished;
        c.label("command:drain-mid-message");
        drained_mid = true;
        if (wrapped(sd())) c.label("command:drain-mid-message-wrapped");
      }
    }
    int r;
    if (cxx) {  // consumer of the C++ class: read done() bytes through the data access, release them with trim()
      size_t before = sq->done(), len_before = sq->len;
      bool ok = sq->trim(k);
      r = ok ? 0 : -1;
      c.logf("flush %zu of %zu finished bytes [%s] (encode_queue::trim = %d), wire now %zu bytes", k, before, why, (int)ok, wire.size());
      VP_CHECK(c, ok, "crop-refused", "encode_queue::trim(%zu) refused with %zu finished bytes", k, before);
      VP_CHECK(c, sq->done() == before - k && sq->len == len_before - k, "trim-accounting", "encode_queue::trim(%zu): done() %zu -> %zu, queue length %zu -> %zu", k, before, sq->done(), len_before,
               sq->len);
      c.label("cxx:trim");
      if (k > n0) c.label("cxx:trim-two-segments");
    } else {
      r = mpt_queue_crop(sd(), 0, k);
      sq->_state.done -= k;
      c.logf("flush %zu of %zu finished bytes [%s] (crop = %d), wire now %zu bytes", k, sq->_state.done + k, why, r, wire.size());
      VP_CHECK(c, r >= 0, "crop-refused", "mpt_queue_crop(sender, 0, %zu) = %d", k, r);
    }
    logq("   ");
    inv_sender("flush");
    check_wire();
  }
  void op_flush() {
    size_t done = sq->_state.done;
    if (!done) return;
    size_t k;
    switch (c.weighted({4, 2, 2})) {
      case 0: k = done; break;
      case 1: k = 1; break;
      default: k = c.range(1, done);
    }
    flush(k, "op");
  }
  // every complete frame on the wire must be the encoding of the message that was sent
  void check_wire() {
    for (; wire_seen < wire.size(); wire_seen++) {
      if (wire[wire_seen]) continue;
      const uint8_t *f = wire.data() + wire_frame_start;
      size_t n = wire_seen - wire_frame_start;
      VP_CHECK(c, wire_frames < sent.size(), "wire-mismatch", "%s: frame #%zu on the wire but only %zu messages were finished", kName[fr], wire_frames, sent.size());
      const std::vector<uint8_t> &want = sent[wire_frames];
      std::string how;
      if (!frame_is(fr, f, n, want, how)) {
        c.loghex("  frame", f, n + 1);
        c.loghex("  sent ", want.data(), want.size());
        c.fail("wire-mismatch", "%s: frame #%zu on the wire (%zu bytes %s) %s, sent message has %zu bytes %s", kName[fr], wire_frames, n + 1, hex(f, n + 1, 24).c_str(), how.c_str(), want.size(),
               hex(want.data(), want.size(), 24).c_str());
      }
      ++wire_frames;
      wire_frame_start = wire_seen + 1;
    }
  }

  // ---------- receiver side
  void grow_receiver_if_full() {  // stream_poll: (len == max) && !mpt_queue_prepare(&srm->_rd.data, 64)
    if (rq->len != rq->max) return;
    bool partial = partially_decoded();
    size_t left = mpt_queue_prepare(rd(), 64);
    c.logf("  receiver full: mpt_queue_prepare(64) -> %zu free, capacity %zu", left, rq->max);
    VP_CHECK(c, left >= 64, "prepare-refused", "mpt_queue_prepare(receiver, 64) returned %zu", left);
    c.label("receiver:grow");
    if (partial) { partial_wrap_or_grow = true; c.label("receiver:grow-while-partial"); }
    inv_receiver("prepare");
  }
  // what mpt_stream_poll does when k bytes are readable; returns the number of bytes taken
  // logical content of the receiver queue, read straight from the storage (independent of mpt_queue_get)
  std::vector<uint8_t> receiver_content() {
    std::vector<uint8_t> v(rq->len);
    for (size_t i = 0; i < rq->len; i++) v[i] = ((uint8_t *)rq->base)[(rq->off + i) % rq->max];
    return v;
  }
  void fill_pipe(size_t n) {  // make n more wire bytes readable on the descriptor
    if (!n) return;
    if (pfd[0] < 0) {
      VP_CHECK(c, pipe(pfd) == 0, "harness", "pipe: %s", strerror(errno));
      fcntl(pfd[0], F_SETFL, O_NONBLOCK);
    }
    VP_CHECK(c, piped + n <= 60000, "harness", "segment too large for the pipe");
    ssize_t w = write(pfd[1], wire.data() + delivered + piped, n);
    VP_CHECK(c, w == (ssize_t)n, "harness", "pipe write %zd of %zu", w, n);
    piped += n;
  }
  // mpt_queue_load with a read limit (0 = fill all free space): exactly the next `expect` wire bytes are appended, in order
  size_t load(size_t limit, size_t expect, const char *why) {
    size_t space = rq->max - rq->len, lo = 0, hi = 0;
    bool two = mpt_queue_empty(rd(), &lo, &hi) && expect > lo && hi;
    std::vector<uint8_t> before = receiver_content();
    ssize_t r = mpt_queue_load(rd(), pfd[0], limit);
    c.logf("deliver [%s]: %zu bytes readable %s, mpt_queue_load(limit %zu) = %zd (free %zu = %zu behind + %zu in front of the data)", why, piped, hex(wire.data() + delivered, piped, 24).c_str(), limit, r,
           space, lo, hi);
    logq("   ");
    VP_CHECK(c, r == (ssize_t)expect, "load-short", "mpt_queue_load(limit %zu) returned %zd with %zu readable bytes and %zu bytes free (%zu behind, %zu in front of the data): expected %zu", limit, r,
             piped, space, lo, hi, expect);
    inv_queue(rd(), "receiver");
    VP_CHECK(c, rq->len == before.size() + expect, "load-content", "mpt_queue_load returned %zd, queue length went from %zu to %zu", r, before.size(), rq->len);
    std::vector<uint8_t> after = receiver_content();
    for (size_t i = 0; i < before.size(); i++)
      VP_CHECK(c, after[i] == before[i], "load-content", "mpt_queue_load(limit %zu) changed queued byte %zu of %zu from %02x to %02x", limit, i, before.size(), before[i], after[i]);
    for (size_t i = 0; i < expect; i++)
      VP_CHECK(c, after[before.size() + i] == wire[delivered + i], "load-content", "mpt_queue_load(limit %zu): appended byte %zu of %zu is %02x, the byte stream has %02x there (free space was %zu behind + %zu in front of the data)",
               limit, i, expect, after[before.size() + i], wire[delivered + i], lo, hi);
    if (two) c.label("receiver:load-two-segments");
    for (size_t i = 0; i < expect; i++) if (!wire[delivered + i]) ++delivered_frames;
    delivered += expect;
    piped -= expect;
    inv_receiver("load");
    if (delivered && wire[delivered - 1]) cut_inside = true;
    if (wrapped(rd())) { c.label("receiver:wrapped"); if (partially_decoded()) { partial_wrap_or_grow = true; c.label("receiver:wrapped-while-partial"); } }
    return expect;
  }
  // what mpt_stream_poll does when k bytes are readable; returns the number of bytes taken
  size_t deliver(size_t k, const char *why) {
    mpt_queue_shift(rq);
    inv_receiver("shift");
    grow_receiver_if_full();
    size_t space = rq->max - rq->len;
    if (k > space) k = space;
    if (!k) return 0;
    if (k > piped) fill_pipe(k - piped);  // bytes an earlier limited load left on the descriptor come first
    return load(0, piped < space ? piped : space, why);
  }
  // limited-load mode: write a drawn portion to the descriptor, then mpt_queue_load with a drawn read limit
  void op_deliver_limited() {
    mpt_queue_shift(rq);
    inv_receiver("shift");
    grow_receiver_if_full();
    size_t pend = wire.size() - delivered - piped;
    if (pend) {
      size_t n;
      switch (c.weighted({3, 2, 1})) {
        case 0: n = pend; break;
        case 1: n = c.range(1, pend); break;
        default: n = piped ? 0 : 1;
      }
      if (piped + n > 4096) n = piped < 4096 ? 4096 - piped : 0;
      fill_pipe(n);
    }
    if (!piped) return;
    size_t space = rq->max - rq->len, lo = 0, hi = 0;
    VP_CHECK(c, mpt_queue_empty(rd(), &lo, &hi) && lo + hi == space && space, "queue-invariant", "mpt_queue_empty reports %zu + %zu free bytes, max - len = %zu", lo, hi, space);
    size_t limit;
    const char *why;
    switch (c.weighted({2, 2, 4, 2, 2, 1, 1})) {
      case 0: limit = 0; why = "limit 0"; break;
      case 1: limit = 1; why = "limit 1"; break;
      case 2: limit = lo > 1 ? c.range(1, lo - 1) : 1; why = "limit < space behind the data"; break;
      case 3: limit = lo; why = "limit == space behind the data"; break;
      case 4: limit = hi > 1 ? lo + c.range(1, hi - 1) : lo; why = "limit inside the space in front of the data"; break;
      case 5: limit = space; why = "limit == free space"; break;
      default: limit = space + c.range(1, 70); why = "limit > free space"; break;
    }
    size_t expect = limit && limit < space ? limit : space;
    if (expect > piped) expect = piped;
    c.label("load:limited-mode");
    if (limit && limit < lo && hi && piped > limit) c.label("load:limit<behind,front-free,more-waiting");  // the constellation in which a forgotten second iovec shows
    if (limit && limit > lo && limit < space) c.label("load:limit-splits-front");
    if (limit > space) c.label("load:limit>free");
    load(limit, expect, why);
  }
  // interesting cut points inside the undelivered wire bytes (absolute indices, > delivered)
  void cuts(std::vector<size_t> &after_code, std::vector<size_t> &after_delim) {
    size_t i = delivered;
    while (i && wire[i - 1]) --i;  // start of the frame that contains the first undelivered byte
    while (i < wire.size()) {
      unsigned code = wire[i];
      if (!code) { if (i + 1 > delivered) after_delim.push_back(i + 1); ++i; continue; }
      if (i + 1 > delivered) after_code.push_back(i + 1);
      if (fr == FCommand) {  // no code bytes: first byte of the text stands in, then on to the delimiter
        ++i;
        while (i < wire.size() && wire[i]) ++i;
        continue;
      }
      size_t nd = is_zpe(fr) ? (code <= 0xdf ? code - 1 : code - 0xe0) : code - 1;
      ++i;
      while (nd && i < wire.size() && wire[i]) { ++i; --nd; }
    }
  }
  void op_deliver() {
    if (lim_mode && c.weighted({1, 2})) { op_deliver_limited(); return; }
    size_t pend = wire.size() - delivered;
    if (!pend) return;
    std::vector<size_t> ac, ad;
    size_t k = pend;
    const char *why = "all";
    switch (c.weighted({3, 3, 2, 2, 2, 2})) {
      case 0: cuts(ac, ad); if (!ac.empty()) { k = ac[c.pick(ac.size() < 4 ? ac.size() : 4)] - delivered; why = "cut after a code byte"; c.label("cut:after-code"); } break;
      case 1: cuts(ac, ad); if (!ad.empty()) { k = ad[c.pick(ad.size() < 3 ? ad.size() : 3)] - delivered; why = "cut after a delimiter"; c.label("cut:after-delimiter"); } break;
      case 2: cuts(ac, ad); if (!ad.empty() && ad[0] - delivered > 1) { k = ad[0] - delivered - 1; why = "cut before the delimiter"; c.label("cut:before-delimiter"); } break;
      case 3: k = 1; why = "single byte"; c.label("cut:single-byte"); break;
      case 4: k = c.range(1, pend); why = "uniform"; break;
      default: break;
    }
    if (k > pend) k = pend;
    deliver(k, why);
  }
  void take_message() {
    decode_state &st = rq->_state;
    VP_CHECK(c, nrecv < delivered_frames, "extra-message", "%s: receiver reports message #%zu (%zd bytes) but only %zu complete frames were delivered (%zu sent)", kName[fr], nrecv, st.data.msg,
             delivered_frames, sent.size());
    message m;
    struct iovec vec;
    int g;
    if (cxx) {
      VP_CHECK(c, rq->pending_message(), "recv-state", "decode_queue::pending_message() is false with message length %zd", st.data.msg);
      bool ok = rq->current_message(m, &vec);
      g = ok ? (int)m.clen : -1;
    } else g = mpt_message_get(rd(), st.data.pos, st.data.msg, &m, &vec);
    VP_CHECK(c, g >= 0, "message-get", "mpt_message_get(pos %zu, len %zd) = %d on queue of %zu bytes", st.data.pos, st.data.msg, g, rq->len);
    if (g > 0) c.label("receiver:message-two-segments");
    {
      const char *bad = message_structure(m, rd(), (size_t)st.data.msg, true);
      VP_CHECK(c, !bad && (g > 0) == (m.clen == 1), "message-structure", "%s: message of %zd bytes at queue position %zu (queue off %zu len %zu max %zu): %s (result %d, first part %zu bytes, %zu continuation(s)%s)",
               kName[fr], st.data.msg, st.data.pos, rq->off, rq->len, rq->max, bad ? bad : "result does not match the continuation count", g, m.used, m.clen,
               m.clen && m.cont ? (", continuation " + std::to_string(m.cont->iov_len) + " bytes").c_str() : "");
      if (m.clen == 0 && st.data.msg > 0 && (const uint8_t *)m.base + m.used == (const uint8_t *)rq->base + rq->max && wrapped(rd())) c.label("message:ends-at-storage-end-of-wrapped-queue");
    }
    std::vector<uint8_t> got(st.data.msg + 1);
    size_t n = mpt_message_read(&m, st.data.msg, got.data());
    got.resize(st.data.msg);
    const std::vector<uint8_t> want = expect_recv(fr, sent[nrecv]);
    c.logf("  received message #%zu: %zu bytes %s", nrecv, n, hex(got.data(), got.size(), 24).c_str());
    VP_CHECK(c, n == (size_t)st.data.msg, "message-get", "mpt_message_read gave %zu of %zd bytes", n, st.data.msg);
    if (got != want) {
      size_t d = 0;
      while (d < got.size() && d < want.size() && got[d] == want[d]) ++d;
      c.loghex("  got ", got.data(), got.size());
      c.loghex("  want", want.data(), want.size());
      c.fail("content-mismatch", "%s: message #%zu received with %zu bytes, sent %zu bytes, first difference at %zu (got %s, sent %s)", kName[fr], nrecv, got.size(), want.size(), d,
             hex(got.data() + d, got.size() - d, 8).c_str(), hex(want.data() + d, want.size() - d, 8).c_str());
    }
    ++nrecv;
  }
  int checked_recv(const char *which) {
    size_t len_before = rq->len;
    int r;
    if (cxx) {  // advance() = mpt_queue_recv + mpt_queue_shift, the result code is reduced to a bool
      bool ok = rq->advance();
      r = ok ? (rq->pending_message() ? 1 : 0) : (len_before ? MPT_ERROR(MissingBuffer) : MPT_ERROR(MissingData));  // a refusal with data queued: retry after granting space
      c.logf("  decode_queue::advance [%s] = %d, pending_message %d", which, (int)ok, (int)rq->pending_message());
      c.label("cxx:advance");
    } else {
      r = mpt_queue_recv(rq);
      c.logf("  mpt_queue_recv [%s] = %d", which, r);
    }
    logq("   ");
    inv_receiver("recv");
    if (r == MPT_ERROR(MissingBuffer)) {
      ++n_missing_buffer;
      c.label("receiver:missing-buffer");
      if (rq->len < rq->max || !retry_full) return r;
      // streamRecv() of stream_dispatch.c: a full buffered queue is enlarged by 64 and the receive is tried once more
      size_t left = mpt_queue_prepare(rd(), 64);
      c.logf("  receiver full and MissingBuffer: mpt_queue_prepare(64) -> %zu free, capacity %zu", left, rq->max);
      VP_CHECK(c, left >= 64, "prepare-refused", "mpt_queue_prepare(receiver, 64) returned %zu", left);
      c.label("receiver:grow-on-missing-buffer");
      inv_receiver("prepare");
      retry_full = false;
      r = checked_recv(which);
      retry_full = true;
      return r;
    }
    if (r == MPT_ERROR(MissingData) && !len_before) return r;  // documented: nothing in the queue
    VP_CHECK(c, r >= 0, "recv-error", "%s: mpt_queue_recv returned %d on a well-formed stream (queue %zu bytes, %zu frames delivered, %zu received)", kName[fr], r, len_before, delivered_frames,
             nrecv);
    VP_CHECK(c, r <= 1, "recv-error", "mpt_queue_recv returned %d", r);
    VP_CHECK(c, (r == 1) == (rq->_state.data.msg >= 0), "recv-state", "mpt_queue_recv returned %d with message length %zd", r, rq->_state.data.msg);
    return r;
  }
  // mpt_stream_dispatch without the command call; true when a message was handed over
  bool dispatch() {
    if (rq->_state.data.msg < 0) {
      int r = checked_recv("new");
      if (r <= 0) return false;
    } else c.label("receiver:retry-message");
    take_message();
    checked_recv("advance");
    return true;
  }
  bool frame_has_deficit() {  // is the frame the receiver is working on of the recorded ZPE shape?
    if (!is_zpe(fr)) return false;
    size_t zeros = 0, i = 0;
    for (; i < delivered && zeros < nrecv; i++) if (!wire[i]) ++zeros;
    size_t e = i;
    while (e < delivered && wire[e]) ++e;
    return zpe_frame_deficit(wire.data() + i, e - i);
  }
  // progress: a complete frame is inside the receiver; the steps production takes must produce it
  void demand_progress() {
    size_t bound = 8 + rq->len / 16;
    for (size_t i = 0; i < 2 * bound; i++) {
      mpt_queue_shift(rq);
      inv_receiver("shift");
      grow_receiver_if_full();
      if (i >= bound) {  // be generous: grant more space than anybody asked for
        size_t want = (rq->max - rq->len) + 64;
        size_t left = mpt_queue_prepare(rd(), want);
        c.logf("  forced mpt_queue_prepare(receiver, %zu) -> %zu free", want, left);
        inv_receiver("prepare");
      }
      if (dispatch()) {
        if (i >= bound) c.fail("stall-without-forced-growth", "%s: message #%zu became available only after the receiver queue was enlarged beyond what the stream code grants", kName[fr], nrecv - 1);
        if (i) c.label("progress:needed-retries");
        return;
      }
    }
    bool deficit = frame_has_deficit();
    c.fail(deficit ? "stall-zpe-slack" : "stall", "%s: %zu complete frames delivered, %zu messages received, mpt_queue_recv keeps returning 0/MissingBuffer (%zu x MissingBuffer; queue len %zu max %zu, curr %zu pos %zu len %zu)%s",
           kName[fr], delivered_frames, nrecv, n_missing_buffer, rq->len, rq->max, rq->_state.curr, rq->_state.data.pos, rq->_state.data.len,
           deficit ? " [zpe-slack-deficit: a zero-pair code arrives with no decoding slack]" : "");
  }
  void op_receive() {
    c.logf("receive (frames delivered %zu, received %zu)", delivered_frames, nrecv);
    if (dispatch()) return;
    if (delivered_frames > nrecv) demand_progress();
  }
  void op_peek() {
    size_t max = c.weighted({1, 2, 2}) == 0 ? 0 : c.range(1, 40);
    bool with_dst = c.flip();
    uint8_t *dst = with_dst ? (uint8_t *)malloc(max ? max : 1) : 0;
    struct Free { uint8_t *p; ~Free() { free(p); } } fr_{dst};
    if (dst) memset(dst, 0xC5, max ? max : 1);
    ssize_t r = mpt_queue_peek(rq, max, dst);
    c.logf("peek(max %zu, %s) = %zd", max, dst ? "dst" : "no dst", r);
    logq("   ");
    c.label("peek");
    inv_receiver("peek");
    if (r < 0) return;
    // what is previewed is (the start of) the next message
    std::vector<uint8_t> wantv;
    const std::vector<uint8_t> *want = 0;
    if (nrecv < sent.size()) { wantv = expect_recv(fr, sent[nrecv]); want = &wantv; }
    else if (open) { wantv = expect_recv(fr, todo); want = &wantv; }
    if (!want) {  // nothing on the way: no decoded bytes, except the header the command decoder writes before any text has arrived
      wantv = expect_recv(fr, std::vector<uint8_t>());
      want = &wantv;
    }
    VP_CHECK(c, (size_t)r <= want->size(), "peek-invented", "%s: peek reports %zd decoded bytes, the next message has %zu", kName[fr], r, want->size());
    if (dst && r) {
      size_t n = (size_t)r < max ? (size_t)r : max;
      bool touched = false;
      for (size_t i = 0; i < n; i++) if (dst[i] != 0xC5) touched = true;
      if (touched && memcmp(dst, want->data(), n)) c.fail("peek-content", "%s: peek copied %s, the next message starts with %s", kName[fr], hex(dst, n, 16).c_str(), hex(want->data(), n, 16).c_str());
    }
  }
  void op_grow_sender() {
    c.logf("grow sender");
    grow_sender(c.near({1, 8, 64, 256}, 300), "op");
  }
  void op_grow_receiver() {
    bool partial = partially_decoded();
    size_t add = c.near({1, 8, 64, 256}, 300), want = (rq->max - rq->len) + add;
    size_t left = mpt_queue_prepare(rd(), want);
    c.logf("grow receiver: mpt_queue_prepare(%zu) -> %zu free, capacity %zu", want, left, rq->max);
    VP_CHECK(c, left >= want, "prepare-refused", "mpt_queue_prepare(receiver, %zu) returned %zu", want, left);
    c.label("receiver:grow");
    if (partial) { partial_wrap_or_grow = true; c.label("receiver:grow-while-partial"); }
    inv_receiver("prepare");
  }

  void run() {
    sgrow_style = (int)c.weighted({2, 2, 4});
    if (cxx) { sgrow_style = 2; c.label("cxx:flavour"); }  // fixed-size ring: the consumer takes finished bytes, growth only when nothing is finished
    size_t cs = draw_capacity(c), cr = draw_capacity(c);
    preroll(c, sd(), cs, cs ? c.range(0, cs - 1) : 0, "sender");
    preroll(c, rd(), cr, cr ? c.range(0, cr - 1) : 0, "receiver");
    c.logf("framing %s, sender growth style %d", kName[fr], sgrow_style);
    while (c.more()) {
      switch (c.weighted({6, 2, 5, 5, 5, 1, 1, 1})) {
        case 0: op_push(); break;
        case 1: op_end(); break;
        case 2: op_flush(); break;
        case 3: op_deliver(); break;
        case 4: op_receive(); break;
        case 5: op_peek(); break;
        case 6: op_grow_sender(); break;
        default: op_grow_receiver(); break;
      }
    }
    // ---- the end: everything is flushed and delivered, space is granted, every message must arrive
    c.logf("-- drain");
    if (open) op_end();
    size_t guard = 0, limit = wire.size() + sq->len + 4 * sent.size() + 64;
    while (true) {
      VP_CHECK(c, ++guard <= limit, "harness", "drain loop does not terminate");
      if (sq->_state.done) flush(sq->_state.done, "drain");
      VP_CHECK(c, sq->len == 0, "encoder-accounting", "sender queue holds %zu bytes after all messages were finished and flushed", sq->len);
      size_t took = 0;
      if (delivered < wire.size()) took = deliver(wire.size() - delivered, "drain");
      size_t before = nrecv;
      op_receive();
      while (nrecv > before && dispatch()) {}
      if (delivered == wire.size() && nrecv == before && !took) break;
    }
    VP_CHECK(c, wire_frames == sent.size(), "wire-mismatch", "%s: %zu messages finished, %zu frames on the wire after the final flush", kName[fr], sent.size(), wire_frames);
    VP_CHECK(c, nrecv == sent.size(), "lost-message", "%s: %zu messages sent, %zu received after everything was delivered", kName[fr], sent.size(), nrecv);
    VP_CHECK(c, rq->_state.data.msg < 0, "extra-message", "%s: a message is still pending after all %zu were taken", kName[fr], nrecv);
    // classification
    c.label(kName[fr]);
    c.count("messages", sent.size());
    if (sent.size() >= 2) c.label("messages>=2");
    if (cut_inside) c.label("cut-inside-frame");
    if (n_missing_buffer) c.label("recv-missing-buffer-case");
    if (sent.size() >= 2 && cut_inside && partial_wrap_or_grow) c.nontrivial();
  }
};

// ================================================================ enumerated sub-space
// two messages of length <= 2 over {00,01,FF} (quick) / {00,01,E1,FF} (thorough), every segmentation of the wire
// bytes, a receive after every segment, receiver capacity 8 with start offsets 0 / 5
static const uint8_t kAlpha[] = {0x00, 0x01, 0xFF, 0xE1};
static void run_enum(Ctx &c) {
  int fr = (int)c.pick(NFraming);
  H h(c, fr);
  size_t roff = c.pick(8);
  preroll(c, h.sd(), 64, 0, "sender");
  preroll(c, h.rd(), 8, roff, "receiver");
  for (int k = 0; k < 2; k++) {
    size_t n = c.pick(3);
    std::vector<uint8_t> m;
    for (size_t i = 0; i < n; i++) m.push_back(kAlpha[c.pick(4)]);
    h.todo = m; h.todo_off = 0; h.cur.clear(); h.open = true;
    c.loghex("message", m.data(), m.size());
    h.op_end();
  }
  h.flush(h.sq->_state.done, "all");
  uint32_t mask = c.u16();
  size_t start = 0;
  for (size_t i = 0; i < h.wire.size(); i++) {
    bool cut = i + 1 == h.wire.size() || (mask >> i & 1);
    if (!cut) continue;
    size_t k = i + 1 - start;
    while (k) { size_t t = h.deliver(k, "enumerated segment"); VP_CHECK(c, t, "harness", "no space"); k -= t; }
    start = i + 1;
    h.op_receive();
  }
  while (h.nrecv < 2 && h.dispatch()) {}
  VP_CHECK(c, h.nrecv == 2, "lost-message", "%s: 2 messages sent, %zu received", kName[fr], h.nrecv);
  c.label(kName[fr]);
  c.nontrivial();
}
static const unsigned kEnumSyms[2] = {3, 4};
static uint64_t enum_msgs(int tier) { uint64_t a = kEnumSyms[tier]; return 1 + a + a * a; }
static uint64_t enum_count(int tier) { return 4 * enum_msgs(tier) * enum_msgs(tier) * 128 * 2; }
static void enum_make(uint64_t idx, int tier, std::vector<uint8_t> &out) {
  out.clear();
  out.push_back(0xff);
  uint64_t fr = idx % 4; idx /= 4;
  uint64_t roff = idx % 2; idx /= 2;
  uint64_t mask = idx % 128; idx /= 128;
  uint64_t a = kEnumSyms[tier], nm = enum_msgs(tier);
  uint64_t mi[2] = {idx % nm, (idx / nm) % nm};
  out.push_back((uint8_t)fr);
  out.push_back(roff ? 5 : 0);
  for (int k = 0; k < 2; k++) {
    uint64_t v = mi[k];
    size_t n = 0;
    uint64_t span = 1;
    while (v >= span) { v -= span; span *= a; ++n; }
    out.push_back((uint8_t)n);
    for (size_t i = 0; i < n; i++) { out.push_back((uint8_t)(v % a)); v /= a; }
  }
  out.push_back((uint8_t)mask);
  out.push_back(0);
}

// ================================================================ stream scenario
// sender stream --socketpair--> harness (re-cuts the byte stream) --socketpair--> receiver stream
struct Collect {
  Ctx *c;
  std::vector<std::vector<uint8_t>> got;
  bool bad = false;
  bool flags_mode = false;  // the handler answers with drawn event flags / error codes
  bool called = false;
  int answer = 0;
  const queue *rdq = 0;         // the receiver stream's input queue
  const char *structure = 0;    // first structural complaint about a delivered message
  size_t structure_at = 0;
  size_t ends_at_end = 0;
};
static int on_message(void *arg, const message *msg) {
  Collect *k = (Collect *)arg;  // library frames above: no throwing here
  if (k->rdq && !k->structure) {
    k->structure = message_structure(*msg, k->rdq, 0, false);
    k->structure_at = k->got.size();
    if (!msg->clen && msg->used && (const uint8_t *)msg->base + msg->used == (const uint8_t *)k->rdq->base + k->rdq->max && k->rdq->off + k->rdq->len > k->rdq->max) ++k->ends_at_end;
  }
  message m = *msg;
  size_t n = mpt_message_length(&m);
  std::vector<uint8_t> b(n + 1);
  if (mpt_message_read(&m, n, b.data()) != n) k->bad = true;
  b.resize(n);
  k->got.push_back(b);
  k->called = true;
  k->answer = 0;
  if (k->flags_mode) {  // drawing is harmless here, failing is not: no VP_CHECK inside the callback
    static const int kAnswers[] = {event::None, event::Default, event::Fail, event::Terminate, event::Terminate | event::Default, event::Fail | event::Default,
                                   event::Terminate | event::Fail, 0x7fff0000 | event::Default /* bits outside the flag mask */, MPT_ERROR(BadArgument), MPT_ERROR(MissingData), -128};
    k->answer = kAnswers[k->c->weighted({4, 2, 2, 5, 2, 1, 1, 1, 2, 1, 1})];
  }
  return k->answer;
}
// small: the sender's descriptor is non-blocking with the smallest send buffer the kernel grants and the harness reads its end in
// drawn portions only, so mpt_stream_flush sees short and refused writes
static void run_streams(Ctx &c, int fr, bool small, bool flags_mode) {
  int a[2] = {-1, -1}, b[2] = {-1, -1};
  CObj<stream> tx, rx;
  tx->_rd._state.data.msg = -1;
  rx->_rd._state.data.msg = -1;
  struct Guard {
    int *a, *b; stream *tx, *rx;
    ~Guard() { mpt_stream_close(tx); mpt_stream_close(rx); for (int i = 0; i < 2; i++) { if (a[i] >= 0) close(a[i]); if (b[i] >= 0) close(b[i]); } }
  } guard{a, b, tx, rx};
  VP_CHECK(c, socketpair(AF_UNIX, SOCK_STREAM | SOCK_NONBLOCK, 0, a) == 0 && socketpair(AF_UNIX, SOCK_STREAM | SOCK_NONBLOCK, 0, b) == 0, "harness", "socketpair: %s", strerror(errno));
  if (small) { int v = 1; setsockopt(a[0], SOL_SOCKET, SO_SNDBUF, &v, sizeof v); }
  // the streams own a[0] and b[1]
  VP_CHECK(c, _mpt_stream_setfile(&tx->_info, -1, a[0]) >= 0, "harness", "setfile tx");
  a[0] = -1;
  VP_CHECK(c, _mpt_stream_setfile(&rx->_info, b[1], -1) >= 0, "harness", "setfile rx");
  b[1] = -1;
  mpt_stream_setmode(tx, stream::Buffer);
  mpt_stream_setmode(rx, stream::Buffer);
  tx->_wd._enc = mpt_message_encoder(kEncoding[fr]);
  rx->_rd._dec = mpt_message_decoder(kEncoding[fr]);
  c.logf("stream scenario, framing %s, flags tx %#x rx %#x", kName[fr], mpt_stream_flags(&tx->_info), mpt_stream_flags(&rx->_info));
  VP_CHECK(c, (mpt_stream_flags(&tx->_info) & stream::WriteBuf) && (mpt_stream_flags(&rx->_info) & stream::ReadBuf), "harness", "stream modes not as expected");

  std::vector<std::vector<uint8_t>> sent;
  std::vector<uint8_t> todo, mid;  // mid: bytes the harness holds between the two sockets
  size_t todo_off = 0, mid_off = 0, frames_forwarded = 0;
  bool open = false, cut_inside = false;
  Collect col{&c};
  col.flags_mode = flags_mode;
  col.rdq = &rx->_rd;
  size_t checked = 0;
  auto compare = [&]() {
    VP_CHECK(c, !col.bad, "message-get", "message handed to the dispatch callback could not be read completely");
    VP_CHECK(c, !col.structure, "message-structure", "%s: message #%zu handed to the dispatch callback: %s", kName[fr], col.structure_at, col.structure ? col.structure : "");
    if (col.ends_at_end) { c.count("message:ends-at-storage-end-of-wrapped-queue", col.ends_at_end); col.ends_at_end = 0; }
    for (; checked < col.got.size(); checked++) {
      VP_CHECK(c, checked < frames_forwarded, "extra-message", "%s: stream delivered message #%zu, only %zu complete frames were forwarded", kName[fr], checked, frames_forwarded);
      const std::vector<uint8_t> &g = col.got[checked], w = expect_recv(fr, sent[checked]);
      c.logf("  received message #%zu: %zu bytes %s", checked, g.size(), hex(g.data(), g.size(), 24).c_str());
      if (g != w) {
        size_t d = 0;
        while (d < g.size() && d < w.size() && g[d] == w[d]) ++d;
        c.fail("content-mismatch", "%s: stream message #%zu received with %zu bytes, sent %zu bytes, first difference at %zu", kName[fr], checked, g.size(), w.size(), d);
      }
    }
  };
  size_t wire_seen = 0, wire_frame_start = 0, wire_frames = 0;
  auto pump_in = [&](size_t limit = (size_t)-1) {  // sender socket -> harness; every complete frame must be the encoding of the sent message
    uint8_t buf[4096];
    ssize_t n;
    while (limit && (n = read(a[1], buf, limit < sizeof buf ? limit : sizeof buf)) > 0) { mid.insert(mid.end(), buf, buf + n); limit -= n; }
    for (; wire_seen < mid.size(); wire_seen++) {
      if (mid[wire_seen]) continue;
      VP_CHECK(c, wire_frames < sent.size(), "wire-mismatch", "%s: streams: frame #%zu on the wire but only %zu messages were finished", kName[fr], wire_frames, sent.size());
      std::string how;
      if (!frame_is(fr, mid.data() + wire_frame_start, wire_seen - wire_frame_start, sent[wire_frames], how)) {
        c.loghex("  frame", mid.data() + wire_frame_start, wire_seen + 1 - wire_frame_start);
        c.fail("wire-mismatch", "%s: streams: frame #%zu written by the sender stream does not decode to the %zu byte message that was pushed", kName[fr], wire_frames, sent[wire_frames].size());
      }
      ++wire_frames;
      wire_frame_start = wire_seen + 1;
    }
  };
  auto accepted = [&]() -> size_t {  // bytes the sender's descriptor has taken so far: read by the harness + waiting in the kernel
    int q = 0;
    VP_CHECK(c, ioctl(a[1], FIONREAD, &q) == 0, "harness", "FIONREAD: %s", strerror(errno));
    return mid.size() + (size_t)q;
  };
  auto tx_flush = [&](bool pump) {
    size_t a0 = accepted(), d0 = tx->_wd._state.done, l0 = tx->_wd.len;
    errno = 0;
    int r = mpt_stream_flush(tx);
    int err = errno;
    size_t a1 = accepted(), d1 = tx->_wd._state.done, l1 = tx->_wd.len;
    c.logf("mpt_stream_flush = %d: descriptor accepted %zu bytes (total %zu), finished bytes queued %zu -> %zu, queue length %zu -> %zu", r, a1 - a0, a1, d0, d1, l0, l1);
    // no byte dropped or duplicated on a complete, short or refused write
    VP_CHECK(c, d1 <= d0 && d0 - d1 == a1 - a0 && l0 - l1 == d0 - d1, "flush-conservation",
             "%s: mpt_stream_flush = %d: the descriptor accepted %zu bytes, finished bytes queued went from %zu to %zu, queue length from %zu to %zu", kName[fr], r, a1 - a0, d0, d1, l0, l1);
    if (r < 0) {
      VP_CHECK(c, small && (err == EAGAIN || err == EWOULDBLOCK), "flush-error", "mpt_stream_flush = %d (errno %d)", r, err);
      c.label("flush:refused-eagain");
    } else {
      VP_CHECK(c, r == (l1 ? 1 : 0), "flush-error", "mpt_stream_flush = %d with %zu bytes left in the queue", r, l1);
      if (d1 && a1 > a0) c.label("flush:short-write");
    }
    if (pump) pump_in();
  };
  auto forward = [&](size_t k) {  // harness -> receiver socket, then poll + dispatch like an input loop
    ssize_t w = write(b[0], mid.data() + mid_off, k);
    VP_CHECK(c, w == (ssize_t)k, "harness", "socket write %zd of %zu", w, k);
    for (size_t i = 0; i < k; i++) if (!mid[mid_off + i]) ++frames_forwarded;
    c.logf("forward %zu bytes %s", k, hex(mid.data() + mid_off, k, 24).c_str());
    mid_off += k;
    if (mid[mid_off - 1]) cut_inside = true;
  };
  auto rx_step = [&]() {
    int p = mpt_stream_poll(rx, POLLIN, 0);
    c.logf("mpt_stream_poll = %d (rd len %zu max %zu)", p, rx->_rd.len, rx->_rd.max);
    for (int i = 0; i < 64; i++) {
      col.called = false;
      int d = mpt_stream_dispatch(rx, on_message, &col);
      c.logf("  mpt_stream_dispatch = %#x%s", d, col.called ? " (handler called)" : "");
      if (col.called) c.logf("    handler answered %#x", col.answer);
      compare();
      if (d == MPT_ERROR(MissingBuffer) && !col.called) { c.label("receiver:missing-buffer"); break; }
      if (d == MPT_ERROR(MissingData) && !col.called && !rx->_rd.len) break;
      VP_CHECK(c, d >= 0, "recv-error", "%s: mpt_stream_dispatch = %d on a well-formed stream", kName[fr], d);
      if (col.called) {  // what the handler answered reaches the caller: flags masked with Flags, an error as CtlError (stream_dispatch.c, used by mpt_loop)
        int want = col.answer < 0 ? (int)event::CtlError : (col.answer & event::Flags);
        VP_CHECK(c, (d & ~event::Retry) == want, "dispatch-flags", "%s: handler answered %#x, mpt_stream_dispatch returned %#x", kName[fr], col.answer, d);
        if (col.answer < 0) c.label("handler:error-code");
        if (want & event::Terminate) {
          // mpt_loop returns to the application here; it keeps using the stream afterwards: either right away (nested loop,
          // io::stream::dispatch) or with the next poll round (second mpt_loop run)
          c.label("handler:terminate");
          if (c.flip()) { c.label("handler:terminate-then-dispatch-at-once"); continue; }
          break;
        }
      }
      if (!(d & event::Retry)) break;
    }
  };
  auto start = [&]() {
    todo = msggen::message(c, small ? c.choose<size_t>({120, 700, 700, 700}) : c.choose<size_t>({24, 120, 300, 700}), fr == FCommand);
    if (is_zpe(fr) && zpe_message_fix(todo, false) && c.exclude(kZpeStall)) zpe_message_fix(todo, true);
    todo_off = 0; open = true;
    c.logf("message #%zu, %zu bytes", sent.size(), todo.size());
    c.loghex("  content", todo.data(), todo.size());
  };
  auto spush = [&](size_t n) {
    ssize_t r = mpt_stream_push(tx, n, n ? todo.data() + todo_off : 0);
    c.logf("mpt_stream_push(%zu) = %zd", n, r);
    VP_CHECK(c, n ? r == (ssize_t)n : r >= 0, "push-refused", "%s: mpt_stream_push(%zu) = %zd", kName[fr], n, r);
    todo_off += n;
  };
  auto end = [&]() {
    if (!open) start();
    if (todo_off < todo.size()) spush(todo.size() - todo_off);
    spush(0);
    sent.push_back(todo);
    open = false;
  };
  while (c.more()) {
    size_t op = small ? c.weighted({6, 3, 4, 3, 1, 1}) : c.weighted({5, 2, 3, 5, 3});
    switch (op) {
      case 5: {  // small only: the far end of the sender's socket takes a portion
        size_t k;
        switch (c.weighted({2, 2, 1})) {
          case 0: k = c.range(1, 64); break;
          case 1: k = c.range(1, 2048); break;
          default: k = (size_t)-1;
        }
        size_t before = mid.size();
        pump_in(k);
        c.logf("far end reads %zu bytes", mid.size() - before);
        break; }
      case 0: {
        if (!open) start();
        size_t left = todo.size() - todo_off;
        if (!left) { end(); break; }
        size_t n = c.flip() ? left : c.range(1, left < 40 ? left : 40);
        spush(n);
        break; }
      case 1: end(); break;
      case 2: tx_flush(!small); break;
      case 3: {
        size_t pend = mid.size() - mid_off;
        if (!pend) break;
        size_t k;
        switch (c.weighted({2, 3, 1, 1})) {
          case 0: k = 1; break;
          case 1: k = c.range(1, pend < 64 ? pend : 64); break;
          case 2: k = c.range(1, pend); break;
          default: k = pend;
        }
        forward(k);
        rx_step();
        break; }
      default: rx_step(); break;
    }
  }
  c.logf("-- drain");
  if (open) end();
  for (size_t guardn = 0; guardn < 100000; guardn++) {
    tx_flush(true);
    size_t pend = mid.size() - mid_off;
    if (!pend && !tx->_wd.len) break;
    if (pend) forward(pend < 512 ? pend : 512);
    rx_step();
  }
  size_t stuck = 0;
  while (col.got.size() < sent.size() && stuck < 16 + mid.size() / 16) { size_t before = col.got.size(); rx_step(); if (col.got.size() == before) ++stuck; }
  size_t nzero = 0;
  for (uint8_t v : mid) if (!v) ++nzero;
  VP_CHECK(c, nzero == sent.size(), "wire-mismatch", "%s: %zu messages finished, %zu delimiters on the wire", kName[fr], sent.size(), nzero);
  if (col.got.size() < sent.size()) {
    bool deficit = false;
    if (is_zpe(fr)) {
      size_t i = 0, z = 0;
      for (; i < mid.size() && z < col.got.size(); i++) if (!mid[i]) ++z;
      size_t e = i;
      while (e < mid.size() && mid[e]) ++e;
      deficit = zpe_frame_deficit(mid.data() + i, e - i);
    }
    c.fail(deficit ? "stall-zpe-slack" : "stall", "%s: streams: %zu messages sent and completely forwarded, %zu received, poll/dispatch make no progress%s", kName[fr], sent.size(), col.got.size(),
           deficit ? " [zpe-slack-deficit: a zero-pair code arrives with no decoding slack]" : "");
  }
  VP_CHECK(c, col.got.size() == sent.size(), "extra-message", "%s: streams: %zu sent, %zu received", kName[fr], sent.size(), col.got.size());
  c.label(kName[fr]);
  c.label("scenario:streams");
  if (small) c.label("scenario:streams-small-send-buffer");
  c.count("messages", sent.size());
  if (sent.size() >= 2) c.label("messages>=2");
  if (cut_inside) c.label("cut-inside-frame");
  if (sent.size() >= 2 && cut_inside) c.nontrivial();
}

static void run(Ctx &c) {
  uint8_t sel = c.u8();
  if (sel == 0xff) { run_enum(c); return; }
  int fr = sel % NFraming;
  // appended selector ranges of the command framing (none of the committed inputs starts with one of these bytes)
  if (sel >= 0xc0 && sel < 0xe0) fr = FCommand;
  if (sel >= 0xf8) fr = FCommand;
  // bit 3 appended: the dispatch handler answers with drawn event flags (committed stream inputs: e2, e4)
  if (sel >= 0xe0) { run_streams(c, fr, (sel & 0x04) != 0, (sel & 0x08) != 0); return; }  // bit 2 appended: small send buffer (committed stream input: e2)
  H h(c, fr);
  h.cxx = (sel & 0x08) != 0;       // appended: C++ wrapper flavour (none of the committed inputs has this selector bit)
  h.lim_mode = (sel & 0x10) != 0;  // appended: half of the queue-scenario selectors (none of the committed inputs) draw read limits for mpt_queue_load
  h.run();
}

static Target t = {
    "C02",
    "random: framing (4 COBS dialects; 1 case in 7: zero-terminated command text, zero-free messages, receiver gets header 04 20 + text) x history over {push chunk, end message, flush k, deliver k, receive, peek, grow sender, grow receiver} on an encode_queue/decode_queue pair driven "
    "like mptio/stream drives them (flush = crop + done -= k; deliver = shift, prepare(64) when full, mpt_queue_load from a pipe, in half of the cases with a drawn read limit (0, 1, </==/> the free space behind the data, == / > all free space) and more bytes waiting than the limit, queue content compared with the byte stream after every load; receive = recv, mpt_message_get/read, recv as stream_dispatch); "
    "run-structured messages; both queues start with a drawn capacity (0, 8..512) and wrap offset made by pushing and removing dummy bytes; cuts biased to after a code byte / after or before the "
    "delimiter / single bytes; 1 case in 8: two real mpt_stream objects over socketpairs with the harness re-cutting the byte stream. exhaustive: two messages of length <= 2 over a boundary "
    "alphabet x 4 framings x every segmentation of the wire x 2 receiver start offsets. non-trivial: >= 2 messages, >= 1 cut inside a frame and (queue scenario) the receiver queue wrapped or "
    "grew while a message was partially decoded (all enumerated cases count); distinct by hash of the draw sequence.",
    run,
    {3000, 9000},
    false,
    true,
    {{"2 messages len<=2 over boundary alphabet x framings x all wire segmentations x receiver offset", enum_count, enum_make}},
    0,
    0,
};
Target &vp::target() { return t; }
