// C08 — configuration parser is total and fails cleanly            vp-link: core cxx
//
// G: (format string, name flags, input bytes, entry point). Format: well-formed delimiter sets of the four
//    families and hostile ones (any punctuation per position incl. equal start/end, absent entries, short
//    strings, NULL, unknown family). Input: documents of the C09 printer with mutations (truncate, duplicate /
//    delete a delimiter, unterminated quote, NUL and high bytes, runs near 255/256/65535/65536 bytes, read
//    error in the middle), or raw token soup. Entry points: mpt_parse_config with a recording handler (that
//    may refuse an element), mpt_parse_node into an empty root, into a populated root, twice into the same root.
// O: getc discipline (every call past the end is an end probe; at most one per element-parser call, at most
//    two per parse); no sanitizer report, no leak (engine); successful parse: event sequence well nested and
//    every event path names exactly the open sections; failed mpt_parse_node: target tree identical to the
//    snapshot (same nodes, names, values, order); successful mpt_parse_node: tree passes the structural walker.
//
// C++ front end (first case byte 0x60..0x7f; all other first bytes decode exactly as before): mpt::config_parser with
//    its default format / the format mpt::layout passes / a drawn well-formed format, its built-in name flags, on
//    documents written to files in the working directory: open, then a drawn sequence of read / reset / open.
//    O: a read from the start of a file gives the verdict and the tree of mpt_parse_node on the same bytes with
//    the same format and flags; a read behind a complete read delivers the empty tree; a failed read leaves the
//    target node unchanged; open/reset report success exactly when the file exists; no leak.
//
// Format descriptions (first case byte 0x40..0x5f): a drawn description for mpt_parse_format (all fields; more, fewer or
//    no characters per class; blanks of every kind; short and NULL descriptions) on an exact-size heap copy.
//    O: every field equals an independent reading of the description; a generated text gives the same verdict and the
//    same elements with the described format and with the same delimiters set directly.
//
// mpt_node_parse (first case byte 0x20..0x3f): target node with or without children x FILE (memory stream / tmpfile over a generated
//    text, or NULL) x format description (round-4 generator) x limits string (flag letters, refused characters, "", NULL).
//    O: error return => the target's children are the same nodes with the same content; success => the children are the tree
//    mpt_parse_node makes of the same text with the same format and flags; verdicts agree; old children released once (ASan/leak).
//
// Character sources (first case byte 0x80..0x87): one generated text with bytes >= 0x80 (UTF-8, stray 0x80/0xFE/0xFF) through the harness
//    callback, mpt_getchar_stdio (memory stream / tmpfile), mpt_getchar_file (pipe / memfd / descriptor of a temporary file) and, with
//    its name flags, mpt::config_parser. O: same return code and element sequence (C++: same verdict and tree) from every source;
//    on success nothing of the input is left unread.
//
// Allocation-failure injection (first case byte 0x88..0x8f): mpt_parse_node / mpt_node_parse / mpt_parse_config with an mpt_node_append handler /
//    config_parser::read on a generated text (names padded to 20-23, 84-87, 100-128, 212-255 bytes now and then), once on a twin target counting the
//    library's allocations, then with the k-th allocation failing. O: complete success (tree of the twin) or an error with the target untouched; no leak.
#include <dirent.h>
#include <fcntl.h>
#include <sys/mman.h>
#include <signal.h>
#include <unistd.h>

#include "vp.hpp"
#include "cfgtree.hpp"

using namespace vp;
using namespace cfgtree;
using namespace mpt;

// ---- hostile format strings
static Fmt hostile_fmt(Ctx &c) {
  Fmt f;
  static const char fam[] = {'*', 'x', ' ', '_', 'q', '\t'};
  static const char pool[] = " {}[]()<>|%$@&*+-/:;,!#~^=?_`\"'.\\\n\ta0";
  auto any = [&]() -> char { return pool[c.pick(sizeof pool - 1)]; };
  switch (c.weighted({10, 2, 1, 1})) {
    case 1: {  // short string: defaults behind it
      size_t n = c.range(0, 6);
      for (size_t i = 0; i < n; i++) f.text += i == 1 ? fam[c.weighted({6, 3, 3, 2, 1, 1})] : any();
      break;
    }
    case 2: f.null_text = true; break;
    case 3: {  // arbitrary bytes
      size_t n = c.range(0, 20);
      for (size_t i = 0; i < n; i++) f.text += (char)c.range(1, 255);
      break;
    }
    default: {
      int family = fam[c.weighted({6, 3, 3, 2, 1, 1})];
      int ss = any(), se = c.chance(90) ? ss : any();
      std::string com, esc;
      size_t nc = c.range(0, 5), ne = c.range(0, 4);
      for (size_t i = 0; i < nc; i++) { char ch = any(); if (!isspace((unsigned char)ch)) com += ch; }
      for (size_t i = 0; i < ne; i++) { char ch = any(); if (!isspace((unsigned char)ch)) esc += ch; }
      f.text = compose(family, ss, se, any(), any(), any(), com, esc);
      break;
    }
  }
  decode(f);
  return f;
}

// ---- input mutations
// (choices are drawn from 'm', a block of case bytes set aside before the document was generated; labels go to 'c')
static void mutate(Ctx &c, Ctx &m, std::string &doc, const Fmt &f, bool allow_huge) {
  auto pos = [&]() -> size_t { return (size_t)m.range(0, doc.size()); };
  uint8_t delims[] = {f.sstart, f.send, f.ostart, f.assign, f.oend, f.com[0], f.esc[0], f.esc[1], '\n', '.'};
  auto delim = [&]() -> char { uint8_t d = delims[m.pick(sizeof delims)]; return d ? (char)d : '\n'; };
  switch (m.weighted({2, 2, 2, 2, 2, 1, 3, 2, 1, 1})) {
    case 0: doc.resize(pos()); c.label("mut:truncate"); break;
    case 1: {  // duplicate an occurrence of a delimiter
      char d = delim();
      std::vector<size_t> at;
      for (size_t i = 0; i < doc.size(); i++) if (doc[i] == d) at.push_back(i);
      if (!at.empty()) doc.insert(at[m.pick(at.size())], 1, d); else doc.insert(pos(), 1, d);
      c.label("mut:duplicate-delimiter");
      break;
    }
    case 2: {  // delete an occurrence of a delimiter
      char d = delim();
      std::vector<size_t> at;
      for (size_t i = 0; i < doc.size(); i++) if (doc[i] == d) at.push_back(i);
      if (!at.empty()) doc.erase(at[m.pick(at.size())], 1);
      c.label("mut:delete-delimiter");
      break;
    }
    case 3: doc.insert(pos(), 1, f.esc[0] ? (char)f.esc[0] : '"'); c.label("mut:stray-quote"); break;
    case 4: doc.insert(pos(), 1, '\0'); c.label("mut:nul"); break;
    case 5: { size_t p = pos(), n = m.range(1, 4); for (size_t i = 0; i < n; i++) doc.insert(p, 1, (char)m.range(0x80, 0xff)); c.label("mut:high-bytes"); break; }
    case 6: {  // long run: makes a name or a value cross a representation limit
      size_t n = allow_huge ? m.near({255, 256, 65535, 65536}, 66000) : m.near({254, 255, 256}, 300);
      doc.insert(pos(), std::string(n, m.flip() ? 'n' : '7'));
      c.label(n > 60000 ? "mut:run>=64k" : "mut:run~255");
      break;
    }
    case 7: doc.insert(pos(), 1, delim()); c.label("mut:insert-delimiter"); break;
    case 8: { size_t p = pos(); if (p < doc.size()) doc[p] = (char)m.u8(); c.label("mut:replace-byte"); break; }
    default: { size_t a = pos(), b = pos(); if (a < doc.size() && b < doc.size()) std::swap(doc[a], doc[b]); c.label("mut:swap"); break; }
  }
}

static std::string token_soup(Ctx &c, const Fmt &f) {
  std::string s;
  const uint8_t tok[] = {f.sstart, f.send, f.ostart, f.assign, f.oend, f.com[0], f.com[1], f.esc[0], f.esc[1],
                         '\n', ' ', '\t', 'a', 'b', '1', '.', '\\', 0, 0x80, 0xff, '{', '}', '=', ';', '#', '"', '[', ']'};
  while (s.size() < 4000 && c.more()) {
    uint8_t t = tok[c.pick(sizeof tok)];
    s += (char)t;
  }
  return s;
}

// ---- recording handler
struct Event { int curr, last; std::string path; bool has_val; size_t val_len; std::string val; };
struct Recorder {
  std::vector<Event> ev;
  size_t refuse_at = 0;  // 1-based index of the event the handler refuses (0 = never)
  // nested parsing: while handling an element the handler runs a complete second parse (what a handler does that resolves
  // an "include" option), then looks at the path and value it was called with again
  // kept copies: the handler keeps buffer-sharing copies (mpt::path copy) of the paths it is given and looks at them after the parse
  bool keep = false;
  struct Kept { std::unique_ptr<mpt::path> copy; std::string bytes, post; int valid; size_t event; };
  std::vector<Kept> kept;
  bool nest = false;
  size_t nested = 0;
  std::string nest_fault;
  void inner_parse();
  static int save(void *ctx, const path *p, const value *v, int last, int curr) {
    Recorder *r = (Recorder *)ctx;
    Event e;
    e.curr = curr;
    e.last = last;
    if (p->base && p->len) e.path.assign(p->base + p->off, p->len);
    e.has_val = v != 0;
    e.val_len = 0;
    if (v && v->_addr) {
      const struct iovec *vec = (const struct iovec *)v->_addr;
      e.val_len = vec->iov_len;
      if (vec->iov_base && vec->iov_len) e.val.assign((const char *)vec->iov_base, vec->iov_len);
    }
    r->ev.push_back(e);
    if (r->keep && r->kept.size() < 8 && p->base && (p->flags & path::HasArray)) {
      Kept k;
      k.copy.reset(new mpt::path(*p));
      k.bytes = e.path;
      k.post = e.val;
      k.valid = mpt_path_valid(k.copy.get());  // bytes stored behind the path (name being read / value)
      k.event = r->ev.size();
      r->kept.push_back(std::move(k));
    }
    if (r->nest && r->nested < 6 && r->nest_fault.empty()) {
      const struct iovec *vec = v ? (const struct iovec *)v->_addr : 0;
      const char *base = p->base;
      size_t off = p->off, len = p->len;
      const void *vbase = vec ? vec->iov_base : 0;
      size_t vlen = vec ? vec->iov_len : 0;
      int vtype = v ? (int)v->_type : 0;
      ++r->nested;
      r->inner_parse();
      // what the handler was called with must still be what it is looking at (no throw here: library frames above)
      char b[200];
      const struct iovec *vec2 = v ? (const struct iovec *)v->_addr : 0;
      if (p->base != base || p->off != off || p->len != len) r->nest_fault = "the path descriptor changed during the nested parse";
      else if (vec2 != vec || (v && (int)v->_type != vtype)) r->nest_fault = "the value descriptor changed during the nested parse";
      else if (vec && (vec->iov_base != vbase || vec->iov_len != vlen)) {
        snprintf(b, sizeof b, "the value of element %zu was %zu bytes at %p before the nested parse and is %zu bytes at %p after it", r->ev.size(), vlen, vbase, vec->iov_len, vec->iov_base);
        r->nest_fault = b;
      }
      else if (len && memcmp(base + off, e.path.data(), len)) r->nest_fault = "the path bytes changed during the nested parse";
      else if (vlen && memcmp(vbase, e.val.data(), vlen)) r->nest_fault = "the value bytes changed during the nested parse";
    }
    if (r->refuse_at && r->ev.size() == r->refuse_at) return -1;
    return 0;
  }
};
void Recorder::inner_parse() {
  static const std::string text = "in {\n a = 1\n}\nlast = the inner value\n";
  Source src(text);
  CObj<parser_context> pc;
  src.bind(pc);
  pc->name.sect = pc->name.opt = 0xff;
  if (nested & 1) {  // mpt_parse_config with its own context and path, default format
    CObj<parser_format> pf;
    mpt_parse_format(pf, 0);
    pc->prev = (uint8_t)parser_context::Section;
    Recorder inner;
    int r = mpt_parse_config((input_parser_t)mpt_parse_format_pre, pf.get(), pc, Recorder::save, &inner);
    if (r != 0 || inner.ev.size() != 4) nest_fault = "the nested mpt_parse_config did not deliver its four elements";
  } else {  // mpt_parse_node into a scratch node
    Root scratch;
    int r = mpt_parse_node(scratch.get(), pc, 0);
    std::vector<Node> t;
    read_list(scratch.get()->children, t);
    if (r != 0 || count_nodes(t) != 3 || t.back().value != "the inner value") nest_fault = "the nested mpt_parse_node did not deliver its tree";
  }
}
struct NextCtx {
  input_parser_t fn;
  void *fmt;
  Source *src;
  size_t entries;
  static int next(void *p, parser_context *pc, path *pa) {
    NextCtx *n = (NextCtx *)p;
    n->src->probes_this_entry = 0;
    ++n->entries;
    return n->fn(n->fmt, pc, pa);
  }
};

static std::string join(const std::vector<std::string> &st) {
  std::string s;
  for (size_t i = 0; i < st.size(); i++) { if (i) s += '.'; s += st[i]; }
  return s;
}

// "a successful parse emits a well-nested event sequence (every section end matches an open section,
// options appear inside the section that is open)"; the path handed to the handler is the list of open
// section names (joined by '.', plus one terminator byte) followed by the name of a new element
static void check_events(Ctx &c, const std::vector<Event> &ev, size_t &maxdepth) {
  std::vector<std::string> st;
  size_t i = 0;
  for (auto &e : ev) {
    ++i;
    std::string p = e.path.empty() ? "" : e.path.substr(0, e.path.size() - 1);
    std::string open = join(st), prefix = st.empty() ? "" : open + ".";
    int kind = e.curr & 0x7;
    c.logf("  event %zu: curr=%x last=%x path='%s' value=%s(%zu) depth=%zu", i, e.curr, e.last, brief(p, 60).c_str(), e.has_val ? "yes" : "no", e.val_len, st.size());
    if (kind == 0x1) {
      VP_CHECK(c, p.compare(0, prefix.size(), prefix) == 0 && p.find('.', prefix.size()) == std::string::npos, "event-path",
               "event %zu: section start with path '%s' while the open sections are '%s'", i, brief(p, 80).c_str(), brief(open, 80).c_str());
      st.push_back(p.substr(prefix.size()));
      if (st.size() > maxdepth) maxdepth = st.size();
    } else if (kind == 0x2) {
      VP_CHECK(c, !st.empty(), "event-nesting", "event %zu: section end without an open section", i);
      VP_CHECK(c, p == open, "event-path", "event %zu: section end with path '%s' while the open sections are '%s'", i, brief(p, 80).c_str(), brief(open, 80).c_str());
      st.pop_back();
    } else if (kind == 0x3 || kind == 0x7) {
      VP_CHECK(c, p.compare(0, prefix.size(), prefix) == 0 && p.find('.', prefix.size()) == std::string::npos, "event-path",
               "event %zu: option with path '%s' while the open sections are '%s'", i, brief(p, 80).c_str(), brief(open, 80).c_str());
      VP_CHECK(c, e.has_val == (kind == 0x7), "event-value", "event %zu: code %x %s a value", i, e.curr, e.has_val ? "with" : "without");
    } else if (kind == 0x4) {
      VP_CHECK(c, p == open, "event-path", "event %zu: data element with path '%s' while the open sections are '%s'", i, brief(p, 80).c_str(), brief(open, 80).c_str());
      VP_CHECK(c, e.has_val, "event-value", "event %zu: data element without a value", i);
    } else {
      c.fail("event-code", "event %zu: unknown element code %x", i, e.curr);
    }
  }
}

static void check_getc(Ctx &c, const Source &src, bool wrapped) {
  c.logf("  getc: %zu calls for %zu bytes, %zu end probes (max %zu per element-parser call)", src.calls, src.n, src.eof_probes, src.max_probes_per_entry);
  VP_CHECK(c, src.calls <= src.n + 2, "getc-overrun", "%zu getc calls for an input of %zu bytes (%zu of them past the end)", src.calls, src.n, src.eof_probes);
  if (wrapped) VP_CHECK(c, src.max_probes_per_entry <= 1, "getc-overrun", "one element-parser call asked %zu times for input past the end", src.max_probes_per_entry);
  if (src.eof_probes == 2) c.label("getc:second-end-probe");
}

static void set_context(Ctx &c, parser_context *pc, Source &src, Flags fl) {
  src.bind(pc);
  pc->name.sect = fl.sect;
  pc->name.opt = fl.opt;
  pc->src.line = c.flip() ? 1 : 0;
}

// ---- entry: mpt_parse_config with the recording handler
static void run_config(Ctx &c, const Fmt &f, Flags fl, const std::string &doc, long error_at) {
  CObj<parser_format> pf;
  int family = mpt_parse_format(pf, f.cstr());
  input_parser_t fn = mpt_parse_next_fcn(family);
  if (!fn) { c.label("fmt:unknown-family"); return; }
  Source src(doc);
  src.error_at = error_at;
  CObj<parser_context> pc;
  set_context(c, pc, src, fl);
  pc->prev = c.flip() ? (uint8_t)parser_context::Section : 0;
  Recorder rec;
  if (c.chance(40)) rec.refuse_at = c.range(1, 6);
  NextCtx nx = {fn, pf.get(), &src, 0};
  // a quarter of the cases (chosen by the text length: no draw, older cases keep their meaning) parse with a handler that
  // runs a nested parse at the first six elements
  rec.nest = doc.size() % 4 == 1;
  rec.keep = doc.size() % 4 == 2;  // another quarter: the handler keeps copies of the first eight paths
  size_t line0 = pc->src.line;
  uint8_t prev0 = pc->prev;
  int r = mpt_parse_config(NextCtx::next, &nx, pc, Recorder::save, &rec);
  c.logf("mpt_parse_config=%d line=%zu events=%zu element-parser calls=%zu refuse_at=%zu nested parses=%zu", r, (size_t)pc->src.line, rec.ev.size(), nx.entries, rec.refuse_at, rec.nested);
  check_getc(c, src, true);
  // a read error of the character source is never reported as success
  if (src.error_hit) { c.label("input:read-error-reached"); VP_CHECK(c, r < 0, "read-error-success", "the character source reported a read error at byte %ld, mpt_parse_config returned %d", error_at, r); }
  if (rec.keep) {
    // a copy the handler kept shares the buffer with the parser's path; what the parser does afterwards must not show in it
    c.label("config:handler-keeps-path-copies");
    for (auto &k : rec.kept) {
      const mpt::path *cp = k.copy.get();
      int valid = mpt_path_valid(k.copy.get());
      bool same = cp->base && cp->len == k.bytes.size() && (!cp->len || !memcmp(cp->base + cp->off, k.bytes.data(), cp->len));
      VP_CHECK(c, valid == k.valid, "kept-path-copy", "copy of the path of element %zu: %d bytes stored behind the path when the handler took it, %d after the parse", k.event, k.valid, valid);
      VP_CHECK(c, same, "kept-path-copy", "copy of the path of element %zu no longer holds '%s'", k.event, brief(k.bytes, 60).c_str());
      VP_CHECK(c, k.post.empty() || ((size_t)valid >= k.post.size() && !memcmp(cp->base + cp->off + cp->len, k.post.data(), k.post.size())), "kept-path-copy",
               "copy of the path of element %zu no longer holds the value '%s' behind the path", k.event, brief(k.post, 60).c_str());
    }
    if (!rec.kept.empty()) c.label("config:path-copies-verified");
  }
  if (rec.nest) {
    c.label("config:nested-parse-in-handler");
    VP_CHECK(c, rec.nest_fault.empty(), "nested-parse", "handler with a nested parse: %s", rec.nest_fault.c_str());
    // the outer parse must not notice: same result and elements as the same text without nesting
    Source src2(doc);
    src2.error_at = error_at;
    CObj<parser_context> pc2;
    src2.bind(pc2);
    pc2->name.sect = fl.sect;
    pc2->name.opt = fl.opt;
    pc2->src.line = line0;
    pc2->prev = prev0;
    Recorder plain;
    plain.refuse_at = rec.refuse_at;
    NextCtx nx2 = {fn, pf.get(), &src2, 0};
    int r2 = mpt_parse_config(NextCtx::next, &nx2, pc2, Recorder::save, &plain);
    VP_CHECK(c, r == r2 && rec.ev.size() == plain.ev.size(), "nested-parse", "with nested parses in the handler: %d / %zu elements, without: %d / %zu elements", r, rec.ev.size(), r2, plain.ev.size());
    for (size_t i = 0; i < plain.ev.size(); i++) {
      const Event &a = rec.ev[i], &b = plain.ev[i];
      VP_CHECK(c, a.curr == b.curr && a.last == b.last && a.path == b.path && a.has_val == b.has_val && a.val == b.val, "nested-parse",
               "element %zu differs between the parse with nested parses in the handler (code %x path '%s' value '%s') and the plain one (code %x path '%s' value '%s')", i + 1,
               a.curr, brief(a.path, 40).c_str(), brief(a.val, 40).c_str(), b.curr, brief(b.path, 40).c_str(), brief(b.val, 40).c_str());
    }
    if (rec.nested) c.label("config:nested-parse-ran");
  }
  size_t maxdepth = 0;
  if (r >= 0) {
    VP_CHECK(c, !rec.refuse_at || rec.ev.size() < rec.refuse_at, "refusal-ignored", "handler refused event %zu but mpt_parse_config returned %d", rec.refuse_at, r);
    check_events(c, rec.ev, maxdepth);
    c.label("config:accepted");
  } else {
    if (rec.refuse_at && rec.ev.size() == rec.refuse_at) {
      VP_CHECK(c, r == -0x80, "refusal-code", "handler refused event %zu, mpt_parse_config returned %d", rec.refuse_at, r);
      c.label("config:handler-refused");
    } else c.label("config:rejected");
    for (auto &e : rec.ev) if ((e.curr & 7) == 1) ++maxdepth;  // rough: sections seen
  }
  if (maxdepth >= 2 || (r < 0 && !rec.ev.empty())) c.nontrivial();
  if (maxdepth >= 2) c.label("depth>=2");
  if (r < 0 && !rec.ev.empty()) c.label("failed-after-accepted-element");
}

// ---- entry: mpt_parse_node
struct Snapshot {
  std::vector<Node> tree;
  std::vector<const node *> addr;
  void take(node *root) { tree.clear(); addr.clear(); read_list(root->children, tree, &addr); }
};

static int parse_into(Ctx &c, node *root, const Fmt &f, Flags fl, const std::string &doc, long error_at, const char *what) {
  Snapshot before;
  before.take(root);
  Source src(doc);
  src.error_at = error_at;
  CObj<parser_context> pc;
  set_context(c, pc, src, fl);
  int r = mpt_parse_node(root, pc, f.cstr());
  c.logf("%s: mpt_parse_node=%d line=%zu (root had %zu nodes)", what, r, (size_t)pc->src.line, before.addr.size());
  check_getc(c, src, false);
  if (src.error_hit) { c.label("input:read-error-reached"); VP_CHECK(c, r < 0, "read-error-success", "%s: the character source reported a read error at byte %ld, mpt_parse_node returned %d", what, error_at, r); }
  if (r < 0) {
    // "a failed parse reports an error and leaves the target tree exactly as it was"
    Snapshot after;
    after.take(root);
    std::string d = diff(before.tree, after.tree);
    VP_CHECK(c, d.empty(), "failed-parse-changed-tree", "%s: mpt_parse_node=%d but the target tree differs: %s", what, r, d.c_str());
    VP_CHECK(c, before.addr == after.addr, "failed-parse-changed-tree", "%s: mpt_parse_node=%d but the target tree holds other nodes than before", what, r);
    std::string w = walk(root);
    VP_CHECK(c, w.empty(), "failed-parse-changed-tree", "%s: mpt_parse_node=%d and the target tree is no longer sound: %s", what, r, w.c_str());
    c.label("node:rejected");
  } else {
    std::string w = walk(root);
    VP_CHECK(c, w.empty(), "tree-links", "%s: mpt_parse_node=%d, resulting tree: %s", what, r, w.c_str());
    c.label("node:accepted");
  }
  return r;
}

// ---- format descriptions: mpt_parse_format against an independent reading of the description
//
// Layout (parse_format.c, parse.h MPT_PARSER_FORMAT_INIT): [0] section start, [1] family, [2] section end,
// [3] option start, [4] assign, [5] option end; a blank there means "none"; a description that ends early leaves the
// remaining fields at their defaults ('{' '}' none '=' none, comment '#', quotes " and '). Behind position 5:
// "comments until space character", white space, "escape character after comments" (until white space or the end).
// Each class keeps the first characters it has room for (4 comment, 3 quote characters); what is named beyond that
// belongs to no other field. A NULL description is the default format.
struct RefFormat {
  int family = '*';
  uint8_t sstart = '{', send = '}', ostart = 0, assign = '=', oend = 0, esc[3] = {'"', '\'', 0}, com[4] = {'#', 0, 0, 0};
};
static bool ref_blank(unsigned char ch) { return ch == ' ' || (ch >= '\t' && ch <= '\r'); }
static RefFormat ref_format(const std::string *desc) {
  RefFormat r;
  if (!desc) return r;
  const std::string &s = *desc;
  size_t n = s.size();
  uint8_t *head[] = {&r.sstart, 0, &r.send, &r.ostart, &r.assign, &r.oend};
  for (size_t i = 0; i < 6; i++) {
    if (i >= n) return r;
    unsigned char ch = s[i];
    if (i == 1) r.family = ch;
    else *head[i] = ref_blank(ch) ? 0 : ch;
  }
  if (n == 6) return r;
  size_t p = 6, k = 0;
  memset(r.com, 0, sizeof r.com);
  for (; p < n && !ref_blank(s[p]); ++p, ++k) if (k < 4) r.com[k] = s[p];
  while (p < n && ref_blank(s[p])) ++p;
  if (p >= n) return r;
  memset(r.esc, 0, sizeof r.esc);
  for (k = 0; p < n && !ref_blank(s[p]); ++p, ++k) if (k < 3) r.esc[k] = s[p];
  return r;
}

static std::string draw_description(Ctx &c, bool &is_null) {
  static const char fam[] = {'*', 'x', ' ', '_', 'q', '\t'};
  static const char pool[] = "{}[]()<>|%$@&*+-/:;,!#~^=?_`\"'.\\a0";
  static const char blank[] = " \t\n\r\v\f";
  auto sym = [&]() -> char {
    switch (c.weighted({12, 3, 1})) {
      case 1: return blank[c.weighted({8, 2, 1, 1, 1, 1})];
      case 2: return (char)c.range(0x80, 0xff);
      default: return pool[c.pick(sizeof pool - 1)];
    }
  };
  auto mark = [&]() -> char { return c.chance(16) ? (char)c.range(0x80, 0xff) : pool[c.pick(sizeof pool - 1)]; };
  is_null = false;
  std::string s;
  size_t shape = c.weighted({12, 3, 1});
  if (shape == 2) { is_null = true; return s; }
  size_t headlen = shape == 1 ? c.range(0, 6) : 6;
  static const char conv[] = "{*} = ";
  bool conventional = c.flip();
  for (size_t i = 0; i < headlen; i++) {
    if (i == 1) s += fam[c.weighted({6, 3, 3, 2, 1, 1})];
    else s += conventional && !c.chance(48) ? conv[i] : sym();
  }
  if (shape == 1) return s;
  // comment characters (more than the field holds now and then), blanks, quote characters, blanks, leftovers
  size_t ncom = c.weighted({3, 6, 3, 2, 2, 2, 1, 1});
  for (size_t i = 0; i < ncom; i++) s += mark();
  size_t nb = c.weighted({2, 8, 2, 1});
  for (size_t i = 0; i < nb; i++) s += blank[c.weighted({8, 2, 1, 1, 1, 1})];
  size_t nesc = c.weighted({3, 4, 4, 3, 3, 2, 1});
  for (size_t i = 0; i < nesc; i++) s += mark();
  if (c.chance(40)) {
    s += blank[c.weighted({8, 2, 1, 1, 1, 1})];
    size_t nt = c.range(0, 4);
    for (size_t i = 0; i < nt; i++) s += sym();
  }
  return s;
}

static int parse_events(Ctx &c, const parser_format *pf, int family, Flags fl, const std::string &doc, Recorder &rec) {
  input_parser_t fn = mpt_parse_next_fcn(family);
  if (!fn) return 1;
  Source src(doc);
  CObj<parser_context> pc;
  src.bind(pc);
  pc->name.sect = fl.sect;
  pc->name.opt = fl.opt;
  pc->prev = (uint8_t)parser_context::Section;
  CObj<parser_format> copy;  // the element parsers take the format as const: hand each parse its own copy
  memcpy(copy.get(), pf, sizeof *pf);
  return mpt_parse_config((input_parser_t)fn, copy.get(), pc, Recorder::save, &rec);
}

static void run_format(Ctx &c) {
  c.label("entry: mpt_parse_format");
  bool is_null = false;
  std::string desc = draw_description(c, is_null);
  RefFormat ref = ref_format(is_null ? 0 : &desc);
  // exact-size heap copy of the description: reading behind its terminator is seen by ASan
  char *heap = 0;
  if (!is_null) { heap = (char *)malloc(desc.size() + 1); memcpy(heap, desc.c_str(), desc.size() + 1); }
  struct Free { char *p; ~Free() { free(p); } } fr{heap};
  CObj<parser_format> pf;
  memset(pf.get(), 0xA5, sizeof(parser_format));  // every field has to be set by the call
  int family = mpt_parse_format(pf, heap);
  c.logf("description %s%s%s (%zu bytes)", is_null ? "NULL" : "\"", is_null ? "" : brief(desc, 80).c_str(), is_null ? "" : "\"", desc.size());
  c.logf("  library  : family=%02x sstart=%02x send=%02x ostart=%02x assign=%02x oend=%02x com=%02x,%02x,%02x,%02x esc=%02x,%02x,%02x", family, pf->sstart, pf->send, pf->ostart, pf->assign, pf->oend,
         pf->com[0], pf->com[1], pf->com[2], pf->com[3], pf->esc[0], pf->esc[1], pf->esc[2]);
  c.logf("  reference: family=%02x sstart=%02x send=%02x ostart=%02x assign=%02x oend=%02x com=%02x,%02x,%02x,%02x esc=%02x,%02x,%02x", ref.family, ref.sstart, ref.send, ref.ostart, ref.assign, ref.oend,
         ref.com[0], ref.com[1], ref.com[2], ref.com[3], ref.esc[0], ref.esc[1], ref.esc[2]);
  const char *field = 0;
  if (family != ref.family) field = "family";
  else if (pf->sstart != ref.sstart) field = "section start";
  else if (pf->send != ref.send) field = "section end";
  else if (pf->ostart != ref.ostart) field = "option start";
  else if (pf->assign != ref.assign) field = "assign";
  else if (pf->oend != ref.oend) field = "option end";
  else if (memcmp(pf->com, ref.com, 4)) field = "comment characters";
  else if (memcmp(pf->esc, ref.esc, 3)) field = "quote characters";
  VP_CHECK(c, !field, "format-description", "mpt_parse_format(\"%s\"): %s differ from what the description names (see log)", brief(desc, 60).c_str(), field);

  // shape labels
  if (is_null) c.label("desc:NULL");
  else if (desc.size() < 6) c.label("desc:short");
  else {
    size_t p = 6, ncom = 0, nesc = 0;
    while (p < desc.size() && !ref_blank(desc[p])) { ++p; ++ncom; }
    while (p < desc.size() && ref_blank(desc[p])) ++p;
    while (p < desc.size() && !ref_blank(desc[p])) { ++p; ++nesc; }
    if (ncom > 4) c.label("desc:>4-comment-chars");
    if (ncom == 0) c.label("desc:no-comment-chars");
    if (nesc > 3) c.label("desc:>3-quote-chars");
    if (nesc == 0) c.label("desc:no-quote-chars");
    if (p < desc.size()) c.label("desc:leftovers");
  }

  // the described format in use: a text for the reference delimiters, parsed with the format the library
  // decoded and with the reference format set directly, must give the same verdict and the same elements
  Fmt f;
  f.family = ref.family; f.sstart = ref.sstart; f.send = ref.send; f.ostart = ref.ostart; f.assign = ref.assign; f.oend = ref.oend;
  memcpy(f.esc, ref.esc, 3);
  memcpy(f.com, ref.com, 4);
  f.text = desc;
  f.null_text = is_null;
  if (!mpt_parse_next_fcn(ref.family)) { c.label("fmt:unknown-family"); return; }
  Flags fl = draw_flags(c);
  std::vector<uint8_t> deco = deco_bytes(c);
  std::string doc;
  bool wellformed = f.assign && f.sstart && f.send && name_char_ok(f, 'a') && !f.is_esc('a') && (f.family == 'x' ? f.sstart == f.send : f.sstart != f.send);
  if (!wellformed || c.chance(48)) { doc = token_soup(c, f); c.label("input:token-soup"); }
  else {
    GenLimits lim;
    lim.max_nodes = 16;
    lim.huge_values = false;
    lim.max_value = 40;
    TreeGen g(c, f, fl, lim);
    std::vector<Node> t = g.tree();
    make_expressible(t, f);
    Ctx dc(deco.data(), deco.size(), false);
    Printer pr(dc, f, !deco.empty());
    doc = pr.render(t);
    c.label("input:document");
  }
  c.logf("input (%zu bytes): %s", doc.size(), brief(doc, 1000).c_str());
  CObj<parser_format> rf;
  rf->sstart = ref.sstart; rf->send = ref.send; rf->ostart = ref.ostart; rf->assign = ref.assign; rf->oend = ref.oend;
  memcpy(rf->esc, ref.esc, 3);
  memcpy(rf->com, ref.com, 4);
  Recorder lib, dir;
  int rl = parse_events(c, pf, family, fl, doc, lib), rd = parse_events(c, rf, ref.family, fl, doc, dir);
  c.logf("described format: mpt_parse_config=%d, %zu elements; format set directly: %d, %zu elements", rl, lib.ev.size(), rd, dir.ev.size());
  VP_CHECK(c, rl == rd && lib.ev.size() == dir.ev.size(), "format-in-use", "same text: %d / %zu elements with the described format, %d / %zu with the same delimiters set directly", rl, lib.ev.size(), rd, dir.ev.size());
  for (size_t i = 0; i < lib.ev.size(); i++) {
    const Event &a = lib.ev[i], &b = dir.ev[i];
    VP_CHECK(c, a.curr == b.curr && a.path == b.path && a.has_val == b.has_val && a.val == b.val, "format-in-use",
             "same text, element %zu: code %x path '%s' value '%s' with the described format, code %x path '%s' value '%s' with the same delimiters set directly", i + 1,
             a.curr, brief(a.path, 40).c_str(), brief(a.val, 40).c_str(), b.curr, brief(b.path, 40).c_str(), brief(b.val, 40).c_str());
  }
  c.label(rl >= 0 ? "config:accepted" : "config:rejected");
  if (!is_null && desc.size() > 6 && lib.ev.size() >= 2) c.nontrivial();
}

// ---- mpt_node_parse: the FILE level wrapper (node, FILE *, format, limits, logger) around mpt_parse_node
//
// limits (parse.h MPT_NAMEFLAG, parse_accept.c): letters f c n s w e b, upper case for section names, lower case for
// option names, read up to the first white space; any other character is refused; "" allows continuing numerals only;
// mpt_node_parse replaces a NULL limits string by "ns".
struct RefLimits { bool ok = true; uint16_t sect = 0, opt = 0; };
static RefLimits ref_limits(const std::string *lim) {
  RefLimits r;
  std::string s = lim ? *lim : "ns";
  if (s.empty()) { r.sect = r.opt = NumCont; return r; }
  for (unsigned char ch : s) {
    if (ref_blank(ch)) break;
    uint16_t bit;
    switch (ch | 0x20) {
      case 'f': bit = NumStart; break;
      case 'c': bit = NumCont; break;
      case 'n': bit = NumStart | NumCont; break;
      case 's': bit = Special; break;
      case 'w': bit = Space; break;
      case 'e': bit = Empty; break;
      case 'b': bit = Binary; break;
      default: bit = 0; break;
    }
    if (!bit || ch >= 0x80 || !((ch >= 'a' && ch <= 'z') || (ch >= 'A' && ch <= 'Z'))) { r.ok = false; return r; }
    if (ch >= 'A' && ch <= 'Z') r.sect |= bit; else r.opt |= bit;
  }
  return r;
}
static std::string draw_limits(Ctx &c, bool &is_null) {
  static const char known[] = "nsNSfcwebFCWEB";
  static const char bad[] = "-x1Z_,.*";
  is_null = false;
  std::string s;
  switch (c.weighted({6, 3, 1, 4})) {
    case 1: is_null = true; return s;
    case 2: return s;  // ""
    default: break;
  }
  size_t n = c.range(1, 8);
  for (size_t i = 0; i < n; i++) s += known[c.pick(sizeof known - 1)];
  switch (c.weighted({8, 4, 2, 1})) {
    case 1: s.insert(c.range(0, s.size()), 1, bad[c.pick(sizeof bad - 1)]); break;  // a character the function refuses
    case 2: s += " \t"[c.pick(2)]; s += bad[c.pick(sizeof bad - 1)]; s += known[c.pick(sizeof known - 1)]; break;  // ends at white space
    case 3: s.insert(c.range(0, s.size()), 1, (char)c.range(0x80, 0xff)); break;
    default: break;
  }
  return s;
}
struct ExactStr {  // exact-size heap copy of a C string (NULL stays NULL)
  char *p = 0;
  ExactStr(const std::string &s, bool is_null) { if (!is_null) { p = (char *)malloc(s.size() + 1); memcpy(p, s.c_str(), s.size() + 1); } }
  ~ExactStr() { free(p); }
  ExactStr(const ExactStr &) = delete;
};
struct TextFile {  // FILE over the generated text: memory stream (any bytes, any length), now and then an anonymous temporary file
  FILE *f = 0;
  char *buf = 0;
  size_t len = 0, pos = 0;
  bool memstream = false;
  static ssize_t rd(void *cookie, char *to, size_t n) {
    TextFile *t = (TextFile *)cookie;
    size_t left = t->len - t->pos;
    if (n > left) n = left;
    if (n) memcpy(to, t->buf + t->pos, n);
    t->pos += n;
    return (ssize_t)n;
  }
  TextFile(const std::string &doc, bool prefer_mem) {
    if (prefer_mem) {
      len = doc.size();
      buf = (char *)malloc(len ? len : 1);  // exact size
      if (len) memcpy(buf, doc.data(), len);
      cookie_io_functions_t io = {rd, 0, 0, 0};
      f = fopencookie(this, "r", io);
      memstream = f != 0;
    }
    if (!f && (f = tmpfile())) {
      if (!doc.empty()) fwrite(doc.data(), 1, doc.size(), f);
      rewind(f);
    }
  }
  ~TextFile() { if (f) fclose(f); free(buf); }
  TextFile(const TextFile &) = delete;
};

static void run_node_parse(Ctx &c) {
  c.label("entry: mpt_node_parse");
  // arguments
  bool fmt_null = false, lim_null = false;
  std::string desc = draw_description(c, fmt_null);
  std::string limits = draw_limits(c, lim_null);
  bool no_file = c.chance(12);
  bool populated = !c.chance(80);
  bool prefer_mem = !c.chance(10);
  std::vector<uint8_t> deco = deco_bytes(c);
  std::vector<uint8_t> mut;
  if (c.chance(100)) mut = c.bytes(c.range(1, 6));
  RefFormat rf = ref_format(fmt_null ? 0 : &desc);
  RefLimits rl = ref_limits(lim_null ? 0 : &limits);
  c.logf("entry: mpt_node_parse, format %s%s%s, limits %s%s%s (%s), file %s", fmt_null ? "NULL" : "\"", fmt_null ? "" : brief(desc, 60).c_str(), fmt_null ? "" : "\"",
         lim_null ? "NULL" : "\"", lim_null ? "" : brief(limits, 30).c_str(), lim_null ? "" : "\"", rl.ok ? "acceptable" : "has a character that is no name flag", no_file ? "NULL" : "given");
  // the limits string as the library reads it
  ExactStr lim_c(limits, lim_null), fmt_c(desc, fmt_null);
  {
    CObj<parser_allow> pa;
    pa->sect = pa->opt = 0x5a5a;
    int r = mpt_parse_accept(pa, lim_null ? "ns" : lim_c.p);
    VP_CHECK(c, (r >= 0) == rl.ok, "limits-flags", "mpt_parse_accept(\"%s\") = %d, the string %s", brief(limits, 30).c_str(), r, rl.ok ? "names flag letters only" : "has a character that is no flag letter");
    if (r >= 0) VP_CHECK(c, pa->sect == rl.sect && pa->opt == rl.opt, "limits-flags", "mpt_parse_accept(\"%s\"): sect=%02x opt=%02x, the letters say sect=%02x opt=%02x", brief(limits, 30).c_str(), pa->sect, pa->opt, rl.sect, rl.opt);
  }
  Flags fl;
  fl.sect = rl.sect;
  fl.opt = rl.opt;

  // text for the described format and the allowed names
  Fmt f;
  f.family = rf.family; f.sstart = rf.sstart; f.send = rf.send; f.ostart = rf.ostart; f.assign = rf.assign; f.oend = rf.oend;
  memcpy(f.esc, rf.esc, 3);
  memcpy(f.com, rf.com, 4);
  f.text = desc;
  f.null_text = fmt_null;
  GenLimits lim;
  lim.max_nodes = 16;
  lim.huge_values = false;
  lim.max_value = 300;
  bool wellformed = f.assign && f.sstart && f.send && name_char_ok(f, 'a') && !f.is_esc('a') && (f.family == 'x' ? f.sstart == f.send : f.sstart != f.send);
  std::vector<std::string> sect_pool, opt_pool;
  std::string doc;
  if (!wellformed || c.chance(30)) { doc = token_soup(c, f); c.label("input:token-soup"); }
  else {
    TreeGen g(c, f, fl, lim);
    std::vector<Node> t = g.tree();
    make_expressible(t, f);
    Ctx dc(deco.data(), deco.size(), false);
    Printer pr(dc, f, !deco.empty());
    doc = pr.render(t);
    sect_pool = g.sect_pool;
    opt_pool = g.opt_pool;
    Ctx mc(mut.data(), mut.size(), false);
    size_t nm = mut.empty() ? 0 : 1 + mc.weighted({5, 3, 1});
    for (size_t k = 0; k < nm; k++) mutate(c, mc, doc, f, false);
    c.label(nm ? "input:mutated-document" : "input:document");
  }
  c.logf("text (%zu bytes): %s", doc.size(), brief(doc, 1000).c_str());

  // target node, with or without children
  Root target;
  if (populated) {
    Flags any;
    TreeGen g(c, f, any, lim);
    g.sect_pool = sect_pool;
    g.opt_pool = opt_pool;
    std::vector<Node> t = g.tree();
    c.logf("target children before the call:");
    log_tree(c, t);
    VP_CHECK(c, build(target.get(), t), "harness", "could not build the target tree");
  }
  Snapshot before;
  before.take(target.get());

  // reference: mpt_parse_node on the same text with the same format and name flags into a fresh node
  int ref_rc = -1;
  std::vector<Node> ref_tree;
  if (!no_file && rl.ok) {
    Source src(doc);
    CObj<parser_context> pc;
    src.bind(pc);
    pc->name.sect = fl.sect;
    pc->name.opt = fl.opt;
    Root fresh;
    ref_rc = mpt_parse_node(fresh.get(), pc, fmt_c.p);
    if (ref_rc >= 0) read_list(fresh.get()->children, ref_tree);
  }

  TextFile file(doc, prefer_mem);
  VP_CHECK(c, no_file || file.f, "harness", "cannot open a stream over the text");
  c.label(no_file ? "file:NULL" : file.memstream ? "file:memory-stream" : "file:tmpfile");
  int r = mpt_node_parse(target.get(), no_file ? 0 : file.f, fmt_c.p, lim_c.p, 0);
  c.logf("mpt_node_parse = %d   (mpt_parse_node on the same text: %d; target had %zu nodes)", r, ref_rc, before.addr.size());

  Snapshot after;
  after.take(target.get());
  std::string w = walk(target.get());
  if (no_file) VP_CHECK(c, r < 0, "node-parse-verdict", "mpt_node_parse without a file returned %d", r);
  else if (!rl.ok) VP_CHECK(c, r < 0, "node-parse-verdict", "mpt_node_parse accepted the limits string \"%s\" (returned %d)", brief(limits, 30).c_str(), r);
  else VP_CHECK(c, (r < 0) == (ref_rc < 0), "node-parse-verdict", "mpt_node_parse = %d, mpt_parse_node on the same text with the same format and name flags = %d", r, ref_rc);
  if (r < 0) {
    // "a failed parse reports an error and leaves the target tree exactly as it was"
    std::string d = diff(before.tree, after.tree);
    VP_CHECK(c, d.empty(), "failed-parse-changed-tree", "mpt_node_parse = %d but the target's children differ: %s", r, d.c_str());
    VP_CHECK(c, before.addr == after.addr, "failed-parse-changed-tree", "mpt_node_parse = %d but the target holds other nodes than before", r);
    VP_CHECK(c, w.empty(), "failed-parse-changed-tree", "mpt_node_parse = %d and the target is no longer sound: %s", r, w.c_str());
    c.label(no_file ? "node_parse:no-file" : !rl.ok ? "node_parse:bad-limits" : "node_parse:parse-error");
    if (populated && !before.addr.empty()) { c.label("node_parse:failed-on-populated-target"); c.nontrivial(); }
  } else {
    VP_CHECK(c, w.empty(), "tree-links", "mpt_node_parse = %d, resulting tree: %s", r, w.c_str());
    std::string d = diff(ref_tree, after.tree);
    VP_CHECK(c, d.empty(), "node-parse-differs", "mpt_node_parse delivered another tree than mpt_parse_node on the same text: %s", d.c_str());
    c.label("node_parse:accepted");
    if (!before.addr.empty()) { c.label("node_parse:replaced-populated-target"); c.nontrivial(); }  // the old nodes: leak / double free oracle
  }
  if (lim_null) c.label("limits:NULL");
  else if (limits.empty()) c.label("limits:empty");
}

// ---- C++ front end: mpt::config_parser (mpt++/parse.cpp) on files
struct TmpFile {
  std::string name;
  TmpFile(const char *tag) {
    char b[64];
    snprintf(b, sizeof b, "c08-%ld-%s.conf", (long)getpid(), tag);  // working directory, unique per process
    name = b;
    unlink(b);
  }
  ~TmpFile() { unlink(name.c_str()); }
  bool write(const std::string &doc) {
    FILE *f = fopen(name.c_str(), "w");
    if (!f) return false;
    size_t n = doc.empty() ? 0 : fwrite(doc.data(), 1, doc.size(), f);
    return fclose(f) == 0 && n == doc.size();
  }
};
// a case that dies in a sanitizer report cannot remove its files: once per process, remove the files of processes
// that no longer exist
static void sweep_stale_files() {
  static bool done = false;
  if (done) return;
  done = true;
  DIR *d = opendir(".");
  if (!d) return;
  std::vector<std::string> stale;
  while (struct dirent *e = readdir(d)) {
    long pid = 0;
    char tag = 0, rest = 0;
    if (sscanf(e->d_name, "c08-%ld-%c.con%c", &pid, &tag, &rest) == 3 && rest == 'f' && pid > 1 && kill((pid_t)pid, 0) < 0 && errno == ESRCH) stale.push_back(e->d_name);
  }
  closedir(d);
  for (auto &n : stale) unlink(n.c_str());
}
struct CDoc {  // a document and what the C entry point makes of it
  std::string text;
  int rc = 0;
  std::vector<Node> tree;
};

// ---- character sources: the same text through every source the library offers
//
// harness callback (reference), mpt_getchar_stdio over a FILE, mpt_getchar_file over a descriptor (pipe, memfd, temporary
// file), and - when the name flags are those of mpt::config_parser - the C++ parser on a file. The text carries bytes >= 0x80
// (UTF-8 sequences, stray 0x80 / 0xFE / 0xFF) in values, comments and, where the Binary name flag allows, in names.
struct Fd {
  int fd = -1;
  ~Fd() { if (fd >= 0) close(fd); }
  Fd() {}
  Fd(const Fd &) = delete;
};
static int events_from(int (*getc)(void *), void *arg, const parser_format *pf, int family, Flags fl, Recorder &rec) {
  input_parser_t fn = mpt_parse_next_fcn(family);
  CObj<parser_context> pc;
  pc->src.getc = getc;
  pc->src.arg = arg;
  pc->src.line = 1;
  pc->name.sect = fl.sect;
  pc->name.opt = fl.opt;
  pc->prev = (uint8_t)parser_context::Section;
  CObj<parser_format> copy;
  memcpy(copy.get(), pf, sizeof *pf);
  return mpt_parse_config(fn, copy.get(), pc, Recorder::save, &rec);
}
static void same_events(Ctx &c, const char *what, int r_ref, const Recorder &ref, int r, const Recorder &got) {
  c.logf("  %s: mpt_parse_config=%d, %zu elements", what, r, got.ev.size());
  VP_CHECK(c, r == r_ref && got.ev.size() == ref.ev.size(), "source-differs", "%s: result %d with %zu elements, the callback source gives %d with %zu elements for the same text", what, r, got.ev.size(), r_ref, ref.ev.size());
  for (size_t i = 0; i < ref.ev.size(); i++) {
    const Event &a = got.ev[i], &b = ref.ev[i];
    VP_CHECK(c, a.curr == b.curr && a.path == b.path && a.has_val == b.has_val && a.val == b.val, "source-differs",
             "%s, element %zu: code %x path '%s' value '%s'; the callback source gives code %x path '%s' value '%s'", what, i + 1,
             a.curr, brief(a.path, 40).c_str(), brief(a.val, 40).c_str(), b.curr, brief(b.path, 40).c_str(), brief(b.val, 40).c_str());
  }
}

static void run_sources(Ctx &c) {
  c.label("entry: character sources");
  static const int fam[] = {'*', 'x', ' ', '_'};
  size_t fsel = c.weighted({3, 2, 3});
  Fmt f;
  if (fsel == 0) { f.null_text = true; decode(f); }
  else if (fsel == 1) { f.text = "{*} =;#! '\""; decode(f); }
  else f = draw_fmt(c, fam[c.weighted({6, 2, 2, 1})]);
  bool cxx_flags = c.chance(100);
  Flags fl;
  if (cxx_flags) { fl.sect = NumCont | Space | Special; fl.opt = NumCont; }  // what mpt::config_parser uses
  else { fl = draw_flags(c); if (c.flip()) { fl.sect |= Binary; fl.opt |= Binary; } }
  std::vector<uint8_t> deco = deco_bytes(c), mut, hb = c.bytes(c.range(0, 10));
  if (c.chance(70)) mut = c.bytes(c.range(1, 6));
  size_t fdkind = c.weighted({4, 4, 1});
  c.logf("entry: character sources, %s", show(f).c_str());
  c.logf("%s", show(fl).c_str());
  GenLimits lim;
  lim.max_nodes = 16;
  lim.huge_values = false;
  lim.max_value = 300;
  TreeGen g(c, f, fl, lim);
  std::vector<Node> t = g.tree();
  make_expressible(t, f);
  Ctx dc(deco.data(), deco.size(), false);
  Printer pr(dc, f, !deco.empty());
  std::string doc = pr.render(t);
  Ctx mc(mut.data(), mut.size(), false);
  size_t nm = mut.empty() ? 0 : 1 + mc.weighted({5, 3, 1});
  for (size_t k = 0; k < nm; k++) mutate(c, mc, doc, f, false);
  // high bytes anywhere in the text (names, values, comments, between elements)
  static const char *const tok[] = {"\xc3\xa4", "\xe2\x82\xac", "\xfe", "\xff", "\x80", "\xf0\x9f\x98\x80", "\xc2\xa0", "\xfe\xff"};
  for (size_t i = 0; i + 1 < hb.size(); i += 2) doc.insert(hb[i + 1] % (doc.size() + 1), tok[hb[i] % 8]);
  size_t high = 0;
  for (unsigned char ch : doc) if (ch >= 0x80) ++high;
  c.logf("text (%zu bytes, %zu of them >= 0x80): %s", doc.size(), high, brief(doc, 1000).c_str());
  if (high) c.label("text:high-bytes");
  if (doc.find('\xfe') != std::string::npos || doc.find('\xff') != std::string::npos) c.label("text:0xFE/0xFF");

  CObj<parser_format> pf;
  int family = mpt_parse_format(pf, f.cstr());
  // reference: harness callback
  Recorder ref;
  Source src(doc);
  int r_ref = events_from(Source::getc, &src, pf, family, fl, ref);
  c.logf("  callback source: mpt_parse_config=%d, %zu elements, %zu getc calls", r_ref, ref.ev.size(), src.calls);
  check_getc(c, src, false);
  // "reading each input character at most once": a stream cannot repeat; on success nothing is left unread
  VP_CHECK(c, r_ref < 0 || src.pos == src.n, "input-not-consumed", "callback source: success after %zu of %zu bytes", src.pos, src.n);
  size_t maxdepth = 0;
  if (r_ref >= 0) check_events(c, ref.ev, maxdepth);

  // mpt_getchar_stdio over a FILE
  {
    TextFile tf(doc, !c.chance(16));
    VP_CHECK(c, tf.f, "harness", "cannot open a stream over the text");
    Recorder rec;
    int r = events_from((int (*)(void *))mpt_getchar_stdio, tf.f, pf, family, fl, rec);
    same_events(c, tf.memstream ? "mpt_getchar_stdio(memory stream)" : "mpt_getchar_stdio(tmpfile)", r_ref, ref, r, rec);
    if (r >= 0) VP_CHECK(c, fgetc(tf.f) == EOF, "input-not-consumed", "mpt_getchar_stdio: success with input left in the stream");
  }
  // mpt_getchar_file over a descriptor
  {
    Fd fd, wr;
    const char *kind = "pipe";
    if (fdkind == 0 && doc.size() < 60000) {
      int p[2];
      VP_CHECK(c, pipe(p) == 0, "harness", "pipe");
      fd.fd = p[0];
      wr.fd = p[1];
      VP_CHECK(c, doc.empty() || write(wr.fd, doc.data(), doc.size()) == (ssize_t)doc.size(), "harness", "pipe write");
      close(wr.fd);
      wr.fd = -1;
    } else if (fdkind != 2) {
      kind = "memfd";
      fd.fd = memfd_create("c08", 0);
      VP_CHECK(c, fd.fd >= 0 && (doc.empty() || write(fd.fd, doc.data(), doc.size()) == (ssize_t)doc.size()) && lseek(fd.fd, 0, SEEK_SET) == 0, "harness", "memfd");
    } else {
      kind = "temporary file";
      FILE *tf = tmpfile();
      VP_CHECK(c, tf, "harness", "tmpfile");
      fd.fd = dup(fileno(tf));
      fclose(tf);
      VP_CHECK(c, fd.fd >= 0 && (doc.empty() || write(fd.fd, doc.data(), doc.size()) == (ssize_t)doc.size()) && lseek(fd.fd, 0, SEEK_SET) == 0, "harness", "temporary file");
    }
    Recorder rec;
    int r = events_from(mpt_getchar_file, (void *)(intptr_t)fd.fd, pf, family, fl, rec);
    char what[64];
    snprintf(what, sizeof what, "mpt_getchar_file(%s)", kind);
    same_events(c, what, r_ref, ref, r, rec);
    char rest;
    if (r >= 0) VP_CHECK(c, read(fd.fd, &rest, 1) == 0, "input-not-consumed", "mpt_getchar_file: success with input left behind the descriptor position");
    c.label(fdkind == 0 ? "source:pipe" : fdkind == 1 ? "source:memfd" : "source:fd-of-tmpfile");
  }
  // the C++ parser (its name flags cannot be chosen)
  if (cxx_flags) {
    sweep_stale_files();
    int rc;
    std::vector<Node> want, got;
    {
      Source s2(doc);
      CObj<parser_context> pc;
      s2.bind(pc);
      pc->name.sect = fl.sect;
      pc->name.opt = fl.opt;
      Root root;
      rc = mpt_parse_node(root.get(), pc, f.cstr());
      if (rc >= 0) read_list(root.get()->children, want);
    }
    TmpFile file("a");
    VP_CHECK(c, file.write(doc), "harness", "cannot write %s", file.name.c_str());
    mpt::config_parser parse;
    if (fsel) VP_CHECK(c, parse.set_format(f.cstr()), "cxx-set-format", "config_parser::set_format refused a format of a supported family");
    VP_CHECK(c, parse.open(file.name.c_str()), "cxx-open", "config_parser::open failed on an existing file");
    mpt::node to;
    int r = parse.read(to, 0);
    read_list(to.children, got);
    c.logf("  mpt::config_parser: read=%d, %zu nodes (mpt_parse_node with the callback source: %d, %zu nodes)", r, count_nodes(got), rc, count_nodes(want));
    VP_CHECK(c, (r < 0) == (rc < 0), "source-differs", "mpt::config_parser::read=%d, mpt_parse_node with the callback source=%d for the same text", r, rc);
    if (r >= 0) { std::string d = diff(want, got); VP_CHECK(c, d.empty(), "source-differs", "mpt::config_parser delivers another tree than mpt_parse_node with the callback source: %s", d.c_str()); }
    c.label("source:c++-parser");
  }
  c.label(r_ref >= 0 ? "config:accepted" : "config:rejected");
  if (high && ref.ev.size() >= 2) c.nontrivial();
}

// what the C entry point makes of a document under a format description and the name flags of mpt::config_parser
static void c_reference(CDoc &d, const char *desc) {
  Source src(d.text);
  CObj<parser_context> pc;
  src.bind(pc);
  pc->name.sect = NumCont | Space | Special;
  pc->name.opt = NumCont;
  Root root;
  d.tree.clear();
  d.rc = mpt_parse_node(root.get(), pc, desc);
  if (d.rc >= 0) read_list(root.get()->children, d.tree);
}

static void run_cxx(Ctx &c) {
  c.label("entry: mpt::config_parser");
  sweep_stale_files();
  // format: what the class sets up itself, what mpt::layout passes to set_format(), or a drawn well-formed one
  static const int fam[] = {'*', 'x', ' ', '_'};
  size_t fsel = c.weighted({4, 2, 2});
  Fmt f;
  if (fsel == 0) { f.null_text = true; decode(f); }
  else if (fsel == 1) { f.text = "{*} =;#! '\""; decode(f); }  // mpt::layout::file_format()
  else f = draw_fmt(c, fam[c.weighted({6, 2, 2, 1})]);
  // name flags of config_parser::config_parser(); a user of the class cannot change them
  Flags fl;
  fl.sect = NumCont | Space | Special;
  fl.opt = NumCont;
  c.logf("entry: mpt::config_parser, %s, %s", fsel ? "set_format()" : "default format", show(f).c_str());
  c.logf("%s", show(fl).c_str());
  c.label(fsel == 0 ? "cxx:default-format" : fsel == 1 ? "cxx:layout-format" : "cxx:drawn-format");

  // operation sequence, set aside before the documents use up the case bytes
  std::vector<uint8_t> opb = c.bytes(c.range(2, 14));
  Ctx oc(opb.data(), opb.size(), false);
  // set_format() between the reads: operation bytes with bits 5 and 6 set (the descriptions are drawn only when such a byte
  // exists, so every older case decodes as before)
  struct Desc { std::string text; bool is_null; };
  std::vector<Desc> fdesc;
  for (uint8_t ob : opb) {
    if ((ob & 0x60) != 0x60 || fdesc.size() >= 4) continue;
    Desc d{"", false};
    switch (c.weighted({4, 4, 1, 1, 1})) {
      case 1: {  // fine layout, unsupported type character
        d.text = f.null_text ? "{*} = " : f.text;
        if (d.text.size() < 2) d.text = "{*} = ";
        d.text[1] = "+q-X.0"[c.pick(6)];
        break;
      }
      case 2: d.text = "{*} =;#! '\""; break;
      case 3: d.is_null = true; break;
      case 4: d.text = f.null_text ? "{*} = " : f.text; break;
      default: d.text = draw_description(c, d.is_null); break;
    }
    fdesc.push_back(d);
  }
  // two documents for that format (mutated now and then, so that reads fail as well)
  std::vector<uint8_t> deco[2] = {deco_bytes(c), deco_bytes(c)};
  std::vector<uint8_t> mut[2];
  for (int i = 0; i < 2; i++) if (c.chance(110)) mut[i] = c.bytes(c.range(1, 6));
  GenLimits lim;
  lim.max_nodes = 16;
  lim.huge_values = false;
  lim.max_value = 300;
  CDoc doc[2];
  TmpFile file[2] = {TmpFile("a"), TmpFile("b")};
  for (int i = 0; i < 2; i++) {
    TreeGen g(c, f, fl, lim);
    std::vector<Node> t = g.tree();
    make_expressible(t, f);
    Ctx dc(deco[i].data(), deco[i].size(), false);
    Printer pr(dc, f, !deco[i].empty());
    doc[i].text = pr.render(t);
    Ctx mc(mut[i].data(), mut[i].size(), false);
    size_t nm = mut[i].empty() ? 0 : 1 + mc.weighted({5, 3, 1});
    for (size_t k = 0; k < nm; k++) mutate(c, mc, doc[i].text, f, false);
    // reference: the C entry point on the same bytes, format and flags
    c_reference(doc[i], f.null_text ? 0 : f.text.c_str());
    c.logf("file %c (%zu bytes, mpt_parse_node=%d, %zu nodes): %s", 'A' + i, doc[i].text.size(), doc[i].rc, count_nodes(doc[i].tree), brief(doc[i].text, 800).c_str());
    VP_CHECK(c, file[i].write(doc[i].text), "harness", "cannot write %s", file[i].name.c_str());
  }

  CDoc empty;
  c_reference(empty, f.null_text ? 0 : f.text.c_str());
  // 'twin' gets every call except the set_format() calls that are refused: both must answer every read alike
  // (only kept when the case has set_format() calls)
  bool use_twin = !fdesc.empty();
  mpt::config_parser parse, twin;
  if (fsel) VP_CHECK(c, parse.set_format(f.cstr()) && (!use_twin || twin.set_format(f.cstr())), "cxx-set-format", "config_parser::set_format refused a format of a supported family");
  mpt::node twin_to[2];
  size_t nfmt = 0, refused = 0;
  mpt::node to[2];
  std::vector<Node> have[2];
  int cur = -1;        // file the parser reads from
  bool closed = false; // open(nullptr) was the last open call
  bool fresh = false;  // positioned at the start of that file
  bool at_end = false; // the last read consumed the file completely and succeeded
  size_t fresh_ok = 0, nops = 0, failed_on_populated = 0;
  for (bool first = true; first || !oc.exhausted(); first = false, ++nops) {
    uint8_t ob = first ? 0 : oc.u8();  // low bits: operation, bit 7: target node of a read
    size_t op = first ? 2 : (size_t[]){0, 0, 0, 0, 0, 1, 1, 1, 2, 3, 4, 0, 1, 0, 1, 0}[ob & 15];
    if (!first && (ob & 0x60) == 0x60 && nfmt < fdesc.size()) {
      const Desc &d = fdesc[nfmt++];
      RefFormat rf = ref_format(d.is_null ? 0 : &d.text);
      bool supported = mpt_parse_next_fcn(rf.family) != 0;
      ExactStr dc(d.text, d.is_null);
      bool ok = parse.set_format(dc.p);
      c.logf("  set_format(%s%s%s) = %d   [type character %02x is %s]", d.is_null ? "NULL" : "\"", d.is_null ? "" : brief(d.text, 40).c_str(), d.is_null ? "" : "\"", ok, rf.family, supported ? "supported" : "not supported");
      VP_CHECK(c, ok == supported, "cxx-set-format", "config_parser::set_format(\"%s\") = %d, the type character %02x is %s", brief(d.text, 40).c_str(), ok, rf.family, supported ? "supported" : "not supported");
      if (ok) {
        // accepted: from now on like a parser that was given this format
        VP_CHECK(c, twin.set_format(dc.p), "cxx-set-format", "config_parser::set_format accepted the description once and refused it the second time");
        for (int i = 0; i < 2; i++) c_reference(doc[i], dc.p);
        c_reference(empty, dc.p);
        c.label("cxx:set_format-accepted");
      } else { ++refused; c.label("cxx:set_format-refused"); }
      continue;
    }
    if (!first && (ob & 0x70) == 0x50) {
      // open(nullptr) closes the input: the next read has to say so (mpt::layout::open() passes its argument through)
      bool ok = parse.open(0);
      if (use_twin) twin.open(0);
      c.logf("  open(nullptr) = %d", ok);
      VP_CHECK(c, ok, "cxx-open", "config_parser::open(nullptr) failed");
      cur = -1;
      closed = true;
      fresh = at_end = false;
      c.label("cxx:open-null");
      continue;
    }
    if (op == 0 && cur < 0 && closed) {
      int k = ob >> 7;
      std::vector<const node *> before, after;
      { std::vector<Node> tmp; read_list(to[k].children, tmp, &before); }
      int r = parse.read(to[k], 0);
      if (use_twin) twin.read(twin_to[k], 0);
      { std::vector<Node> tmp; read_list(to[k].children, tmp, &after); }
      c.logf("  read(target %d) = %d   [no input]", k, r);
      VP_CHECK(c, r < 0, "cxx-read-without-input", "config_parser::read = %d after open(nullptr)", r);
      VP_CHECK(c, before == after, "cxx-failed-read-changed-target", "config_parser::read=%d without input but the target node changed", r);
      c.label("cxx:read-without-input");
      continue;
    }
    if (op == 0 && cur >= 0) {
      int k = ob >> 7;
      std::vector<const node *> before, after;
      { std::vector<Node> tmp; read_list(to[k].children, tmp, &before); }
      int r = parse.read(to[k], 0);
      std::vector<Node> got;
      read_list(to[k].children, got, &after);
      if (use_twin) {
        // the twin never saw a refused set_format(): same answer to the same read
        int rt = twin.read(twin_to[k], 0);
        std::vector<Node> tgot;
        read_list(twin_to[k].children, tgot);
        std::string d = diff(tgot, got);
        VP_CHECK(c, r == rt && d.empty(), "cxx-twin-differs", "read = %d after %zu refused set_format() calls, a parser that got the same calls without them reads %d%s%s", r, refused, rt, d.empty() ? "" : "; trees differ: ", d.c_str());
      }
      c.logf("  read(target %d) = %d   [file %c, %s]", k, r, 'A' + cur, fresh ? "from the start" : at_end ? "behind a complete read" : "behind a failed read");
      std::string w = walk(&to[k]);
      VP_CHECK(c, w.empty(), "tree-links", "config_parser::read=%d, target tree: %s", r, w.c_str());
      if (r < 0) {
        VP_CHECK(c, before == after && diff(have[k], got).empty(), "cxx-failed-read-changed-target", "config_parser::read=%d but the target node changed: %s", r, diff(have[k], got).c_str());
        if (!have[k].empty()) ++failed_on_populated;
      }
      if (fresh) {
        VP_CHECK(c, (r < 0) == (doc[cur].rc < 0), "cxx-read-differs", "read from the start of file %c: config_parser::read=%d, mpt_parse_node on the same bytes=%d", 'A' + cur, r, doc[cur].rc);
        if (r >= 0) {
          std::string d = diff(doc[cur].tree, got);
          VP_CHECK(c, d.empty(), "cxx-read-differs", "read from the start of file %c differs from mpt_parse_node on the same bytes: %s", 'A' + cur, d.c_str());
          if (!got.empty()) ++fresh_ok;
        }
      } else if (at_end) {
        // the stream is at its end: like the empty input under the format in use (success and nothing delivered, except
        // for the 'x' family with different start and end characters, which answers the end of input with an error)
        VP_CHECK(c, (r < 0) == (empty.rc < 0) && (r < 0 || got.empty()), "cxx-read-at-end", "read behind a complete read: config_parser::read=%d, %zu nodes delivered; mpt_parse_node on the empty input: %d", r, count_nodes(got), empty.rc);
      }
      if (r >= 0) have[k] = got;
      at_end = r >= 0;
      fresh = false;
      c.label(r >= 0 ? "cxx:read-ok" : "cxx:read-failed");
    } else if (op == 1 && cur >= 0) {
      bool ok = parse.reset();
      if (use_twin) twin.reset();
      c.logf("  reset() = %d", ok);
      VP_CHECK(c, ok, "cxx-reset", "config_parser::reset failed on an existing file");
      fresh = true;
      at_end = false;
      c.label("cxx:reset");
    } else if (op == 4) {
      bool ok = parse.open("c08-no-such-file.conf");
      if (use_twin) twin.open("c08-no-such-file.conf");
      c.logf("  open(missing file) = %d", ok);
      VP_CHECK(c, !ok, "cxx-open", "config_parser::open reports success for a missing file");
      c.label("cxx:open-missing");
    } else {
      int k = op == 3 ? 1 : 0;
      bool ok = parse.open(file[k].name.c_str());
      if (use_twin) twin.open(file[k].name.c_str());
      c.logf("  open(file %c) = %d", 'A' + k, ok);
      VP_CHECK(c, ok, "cxx-open", "config_parser::open failed on an existing file");
      cur = k;
      closed = false;
      fresh = true;
      at_end = false;
      c.label("cxx:open");
    }
  }
  if (fresh_ok >= 2) c.label("cxx:repeated-read-from-start");
  if (fresh_ok >= 2 || failed_on_populated) c.nontrivial();
}

// ---- allocation-failure injection: the k-th allocation the library makes during a parse fails
//
// The same parse runs first on a twin target without injection (counting the library's allocation calls n), then on the target
// under test with the k-th call (k drawn in 1..n) returning NULL once. C08: the parse succeeds completely (same tree as the twin)
// or reports an error and leaves the target exactly as it was; nothing leaks; no invalid access; it terminates.
static std::string limits_from(Flags fl) {
  std::string s;
  static const struct { int bit; char ch; } map[] = {{NumStart, 'f'}, {NumCont, 'c'}, {Special, 's'}, {Space, 'w'}, {Empty, 'e'}, {Binary, 'b'}};
  for (auto &m : map) { if (fl.sect & m.bit) s += (char)(m.ch - 0x20); if (fl.opt & m.bit) s += m.ch; }
  return s;
}
static void pad_names(Ctx &c, std::vector<Node> &t, const std::vector<uint8_t> &pb, size_t &i) {
  // name lengths around the sizes at which a node or an identifier needs storage of its own
  static const size_t want[] = {20, 21, 22, 23, 84, 85, 86, 87, 100, 127, 128, 212, 230, 254, 255, 12};
  for (auto &n : t) {
    if (i < pb.size() && (pb[i] & 3) == 3 && !n.name.empty()) {
      size_t len = want[(pb[i] >> 2) & 15];
      while (n.name.size() < len) n.name += "abcdefghijklmnopqrstuvwxyz"[n.name.size() % 26];
    }
    ++i;
    pad_names(c, n.kids, pb, i);
  }
}
static void run_inject(Ctx &c) {
  static const int fam[] = {'*', 'x', ' ', '_'};
  static const char *opname[] = {"mpt_parse_node", "mpt_node_parse", "mpt_parse_config+mpt_node_append", "config_parser::read"};
  size_t op = c.weighted({4, 2, 3, 2});
  size_t fsel = c.weighted({3, 1, 3});
  Fmt f;
  if (fsel == 0) { f.null_text = true; decode(f); }
  else if (fsel == 1) { f.text = "{*} =;#! '\""; decode(f); }
  else f = draw_fmt(c, fam[c.weighted({6, 2, 2, 1})]);
  Flags fl = draw_flags(c);
  fl.sect &= 0x3f;
  fl.opt &= 0x3f;
  if (op == 3) { fl.sect = NumCont | Space | Special; fl.opt = NumCont; }  // fixed by the class
  bool populated = (op == 0 || op == 1 || op == 3) && c.chance(110);
  std::vector<uint8_t> deco = deco_bytes(c), mut, pb = c.bytes(c.range(0, 12));
  if (c.chance(70)) mut = c.bytes(c.range(1, 6));
  unsigned kdraw = c.u16();
  std::string limits = limits_from(fl);
  char lab[64];
  snprintf(lab, sizeof lab, "inject:%s", opname[op]);
  c.label(lab);
  c.logf("entry: allocation-failure injection into %s, %s target", opname[op], populated ? "populated" : "empty");
  c.logf("%s", show(f).c_str());
  c.logf("%s (limits \"%s\")", show(fl).c_str(), limits.c_str());

  GenLimits lim;
  lim.max_nodes = 12;
  lim.huge_values = false;
  lim.max_value = 300;
  TreeGen g(c, f, fl, lim);
  std::vector<Node> t = g.tree();
  size_t pi = 0;
  pad_names(c, t, pb, pi);
  make_expressible(t, f);
  Ctx dc(deco.data(), deco.size(), false);
  Printer pr(dc, f, !deco.empty());
  std::string doc = pr.render(t);
  Ctx mc(mut.data(), mut.size(), false);
  size_t nm = mut.empty() ? 0 : 1 + mc.weighted({5, 3, 1});
  for (size_t k = 0; k < nm; k++) mutate(c, mc, doc, f, false);
  c.logf("text (%zu bytes): %s", doc.size(), brief(doc, 1200).c_str());
  std::vector<Node> old;
  if (populated) {
    Flags any;
    TreeGen g2(c, f, any, lim);
    g2.sect_pool = g.sect_pool;
    g2.opt_pool = g.opt_pool;
    old = g2.tree();
    c.logf("target children before the parse:");
    log_tree(c, old);
  }

  ExactStr fmt_c(f.text, f.null_text), lim_c(limits, false);
  TmpFile file("a");
  if (op == 3) { sweep_stale_files(); VP_CHECK(c, file.write(doc), "harness", "cannot write %s", file.name.c_str()); }

  // one parse into 'target'; everything that is not part of the operation itself happens in 'prepare' (not under injection)
  struct Run {
    std::unique_ptr<Source> src;
    std::unique_ptr<TextFile> tf;
    std::unique_ptr<mpt::config_parser> cxx;
    CObj<parser_context> pc;
  };
  auto prepare = [&](Run &r) {
    if (op == 0 || op == 2) {
      r.src.reset(new Source(doc));
      r.src->bind(r.pc);
      r.pc->name.sect = fl.sect;
      r.pc->name.opt = fl.opt;
    } else if (op == 1) {
      r.tf.reset(new TextFile(doc, true));
    } else {
      r.cxx.reset(new mpt::config_parser);
      if (fsel) r.cxx->set_format(fmt_c.p);
      r.cxx->open(file.name.c_str());
    }
  };
  auto parse = [&](Run &r, node *target) -> int {
    if (op == 0) return mpt_parse_node(target, r.pc, fmt_c.p);
    if (op == 1) return mpt_node_parse(target, r.tf->f, fmt_c.p, lim_c.p, 0);
    if (op == 3) return r.cxx->read(*target, 0);
    // mpt_parse_config with a handler that stores through mpt_node_append, the way mpt_parse_node and parser::read do
    CObj<parser_format> pf;
    input_parser_t fn = mpt_parse_next_fcn(mpt_parse_format(pf, fmt_c.p));
    CObj<node> conf;
    node *curr = conf.get();
    struct H {
      static int save(void *ctx, const path *p, const value *v, int last, int cur) {
        node **pos = (node **)ctx, *next = mpt_node_append(*pos, p, v, last, cur);
        if (!next) return -4;
        *pos = next;
        return 0;
      }
    };
    r.pc->prev = (uint8_t)parser_context::Section;
    int rc = mpt_parse_config(fn, pf.get(), r.pc, H::save, &curr);
    if (rc < 0) { mpt_node_clear(conf); return rc; }
    target->children = conf->children;
    for (node *n = target->children; n; n = n->next) n->parent = target;
    return rc;
  };

  // twin: same start, no injection, counts the allocations
  Root twin, target;
  VP_CHECK(c, build(twin.get(), old) && build(target.get(), old), "harness", "could not build the target trees");
  Snapshot before, after, twin_after;
  before.take(target.get());
  int r_twin;
  long n;
  {
    Run r;
    prepare(r);
    alloc_fail_after(0);
    r_twin = parse(r, twin.get());
    n = alloc_calls();
  }
  twin_after.take(twin.get());
  c.logf("without injection: %d, %ld library allocations, %zu nodes in the target afterwards", r_twin, n, twin_after.addr.size());
  if (n <= 0) { c.label("inject:no-allocation-in-the-parse"); return; }
  long k = 1 + (long)(kdraw % (unsigned long)n);
  int r;
  long hit;
  {
    Run rr;
    prepare(rr);
    long f0 = alloc_failures();
    alloc_fail_after(k);
    r = parse(rr, target.get());
    alloc_fail_after(0);
    hit = alloc_failures() - f0;
  }
  after.take(target.get());
  c.logf("allocation %ld of %ld fails: %s = %d%s", k, n, opname[op], r, hit ? "" : "   (the failing allocation was not reached)");
  if (hit) c.label("inject:allocation-failed");
  std::string w = walk(target.get());
  if (r < 0) {
    std::string d = diff(before.tree, after.tree);
    VP_CHECK(c, d.empty() && before.addr == after.addr, "inject-failed-parse-changed-tree", "allocation %ld of %ld failed, %s = %d, but the target differs from before: %s", k, n, opname[op], r, d.empty() ? "other nodes" : d.c_str());
    VP_CHECK(c, w.empty(), "inject-failed-parse-changed-tree", "allocation %ld of %ld failed, %s = %d, target no longer sound: %s", k, n, opname[op], r, w.c_str());
    c.label("inject:error-reported");
  } else {
    VP_CHECK(c, r_twin >= 0, "inject-verdict", "%s = %d with allocation %ld of %ld failing, %d without injection", opname[op], r, k, n, r_twin);
    std::string d = diff(twin_after.tree, after.tree);
    VP_CHECK(c, d.empty(), "inject-incomplete-success", "allocation %ld of %ld failed, %s = %d (success), but the tree differs from the parse without injection: %s", k, n, opname[op], r, d.c_str());
    VP_CHECK(c, w.empty(), "tree-links", "allocation %ld of %ld failed, %s = %d, resulting tree: %s", k, n, opname[op], r, w.c_str());
    c.label(hit ? "inject:success-despite-failure" : "inject:success");
  }
  if (hit) c.nontrivial();
}

static void run(Ctx &c) {
  // ---- format and flags
  uint8_t sel = c.u8();
  if (sel >= 0x60 && sel < 0x80) { run_cxx(c); return; }
  if (sel >= 0x40 && sel < 0x60) { run_format(c); return; }
  if (sel >= 0x20 && sel < 0x40) { run_node_parse(c); return; }
  if (sel >= 0x80 && sel < 0x88) { run_sources(c); return; }
  if (sel >= 0x88 && sel < 0x90) { run_inject(c); return; }
  bool sane = !(sel >= 156);  // (was c.chance(100): same byte, same meaning)
  static const int fam[] = {'*', 'x', ' ', '_'};
  int family = fam[c.weighted({6, 2, 2, 1})];
  Fmt doc_fmt = draw_fmt(c, family);        // the documents are written for this delimiter set
  Fmt f = sane ? doc_fmt : hostile_fmt(c);  // the parser is told this one
  Flags fl = draw_flags(c);
  if (c.chance(20)) { fl.sect = c.u16(); fl.opt = c.u16(); }
  c.logf("parser %s", show(f).c_str());
  if (!sane) c.logf("documents written for %s", show(doc_fmt).c_str());
  c.logf("%s", show(fl).c_str());
  c.label(sane ? "fmt:well-formed" : "fmt:hostile");
  if (f.sstart && f.sstart == f.send) c.label("fmt:start==end");

  // ---- entry point
  int entry = (int)c.weighted({4, 2, 4, 3});
  static const char *ename[] = {"parse_config", "parse_node(empty root)", "parse_node(populated root)", "parse_node twice"};
  c.logf("entry: %s", ename[entry]);
  c.label(ename[entry]);
  bool allow_huge = c.chance(40);

  // ---- input
  std::vector<uint8_t> deco1 = deco_bytes(c), deco2 = deco_bytes(c);
  std::vector<uint8_t> mut1 = c.bytes(c.range(0, 12)), mut2 = c.bytes(c.range(0, 6));  // set aside for the mutations
  GenLimits lim;
  lim.max_nodes = 24;
  lim.huge_values = false;
  lim.max_value = 300;
  auto make_doc = [&](std::vector<uint8_t> &deco, std::vector<uint8_t> &mut, std::vector<std::string> *sect_pool, std::vector<std::string> *opt_pool) -> std::string {
    std::string doc;
    if (c.chance(40)) { doc = token_soup(c, f); c.label("input:token-soup"); }
    else {
      TreeGen g(c, doc_fmt, fl, lim);
      if (sect_pool) { g.sect_pool = *sect_pool; g.opt_pool = *opt_pool; }
      std::vector<Node> t = g.tree();
      make_expressible(t, doc_fmt);
      Ctx dc(deco.data(), deco.size(), false);
      Printer pr(dc, doc_fmt, !deco.empty());
      doc = pr.render(t);
      if (sect_pool) { *sect_pool = g.sect_pool; *opt_pool = g.opt_pool; }
      Ctx mc(mut.data(), mut.size(), false);
      size_t nm = mut.empty() ? 0 : 1 + mc.weighted({5, 3, 1});
      for (size_t i = 0; i < nm; i++) mutate(c, mc, doc, doc_fmt, allow_huge);
      c.label(nm ? "input:mutated-document" : "input:document");
    }
    return doc;
  };
  std::vector<std::string> sect_pool, opt_pool;
  std::string doc = make_doc(deco1, mut1, &sect_pool, &opt_pool);
  long error_at = -1;
  if (c.chance(16)) { error_at = (long)c.range(0, doc.size()); c.label("input:read-error"); }
  c.logf("input (%zu bytes%s): %s", doc.size(), error_at >= 0 ? ", read error inside" : "", brief(doc, 1500).c_str());
  if (error_at >= 0) c.logf("read error at index %ld", error_at);
  bool big = doc.size() > 60000;

  if (entry == 0) { run_config(c, f, fl, doc, error_at); if (big) c.label("input:>=64k"); return; }

  Root root;
  int r0 = 0;
  size_t had = 0;
  if (entry == 2) {
    // target tree built by the harness from a second generated tree that shares names with the document
    TreeGen g(c, doc_fmt, fl, lim);
    g.sect_pool = sect_pool;
    g.opt_pool = opt_pool;
    std::vector<Node> t = g.tree();
    if (f.family != '*') for (auto &n : t) n.section = false;
    c.logf("target tree before the parse:");
    log_tree(c, t);
    VP_CHECK(c, build(root.get(), t), "harness", "could not build the target tree");
    had = count_nodes(t);
  } else if (entry == 3) {
    std::string first = make_doc(deco2, mut2, &sect_pool, &opt_pool);
    c.logf("first input (%zu bytes): %s", first.size(), brief(first, 1500).c_str());
    r0 = parse_into(c, root.get(), f, fl, first, -1, "first parse");
    std::vector<Node> t;
    read_list(root.get()->children, t);
    had = count_nodes(t);
  }
  int r = parse_into(c, root.get(), f, fl, doc, error_at, entry == 3 ? "second parse" : "parse");
  std::vector<Node> t;
  read_list(root.get()->children, t);
  size_t depth = tree_depth(t);
  if (had && r >= 0) c.label("node:merged-into-populated-root");
  if (had && r < 0) c.label("node:rejected-with-populated-root");
  if (depth >= 2) c.label("depth>=2");
  if (big) c.label("input:>=64k");
  if (depth >= 2 || (r < 0 && doc.size() > 4) || (had && r >= 0)) c.nontrivial();
  (void)r0;
}

static Target t = {
    "C08",
    "random: parser format (well-formed delimiter set of the families '*','x',' ','_' | hostile: any punctuation per position incl. equal start/end, absent entries, short strings, "
    "NULL, unknown family, arbitrary bytes) x name flags x input (C09-printed document with 0-3 mutations: truncate, duplicate/delete/insert delimiter, stray quote, NUL, high bytes, "
    "runs near 255/256/65535/65536, byte replace/swap; or token soup; optional read error) x entry (mpt_parse_config with recording handler that may refuse an element | mpt_parse_node into empty / "
    "harness-built populated / previously parsed root). non-trivial: parse reached depth >= 2, or failed after at least one accepted element (parse_node: failed on a non-empty input), "
    "or merged into a populated root. C++ front end (1 case in 8): mpt::config_parser (default / layout / drawn format, built-in name flags) on two generated files, open then 2-14 of "
    "read / reset / open A / open B / open missing, differential against mpt_parse_node on the same bytes; non-trivial: >= 2 non-empty reads from the start of a file or a failed read "
    "into a populated target. Format descriptions (1 case in 8): drawn description (six head positions incl. blanks/high bytes, 0-7 comment, 0-6 quote characters, blanks, leftovers; "
    "short; NULL) through mpt_parse_format against an independent reading, then a generated text parsed with the described format and with the same delimiters set directly; "
    "non-trivial: full description and >= 2 elements delivered. mpt_node_parse (1 case in 8): target with/without children x FILE (memory stream/tmpfile over generated, mutated or token-soup "
    "text, or NULL) x drawn format description x limits string (flag letters, refused characters, white space, empty, NULL), differential against mpt_parse_node; non-trivial: the target had "
    "children. Character sources (1 case in 32): one text with UTF-8 and stray high bytes through callback / mpt_getchar_stdio / mpt_getchar_file (pipe, memfd, tmpfile fd) / "
    "mpt::config_parser, all must agree; non-trivial: high bytes present and >= 2 elements. Allocation-failure injection (1 case in 32): one of the four parse entry points on a "
    "twin (counting n library allocations) and with allocation k of n failing; non-trivial: the failure was reached. Distinct by hash of the draw sequence.",
    run,
    {2500, 6000},
    false,
    true,
    {},
    0,
    2,
};
Target &vp::target() { return t; }
