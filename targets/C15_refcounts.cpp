// C15 — reference counts track handles exactly      vp-link: core io plot
//
// One object kind per case (selector byte), histories of taking/copying/assigning/dropping references over
// <= 3 objects and a few handles:
//   counter    mpt_refcount_raise/lower and the C++ refcount::raise/lower on counters preset to 0,1,2,MAX-1,MAX
//   buffer     shared buffers behind array handles: mpt_array_clone, vptr addref/unref, mpt_array_traits init/fini, detach
//   metaref    harness metatypes behind mpt_meta_reference_traits (slots and typed buffers of references)
//   convert    replacing a held metatype reference through mpt_value_convert(TypeMetaRef) (_mpt_metatype_wrap)
//   cxxref     C++ reference<T> copy/assign/move/detach/set_instance, T counting itself or reference<T>::type
//   meta       geninfo and buffer metatypes of the library: clone / addref / unref
//   reply      mpt_reply_deferrable: metatype references and deferred reply contexts share one counter
//   rawdata    mpt_rawdata_create (mptplot): addref / unref / clone, populated with stage data
// O: model count per object; the object is alive iff the model count is > 0 (harness objects: destructor ran
//    exactly once exactly at the last release; library objects: __asan_address_is_poisoned on the object);
//    a counter at 0 or at its maximum refuses to be raised and keeps its value; replacing a held reference
//    releases the old referent once and retains the new one once; leak check at case end.
// The C++ refcount members are compiled from the repository's mpt++/refcount_wrap.cpp (included below), the
// target links the C libraries only so that the C implementations of the metatypes are the ones under test.
#include "vp.hpp"
#include "lifetrack.hpp"

#include "values.h"
#define protected public
#include "notify.h"           // mptio: mpt_input_reference_traits(), struct notify (C view of its members)
#undef protected
#include <sys/mman.h>
#include <sys/socket.h>
#include <fcntl.h>
#include <unistd.h>
#include "refcount_wrap.cpp"  // $VERIF_REPO/mpt++/refcount_wrap.cpp
// the C++ array templates (item_array<T>::append) need a few members that live in libmpt++; the library itself is not
// linked (it would replace mpt_meta_new / mpt_meta_buffer), so the repository's sources of exactly these members are compiled in
#include "identifier.cpp"
#include "array.cpp"
#include "value.cpp"
#include "type_traits_wrap.cpp"

using namespace vp;
using namespace mpt;
using lt::HMeta;
using lt::MetaPool;
using lt::Tracker;
using lt::Viol;

static uint32_t flags_of(CBuf *b) { return b->vptr->get_flags(b); }
static bool poisoned(const void *p) { return __asan_address_is_poisoned(p) != 0; }

// ------------------------------------------------------------------ counter
static void run_counter(Ctx &c) {
  static const uintptr_t presets[] = {0, 1, 2, UINTPTR_MAX - 1, UINTPTR_MAX, UINTPTR_MAX - 2, 3};
  uintptr_t v = presets[c.pick(7)];
  bool cxx = c.flip();
  CObj<refcount> r;
  r->_val = v;
  c.logf("counter preset to %#lx, %s interface", (unsigned long)v, cxx ? "C++ refcount::raise/lower" : "C mpt_refcount_raise/lower");
  c.label(cxx ? "counter:c++" : "counter:c");
  bool boundary = false;
  while (c.more()) {
    bool raise = c.chance(150);
    uintptr_t ret = raise ? (cxx ? r->raise() : mpt_refcount_raise(r)) : (cxx ? r->lower() : mpt_refcount_lower(r));
    uintptr_t now = r->_val;
    c.logf("%s at %#lx -> returns %#lx, value %#lx", raise ? "raise" : "lower", (unsigned long)v, (unsigned long)ret, (unsigned long)now);
    if (raise) {
      if (v == 0 || v == UINTPTR_MAX) {
        boundary = true;
        c.label(v ? "counter:raise-at-max" : "counter:raise-at-zero");
        VP_CHECK(c, ret == 0, "raise-not-refused", "raise at %#lx returned %#lx instead of reporting failure", (unsigned long)v, (unsigned long)ret);
        VP_CHECK(c, now == v, "raise-changed-value", "refused raise at %#lx left the counter at %#lx", (unsigned long)v, (unsigned long)now);
      } else {
        VP_CHECK(c, now == v + 1, "raise-value", "raise at %#lx left the counter at %#lx", (unsigned long)v, (unsigned long)now);
        VP_CHECK(c, ret == now, "raise-result", "raise at %#lx returned %#lx, counter is %#lx", (unsigned long)v, (unsigned long)ret, (unsigned long)now);
      }
    } else {
      if (v == 0) {
        boundary = true;
        c.label("counter:lower-at-zero");
        VP_CHECK(c, now == 0, "lower-wrapped", "lower at 0 left the counter at %#lx", (unsigned long)now);
        VP_CHECK(c, ret != 0, "lower-at-zero-reports-last", "lower at 0 returned 0: the owner would destroy the object a second time");
      } else {
        if (v == 1) c.label("counter:last-reference");
        VP_CHECK(c, now == v - 1, "lower-value", "lower at %#lx left the counter at %#lx", (unsigned long)v, (unsigned long)now);
        VP_CHECK(c, ret == now, "lower-result", "lower at %#lx returned %#lx, remaining %#lx", (unsigned long)v, (unsigned long)ret, (unsigned long)now);
      }
    }
    v = now;
  }
  if (boundary) c.nontrivial();
}

// ------------------------------------------------------------------ shared buffers
struct Obs {
  Viol viol;
  Tracker trk;
  MetaPool metas;
  Obs() { trk.viol = &viol; metas.viol = &viol; }
};
static Obs *W;
static int tok_init(void *p, const void *src) { return W ? W->trk.init(p, src, 16) : -1; }
static void tok_fini(void *p) { if (W) W->trk.fini(p, 16); }
static const type_traits kTok(16, tok_fini, tok_init);
static const type_traits kTok2(16, tok_fini, tok_init);  // a second, distinct content type with the same behaviour

struct BufObj {
  CBuf *b;
  std::vector<uint64_t> toks;
  long extra = 0;  // references the harness took through vptr->addref
  bool mapped = false;     // _mpt_buffer_map: memory the heap checker does not see
  bool gone_seen = false;  // the unmapping was observed (later the address may belong to somebody else)
};
// is the page that starts a memory mapped buffer still mapped?  (mincore reports ENOMEM for unmapped addresses)
static bool page_mapped(const void *p) {
  static long psz = sysconf(_SC_PAGESIZE);
  unsigned char vec = 0;
  void *page = (void *)((uintptr_t)p & ~(uintptr_t)(psz - 1));
  return mincore(page, 1, &vec) == 0;
}

// a slice is an array handle (base class in the C++ view, first member in C) plus offset and visible length
static array *arr_of(slice *s) { return s; }
static array *arr_of(CObj<slice> &s) { return s.get(); }
static void run_buffer(Ctx &c, bool outer = false, bool mapped = false) {
  Obs obs;
  W = &obs;
  struct Guard { ~Guard() { W = 0; } } guard;
  std::vector<BufObj> objs;
  const type_traits *at = mpt_array_traits();
  CObj<array> h[3], slot[2];
  CObj<slice> sl[2];  // slice handles: an array member (one buffer reference) plus offset/visible length
  // outer variant: two handles on buffers of array elements (mpt_array_traits) that name the buffers of h[]; re-typed by mpt_array_reserve
  CObj<array> out[2];
  const type_traits at_alias(at->size, at->fini, at->init);
  auto holds_arrays = [&](const type_traits *t) { return t && t->fini == at->fini; };
  auto out_elements = [&](auto &&fn) {  // every array element in the distinct outer buffers
    CBuf *first = 0;
    for (auto &o : out) {
      CBuf *b = cbuf(o);
      if (!b || b == first || !holds_arrays(b->traits)) continue;
      if (!first) first = b;
      for (size_t e = 0; e < b->used / sizeof(void *); e++) fn(((CBuf **)b->data())[e]);
    }
  };
  bool nontrivial = false;
  c.label(outer ? "buffer:outer-variant" : mapped ? "buffer:mapped-variant" : "buffer");
  auto adopt = [&](CBuf *b) {  // register a buffer object the library created (detach copy) or the harness made
    for (auto &o : objs) if (o.b == b && !o.toks.empty() && obs.trk.live.count(o.toks[0])) return;
    BufObj o;
    o.b = b;
    o.mapped = (flags_of(b) & BufferMapped) != 0;
    if (b->traits) for (size_t i = 0; i < b->used / 16; i++) { uint64_t t; memcpy(&t, b->data() + 16 * i, 8); o.toks.push_back(t); }  // raw buffers (slice scenario) hold no elements
    objs.push_back(o);
  };
  auto index = [&](CBuf *b) -> int {
    for (int i = (int)objs.size() - 1; i >= 0; i--) if (objs[i].b == b) return i;  // newest first: an address may be reused
    return -1;
  };
  auto check = [&](const char *op) {
    obs.viol.raise(c, op);
    std::vector<long> cnt(objs.size(), 0);
    std::vector<bool> newest(objs.size(), true);
    for (size_t i = 0; i < objs.size(); i++) for (size_t j = i + 1; j < objs.size(); j++) if (objs[j].b == objs[i].b) newest[i] = false;
    for (auto &x : h) if (cbuf(x)) { int i = index(cbuf(x)); VP_CHECK(c, i >= 0, "harness", "unknown buffer in handle"); cnt[i]++; }
    for (auto &x : slot) if (cbuf(x)) { int i = index(cbuf(x)); VP_CHECK(c, i >= 0, "harness", "unknown buffer in slot"); cnt[i]++; }
    for (auto &x : sl) if (cbuf(arr_of(x))) { int i = index(cbuf(arr_of(x))); VP_CHECK(c, i >= 0, "harness", "unknown buffer in slice"); cnt[i]++; }
    for (auto &o : out) if (cbuf(o) && !holds_arrays(cbuf(o)->traits)) VP_CHECK(c, cbuf(o)->used == 0, "retype-result", "after %s: outer buffer re-typed to %s keeps %zu bytes of content", op, cbuf(o)->traits ? "token elements" : "raw bytes", cbuf(o)->used);
    out_elements([&](CBuf *b) { if (!b) return; int i = index(b); VP_CHECK(c, i >= 0, "unknown-reference", "after %s: an outer array element names an unknown buffer", op); cnt[i]++; });
    obs.trk.tally_begin();
    for (size_t i = 0; i < objs.size(); i++) {
      BufObj &o = objs[i];
      long expect = cnt[i] + o.extra;
      bool live = true;
      for (uint64_t t : o.toks) if (!obs.trk.live.count(t)) live = false;
      c.logf("    buffer #%zu: %ld handle(s)/slot(s) + %ld harness reference(s); elements %s", i, cnt[i], o.extra, live ? "alive" : "finalised");
      if (expect > 0) {
        VP_CHECK(c, live, "released-early", "after %s: buffer #%zu is still referenced %ld time(s) but its elements were finalised", op, i, expect);
        if (o.mapped) VP_CHECK(c, page_mapped(o.b), "released-early", "after %s: memory mapped buffer #%zu is still referenced %ld time(s) but was unmapped", op, i, expect);
        else VP_CHECK(c, !poisoned(o.b), "released-early", "after %s: buffer #%zu is still referenced %ld time(s) but its memory was freed", op, i, expect);
        bool shared = flags_of(o.b) & BufferShared;
        VP_CHECK(c, shared == (expect > 1), "count-mismatch", "after %s: buffer #%zu has %ld reference(s) but reports %s", op, i, expect, shared ? "shared" : "not shared");
        // exact count: addref returns the raised counter (mpt_refcount_raise), unref takes the probe back
        uintptr_t probe = o.b->vptr->addref(o.b);
        o.b->vptr->unref(o.b);
        VP_CHECK(c, probe == (uintptr_t)expect + 1, probe > (uintptr_t)expect + 1 ? "not-released" : "released-early", "after %s: buffer #%zu should have %ld reference(s), an additional addref returned %lu", op, i, expect, (unsigned long)probe);
        for (uint64_t t : o.toks) obs.trk.tally_token(t);
      } else {
        VP_CHECK(c, !live || o.toks.empty(), "not-released", "after %s: the last reference to buffer #%zu was dropped but its elements are still alive", op, i);
        if (o.mapped) {  // checked when the count reaches 0: afterwards the address range may be mapped again for somebody else
          if (newest[i] && !o.gone_seen) VP_CHECK(c, !page_mapped(o.b), "not-released", "after %s: the last reference to memory mapped buffer #%zu was dropped but the mapping still exists", op, i);
          o.gone_seen = true;
        }
        else if (newest[i]) VP_CHECK(c, poisoned(o.b), "not-released", "after %s: the last reference to buffer #%zu was dropped but its memory is still allocated", op, i);
      }
    }
    std::string first;
    size_t lost = obs.trk.unseen(first);
    VP_CHECK(c, !lost, "not-released", "after %s: %zu element(s) of no referenced buffer are still alive, e.g. %s", op, lost, first.c_str());
  };
  auto alive_objs = [&]() { std::vector<int> v; for (size_t i = 0; i < objs.size(); i++) { long n = objs[i].extra; for (auto &x : h) if (cbuf(x) == objs[i].b) n++; for (auto &x : slot) if (cbuf(x) == objs[i].b) n++; for (auto &x : sl) if (cbuf(arr_of(x)) == objs[i].b) n++; out_elements([&](CBuf *b) { if (b == objs[i].b) n++; }); bool newest = true; for (size_t j = i + 1; j < objs.size(); j++) if (objs[j].b == objs[i].b) newest = false; if (n > 0 && newest) v.push_back((int)i); } return v; };
  while (c.more()) {
    switch (outer ? c.weighted({6, 12, 6, 8, 8, 6, 6, 6, 6, 9, 3, 12, 12, 3, 3}) : mapped ? c.weighted({3, 12, 6, 8, 8, 4, 4, 12, 5, 7, 3, 0, 0, 0, 0, 12}) : c.weighted({6, 12, 6, 8, 8, 6, 6, 6, 6, 9, 3})) {
      case 15: {  // mapped variant: a handle gets a raw memory mapped buffer (flags none / immutable / no-copy)
        int i = (int)c.pick(3);
        if (cbuf(h[i]) || objs.size() >= 8) break;
        int fl = (int)c.weighted({3, 5, 2});
        fl = fl == 0 ? 0 : fl == 1 ? BufferImmutable : BufferNoCopy;
        size_t n = c.near({0, 1, 100}, 300);
        buffer *b = _mpt_buffer_map(n, fl);
        if (!b) { c.label("buffer:map-refused"); break; }
        memset(b + 1, 0x6d, n);
        b->_used = n;
        cbuf(h[i]) = (CBuf *)b;
        adopt((CBuf *)b);
        c.logf("h%d = new memory mapped raw buffer #%zu with %zu bytes, flags %x (size %zu)", i, objs.size() - 1, n, fl, ((CBuf *)b)->size);
        c.label(fl == BufferImmutable ? "buffer:map-immutable" : fl ? "buffer:map-nocopy" : "buffer:map");
        check("create mapped");
        break;
      }
      case 11: {  // outer variant: copy a handle into an element of an outer array of arrays
        int k = (int)c.pick(2), j = (int)c.pick(3);
        CBuf *ob = cbuf(out[k]);
        if (ob && !holds_arrays(ob->traits)) break;  // re-typed: assignments of array elements are refused (covered by reserve)
        size_t n = ob ? ob->used / sizeof(void *) : 0, pos = c.range(0, n + 1);
        void *r = mpt_array_set(out[k], ob ? ob->traits : at, sizeof(void *), h[j].get(), (long)pos);
        c.logf("mpt_array_set(outer%d, element %zu of %zu <- h%d) %s", k, pos, n, j, r ? "ok" : "refused");
        if (r && pos < n) nontrivial = true;
        c.label("buffer:outer-set");
        check("outer set");
        break;
      }
      case 12: {  // mpt_array_reserve on the outer array: keep, alias, token elements, raw bytes; from any of them
        int k = (int)c.pick(2);
        CBuf *ob = cbuf(out[k]);
        const type_traits *was = ob ? ob->traits : 0;
        static const char *names[] = {"the same content type", "an alias traits object (same finaliser)", "token elements (other finaliser)", "raw bytes"};
        int to = (int)c.weighted({3, 3, 3, 6});
        const type_traits *want = to == 0 ? (ob ? was : at) : to == 1 ? (was == &at_alias ? at : &at_alias) : to == 2 ? &kTok : 0;
        size_t used = ob ? ob->used : 0, len = c.near({0, used, 64}, 200);
        bool shared = ob && (flags_of(ob) & BufferShared);
        size_t elems = (ob && holds_arrays(was)) ? used / sizeof(void *) : 0;
        c.logf("mpt_array_reserve(outer%d, %zu bytes, %s) on %s buffer with %zu array element(s)", k, len, names[to], !ob ? "no" : shared ? "a shared" : "a private", elems);
        buffer *r = mpt_array_reserve(out[k], len, want);
        c.logf("  -> %s", r ? "ok" : "refused");
        if (r) {
          VP_CHECK(c, cbuf(out[k]) == (CBuf *)r && cbuf(out[k])->traits == want, "retype-result", "mpt_array_reserve returned a buffer with another content type than requested");
          if (elems && !holds_arrays(want)) { nontrivial = true; c.label(want ? "retype:arrays-to-token" : "retype:arrays-to-raw"); }
          else if (elems && want != was) c.label("retype:arrays-to-alias");
          else if (ob && !holds_arrays(was) && holds_arrays(want)) c.label(was ? "retype:token-to-arrays" : "retype:raw-to-arrays");
          if (shared) c.label("retype:shared-buffer");
        }
        check("outer reserve");
        break;
      }
      case 13: {  // share the outer buffer between the two outer handles
        int k = (int)c.pick(2);
        if (!cbuf(out[1 - k])) break;
        if (cbuf(out[k]) && cbuf(out[k])->traits != cbuf(out[1 - k])->traits) break;
        c.logf("mpt_array_clone(outer%d, outer%d)", k, 1 - k);
        mpt_array_clone(out[k], out[1 - k]);
        check("outer clone");
        break;
      }
      case 14: {  // release an outer handle
        int k = (int)c.pick(2);
        if (!cbuf(out[k])) break;
        c.logf("mpt_array_clone(outer%d, NULL)", k);
        mpt_array_clone(out[k], 0);
        nontrivial = true;
        check("outer release");
        break;
      }
      case 8: {  // attach a slice to the buffer of a handle (a handle without buffer gets a raw one first)
        int k = (int)c.pick(2), j = (int)c.pick(3);
        slice *v = sl[k].get();
        if (cbuf(arr_of(v))) { mpt_array_clone(arr_of(v), 0); v->_off = v->_len = 0; }
        if (!cbuf(h[j])) {
          if (objs.size() >= 8) { check("slice release"); break; }
          size_t n = c.range(0, 70);
          std::vector<uint8_t> bytes(n + 1, 0x5a);
          VP_CHECK(c, mpt_array_append(h[j], n, bytes.data()) && cbuf(h[j]), "harness", "mpt_array_append failed");
          adopt(cbuf(h[j]));
          c.logf("h%d = new raw buffer #%zu with %zu bytes", j, objs.size() - 1, n);
        }
        CBuf *b = cbuf(h[j]);
        int r = mpt_array_clone(arr_of(v), h[j]);
        VP_CHECK(c, r >= 0 && cbuf(arr_of(v)) == b, "clone-result", "mpt_array_clone into the array member of a slice returned %d", r);
        // a fresh slice sees nothing yet; otherwise it covers a drawn part of the data (raw buffers only)
        size_t vis = (!b->traits && b->used && c.flip()) ? c.range(1, b->used) : 0;
        v->_off = vis ? c.range(0, b->used - vis) : 0;
        v->_len = vis;
        c.logf("slice%d attached to the buffer of h%d (offset %zu, visible length %zu of %zu)", k, j, (size_t)v->_off, vis, b->used);
        c.label(vis ? "buffer:slice-attach-view" : "buffer:slice-attach-empty");
        check("slice attach");
        break;
      }
      case 9: {  // write through the slice: in place when it owns the buffer alone, otherwise it moves to a new buffer
        int k = (int)c.pick(2);
        slice *v = sl[k].get();
        CBuf *before = cbuf(arr_of(v));
        size_t nblk = c.range(0, 3), size = c.range(1, 24);
        uint8_t data[96];
        memset(data, 0x77, sizeof data);
        uint32_t fl = before ? flags_of(before) : 0;
        bool had_view = v->_len != 0, typed = before && before->traits;  // 'before' may be gone after the call
        ssize_t r = mpt_slice_write(v, nblk, c.flip() ? data : 0, size);
        CBuf *now = cbuf(arr_of(v));
        c.logf("mpt_slice_write(slice%d, %zu block(s) of %zu bytes; buffer %s, visible length %s) returns %zd -> %s", k, nblk, size,
               !before ? "none" : (fl & BufferShared) ? "shared" : "unique", had_view ? "> 0" : "0", r, now == before ? "same buffer" : "new buffer");
        if (typed) VP_CHECK(c, r < 0 && now == before, "slice-write-result", "mpt_slice_write on a typed buffer returned %zd", r);
        if (now && now != before) {
          adopt(now);
          if (before) { nontrivial = true; c.label((fl & BufferShared) ? (had_view ? "buffer:slice-leaves-shared-with-view" : "buffer:slice-leaves-shared-empty") : "buffer:slice-leaves-unique"); }
        } else if (r > 0) c.label("buffer:slice-write-in-place");
        check("slice write");
        break;
      }
      case 10: {  // release the slice
        int k = (int)c.pick(2);
        slice *v = sl[k].get();
        if (!cbuf(arr_of(v))) break;
        c.logf("slice%d released", k);
        mpt_array_clone(arr_of(v), 0);
        v->_off = v->_len = 0;
        nontrivial = true;
        check("slice release");
        break;
      }
      case 0: {  // create
        int i = (int)c.pick(3);
        if (cbuf(h[i]) || objs.size() >= 8) break;
        size_t n = c.range(0, 9);
        buffer *b = _mpt_buffer_alloc(n * 16, 0);
        b->_content_traits = (n & 1) ? &kTok2 : &kTok;  // parity of the element count picks the content type (no extra draw)
        for (size_t k = 0; k < n; k++) obs.trk.make((uint8_t *)(b + 1) + 16 * k, (uint32_t)objs.size() + 1, 16);
        b->_used = n * 16;
        cbuf(h[i]) = (CBuf *)b;
        adopt((CBuf *)b);
        c.logf("h%d = new buffer #%zu with %zu elements", i, objs.size() - 1, n);
        check("create");
        break;
      }
      case 1: {  // clone
        int i = (int)c.pick(3), j = (int)c.pick(3);
        if (i == j) break;
        if (!cbuf(h[j])) break;  // a source handle without buffer is C04's finding (NULL dereference)
        c.logf("mpt_array_clone(h%d, h%d)", i, j);
        if (cbuf(h[i]) && cbuf(h[i]) != cbuf(h[j]) && cbuf(h[i])->traits != cbuf(h[j])->traits) {
          // assignment between arrays of different content types is documented as refused (BadType):
          // nothing may change, in particular no reference may be taken on the source
          CBuf *was = cbuf(h[i]);
          int r = mpt_array_clone(h[i], h[j]);
          VP_CHECK(c, r < 0 && cbuf(h[i]) == was, "clone-result", "mpt_array_clone between different content types returned %d", r);
          c.label("buffer:clone-refused-type");
          nontrivial = true;
          check("refused clone (content type mismatch)");
          break;
        }
        int r = mpt_array_clone(h[i], h[j]);
        VP_CHECK(c, r >= 0 && cbuf(h[i]) == cbuf(h[j]), "clone-result", "mpt_array_clone returned %d", r);
        if (r == 3) nontrivial = true;
        c.label("buffer:clone");
        check("clone");
        break;
      }
      case 2: {  // release
        int i = (int)c.pick(3);
        if (!cbuf(h[i])) break;
        c.logf("mpt_array_clone(h%d, NULL)", i);
        mpt_array_clone(h[i], 0);
        VP_CHECK(c, !cbuf(h[i]), "clone-result", "handle keeps its buffer after release");
        nontrivial = true;
        c.label("buffer:release");
        check("release");
        break;
      }
      case 3: {  // addref through the v-table
        auto av = alive_objs();
        if (av.empty()) break;
        BufObj &o = objs[av[c.pick(av.size())]];
        uintptr_t r = o.b->vptr->addref(o.b);
        c.logf("buffer #%d ->addref() returns %lu", (int)(&o - objs.data()), (unsigned long)r);
        VP_CHECK(c, r != 0, "addref-refused", "addref on a live buffer reported failure");
        o.extra++;
        c.label("buffer:addref");
        check("addref");
        break;
      }
      case 4: {  // unref through the v-table
        auto av = alive_objs();
        std::vector<int> cand;
        for (int i : av) if (objs[i].extra > 0) cand.push_back(i);
        if (cand.empty()) break;
        BufObj &o = objs[cand[c.pick(cand.size())]];
        c.logf("buffer #%d ->unref()", (int)(&o - objs.data()));
        o.b->vptr->unref(o.b);
        o.extra--;
        nontrivial = true;
        c.label("buffer:unref");
        check("unref");
        break;
      }
      case 5: {  // array traits: copy-construct an array element from a handle
        int s = (int)c.pick(2), j = (int)c.pick(3);
        if (cbuf(slot[s])) break;
        bool null_src = c.chance(24);
        int r = at->init(slot[s], null_src ? 0 : h[j].get());
        c.logf("array traits init(slot%d, %s) returns %d", s, null_src ? "NULL" : ("h" + std::to_string(j)).c_str(), r);
        CBuf *want = null_src ? 0 : cbuf(h[j]);
        VP_CHECK(c, r >= 0 && cbuf(slot[s]) == want, "traits-init-result", "init returned %d, element holds %p, source %p", r, (void *)cbuf(slot[s]), (void *)want);
        c.label("buffer:traits-init");
        check("traits init");
        break;
      }
      case 6: {  // array traits: destroy the element
        int s = (int)c.pick(2);
        c.logf("array traits fini(slot%d)", s);
        bool had = cbuf(slot[s]) != 0;
        at->fini(slot[s]);
        VP_CHECK(c, !cbuf(slot[s]), "traits-fini-result", "finalised array element keeps its buffer pointer");
        if (had) { nontrivial = true; c.label("buffer:traits-fini"); }
        check("traits fini");
        break;
      }
      case 7: default: {  // private copy
        int i = (int)c.pick(3);
        if (!cbuf(h[i])) break;
        CBuf *before = cbuf(h[i]);
        bool shared = flags_of(before) & BufferShared;
        size_t len = c.pick(3) == 0 ? before->used : c.near({0, before->used, before->size}, before->size + 64);
        c.logf("detach h%d (capacity %zu, used %zu, %s)", i, len, before->used, shared ? "shared" : "unique");
        CBuf *n = before->vptr->detach(before, len);
        c.logf("  -> %s", !n ? "refused" : n == before ? "same buffer" : "new buffer");
        if (n) {
          cbuf(h[i]) = n;
          if (n != before && mapped) { nontrivial = true; c.label(shared ? "buffer:map-detach-shared" : "buffer:map-detach-sole-owner"); }
          if (n != before) {
            if (!shared) { int k = index(before); objs[k].toks.clear(); }  // moved: the old object is gone, its elements live on in the new one
            adopt(n);
            if (shared) { nontrivial = true; c.label("buffer:detach-copy"); }
          }
        } else if (shared) c.label("buffer:detach-refused");
        check("detach");
        break;
      }
    }
  }
  for (auto &x : h) if (cbuf(x)) mpt_array_clone(x, 0);
  for (auto &x : slot) at->fini(x);
  for (auto &o : out) if (cbuf(o)) { mpt_array_clone(o, 0); check("outer release"); }
  for (auto &x : sl) if (cbuf(arr_of(x))) { mpt_array_clone(arr_of(x), 0); check("slice release"); }
  for (auto &o : objs) while (o.extra > 0) { o.b->vptr->unref(o.b); o.extra--; }
  check("final release");
  VP_CHECK(c, obs.trk.live.empty(), "not-released", "%zu element(s) alive after every reference was dropped", obs.trk.live.size());
  if (nontrivial) c.nontrivial();
}

// ------------------------------------------------------------------ harness metatypes behind the reference traits / conversion
struct MetaWorld {
  Ctx &c;
  Obs obs;
  enum { R = 3 };
  HMeta *obj[R + 1] = {0};
  bool held[R + 1] = {false};
  uintptr_t bias[R + 1] = {0};  // preset counters: (bias) further holders that never let go during the history
  void preset(int r, uintptr_t start) { bias[r] = start - 1; obj[r]->refs = start; }
  // the preset holders let go: call after every real reference was dropped
  void drop_presets() {
    for (int r = 1; r <= R; r++) if (bias[r]) {
      VP_CHECK(c, obj[r]->refs == bias[r] && !obj[r]->destroyed, obj[r]->refs > bias[r] ? "not-released" : "released-early", "metatype #%d: counter %#lx after all real references were dropped, %#lx preset holders remain", r, (unsigned long)obj[r]->refs, (unsigned long)bias[r]);
      obj[r]->refs = 1;
      bias[r] = 0;
      MetaPool::s_unref(obj[r]);
    }
  }
  MetaWorld(Ctx &ctx) : c(ctx) {
    W = &obs;
    for (int r = 1; r <= R; r++) { obj[r] = obs.metas.create(); held[r] = true; }
  }
  ~MetaWorld() { W = 0; }
  int index(const void *p) { for (int r = 1; r <= R; r++) if (p == obj[r]) return r; return p ? -1 : 0; }
  void verify(const char *op, const long cnt[R + 1]) {
    obs.viol.raise(c, op);
    for (int r = 1; r <= R; r++) {
      long real = cnt[r] + (held[r] ? 1 : 0);
      uintptr_t expect = (uintptr_t)real + bias[r];
      c.logf("    metatype #%d: %ld reference slot(s) + %d harness reference%s, counter %#lx, destructor ran %d time(s)", r, cnt[r], held[r] ? 1 : 0, bias[r] ? " + preset holders" : "", (unsigned long)obj[r]->refs, obj[r]->destroyed);
      VP_CHECK(c, obj[r]->destroyed <= 1, "destroyed-twice", "after %s: destructor of metatype #%d ran %d times", op, r, obj[r]->destroyed);
      VP_CHECK(c, obj[r]->refs == expect, obj[r]->refs > expect ? "not-released" : "released-early",
               "after %s: metatype #%d has reference count %#lx but %ld reference(s) are held (preset holders %#lx)", op, r, (unsigned long)obj[r]->refs, real, (unsigned long)bias[r]);
      VP_CHECK(c, (obj[r]->destroyed == 1) == (expect == 0), expect ? "released-early" : "not-released", "after %s: metatype #%d: %ld reference(s) held, destructor ran %d time(s)", op, r, real, obj[r]->destroyed);
    }
  }
  int draw_obj() {
    int r = (int)c.range(0, R);
    return r && !obj[r]->destroyed ? r : 0;
  }
  bool drop_harness_ref() {
    int r = (int)c.range(1, R);
    if (!held[r]) return false;
    c.logf("harness drops its reference on metatype #%d", r);
    MetaPool::s_unref(obj[r]);
    held[r] = false;
    return true;
  }
};

static void run_metaref(Ctx &c, const type_traits *mt = mpt_meta_reference_traits(), const char *kind = "metaref", bool retype = false) {
  MetaWorld w(c);
  void *slot[4] = {0, 0, 0, 0};
  CObj<array> h[2];
  bool nontrivial = false;
  c.label(kind);
  // content types for mpt_array_reserve (retype variant): an alias object (same finaliser), the other kind of metatype
  // reference (other finaliser, same element layout), token elements, raw bytes
  const type_traits alias(mt->size, mt->fini, mt->init);
  const type_traits *other = (mt == mpt_meta_reference_traits()) ? mpt_input_reference_traits() : mpt_meta_reference_traits();
  auto holds_refs = [&](const type_traits *t) { return t && (t->fini == mt->fini || t->fini == other->fini); };
  if (retype) {  // variant: counters preset so that copies cross 2^32, 2^33 and reach the maximum
    static const uintptr_t starts[] = {1, 1, 1, 0xfffffffeull, 0xffffffffull, 0x100000000ull, 0x100000001ull, 0x1ffffffffull, UINTPTR_MAX - 1, 0xfffffffdull};
    for (int r = 1; r <= MetaWorld::R; r++) {
      uintptr_t st = starts[c.pick(10)];
      if (st > 1) { w.preset(r, st); c.label(st == UINTPTR_MAX - 1 ? "metaref:preset-max-1" : "metaref:preset-near-2^32"); }
    }
  }
  auto check = [&](const char *op) {
    long cnt[MetaWorld::R + 1] = {0};
    for (void *p : slot) { int r = w.index(p); VP_CHECK(c, r >= 0, "harness", "unknown pointer in slot"); cnt[r]++; }
    CBuf *first = 0;
    for (auto &x : h) {
      CBuf *b = cbuf(x);
      if (!b || b == first) continue;
      if (!first) first = b;
      if (retype && !holds_refs(b->traits)) {  // re-typed to raw bytes or token elements: no references, and nothing may be left of the old ones
        VP_CHECK(c, b->used == 0, "retype-result", "after %s: buffer re-typed to %s keeps %zu bytes of content", op, b->traits ? "token elements" : "raw bytes", b->used);
        continue;
      }
      for (size_t i = 0; i < b->used / sizeof(void *); i++) {
        int r = w.index(((void **)b->data())[i]);
        VP_CHECK(c, r >= 0, "unknown-reference", "after %s: buffer element %zu holds an unknown pointer", op, i);
        cnt[r]++;
      }
    }
    w.verify(op, cnt);
    cnt[0] = 0;
  };
  while (c.more()) {
    switch (retype ? c.weighted({10, 8, 10, 10, 4, 4, 3, 12}) : c.weighted({10, 8, 10, 10, 4, 4, 3})) {
      case 7: {  // mpt_array_reserve: keep, alias, other reference type, token elements, raw bytes; from any of them
        int i = (int)c.pick(2);
        CBuf *before = cbuf(h[i]);
        const type_traits *was = before ? before->traits : 0;
        static const char *names[] = {"the same content type", "an alias traits object (same finaliser)", "the other reference type (other finaliser)", "token elements", "raw bytes"};
        int to = (int)c.weighted({3, 3, 4, 2, 6});
        const type_traits *want = to == 0 ? (before ? was : mt) : to == 1 ? (was == &alias ? mt : &alias) : to == 2 ? (was && was->fini == other->fini ? mt : other) : to == 3 ? &kTok : 0;
        size_t used = before ? before->used : 0;
        size_t len = c.near({0, used, 64}, 200);
        bool shared = before && (flags_of(before) & BufferShared);
        size_t refs_before = (before && holds_refs(was)) ? used / sizeof(void *) : 0;
        c.logf("mpt_array_reserve(h%d, %zu bytes, %s) on %s buffer with %zu reference(s) of content type %s", i, len, names[to], !before ? "no" : shared ? "a shared" : "a private",
               refs_before, !before ? "-" : !was ? "raw" : was == &kTok ? "token" : was->fini == mt->fini ? (was == &alias ? "alias" : "main") : "other");
        buffer *r = mpt_array_reserve(h[i], len, want);
        c.logf("  -> %s", r ? "ok" : "refused");
        if (r) {
          VP_CHECK(c, cbuf(h[i]) == (CBuf *)r && cbuf(h[i])->traits == want, "retype-result", "mpt_array_reserve returned a buffer with another content type than requested");
          if (refs_before && !(want && was && want->fini == was->fini)) { nontrivial = true; c.label(!want ? "retype:refs-to-raw" : want == &kTok ? "retype:refs-to-token" : "retype:refs-to-other-finaliser"); }
          else if (refs_before && want != was) c.label("retype:refs-to-alias");
          else if (before && !holds_refs(was) && holds_refs(want)) c.label(was ? "retype:token-to-refs" : "retype:raw-to-refs");
          if (shared) c.label("retype:shared-buffer");
        }
        check("reserve");
        break;
      }
      case 0: {  // copy-construct a reference slot from an object or another slot
        int s = (int)c.pick(4);
        if (slot[s]) break;
        void *src;
        if (c.flip()) { int r = w.draw_obj(); src = r ? w.obj[r] : 0; }
        else src = slot[c.pick(4)];
        bool refuse = src && c.chance(24);
        w.obs.metas.refuse_addref = refuse;
        if (src && ((HMeta *)src)->refs == UINTPTR_MAX) { refuse = true; c.label("metaref:raise-at-maximum"); }  // the counter itself refuses
        bool null_src = c.chance(16);
        int r = mt->init(&slot[s], null_src ? 0 : &src);
        w.obs.metas.refuse_addref = false;
        c.logf("reference traits init(slot%d, %s metatype #%d)%s returns %d", s, null_src ? "NULL instead of" : "", w.index(src), refuse ? " with addref reporting failure" : "", r);
        if (refuse && !null_src) {
          VP_CHECK(c, r < 0, "refused-addref-ignored", "init succeeded although addref reported failure");
          slot[s] = 0;  // nothing was constructed
          c.label("metaref:addref-refused");
        } else {
          VP_CHECK(c, r >= 0 && slot[s] == (null_src ? 0 : src), "traits-init-result", "init returned %d, slot holds %p", r, slot[s]);
        }
        check("traits init");
        break;
      }
      case 1: {  // destroy a slot
        int s = (int)c.pick(4);
        c.logf("reference traits fini(slot%d holding metatype #%d)", s, w.index(slot[s]));
        if (slot[s]) nontrivial = true;
        mt->fini(&slot[s]);
        slot[s] = 0;  // the finaliser releases; the storage is dead afterwards
        check("traits fini");
        break;
      }
      case 2: {  // typed buffer of references: assign elements copied from the slots
        int i = (int)c.pick(2);
        size_t n = cbuf(h[i]) ? cbuf(h[i])->used / sizeof(void *) : 0;
        size_t k = c.range(0, 4), off = c.range(0, n + 1);
        c.logf("mpt_array_set(h%d, %zu reference(s) copied from the slots, offset %zu of %zu)", i, k, off, n);
        const type_traits *st = (retype && cbuf(h[i]) && holds_refs(cbuf(h[i])->traits)) ? cbuf(h[i])->traits : mt;  // retype variant: the handle's current reference type
        void *r = mpt_array_set(h[i], st, k * sizeof(void *), slot, (long)off);
        c.logf("  -> %s", r ? "ok" : "refused");
        if (r && off < n && k) nontrivial = true;
        c.label("metaref:array-set");
        check("array set");
        break;
      }
      case 3: {  // share / release / private copy of the typed buffer
        int i = (int)c.pick(2), j = 1 - i;
        int what = (int)c.pick(3);
        if (what == 0 && cbuf(h[j])) { c.logf("mpt_array_clone(h%d, h%d)", i, j); mpt_array_clone(h[i], h[j]); }
        else if (what == 1 && cbuf(h[i])) { c.logf("mpt_array_clone(h%d, NULL)", i); mpt_array_clone(h[i], 0); nontrivial = true; }
        else if (cbuf(h[i])) {
          bool shared = flags_of(cbuf(h[i])) & BufferShared;
          c.logf("mpt_array_reduce(h%d) (%s)", i, shared ? "shared: element-wise copy" : "unique");
          mpt_array_reduce(h[i]);
          if (shared) { nontrivial = true; c.label("metaref:array-copy"); }
        }
        check("array handle operation");
        break;
      }
      case 4: {  // remove elements from the buffer
        int i = (int)c.pick(2);
        CBuf *b = cbuf(h[i]);
        if (!b || (flags_of(b) & BufferShared)) break;
        size_t n = b->used / sizeof(void *);
        if (!n) break;
        size_t k = c.range(1, n), off = c.range(0, n - k);
        c.logf("mpt_buffer_cut(h%d, %zu reference(s) at %zu of %zu)", i, k, off, n);
        mpt_buffer_cut((buffer *)b, off * sizeof(void *), k * sizeof(void *));
        nontrivial = true;
        check("buffer cut");
        break;
      }
      case 5: if (w.drop_harness_ref()) { nontrivial = true; check("harness reference dropped"); } break;
      default: {  // harness takes/drops an extra reference directly
        int r = w.draw_obj();
        if (!r || !w.held[r]) break;
        uintptr_t v = MetaPool::s_addref(w.obj[r]);
        if (!v) { check("harness addref at the maximum"); break; }  // preset counter at its maximum: refused, nothing taken
        VP_CHECK(c, v == w.obj[r]->refs, "harness", "addref");
        MetaPool::s_unref(w.obj[r]);
        check("harness addref+unref");
        break;
      }
    }
  }
  for (auto &x : h) if (cbuf(x)) mpt_array_clone(x, 0);
  for (auto &p : slot) { mt->fini(&p); p = 0; }
  for (int r = 1; r <= MetaWorld::R; r++) if (w.held[r]) { MetaPool::s_unref(w.obj[r]); w.held[r] = false; }
  check("final release");
  w.drop_presets();
  check("preset holders released");
  if (nontrivial) c.nontrivial();
}

static void run_convert(Ctx &c) {
  MetaWorld w(c);
  void *dest[3] = {0, 0, 0};  // reference<metatype> compatible storage: each holds one reference or NULL
  bool nontrivial = false;
  c.label("convert");
  auto check = [&](const char *op) {
    long cnt[MetaWorld::R + 1] = {0};
    for (void *p : dest) { int r = w.index(p); VP_CHECK(c, r >= 0, "unknown-reference", "after %s: a reference slot holds an unknown pointer", op); cnt[r]++; }
    w.verify(op, cnt);
  };
  while (c.more()) {
    switch (c.weighted({14, 3, 3, 3, 3})) {
      case 0: {  // assign through conversion
        int d = (int)c.pick(3);
        void *src;
        int from = -1;
        if (c.chance(170)) { int r = w.draw_obj(); src = r ? w.obj[r] : 0; }
        else { from = (int)c.pick(3); src = dest[from]; }
        type_t st = c.flip() ? (type_t)TypeMetaRef : (type_t)TypeMetaPtr;
        bool refuse = src && c.chance(20);
        CObj<value> val;
        val->_addr = &src;
        val->_type = st;
        void *old = dest[d];
        w.obs.metas.refuse_addref = refuse;
        int r = mpt_value_convert(val, TypeMetaRef, &dest[d]);
        w.obs.metas.refuse_addref = false;
        c.logf("mpt_value_convert({%s, metatype #%d%s}, TypeMetaRef, &ref%d holding #%d)%s returns %d", st == (type_t)TypeMetaRef ? "TypeMetaRef" : "TypeMetaPtr", w.index(src),
               from >= 0 ? (" from ref" + std::to_string(from)).c_str() : "", d, w.index(old), refuse ? " with addref reporting failure" : "", r);
        if (refuse) {
          VP_CHECK(c, r < 0, "refused-addref-ignored", "conversion succeeded although the new referent could not be retained");
          VP_CHECK(c, dest[d] == old, "failed-conversion-changed-target", "failed conversion replaced the held reference");
          c.label("convert:addref-refused");
        } else {
          VP_CHECK(c, r >= 0, "conversion-refused", "assigning a metatype reference through conversion failed with %d", r);
          VP_CHECK(c, dest[d] == src, "conversion-result", "target holds %p after assigning %p", dest[d], src);
          if (old) { nontrivial = true; c.label(old == src ? "convert:self-assign" : src ? "convert:replace" : "convert:replace-with-null"); }
        }
        check("conversion");
        break;
      }
      case 1: {  // query only: no target
        int r0 = w.draw_obj();
        void *src = r0 ? w.obj[r0] : 0;
        CObj<value> val;
        val->_addr = &src;
        val->_type = TypeMetaRef;
        int r = mpt_value_convert(val, TypeMetaRef, 0);
        c.logf("mpt_value_convert({TypeMetaRef, metatype #%d}, TypeMetaRef, NULL) returns %d", r0, r);
        VP_CHECK(c, r >= 0, "conversion-refused", "type query failed with %d", r);
        check("conversion query");
        break;
      }
      case 2: {  // borrow the pointer (no reference change)
        int r0 = w.draw_obj();
        if (!r0) break;
        void *src = w.obj[r0], *out = 0;
        CObj<value> val;
        val->_addr = &src;
        val->_type = TypeMetaRef;
        int r = mpt_value_convert(val, TypeMetaPtr, &out);
        c.logf("mpt_value_convert({TypeMetaRef, metatype #%d}, TypeMetaPtr, &ptr) returns %d", r0, r);
        VP_CHECK(c, r >= 0 && out == src, "conversion-result", "pointer conversion returned %d, %p", r, out);
        check("pointer conversion");
        break;
      }
      case 3: {  // drop a held reference
        int d = (int)c.pick(3);
        if (!dest[d]) break;
        c.logf("release ref%d (metatype #%d) through the reference traits", d, w.index(dest[d]));
        mpt_meta_reference_traits()->fini(&dest[d]);
        dest[d] = 0;
        nontrivial = true;
        check("reference release");
        break;
      }
      default: if (w.drop_harness_ref()) check("harness reference dropped"); break;
    }
  }
  for (auto &p : dest) if (p) { mpt_meta_reference_traits()->fini(&p); p = 0; }
  for (int r = 1; r <= MetaWorld::R; r++) if (w.held[r]) { MetaPool::s_unref(w.obj[r]); w.held[r] = false; }
  check("final release");
  if (nontrivial) c.nontrivial();
}

// ------------------------------------------------------------------ C++ reference<T>
struct CxxState { long refs; int destroyed; int id; };
static std::map<const void *, CxxState> *g_cxx;
static bool g_refuse;
static Viol *g_viol;
// T that counts itself (like an interface implementation with its own counter)
struct SelfCounted {
  int pad;
  void unref() {
    CxxState &s = (*g_cxx)[this];
    if (s.destroyed || !s.refs) { g_viol->rec("unref-after-destroy", "unref() on object #%d after its last reference was dropped", s.id); return; }
    if (!--s.refs) s.destroyed++;
  }
  uintptr_t addref() {
    CxxState &s = (*g_cxx)[this];
    if (s.destroyed) { g_viol->rec("addref-after-destroy", "addref() on object #%d after it was destroyed", s.id); return 0; }
    if (g_refuse) return 0;
    return ++s.refs;
  }
};
// payload for reference<T>::type (library supplied counter + delete this)
struct Payload {
  int id;
  ~Payload() { auto it = g_cxx->find(this); if (it != g_cxx->end()) it->second.destroyed++; }
};
typedef reference<Payload>::type Counted;

template <class T, bool LIB>
static void run_cxxref(Ctx &c) {
  Viol viol;
  g_viol = &viol;
  std::map<const void *, CxxState> table;
  g_cxx = &table;
  g_refuse = false;
  struct Guard { ~Guard() { g_cxx = 0; g_viol = 0; g_refuse = false; } } guard;
  enum { R = 3 };
  T *obj[R + 1] = {0};
  const void *key[R + 1] = {0};
  long held[R + 1] = {0};
  std::vector<std::unique_ptr<SelfCounted>> own;
  uintptr_t initial[R + 1] = {0};
  bool phantom[R + 1] = {false};
  for (int r = 1; r <= R; r++) {
    if constexpr (LIB) {
      static const uintptr_t presets[] = {1, 1, 1, UINTPTR_MAX - 1, UINTPTR_MAX};
      initial[r] = presets[c.pick(5)];
      phantom[r] = initial[r] > 1;
      if (phantom[r]) c.label(initial[r] == UINTPTR_MAX ? "cxxref:preset-max" : "cxxref:preset-max-1");
      Counted *o = new Counted(initial[r]);
      o->id = r;
      obj[r] = o;
      key[r] = static_cast<Payload *>(o);
    } else {
      own.emplace_back(new SelfCounted());
      obj[r] = own.back().get();
      key[r] = obj[r];
      initial[r] = 1;
    }
    table[key[r]] = CxxState{1, 0, r};
    held[r] = 1;
  }
  c.label(LIB ? "cxxref:reference<T>::type" : "cxxref:self-counted");
  reference<T> *h[4] = {0, 0, 0, 0};
  int hv[4] = {0, 0, 0, 0};
  bool nontrivial = false;
  auto index = [&](T *p) { for (int r = 1; r <= R; r++) if (p == obj[r]) return r; return p ? -1 : 0; };
  auto dead = [&](int r) { return table[key[r]].destroyed != 0; };
  auto count = [&](int r) -> long {
    if constexpr (LIB) return dead(r) ? 0 : (long)(static_cast<Counted *>(obj[r])->_ref._val - (initial[r] - 1));
    else return table[key[r]].refs;
  };
  auto check = [&](const char *op) {
    viol.raise(c, op);
    long cnt[R + 1] = {0};
    for (int i = 0; i < 4; i++) if (h[i]) {
      int r = index(h[i]->instance());
      VP_CHECK(c, r >= 0, "unknown-reference", "after %s: reference %d holds an unknown pointer", op, i);
      VP_CHECK(c, r == hv[i], "reference-value", "after %s: reference %d names object #%d, expected #%d", op, i, r, hv[i]);
      cnt[r]++;
    }
    for (int r = 1; r <= R; r++) {
      // a counter preset above 1 stands for (initial - 1) further holders that never let go during the history
      long expect = cnt[r] + held[r] + (phantom[r] ? 1 : 0);
      CxxState &s = table[key[r]];
      c.logf("    object #%d: %ld reference object(s) + %ld harness reference(s)%s; destructor ran %d time(s)", r, cnt[r], held[r], phantom[r] ? " + preset holders" : "", s.destroyed);
      VP_CHECK(c, s.destroyed <= 1, "destroyed-twice", "after %s: object #%d destroyed %d times", op, r, s.destroyed);
      VP_CHECK(c, (s.destroyed == 1) == (expect == 0), expect ? "released-early" : "not-released", "after %s: object #%d: %ld reference(s) held, destructor ran %d time(s)", op, r, expect, s.destroyed);
      if (LIB) VP_CHECK(c, poisoned(key[r]) == (expect == 0), expect ? "released-early" : "not-released", "after %s: object #%d: %ld reference(s) held, memory %s", op, r, expect, poisoned(key[r]) ? "freed" : "allocated");
      long real = cnt[r] + held[r];
      if (expect) VP_CHECK(c, count(r) == real, count(r) > real ? "not-released" : "released-early", "after %s: object #%d has reference count %ld (above its preset) but %ld reference(s) are held", op, r, count(r), real);
    }
  };
  // can another reference be taken?  (library counter at its maximum refuses)
  auto can_raise = [&](int r) { if constexpr (LIB) return static_cast<Counted *>(obj[r])->_ref._val != UINTPTR_MAX; else return !g_refuse; };
  auto draw_held = [&]() { int r = (int)c.range(0, R); return r && held[r] > 0 ? r : 0; };
  check("start");
  while (c.more()) {
    int i = (int)c.pick(4), j = (int)c.pick(4);
    if (!LIB) g_refuse = c.chance(20);
    switch (c.weighted({8, 8, 10, 6, 5, 5, 6, 4})) {
      case 0: {  // construct from a pointer: takes over one reference
        if (h[i]) break;
        int r = draw_held();
        bool handover = r && c.flip() && held[r] > 0;
        if (r && !handover) {  // take an extra reference for the new handle
          bool ok = can_raise(r);
          uintptr_t v = obj[r]->addref();
          VP_CHECK(c, (v != 0) == ok, ok ? "addref-refused" : "raise-not-refused", "addref on object #%d returned %lu", r, (unsigned long)v);
          if (!v) { c.label("cxxref:addref-refused"); r = 0; }
        } else if (r) held[r]--;
        h[i] = new reference<T>(r ? obj[r] : 0);
        hv[i] = r;
        c.logf("ref%d = reference(object #%d)", i, r);
        check("construct");
        break;
      }
      case 1: {  // copy construct
        if (h[i] || !h[j]) break;
        bool ok = !hv[j] || can_raise(hv[j]);
        h[i] = new reference<T>(*h[j]);
        hv[i] = ok ? hv[j] : 0;
        c.logf("ref%d = reference(ref%d naming object #%d)%s", i, j, hv[j], ok ? "" : " while addref reports failure");
        if (!ok) c.label("cxxref:addref-refused");
        check("copy construct");
        break;
      }
      case 2: {  // copy assign (also to itself)
        if (!h[i] || !h[j]) break;
        bool same = hv[i] == hv[j];
        bool ok = same || !hv[j] || can_raise(hv[j]);
        c.logf("ref%d (object #%d) = ref%d (object #%d)%s", i, hv[i], j, hv[j], ok ? "" : " while addref reports failure");
        *h[i] = *h[j];
        if (hv[i] && !same) { nontrivial = true; c.label("cxxref:assign-replaces"); }
        if (i == j) c.label("cxxref:self-assign");
        hv[i] = ok ? hv[j] : 0;
        if (!ok) c.label("cxxref:addref-refused");
        check("copy assign");
        break;
      }
      case 3: {  // move assign
        if (!h[i] || !h[j] || i == j) break;
        c.logf("ref%d (object #%d) = std::move(ref%d (object #%d))", i, hv[i], j, hv[j]);
        *h[i] = std::move(*h[j]);
        if (hv[i]) { nontrivial = true; c.label("cxxref:move-replaces"); }
        hv[i] = hv[j];
        hv[j] = 0;
        check("move assign");
        break;
      }
      case 4: {  // detach: the caller takes the reference over
        if (!h[i]) break;
        T *p = h[i]->detach();
        c.logf("ref%d.detach() (object #%d)", i, hv[i]);
        VP_CHECK(c, index(p) == hv[i], "detach-result", "detach returned object #%d, reference held #%d", index(p), hv[i]);
        if (hv[i]) held[hv[i]]++;
        hv[i] = 0;
        c.label("cxxref:detach");
        check("detach");
        break;
      }
      case 5: {  // set_instance: hands one reference over, the old one is released
        if (!h[i]) break;
        int r = draw_held();
        if (r) held[r]--;
        c.logf("ref%d (object #%d).set_instance(object #%d)", i, hv[i], r);
        if (hv[i]) { nontrivial = true; c.label("cxxref:set-instance-replaces"); }
        h[i]->set_instance(r ? obj[r] : 0);
        hv[i] = r;
        check("set_instance");
        break;
      }
      case 6: {  // destroy the reference object
        if (!h[i]) break;
        c.logf("delete ref%d (object #%d)", i, hv[i]);
        if (hv[i]) nontrivial = true;
        delete h[i];
        h[i] = 0;
        hv[i] = 0;
        check("destroy");
        break;
      }
      default: {  // harness drops one of its own references
        int r = draw_held();
        if (!r) break;
        c.logf("harness drops a reference on object #%d", r);
        obj[r]->unref();
        held[r]--;
        nontrivial = true;
        check("harness reference dropped");
        break;
      }
    }
    g_refuse = false;
  }
  for (int i = 0; i < 4; i++) if (h[i]) { delete h[i]; h[i] = 0; hv[i] = 0; }
  for (int r = 1; r <= R; r++) while (held[r] > 0) { obj[r]->unref(); held[r]--; }
  check("final release");
  if constexpr (LIB) {
    // the preset holders let go now: put the counter to one holder and drop it
    for (int r = 1; r <= R; r++) if (phantom[r]) {
      Counted *o = static_cast<Counted *>(obj[r]);
      VP_CHECK(c, o->_ref._val == initial[r] - 1, "count-mismatch", "object #%d: counter %#lx after all real references were dropped, preset was %#lx", r, (unsigned long)o->_ref._val, (unsigned long)initial[r]);
      o->_ref._val = 1;
      phantom[r] = false;
      o->unref();
    }
    check("preset holders released");
  }
  if (nontrivial) c.nontrivial();
}

// ------------------------------------------------------------------ metatypes of the library: geninfo, buffer
static void run_meta(Ctx &c) {
  struct M { metatype *mt; int kind; bool alive; size_t len; CBuf *buf; };  // buf: text buffer behind a buffer metatype (shared one or its own)
  std::vector<M> objs;
  CObj<array> text;   // raw text buffer shared with the buffer metatypes
  static const char words[] = "one\0two\0three";
  mpt_array_append(text, sizeof words, words);
  CBuf *tb = cbuf(text);
  bool text_held = true, nontrivial = false;
  c.label("meta");
  const type_traits *rt = mpt_meta_reference_traits();
  auto check = [&](const char *op) {
    long users = text_held ? 1 : 0;
    for (size_t i = 0; i < objs.size(); i++) {
      M &m = objs[i];
      c.logf("    %s metatype #%zu: %s", m.kind ? "buffer" : "geninfo", i, m.alive ? "alive" : "released");
      if (m.alive) {
        VP_CHECK(c, !poisoned(m.mt), "released-early", "after %s: metatype #%zu is still referenced but its memory was freed", op, i);
        if (m.kind && m.buf == tb) users++;
      } else {
        VP_CHECK(c, poisoned(m.mt), "not-released", "after %s: the only reference to metatype #%zu was dropped but its memory is still allocated", op, i);
      }
    }
    c.logf("    text buffer: %d harness handle + %ld buffer metatype(s)", text_held ? 1 : 0, users - (text_held ? 1 : 0));
    VP_CHECK(c, poisoned(tb) == (users == 0), users ? "released-early" : "not-released", "after %s: the text buffer is referenced %ld time(s), its memory is %s", op, users, poisoned(tb) ? "freed" : "allocated");
    if (users) {
      bool shared = flags_of(tb) & BufferShared;
      VP_CHECK(c, shared == (users > 1), "count-mismatch", "after %s: the text buffer is referenced %ld time(s) but reports %s", op, users, shared ? "shared" : "not shared");
    }
    // text buffers created by mpt_meta_new for long values: referenced by the metatypes on them only
    for (size_t i = 0; i < objs.size(); i++) {
      CBuf *b = objs[i].buf;
      if (!b || b == tb) continue;
      bool first = true;
      for (size_t j = 0; j < i; j++) if (objs[j].buf == b) first = false;
      if (!first) continue;
      long n = 0;
      for (auto &m : objs) if (m.buf == b && m.alive) n++;
      c.logf("    text buffer of metatype #%zu: %ld buffer metatype(s)", i, n);
      VP_CHECK(c, poisoned(b) == (n == 0), n ? "released-early" : "not-released", "after %s: the text buffer mpt_meta_new made for metatype #%zu is referenced by %ld metatype(s), its memory is %s", op, i, n, poisoned(b) ? "freed" : "allocated");
      if (n) {
        bool shared = flags_of(b) & BufferShared;
        VP_CHECK(c, shared == (n > 1), "count-mismatch", "after %s: the text buffer mpt_meta_new made for metatype #%zu is referenced by %ld metatype(s) but reports %s", op, i, n, shared ? "shared" : "not shared");
        uintptr_t probe = b->vptr->addref(b);  // exact count: addref returns the raised counter, the probe is taken back
        b->vptr->unref(b);
        VP_CHECK(c, probe == (uintptr_t)n + 1, probe > (uintptr_t)n + 1 ? "not-released" : "released-early", "after %s: the text buffer of metatype #%zu should have %ld reference(s), an additional addref returned %lu", op, i, n, (unsigned long)probe);
      }
    }
  };
  auto live_objs = [&]() { std::vector<int> v; for (size_t i = 0; i < objs.size(); i++) if (objs[i].alive) v.push_back((int)i); return v; };
  check("start");
  while (c.more()) {
    switch (c.weighted({8, 5, 10, 8, 6, 3, 9})) {
      case 6: {  // mpt_meta_new for a text value: geninfo for short texts, a buffer metatype on a private text buffer for long ones
        if (objs.size() >= 8) break;
        size_t len = c.flip() ? c.near({0, 1, 100, 249}, 249) : 250 + c.near({0, 4, 5, 6, 350}, 350);
        std::string s;
        for (size_t i = 0; i < len; i++) s.push_back('a' + (char)((i * 7 + len) % 26));
        const char *txt = s.c_str();
        CObj<value> val;
        val->_addr = &txt;
        val->_type = 's';
        metatype *mt = mpt_meta_new(val);
        c.logf("mpt_meta_new(text of %zu characters) returns %s", len, mt ? "a metatype" : "NULL");
        if (!mt) { c.label("meta:new-refused"); check("meta new"); break; }
        CBuf *b = 0;
        int r = mt->convert(TypeBufferPtr, &b);
        if (r < 0) b = 0;
        objs.push_back(M{mt, b ? 1 : 0, true, len, b});
        c.logf("metatype #%zu = %s", objs.size() - 1, b ? "buffer metatype on its own text buffer" : "geninfo");
        c.label(b ? "meta:new-long" : "meta:new-short");
        if (b) {
          nontrivial = true;
          VP_CHECK(c, b != tb, "harness", "mpt_meta_new returned the harness text buffer");
          VP_CHECK(c, !(flags_of(b) & BufferShared), "count-mismatch", "the text buffer of a fresh mpt_meta_new(%zu characters) metatype reports shared: a reference nobody owns is left on it", len);
        }
        check("meta new");
        break;
      }
      case 0: {  // geninfo metatype with text
        if (objs.size() >= 8) break;
        size_t len = c.near({0, 1, 30, 200}, 240);
        std::string s;
        for (size_t i = 0; i < len; i++) s.push_back('a' + (char)(c.u8() % 26));
        metatype *mt = mpt_meta_geninfo(len);
        if (!mt) { c.label("meta:geninfo-refused"); break; }
        int r = _mpt_geninfo_set(mt + 1, s.data(), (int)len);
        objs.push_back(M{mt, 0, true, len, 0});
        c.logf("metatype #%zu = geninfo for %zu characters (set returns %d)", objs.size() - 1, len, r);
        check("geninfo create");
        break;
      }
      case 1: {  // buffer metatype on the shared text buffer
        if (objs.size() >= 8 || !text_held) break;
        metatype *mt = mpt_meta_buffer(text);
        VP_CHECK(c, mt, "harness", "mpt_meta_buffer failed");
        objs.push_back(M{mt, 1, true, 0, tb});
        c.logf("metatype #%zu = buffer metatype on the text buffer", objs.size() - 1);
        c.label("meta:buffer");
        check("buffer metatype create");
        break;
      }
      case 2: {  // clone
        auto live = live_objs();
        if (live.empty() || objs.size() >= 8) break;
        int i = live[c.pick(live.size())];
        metatype *n = objs[i].mt->clone();
        c.logf("metatype #%d ->clone() returns %s", i, n ? "a new object" : "NULL");
        if (!n) { c.label("meta:clone-refused"); check("clone"); break; }
        VP_CHECK(c, n != objs[i].mt, "clone-result", "clone returned the object itself although addref is not supported");
        // a clone of a buffer metatype made by the C implementation is a buffer metatype on the same buffer
        int kind = objs[i].kind;
        objs.push_back(M{n, kind, true, objs[i].len, objs[i].buf});
        nontrivial = true;
        c.label(kind ? "meta:clone-buffer" : "meta:clone-geninfo");
        check("clone");
        break;
      }
      case 3: {  // unref
        auto live = live_objs();
        if (live.empty()) break;
        int i = live[c.pick(live.size())];
        c.logf("metatype #%d ->unref()", i);
        objs[i].mt->unref();
        objs[i].alive = false;
        nontrivial = true;
        check("unref");
        break;
      }
      case 4: {  // these metatypes are single-owner: addref reports failure and changes nothing
        auto live = live_objs();
        if (live.empty()) break;
        int i = live[c.pick(live.size())];
        uintptr_t r = objs[i].mt->addref();
        void *slot = 0, *src = objs[i].mt;
        int ri = rt->init(&slot, &src);
        c.logf("metatype #%d ->addref() returns %lu; reference traits init returns %d", i, (unsigned long)r, ri);
        VP_CHECK(c, !r, "harness", "addref on a %s metatype returned %lu: the model of this scenario treats it as single-owner", objs[i].kind ? "buffer" : "geninfo", (unsigned long)r);
        VP_CHECK(c, ri < 0 && !slot, "refused-addref-ignored", "reference traits init returned %d and stored %p although addref reported failure", ri, slot);
        c.label("meta:addref-refused");
        check("addref");
        break;
      }
      case 5: default: {  // the harness drops its own handle on the text buffer
        if (!text_held) break;
        c.logf("harness releases its handle on the text buffer");
        mpt_array_clone(text, 0);
        text_held = false;
        nontrivial = true;
        check("text handle release");
        break;
      }
    }
  }
  for (auto &m : objs) if (m.alive) { m.mt->unref(); m.alive = false; }
  if (text_held) { mpt_array_clone(text, 0); text_held = false; }
  check("final release");
  if (nontrivial) c.nontrivial();
}

// ------------------------------------------------------------------ deferrable reply context
struct SendLog { int calls; bool fail_next; int failed; };
static int reply_send(void *ptr, const reply_data *, const message *) {
  SendLog *l = (SendLog *)ptr;
  l->calls++;
  if (l->fail_next) { l->fail_next = false; l->failed++; return BadOperation; }  // the transport could not deliver
  return 0;
}

static void run_reply(Ctx &c) {
  SendLog log = {0, false, 0};
  size_t idlen = 4;  // ids shorter than 4 bytes run into C12's findings in mpt_message_buf2id
  metatype *mt = mpt_reply_deferrable(idlen, reply_send, &log);
  VP_CHECK(c, mt, "harness", "mpt_reply_deferrable failed");
  c.label("reply");
  reply_context *rc = 0;
  reply_data *rd = 0;
  VP_CHECK(c, mt->convert(TypeReplyPtr, &rc) >= 0 && rc, "harness", "no reply context");
  mt->convert(TypeReplyDataPtr, &rd);
  if (!rd || (void *)rd == (void *)rc) rd = (reply_data *)((void **)rc + 1);  // C12's finding (contextConv returns the context for TypeReplyDataPtr): the data follows the context
  long mtrefs = 1;
  std::vector<reply_context_detached *> defs;
  bool armed = false, nontrivial = false;
  bool send_active = true;  // the context forgets its transport at the first metatype unref that is not the last reference
  unsigned replies = 0;
  static const uint8_t id[4] = {0, 0, 1, 5};
  auto check = [&](const char *op) {
    long expect = mtrefs + (long)defs.size();
    c.logf("    %ld metatype reference(s) + %zu deferred context(s)", mtrefs, defs.size());
    VP_CHECK(c, poisoned(mt) == (expect == 0), expect ? "released-early" : "not-released", "after %s: %ld metatype reference(s) and %zu deferred context(s) are held, object memory is %s", op, mtrefs, defs.size(), poisoned(mt) ? "freed" : "allocated");
    for (auto *d : defs) VP_CHECK(c, !poisoned(d), "released-early", "after %s: an outstanding deferred context was freed", op);
  };
  while (c.more()) {
    switch (c.weighted({5, 6, 10, 10, 8, 2, 9})) {
      case 6: {  // answer through a deferred context with a real message; the transport may fail, then the context stays pending
        if (defs.empty()) break;
        size_t k = c.pick(defs.size());
        bool fail = c.chance(120);
        reply_context_detached *d = defs[k];
        static const char text[] = "answer";
        CObj<message> msg;
        msg->base = text;
        msg->used = sizeof text;
        log.fail_next = fail;
        int before = log.calls;
        int r = d->reply(msg);
        bool sent = log.calls != before;
        log.fail_next = false;
        c.logf("deferred context %zu ->reply(message)%s returns %d (transport %s)", k, fail ? " with a failing transport" : "", r, sent ? "called" : "not called");
        VP_CHECK(c, sent == send_active, "harness", "transport %s although the context %s it", sent ? "called" : "not called", send_active ? "still has" : "has forgotten");
        if (r < 0) {
          VP_CHECK(c, fail && sent, "harness", "deferred reply failed with %d although the transport accepted the message", r);
          // kept for a new attempt: still counted, must stay usable
          VP_CHECK(c, !poisoned(d), "released-early", "a deferred context whose reply could not be sent was freed");
          nontrivial = true;
          c.label("reply:deferred-send-failed");
        } else {
          VP_CHECK(c, !(fail && sent), "harness", "deferred reply reports success although the transport failed");
          replies++;
          defs.erase(defs.begin() + k);
          VP_CHECK(c, poisoned(d), "not-released", "a used deferred context is still allocated");
          c.label("reply:deferred-reply-message");
        }
        check("deferred reply with message");
        break;
      }
      case 0: {
        if (!mtrefs) break;
        uintptr_t r = mt->addref();
        c.logf("metatype addref returns %lu", (unsigned long)r);
        VP_CHECK(c, r != 0, "addref-refused", "addref on a live reply context reported failure");
        // the context counter is shared by metatype references and pending deferred contexts (mpt_refcount_raise returns the raised value)
        VP_CHECK(c, r == (uintptr_t)(mtrefs + (long)defs.size()) + 1, r > (uintptr_t)(mtrefs + (long)defs.size()) + 1 ? "not-released" : "released-early",
                 "addref returned %lu with %ld metatype reference(s) and %zu pending deferred context(s) held before", (unsigned long)r, mtrefs, defs.size());
        mtrefs++;
        VP_CHECK(c, mt->clone() == 0, "harness", "a reply context is not clonable, clone() returned an object");
        c.label("reply:addref");
        check("addref");
        break;
      }
      case 1: {
        if (!mtrefs) break;
        c.logf("metatype unref (%ld held)", mtrefs);
        bool sends = mtrefs == 1 && defs.empty() && armed;
        mt->unref();
        mtrefs--;
        send_active = false;
        if (sends) replies++;  // the last owner answers a pending request with an empty reply
        if (!mtrefs) { armed = false; if (!defs.empty()) { nontrivial = true; c.label("reply:deferred-outlives-owner"); } }
        check("unref");
        break;
      }
      case 2: {
        if (!mtrefs || armed) break;
        int r = mpt_reply_set(rd, idlen, id);
        c.logf("arm the context with a 4 byte id: %d", r);
        VP_CHECK(c, r >= 0, "harness", "mpt_reply_set failed");
        armed = true;
        break;
      }
      case 3: {
        if (!mtrefs) break;
        reply_context_detached *d = rc->defer();
        c.logf("defer() returns %s", d ? "a detached context" : "NULL");
        VP_CHECK(c, (d != 0) == armed, "defer-result", "defer() on a%s context returned %p", armed ? "n armed" : "n idle", (void *)d);
        if (d) { defs.push_back(d); armed = false; c.label("reply:defer"); }
        check("defer");
        break;
      }
      case 4: {
        if (defs.empty()) break;
        size_t k = c.pick(defs.size());
        reply_context_detached *d = defs[k];
        int r = d->reply(0);
        c.logf("deferred context %zu ->reply(NULL) returns %d", k, r);
        VP_CHECK(c, r >= 0, "harness", "deferred reply failed");
        replies++;
        defs.erase(defs.begin() + k);
        VP_CHECK(c, poisoned(d), "not-released", "a used deferred context is still allocated");
        if (!mtrefs && defs.empty()) nontrivial = true;
        c.label("reply:deferred-reply");
        check("deferred reply");
        break;
      }
      case 5: default: {
        if (!mtrefs || !armed) break;
        int r = rc->reply(0);
        c.logf("context ->reply(NULL) returns %d", r);
        replies++;
        armed = false;
        check("direct reply");
        break;
      }
    }
  }
  while (!defs.empty()) { defs.back()->reply(0); replies++; defs.pop_back(); check("cancel of a pending deferred context"); }
  bool sends = mtrefs >= 1 && armed;
  while (mtrefs > 0) { mt->unref(); mtrefs--; if (mtrefs) check("unref"); }
  if (sends) replies++;
  check("final release");
  if (nontrivial) c.nontrivial();
}

// ------------------------------------------------------------------ rawdata (mptplot)
static void run_rawdata(Ctx &c) {
  long max = (long)c.range(0, 3);
  metatype *mt = mpt_rawdata_create(max);
  VP_CHECK(c, mt, "harness", "mpt_rawdata_create failed");
  c.label("rawdata");
  // mpt_rawdata_type_traits() registers "mpt.rawdata" anew on every call (its cache variable is not static), so after the
  // first call in a process it fails and rd_conv no longer knows its own interface type (registry matter, not C15's):
  // the interface object directly follows the metatype header in struct RawData
  const named_traits *nt = mpt_rawdata_type_traits();
  rawdata *rd = 0;
  if (nt) mt->convert(nt->type, &rd);
  if (!rd) rd = reinterpret_cast<rawdata *>((void **)mt + 1);
  long refs = 1;
  bool nontrivial = false, populated = false;
  auto check = [&](const char *op) {
    c.logf("    %ld reference(s)", refs);
    VP_CHECK(c, poisoned(mt) == (refs == 0), refs ? "released-early" : "not-released", "after %s: %ld reference(s) held, object memory is %s", op, refs, poisoned(mt) ? "freed" : "allocated");
  };
  while (c.more() && refs > 0) {
    switch (c.weighted({8, 8, 6, 3})) {
      case 0: {
        uintptr_t r = mt->addref();
        c.logf("addref returns %lu", (unsigned long)r);
        VP_CHECK(c, r == (uintptr_t)refs + 1, "addref-result", "addref with %ld reference(s) returned %lu", refs, (unsigned long)r);
        refs++;
        check("addref");
        break;
      }
      case 1: {
        c.logf("unref (%ld held)", refs);
        mt->unref();
        refs--;
        if (refs > 0 || populated) nontrivial = true;
        check("unref");
        break;
      }
      case 2: {
        if (!rd) break;
        double v[3] = {1.5, 2.5, 3.5};
        struct iovec vec = {v, sizeof(double) * (size_t)c.range(1, 3)};
        CObj<value> val;
        val->_addr = &vec;
        val->_type = MPT_type_toVector('d');
        unsigned dim = (unsigned)c.range(0, 2);
        int r = rd->modify(dim, *val.get(), 0);
        c.logf("modify(dimension %u, %zu doubles) returns %d", dim, vec.iov_len / sizeof(double), r);
        if (r >= 0) { populated = true; c.label("rawdata:populated"); }
        check("modify");
        break;
      }
      default: {
        metatype *n = mt->clone();
        c.logf("clone returns %p", (void *)n);
        if (n) { c.label("rawdata:clone"); n->unref(); }
        check("clone");
        break;
      }
    }
  }
  while (refs > 0) { mt->unref(); refs--; }
  check("final release");
  if (nontrivial) c.nontrivial();
}

// ------------------------------------------------------------------ item_array<T>::append: hand-over of the caller's reference
static void run_itemappend(Ctx &c) {
  Viol viol;
  g_viol = &viol;
  std::map<const void *, CxxState> table;
  g_cxx = &table;
  g_refuse = false;
  struct Guard { ~Guard() { g_cxx = 0; g_viol = 0; g_refuse = false; } } guard;
  enum { R = 3 };
  std::unique_ptr<SelfCounted> obj[R + 1];
  long held[R + 1] = {0};
  for (int r = 1; r <= R; r++) { obj[r].reset(new SelfCounted()); table[obj[r].get()] = CxxState{1, 0, r}; held[r] = 1; }
  typedef item_array<SelfCounted> A;
  A *h = new A[2];
  std::vector<int> vals[2];
  bool nontrivial = false;
  c.label("itemappend");
  auto index = [&](const void *p) { for (int r = 1; r <= R; r++) if (p == obj[r].get()) return r; return p ? -1 : 0; };
  auto check = [&](const char *op) {
    viol.raise(c, op);
    long cnt[R + 1] = {0};
    CBuf *first = 0;
    for (int i = 0; i < 2; i++) {
      CBuf *b = (CBuf *)h[i]._ref.instance();
      size_t S = sizeof(item<SelfCounted>);
      VP_CHECK(c, b && b->used <= b->size && b->used % S == 0, "harness", "bad buffer state");
      std::vector<int> got;
      for (size_t e = 0; e < b->used / S; e++) {
        int r = index(((item<SelfCounted> *)(b->data() + e * S))->instance());
        VP_CHECK(c, r >= 0, "unknown-reference", "after %s: item %zu of array %d holds an unknown pointer", op, e, i);
        got.push_back(r);
        if (b != first) cnt[r]++;
      }
      if (!first) first = b;
      if (b->size && (CBuf *)h[1 - i]._ref.instance() == b) vals[i] = got;  // shared no-copy buffer: what the other handle did is C04's business
      VP_CHECK(c, got == vals[i], "reference-value", "after %s: array %d holds %zu item(s), the model %zu (or other objects)", op, i, got.size(), vals[i].size());
      if (c.verbose()) { std::string g; for (int v : got) g += std::to_string(v) + " "; c.logf("    a%d: [ %s]", i, g.c_str()); }
    }
    for (int r = 1; r <= R; r++) {
      CxxState &s = table[obj[r].get()];
      long expect = cnt[r] + held[r];
      c.logf("    object #%d: %ld item(s) + %ld harness reference(s), counter %ld, destroyed %d", r, cnt[r], held[r], s.refs, s.destroyed);
      VP_CHECK(c, s.refs == expect, s.refs > expect ? "not-released" : "released-early", "after %s: object #%d has reference count %ld but %ld item(s) and %ld harness reference(s) hold it", op, r, s.refs, cnt[r], held[r]);
      VP_CHECK(c, (s.destroyed == 1) == (expect == 0), expect ? "released-early" : "not-released", "after %s: object #%d: %ld reference(s) held, destroyed %d time(s)", op, r, expect, s.destroyed);
    }
  };
  check("start");
  while (c.more()) {
    int i = (int)c.pick(2);
    size_t n = vals[i].size();
    switch (c.weighted({10, 8, 5, 3, 3, 3})) {
      case 0:
      case 1: {  // append with a short name / a name around the identifier limit (65535 bytes including the terminator)
        bool longname = c.weighted({1, 1}) == 1;
        int r = (int)c.range(0, R);
        if (r && !held[r]) r = 0;
        size_t len = longname ? c.near({65534, 65535, 65536, 65533}, 65600) : c.range(0, 20);
        std::string name(len, 'n');
        if (r) obj[r]->addref();  // the reference handed to append(); the caller keeps it when append() refuses
        item<SelfCounted> *it = h[i].append(r ? obj[r].get() : 0, name.c_str());
        c.logf("a%d.append(object #%d, name of %zu characters) -> %s  (length %zu)", i, r, len, it ? "ok" : "refused", n);
        if (it) { vals[i].push_back(r); c.label(longname ? "itemappend:long-name-accepted" : "itemappend:append"); }
        else {
          if (r) { obj[r]->unref(); nontrivial = true; }  // like layout::graph::add_axis, layout::bind
          c.label("itemappend:refused");
        }
        check("append");
        break;
      }
      case 2: {  // resize
        long len = (long)c.range(0, n + 1);
        bool ok = h[i].resize(len);
        c.logf("a%d.resize(%ld) -> %d  (length %zu)", i, len, ok, n);
        if (ok) { if ((size_t)len < n) nontrivial = true; vals[i].resize(len, 0); }
        check("resize");
        break;
      }
      case 3: {  // share
        c.logf("a%d = a%d", i, 1 - i);
        h[i] = h[1 - i];
        vals[i] = vals[1 - i];
        check("assign");
        break;
      }
      case 4: {  // release
        c.logf("a%d = empty array", i);
        if (n) nontrivial = true;
        h[i] = A();
        vals[i].clear();
        check("release");
        break;
      }
      default: {  // harness drops a reference of its own
        int r = (int)c.range(1, R);
        if (!held[r]) break;
        c.logf("harness drops its reference on object #%d", r);
        obj[r]->unref();
        held[r]--;
        check("harness reference dropped");
        break;
      }
    }
  }
  for (int i = 0; i < 2; i++) { h[i] = A(); vals[i].clear(); }
  for (int r = 1; r <= R; r++) while (held[r] > 0) { obj[r]->unref(); held[r]--; }
  check("final release");
  delete[] h;
  if (nontrivial) c.nontrivial();
}

// ------------------------------------------------------------------ notifier: ownership of inputs handed to mpt_notify_add
struct HInput;
struct HInputVptr {
  int (*convert)(HInput *, type_t, void *);
  void (*unref)(HInput *);
  uintptr_t (*addref)(HInput *);
  HInput *(*clone)(const HInput *);
  int (*next)(HInput *, int);
  int (*dispatch)(HInput *, int (*)(void *, event *), void *);
};
struct HInput {
  const HInputVptr *vptr;
  long refs;
  int destroyed, id, fd;
  Viol *viol;
  static int s_convert(HInput *in, type_t type, void *dest) {
    if (in->destroyed) in->viol->rec("use-after-destroy", "convert() on input #%d after its last reference was dropped", in->id);
    if (!type) { static const uint8_t fmt[] = {TypeUnixSocket, 0}; if (dest) *(const uint8_t **)dest = fmt; return TypeMetaPtr; }
    if (type == TypeUnixSocket) { if (dest) *(int32_t *)dest = in->fd; return TypeUnixSocket; }
    if (type == TypeMetaPtr) { if (dest) *(void **)dest = in; return TypeMetaPtr; }
    return BadType;
  }
  static void s_unref(HInput *in) {
    if (in->destroyed || !in->refs) { in->viol->rec("unref-after-destroy", "unref() on input #%d after its last reference was dropped", in->id); return; }
    if (!--in->refs) in->destroyed++;
  }
  static uintptr_t s_addref(HInput *in) {
    if (in->destroyed) { in->viol->rec("addref-after-destroy", "addref() on input #%d after it was destroyed", in->id); return 0; }
    return ++in->refs;
  }
  static HInput *s_clone(const HInput *) { return 0; }
  static int s_next(HInput *, int) { return 0; }
  static int s_dispatch(HInput *, int (*)(void *, event *), void *) { return 0; }
};

static void run_notify(Ctx &c) {
  static const HInputVptr vp = {HInput::s_convert, HInput::s_unref, HInput::s_addref, HInput::s_clone, HInput::s_next, HInput::s_dispatch};
  Viol viol;
  c.label("notify");
  enum { N = 4 };
  // descriptors: 0 pipe (read end), 1 socketpair end, 2 regular file (epoll refuses it: EPERM), 3 a descriptor that is closed again
  struct Fds {
    int pfd[2] = {-1, -1}, sp[2] = {-1, -1}, reg = -1, closed = -1;
    // created on first use (most cases touch one or two of them)
    int get(int k) {
      switch (k) {
        case 0: if (pfd[0] < 0 && pipe(pfd)) pfd[0] = pfd[1] = -1; return pfd[0];
        case 1: if (sp[0] < 0 && socketpair(AF_UNIX, SOCK_STREAM, 0, sp)) sp[0] = sp[1] = -1; return sp[0];
        case 2: if (reg < 0) reg = memfd_create("vp-c15-notify", 0); return reg;  // a regular (shmem) file without poll support, nothing touches the file system
        default: if (closed < 0) { closed = dup(2); if (closed >= 0) close(closed); } return closed;
      }
    }
    ~Fds() { for (int fd : {pfd[0], pfd[1], sp[0], sp[1], reg}) if (fd >= 0) close(fd); }
  } fds;
  int fdof[N] = {-1, -1, -1, -1};
  static const char *fdname[N] = {"pipe", "socket", "regular file", "closed descriptor"};
  HInput in[N];
  long held[N];
  for (int k = 0; k < N; k++) { in[k] = HInput{&vp, 1, 0, k, -1, &viol}; held[k] = 1; }
  auto need = [&](int k) {
    if (fdof[k] < 0) { fdof[k] = in[k].fd = fds.get(k); VP_CHECK(c, fdof[k] >= 0, "harness", "could not create a descriptor"); }
  };
  CObj<notify> no;
  no->_sysfd = -1;  // MPT_NOTIFY_INIT
  bool nontrivial = false;
  auto slot_of = [&](int k) -> HInput * {
    CBuf *b = *(CBuf **)&no->_slot;
    if (!b || fdof[k] < 0 || (size_t)fdof[k] >= b->used / sizeof(void *)) return 0;
    return ((HInput **)b->data())[fdof[k]];
  };
  auto check = [&](const char *op) {
    viol.raise(c, op);
    long cnt[N] = {0};
    CBuf *b = *(CBuf **)&no->_slot;
    size_t used_slots = 0;
    if (b) {
      VP_CHECK(c, b->traits == mpt_input_reference_traits(), "harness", "slot buffer has unexpected content traits");
      for (size_t i = 0; i < b->used / sizeof(void *); i++) {
        HInput *p = ((HInput **)b->data())[i];
        if (!p) continue;
        VP_CHECK(c, p >= in && p < in + N, "unknown-reference", "after %s: notifier slot %zu holds an unknown pointer", op, i);
        VP_CHECK(c, (int)i == p->fd, "slot-position", "after %s: input #%d (descriptor %d) sits in slot %zu", op, p->id, p->fd, i);
        cnt[p - in]++;
        used_slots++;
      }
    }
    for (int k = 0; k < N; k++) {
      long expect = cnt[k] + held[k];
      c.logf("    input #%d (%s): %ld notifier slot(s) + %ld harness reference(s), counter %ld, destroyed %d", k, fdname[k], cnt[k], held[k], in[k].refs, in[k].destroyed);
      VP_CHECK(c, in[k].destroyed <= 1, "destroyed-twice", "after %s: input #%d destroyed %d times", op, k, in[k].destroyed);
      VP_CHECK(c, in[k].refs == expect, in[k].refs > expect ? "not-released" : "released-early", "after %s: input #%d has reference count %ld but the notifier holds it %ld time(s) and the harness %ld time(s)", op, k, in[k].refs, cnt[k], held[k]);
      VP_CHECK(c, (in[k].destroyed == 1) == (expect == 0), expect ? "released-early" : "not-released", "after %s: input #%d: %ld reference(s) held, destroyed %d time(s)", op, k, expect, in[k].destroyed);
    }
    VP_CHECK(c, no->_fdused == used_slots, "notifier-count", "after %s: notifier reports %u inputs, %zu slots are occupied", op, no->_fdused, used_slots);
  };
  check("start");
  while (c.more()) {
    int k = (int)c.pick(N);
    need(k);
    switch (c.weighted({12, 6, 2, 3})) {
      case 0: {  // hand an input over to the notifier
        if (!held[k]) break;
        bool occupied = slot_of(k) != 0;
        HInput::s_addref(&in[k]);  // the reference that is handed over
        int r = mpt_notify_add(no, 0x1 /* EPOLLIN / POLLIN */, (input *)&in[k]);
        c.logf("mpt_notify_add(input #%d on a %s%s) returns %d", k, fdname[k], occupied ? ", slot occupied" : "", r);
        if (r < 0) {
          HInput::s_unref(&in[k]);  // refused: the caller keeps the reference it offered and drops it
          nontrivial = true;
          c.label(occupied ? "notify:add-refused-occupied" : k >= 2 ? "notify:add-refused-by-epoll" : "notify:add-refused");
        } else {
          VP_CHECK(c, slot_of(k) == &in[k], "add-result", "mpt_notify_add returned %d but the slot of descriptor %d holds %p", r, fdof[k], (void *)slot_of(k));
          c.label("notify:add");
        }
        check("add");
        break;
      }
      case 1: {  // remove the input of a descriptor
        bool occupied = slot_of(k) != 0;
        int r = mpt_notify_clear(no, fdof[k]);
        c.logf("mpt_notify_clear(descriptor of input #%d: %s, slot %s) returns %d", k, fdname[k], occupied ? "occupied" : "empty", r);
        VP_CHECK(c, !slot_of(k), "clear-result", "slot still occupied after mpt_notify_clear");
        if (occupied) { nontrivial = true; c.label("notify:clear"); }
        check("clear");
        break;
      }
      case 2: {  // drop everything
        c.logf("mpt_notify_fini");
        mpt_notify_fini(no);
        nontrivial = true;
        c.label("notify:fini");
        check("fini");
        break;
      }
      default: {  // the harness lets go of its own reference
        if (!held[k]) break;
        c.logf("harness drops its reference on input #%d", k);
        HInput::s_unref(&in[k]);
        held[k] = 0;
        if (slot_of(k)) { nontrivial = true; c.label("notify:input-owned-by-notifier-only"); }
        check("harness reference dropped");
        break;
      }
    }
  }
  mpt_notify_fini(no);
  check("final fini");
  for (int k = 0; k < N; k++) if (held[k]) { HInput::s_unref(&in[k]); held[k] = 0; }
  check("final release");
  if (nontrivial) c.nontrivial();
}

// ------------------------------------------------------------------ linked objects: reference<T> moves whose source lives inside the target's referent
struct Node;
struct NodeState { long refs; int destroyed; int id; };
static std::map<const Node *, NodeState> *g_nodes;
struct Node {
  reference<Node> next;  // an object owning a reference on its successor
  void unref() {
    NodeState &s = (*g_nodes)[this];
    if (s.destroyed || !s.refs) { g_viol->rec("unref-after-destroy", "unref() on node #%d after its last reference was dropped", s.id); return; }
    if (!--s.refs) { s.destroyed++; next.set_instance(0); }  // destruction releases what the object owns
  }
  uintptr_t addref() {
    NodeState &s = (*g_nodes)[this];
    if (s.destroyed) { g_viol->rec("addref-after-destroy", "addref() on node #%d after it was destroyed", s.id); return 0; }
    return ++s.refs;
  }
};

static void run_chain(Ctx &c) {
  Viol viol;
  g_viol = &viol;
  std::map<const Node *, NodeState> table;
  g_nodes = &table;
  struct Guard { ~Guard() { g_nodes = 0; g_viol = 0; } } guard;
  enum { N = 4, H = 3 };
  // storage outlives every node (late accesses are recorded, not crashes); a destroyed node's next is empty
  std::vector<std::unique_ptr<Node>> store;
  Node *node[N];
  long held[N];
  for (int k = 0; k < N; k++) { store.emplace_back(new Node()); node[k] = store.back().get(); table[node[k]] = NodeState{1, 0, k}; held[k] = 1; }
  reference<Node> *h = new reference<Node>[H];
  bool nontrivial = false;
  c.label("chain");
  auto index = [&](const Node *p) { for (int k = 0; k < N; k++) if (p == node[k]) return k; return -1; };
  auto name = [&](const Node *p) { return p ? "node #" + std::to_string(index(p)) : std::string("nothing"); };
  auto check = [&](const char *op) {
    viol.raise(c, op);
    long cnt[N] = {0};
    for (int i = 0; i < H; i++) if (Node *p = h[i].instance()) { int k = index(p); VP_CHECK(c, k >= 0, "unknown-reference", "after %s: handle %d holds an unknown pointer", op, i); cnt[k]++; }
    for (int k = 0; k < N; k++) if (Node *p = node[k]->next.instance()) {
      int j = index(p);
      VP_CHECK(c, j >= 0, "unknown-reference", "after %s: node #%d names an unknown successor", op, k);
      VP_CHECK(c, !table[node[k]].destroyed, "not-released", "after %s: destroyed node #%d still holds a reference on node #%d", op, k, j);
      cnt[j]++;
    }
    for (int k = 0; k < N; k++) {
      NodeState &s = table[node[k]];
      long expect = cnt[k] + held[k];
      c.logf("    node #%d: %ld handle/successor reference(s) + %ld harness reference(s), counter %ld, destroyed %d, next -> %s", k, cnt[k], held[k], s.refs, s.destroyed, name(node[k]->next.instance()).c_str());
      VP_CHECK(c, s.destroyed <= 1, "destroyed-twice", "after %s: node #%d destroyed %d times", op, k, s.destroyed);
      VP_CHECK(c, s.refs == expect, s.refs > expect ? "not-released" : "released-early", "after %s: node #%d has reference count %ld but %ld reference(s) name it", op, k, s.refs, expect);
      VP_CHECK(c, (s.destroyed == 1) == (expect == 0), expect ? "released-early" : "not-released", "after %s: node #%d: %ld reference(s) held, destroyed %d time(s)", op, k, expect, s.destroyed);
    }
  };
  auto alive = [&](int k) { return !table[node[k]].destroyed; };
  check("start");
  while (c.more()) {
    int i = (int)c.pick(H), k = (int)c.pick(N);
    switch (c.weighted({8, 8, 10, 5, 3, 3, 4, 3})) {
      case 0: {  // a handle takes a node (extra reference handed over)
        if (!alive(k) || !held[k]) break;
        node[k]->addref();
        c.logf("handle%d.set_instance(node #%d)  (held %s)", i, k, name(h[i].instance()).c_str());
        if (h[i].instance()) nontrivial = true;
        h[i].set_instance(node[k]);
        check("set_instance");
        break;
      }
      case 1: {  // link: a node's successor reference
        int j = (int)c.pick(N);
        if (!alive(k) || !alive(j) || !held[j] || j == k) break;
        // no cycles: j must not reach k
        bool cyc = false;
        for (Node *p = node[j]; p; p = p->next.instance()) if (p == node[k]) cyc = true;
        if (cyc) break;
        node[j]->addref();
        c.logf("node #%d.next.set_instance(node #%d)  (was %s)", k, j, name(node[k]->next.instance()).c_str());
        node[k]->next.set_instance(node[j]);
        check("link");
        break;
      }
      case 2: {  // advance: the source handle is a member of the object the target gives up
        Node *cur = h[i].instance();
        if (!cur) break;
        c.logf("handle%d = std::move(handle%d.instance()->next)  (%s -> %s)", i, i, name(cur).c_str(), name(cur->next.instance()).c_str());
        bool last = table[cur].refs == 1;
        h[i] = std::move(cur->next);
        nontrivial = true;
        c.label(last ? "chain:advance-from-last-owner" : "chain:advance");
        check("advance");
        break;
      }
      case 3: {  // move between handles, also onto itself
        int j = (int)c.pick(H);
        c.logf("handle%d = std::move(handle%d)  (%s <- %s)", i, j, name(h[i].instance()).c_str(), name(h[j].instance()).c_str());
        if (h[i].instance()) nontrivial = true;
        h[i] = std::move(h[j]);
        c.label(i == j ? "chain:self-move" : "chain:move");
        check("move assign");
        break;
      }
      case 4: {  // construction from an rvalue (reference<T> declares no move constructor: a copy)
        int j = (int)c.pick(H);
        c.logf("reference tmp(std::move(handle%d)); handle%d = tmp", j, i);
        {
          reference<Node> tmp(std::move(h[j]));
          h[i] = tmp;
        }
        check("construct from rvalue");
        break;
      }
      case 5: {  // copy assign
        int j = (int)c.pick(H);
        c.logf("handle%d = handle%d", i, j);
        h[i] = h[j];
        check("copy assign");
        break;
      }
      case 6: {  // release a handle
        c.logf("handle%d released (%s)", i, name(h[i].instance()).c_str());
        if (h[i].instance()) nontrivial = true;
        h[i].set_instance(0);
        check("release");
        break;
      }
      default: {  // the harness drops its own reference
        if (!held[k]) break;
        c.logf("harness drops its reference on node #%d", k);
        node[k]->unref();
        held[k] = 0;
        check("harness reference dropped");
        break;
      }
    }
  }
  for (int i = 0; i < H; i++) h[i].set_instance(0);
  for (int k = 0; k < N; k++) if (held[k]) { node[k]->unref(); held[k] = 0; }
  check("final release");
  delete[] h;
  if (nontrivial) c.nontrivial();
}

static void run(Ctx &c) {
  // slots 8 and 10 (second slots of the two cxxref kinds, used by no corpus file) now select the item_array and input reference kinds
  // slots 2 and 4 (second slots of buffer / metaref, used by no corpus file): variants with mpt_array_reserve re-typing
  // slots 6 and 12 (second slots of convert / meta, used by no corpus file): notifier kind, buffer variant with memory mapped buffers
  // slot 14 (second slot of reply, used by no corpus file): linked objects / reference<T> moves
  static const uint8_t map[16] = {0, 1, 12, 2, 11, 3, 13, 4, 9, 5, 10, 6, 14, 7, 15, 8};
  switch (map[c.u8() % 16]) {
    case 0: run_counter(c); break;
    case 1: run_buffer(c); break;
    case 2: run_metaref(c); break;
    case 3: run_convert(c); break;
    case 4: run_cxxref<SelfCounted, false>(c); break;
    case 5: run_cxxref<Counted, true>(c); break;
    case 6: run_meta(c); break;
    case 7: run_reply(c); break;
    case 9: run_itemappend(c); break;
    case 10: run_metaref(c, mpt_input_reference_traits(), "inputref"); break;
    case 11: c.flip() ? run_metaref(c, mpt_meta_reference_traits(), "metaref:retype", true) : run_metaref(c, mpt_input_reference_traits(), "inputref:retype", true); break;
    case 12: run_buffer(c, true); break;
    case 13: run_notify(c); break;
    case 14: run_buffer(c, false, true); break;
    case 15: run_chain(c); break;
    default: run_rawdata(c); break;
  }
}

static Target t = {
    "C15",
    "random: one object kind per case (raw counter preset to 0/1/2/MAX-2/MAX-1/MAX; shared buffers behind array handles, v-table addref/unref, array traits and detach; harness metatypes behind "
    "the reference traits in slots and typed buffers; replacing held references through mpt_value_convert(TypeMetaRef); C++ reference<T> copy/assign/move/detach/set_instance with a self counting T "
    "and with reference<T>::type counters preset to 1/MAX-1/MAX; geninfo and buffer metatypes clone/addref/unref; mpt_reply_deferrable with deferred contexts; mpt_rawdata_create) x histories of "
    "take/copy/assign/drop over <= 3 objects, with addref reporting failure on drawn calls. non-trivial: a held reference was replaced or dropped while other references existed, a counter "
    "boundary (0, maximum) was hit, or an object outlived one kind of holder; distinct by hash of the draw sequence.",
    run,
    {300, 900},
    false,
    true,
    {},
    0,
    0,
};
Target &vp::target() { return t; }
